(* C15, scanner half for bodies in which comments and tags mix: lexText and the two comment states on a stretch
   of template text T followed by a tag or by the end of the input (the remaining input is T ++ tl), related to
   the Spec's [pieces] of T and to [line_open] (Spec/TextBody.v: no "//" comment is open where a tag begins).
   These are the lemmas of Proofs/LexBodyText.v restated for T ++ tl. *)
From Soy Require Import Model.Bytes Model.Utf8 Model.Outcome Model.Token Generated.Tables Model.Lexer Spec.Text Spec.TextBody Spec.TextMix
  Proofs.Utf8Proofs Proofs.RawTextProofs Proofs.LexerPrim Proofs.LexerStates Proofs.LexTokens Proofs.LexBodyText Proofs.LexBodySeg.
From Coq Require Import ZifyBool ZifyNat ZifyN Lia.
Open Scope Z_scope.

(* ---------- Spec side: multi-byte runes, and [line_open] at a '/' ---------- *)
Lemma pieces_line_hi bs : Forall (fun x => (128 <= x)%N) bs -> forall s,
  pieces MLine false [] (bs ++ s) = pieces MLine false [] s.
Proof.
  induction bs as [|x bs IHb]; intros Hall s; [reflexivity|]. inversion Hall; subst. cbn [app pieces].
  assert (E : line_break x = false) by (unfold line_break; lia). rewrite E. apply IHb. assumption.
Qed.

Lemma open_line_hi bs : Forall (fun x => (128 <= x)%N) bs -> forall s,
  line_open MLine false (bs ++ s) = line_open MLine false s.
Proof.
  induction bs as [|x bs IHb]; intros Hall s; [reflexivity|]. inversion Hall; subst. cbn [app line_open].
  assert (E : line_break x = false) by (unfold line_break; lia). rewrite E. apply IHb. assumption.
Qed.

Lemma open_block_hi bs : Forall (fun x => (128 <= x)%N) bs -> bs <> [] -> forall star s,
  line_open (MBlock star) false (bs ++ s) = line_open (MBlock false) false s.
Proof.
  induction bs as [|x bs IHb]; intros Hall Hne star s; [congruence|].
  inversion Hall; subst. cbn [app line_open].
  assert (E1 : (x =? 42)%N = false) by lia. assert (E2 : (x =? 47)%N = false) by lia. rewrite E1, E2. cbn [andb].
  destruct bs as [|y bs]; [reflexivity|]. apply (IHb ltac:(assumption) ltac:(discriminate) false).
Qed.

Lemma open_text_hi bs : Forall (fun x => (128 <= x)%N) bs -> bs <> [] -> forall pw s,
  line_open MText pw (bs ++ s) = line_open MText false s.
Proof.
  induction bs as [|x bs IHb]; intros Hall Hne pw s; [congruence|].
  inversion Hall; subst. cbn [app line_open].
  assert (E1 : (x =? 47)%N = false) by lia. rewrite E1.
  assert (E2 : ws x = false) by (unfold ws; lia). rewrite E2.
  destruct bs as [|y bs]; [reflexivity|]. apply (IHb ltac:(assumption) ltac:(discriminate)).
Qed.

Lemma open_slash pw d s2 : line_open MText pw (47%N :: d :: s2) =
  if (d =? 42)%N then line_open (MBlock false) false s2
  else if (d =? 47)%N && pw then line_open MLine false s2
  else line_open MText false (d :: s2).
Proof. reflexivity. Qed.

Lemma open_other pw c s : (c =? 47)%N = false -> line_open MText pw (c :: s) = line_open MText (ws c) s.
Proof. intros E. cbn [line_open]. rewrite E. reflexivity. Qed.

Section Mix.
Variable inp : bstr.
Notation ilen := (Z.of_nat (length inp)).
Notation span := (span inp).
Notation next := (next inp ilen).

(* ---------- lexLineComment: the comment ends inside the stretch, or the input ends ---------- *)
Lemma line_comment_tl : forall n s, (length s <= n)%nat -> forall cw l fuel rest tl, span l cw (s ++ tl) -> (length (s ++ tl) < fuel)%nat ->
  tag_or_end tl -> (tl <> [] -> line_open MLine false s = false) ->
  pieces MLine false [] s = Some rest ->
  exists l' s'' v p, line_comment_loop inp ilen 0 fuel l = Ok (LText, l') /\ span l' [] (s'' ++ tl) /\ ((length s'' <= length s)%nat /\ suffix_of s'' s) /\
    l_out l' = {| t_typ := itemComment; t_pos := p; t_val := v |} :: l_out l /\ l_dd l' = l_dd l /\
    pieces MText (pwof 0 l') [] s'' = Some rest /\ (tl <> [] -> line_open MText (pwof 0 l') s'' = false).
Proof.
  induction n as [|n IH]; intros s Hn cw l fuel rest tl Hs Hf Htl Hlo Hpc; (destruct fuel as [|f]; [lia|]); cbn [line_comment_loop].
  - destruct s; [|cbn in Hn; lia]. cbn [app] in Hs. destruct Htl as [->|(tl' & ->)]; [|exfalso; specialize (Hlo ltac:(discriminate)); discriminate Hlo].
    destruct (span_eof_next inp l cw Hs) as (Hnx & _). rewrite Hnx. cbn [bind].
    change (gen_isEndOfLine eof || (eof =? eof)) with true. cbv iota.
    assert (Hs1 : span (ateof l) cw []).
    { destruct Hs as (H0 & Hd & Hp). unfold LexTokens.span, ateof. cbn [l_start l_pos]. auto. }
    destruct (emit_span inp 0 itemComment (ateof l) cw [] Hs1) as (He & Hs2). unfold emit_to. rewrite He. cbn [bind].
    eexists _, [], cw, _. split; [reflexivity|]. split; [exact Hs2|]. split; [split; [lia|apply suffix_refl]|]. split; [reflexivity|]. split; [reflexivity|].
    cbn [pieces] in Hpc. split; [exact Hpc|]. intros Hne. congruence.
  - destruct s as [|c s].
    { cbn [app] in Hs. destruct Htl as [->|(tl' & ->)]; [|exfalso; specialize (Hlo ltac:(discriminate)); discriminate Hlo].
      destruct (span_eof_next inp l cw Hs) as (Hnx & _). rewrite Hnx. cbn [bind].
      change (gen_isEndOfLine eof || (eof =? eof)) with true. cbv iota.
      assert (Hs1 : span (ateof l) cw []).
      { destruct Hs as (H0 & Hd & Hp). unfold LexTokens.span, ateof. cbn [l_start l_pos]. auto. }
      destruct (emit_span inp 0 itemComment (ateof l) cw [] Hs1) as (He & Hs2). unfold emit_to. rewrite He. cbn [bind].
      eexists _, [], cw, _. split; [reflexivity|]. split; [exact Hs2|]. split; [split; [lia|apply suffix_refl]|]. split; [reflexivity|]. split; [reflexivity|].
      cbn [pieces] in Hpc. split; [exact Hpc|]. intros Hne. congruence. }
    cbn [app] in Hs, Hf.
    destruct (next_any inp l cw c (s ++ tl) Hs) as (r & bs & s' & l1 & Hsplit & Hbl & Hnx & Hs1 & Ho & Hla & Hdd & Hst & Hwd & Hps & Hcls).
    rewrite Hnx. cbn [bind].
    destruct Hcls as [(Hc & -> & ->)|(Hc & Hall & Hr)].
    + cbn [app] in Hsplit. injection Hsplit as <-. rewrite eol_byte.
      assert (Hne : (Z.of_N c =? eof) = false) by (unfold eof; lia). rewrite Hne, Bool.orb_false_r.
      cbn [pieces] in Hpc. cbn [line_open] in Hlo. destruct (line_break c) eqn:Elb.
      * destruct (emit_span inp 0 itemComment l1 (cw ++ [c]) (s ++ tl) Hs1) as (He & Hs2). unfold emit_to. rewrite He. cbn [bind].
        assert (Hpw : pwof 0 (emitted 0 itemComment l1 (cw ++ [c])) = true).
        { unfold pwof, emitted. cbn [l_last mktok t_val]. destruct (cw ++ [c]) as [|q qs] eqn:Eq; [destruct cw; discriminate|].
          rewrite <- Eq. cbn [Z.eqb andb negb]. rewrite last_byte_snoc, spaceeol_byte.
          assert (Hw : ws c = true) by (unfold ws, line_break in *; lia). rewrite Hw, Bool.orb_true_r. reflexivity. }
        eexists _, s, (cw ++ [c]), _. split; [reflexivity|]. split; [exact Hs2|]. split; [split; [cbn; lia|apply suffix_cons, suffix_refl]|].
        split; [cbn [emitted l_out]; rewrite Ho; reflexivity|]. split; [cbn [emitted l_dd]; exact Hdd|].
        rewrite Hpw. split; [exact Hpc|exact Hlo].
      * destruct (IH s ltac:(cbn in Hn; lia) (cw ++ [c]) l1 f rest tl Hs1 ltac:(cbn [length] in Hf; lia) Htl Hlo Hpc)
          as (l' & s'' & v & p & Hrun & Hs'' & Hlen & Hout & Hdd' & Hpc' & Hlo').
        exists l', s'', v, p. split; [exact Hrun|]. split; [exact Hs''|]. split; [split; [cbn; lia|apply suffix_cons; tauto]|]. split; [rewrite Hout, Ho; reflexivity|].
        split; [congruence|]. split; assumption.
    + assert (Hne : (gen_isEndOfLine r || (r =? eof)) = false) by (unfold gen_isEndOfLine, eof; lia). rewrite Hne.
      destruct (prefix_in bs (c :: s) tl s' Hsplit Hall Htl) as (T' & ET & ->).
      assert (Hpc' : pieces MLine false [] T' = Some rest) by (rewrite ET, (pieces_line_hi bs Hall) in Hpc; exact Hpc).
      assert (Hlo' : tl <> [] -> line_open MLine false T' = false) by (intros Hq; specialize (Hlo Hq); rewrite ET, (open_line_hi bs Hall) in Hlo; exact Hlo).
      assert (Hlen : (length (c :: s) = length bs + length T')%nat) by (rewrite ET, app_length; reflexivity).
      assert (Hf' : (length (T' ++ tl) < f)%nat).
      { cbn [length] in Hf, Hlen. rewrite app_length in Hf. rewrite app_length. lia. }
      destruct (IH T' ltac:(cbn in Hn, Hlen; lia) (cw ++ bs) l1 f rest tl Hs1 Hf' Htl Hlo' Hpc')
        as (l' & s'' & v & p & Hrun & Hs'' & Hlen' & Hout & Hdd' & Hpc'' & Hlo'').
      exists l', s'', v, p. split; [exact Hrun|]. split; [exact Hs''|]. split; [split; [cbn in *; lia|rewrite ET; apply suffix_app; tauto]|]. split; [rewrite Hout, Ho; reflexivity|].
      split; [congruence|]. split; assumption.
Qed.

(* ---------- lexBlockComment: always closed inside the stretch ---------- *)
Lemma block_comment_tl : forall n s, (length s <= n)%nat -> forall cw l fuel star rest tl, span l cw (s ++ tl) -> (length (s ++ tl) < fuel)%nat ->
  tag_or_end tl -> (tl <> [] -> line_open (MBlock star) false s = false) ->
  pieces (MBlock star) false [] s = Some rest ->
  exists l' s'' v p, block_comment_loop inp ilen 0 fuel star l = Ok (LText, l') /\ span l' [] (s'' ++ tl) /\ ((length s'' <= length s)%nat /\ suffix_of s'' s) /\
    l_out l' = {| t_typ := itemComment; t_pos := p; t_val := v |} :: l_out l /\ l_dd l' = l_dd l /\
    pwof 0 l' = false /\ pieces MText false [] s'' = Some rest /\ (tl <> [] -> line_open MText false s'' = false).
Proof.
  induction n as [|n IH]; intros s Hn cw l fuel star rest tl Hs Hf Htl Hlo Hpc; (destruct fuel as [|f]; [lia|]); cbn [block_comment_loop].
  - destruct s; [|cbn in Hn; lia]. cbn [pieces] in Hpc. discriminate.
  - destruct s as [|c s]; [cbn [pieces] in Hpc; discriminate|]. cbn [app] in Hs, Hf.
    destruct (next_any inp l cw c (s ++ tl) Hs) as (r & bs & s' & l1 & Hsplit & Hbl & Hnx & Hs1 & Ho & Hla & Hdd & Hst & Hwd & Hps & Hcls).
    rewrite Hnx. cbn [bind].
    destruct Hcls as [(Hc & -> & ->)|(Hc & Hall & Hr)].
    + cbn [app] in Hsplit. injection Hsplit as <-.
      assert (Hne : (Z.of_N c =? eof) = false) by (unfold eof; lia). rewrite Hne.
      cbn [pieces] in Hpc. cbn [line_open] in Hlo. destruct (N.eqb_spec c 42) as [->|H42].
      { change (Z.of_N 42 =? 42) with true. cbv iota.
        destruct (IH s ltac:(cbn in Hn; lia) (cw ++ [42%N]) l1 f true rest tl Hs1 ltac:(cbn [length] in Hf; lia) Htl Hlo Hpc)
          as (l' & s'' & v & p & Hrun & Hs'' & Hlen & Hout & Hdd' & Hpw & Hpc' & Hlo').
        exists l', s'', v, p. split; [exact Hrun|]. split; [exact Hs''|]. split; [split; [cbn; lia|apply suffix_cons; tauto]|]. split; [rewrite Hout, Ho; reflexivity|].
        split; [congruence|]. repeat split; assumption. }
      assert (E42 : (Z.of_N c =? 42) = false) by lia. rewrite E42.
      destruct ((c =? 47)%N && star) eqn:Ecl.
      * assert (E47 : ((Z.of_N c =? 47) && star) = true) by lia. rewrite E47.
        apply Bool.andb_true_iff in Ecl. destruct Ecl as [Ec _]. apply N.eqb_eq in Ec. subst c.
        destruct (emit_span inp 0 itemComment l1 (cw ++ [47%N]) (s ++ tl) Hs1) as (He & Hs2). unfold emit_to. rewrite He. cbn [bind].
        eexists _, s, (cw ++ [47%N]), _. split; [reflexivity|]. split; [exact Hs2|]. split; [split; [cbn; lia|apply suffix_cons, suffix_refl]|].
        split; [cbn [emitted l_out]; rewrite Ho; reflexivity|]. split; [cbn [emitted l_dd]; exact Hdd|]. split; [|split; [exact Hpc|exact Hlo]].
        unfold pwof, emitted. cbn [l_last mktok t_val]. destruct (cw ++ [47%N]) as [|q qs] eqn:Eq; [destruct cw; discriminate|].
        rewrite <- Eq. cbn [Z.eqb andb negb]. rewrite last_byte_snoc. reflexivity.
      * assert (E47 : ((Z.of_N c =? 47) && star) = false) by lia. rewrite E47.
        destruct (IH s ltac:(cbn in Hn; lia) (cw ++ [c]) l1 f false rest tl Hs1 ltac:(cbn [length] in Hf; lia) Htl Hlo Hpc)
          as (l' & s'' & v & p & Hrun & Hs'' & Hlen & Hout & Hdd' & Hpw & Hpc' & Hlo').
        exists l', s'', v, p. split; [exact Hrun|]. split; [exact Hs''|]. split; [split; [cbn; lia|apply suffix_cons; tauto]|]. split; [rewrite Hout, Ho; reflexivity|].
        split; [congruence|]. repeat split; assumption.
    + assert (E1 : (r =? eof) = false) by (unfold eof; lia). assert (E2 : (r =? 42) = false) by lia.
      assert (E3 : ((r =? 47) && star) = false) by lia. rewrite E1, E2, E3.
      destruct (prefix_in bs (c :: s) tl s' Hsplit Hall Htl) as (T' & ET & ->).
      assert (Hnb : bs <> []) by (destruct bs; [cbn in Hbl; lia|discriminate]).
      assert (Hpc' : pieces (MBlock false) false [] T' = Some rest).
      { rewrite ET in Hpc. apply (pieces_block_hi bs Hall Hnb star T' rest Hpc). }
      assert (Hlo' : tl <> [] -> line_open (MBlock false) false T' = false).
      { intros Hq. specialize (Hlo Hq). rewrite ET, (open_block_hi bs Hall Hnb) in Hlo. exact Hlo. }
      assert (Hlen : (length (c :: s) = length bs + length T')%nat) by (rewrite ET, app_length; reflexivity).
      assert (Hf' : (length (T' ++ tl) < f)%nat).
      { cbn [length] in Hf, Hlen. rewrite app_length in Hf. rewrite app_length. lia. }
      destruct (IH T' ltac:(cbn in Hn, Hlen; lia) (cw ++ bs) l1 f false rest tl Hs1 Hf' Htl Hlo' Hpc')
        as (l' & s'' & v & p & Hrun & Hs'' & Hlen' & Hout & Hdd' & Hpw & Hpc'' & Hlo'').
      exists l', s'', v, p. split; [exact Hrun|]. split; [exact Hs''|]. split; [split; [cbn in *; lia|rewrite ET; apply suffix_app; tauto]|]. split; [rewrite Hout, Ho; reflexivity|].
      split; [congruence|]. repeat split; assumption.
Qed.


(* ---------- lexText ---------- *)
(* the result of one scan of lexText over T ++ tl, in the Spec's terms: [pcs] are the pieces of T from here on *)
Definition mix_result (l : lx) (s tl : bstr) (pcs : list bstr) (st' : lstate) (l' : lx) : Prop :=
  exists x rest, pcs = x :: rest /\
   ((rest = [] /\ plain_result inp l x tl st' l')
    \/ (exists txt x' s2, l_dd l' = l_dd l /\ st' = LLineComment /\ is_text_of x' txt /\ l_out l' = rev txt ++ l_out l /\
          (x = x' \/ exists b, ws b = true /\ x = x' ++ [b]) /\ span l' [47%N; 47%N] (s2 ++ tl) /\ ((length s2 < length s)%nat /\ suffix_of s2 s) /\
          pieces MLine false [] s2 = Some rest /\ (tl <> [] -> line_open MLine false s2 = false))
    \/ (exists txt s2, l_dd l' = l_dd l /\ st' = LBlockComment /\ is_text_of x txt /\ l_out l' = rev txt ++ l_out l /\
          span l' [47%N; 42%N] (s2 ++ tl) /\ ((length s2 < length s)%nat /\ suffix_of s2 s) /\ pieces (MBlock false) false [] s2 = Some rest /\
          (tl <> [] -> line_open (MBlock false) false s2 = false))).

Lemma mix_result_weaken l1 l s1 s tl pcs st' l' :
  l_out l1 = l_out l -> l_last l1 = l_last l -> l_dd l1 = l_dd l -> (length s1 <= length s)%nat -> suffix_of s1 s ->
  mix_result l1 s1 tl pcs st' l' -> mix_result l s tl pcs st' l'.
Proof.
  intros Ho Hla Hd Hl Hsf (x & rest & Hp & H). exists x, rest. split; [exact Hp|].
  destruct H as [(A & B)|[(txt & x' & s2 & Hdd & A & B & C & D & E & (F1 & F2) & G & K)|(txt & s2 & Hdd & A & B & C & D & (F1 & F2) & G & K)]].
  - left. split; [exact A|]. apply (plain_result_weaken inp l1 l); assumption.
  - right. left. exists txt, x', s2. split; [congruence|]. split; [exact A|]. split; [exact B|]. split; [rewrite C, Ho; reflexivity|]. split; [exact D|].
    split; [exact E|]. split; [split; [lia|eapply suffix_trans; eassumption]|]. split; assumption.
  - right. right. exists txt, s2. split; [congruence|]. split; [exact A|]. split; [exact B|]. split; [rewrite C, Ho; reflexivity|].
    split; [exact D|]. split; [split; [lia|eapply suffix_trans; eassumption]|]. split; assumption.
Qed.

(* after a '/': either it is ordinary text (the scan goes on), or a comment starts *)
Lemma slash_step_tl l l1 w T1 tl r0 pcs :
  span l1 (w ++ [47%N]) (T1 ++ tl) -> l_out l1 = l_out l -> l_last l1 = l_last l -> l_dd l1 = l_dd l -> tag_or_end tl ->
  (r0 = 0 -> w = []) -> (r0 <> 0 -> exists w' b, w = w' ++ [b] /\ (gen_isSpaceEOL r0 = true -> ws b = true)) ->
  pieces MText (pwof r0 l) (rev w) (47%N :: T1) = Some pcs ->
  (tl <> [] -> line_open MText (pwof r0 l) (47%N :: T1) = false) ->
  (exists lb, slash_inner inp r0 l1 = Ok (inr lb) /\ span lb (w ++ [47%N]) (T1 ++ tl) /\ l_out lb = l_out l /\ l_last lb = l_last l /\ l_dd lb = l_dd l /\
              pieces MText false (47%N :: rev w) T1 = Some pcs /\ (tl <> [] -> line_open MText false T1 = false))
  \/ (exists st' l', slash_inner inp r0 l1 = Ok (inl (st', l')) /\ mix_result l (47%N :: T1) tl pcs st' l').
Proof.
  intros Hs1 Ho1 Hla1 Hdd1 Htl Hr0 Hr1 Hpc Hlo.
  destruct T1 as [|d T2].
  { (* '/' is the last byte of the stretch *)
    left. destruct (slash_plain inp l l1 w [] tl r0 Hs1 Ho1 Hla1 Hdd1 Htl I) as (lb & Hin & Hsb & A & B & C).
    exists lb. split; [exact Hin|]. split; [exact Hsb|]. split; [exact A|]. split; [exact B|]. split; [exact C|].
    split; [exact Hpc|]. intros _. reflexivity. }
  unfold slash_inner. cbn [app] in Hs1.
  destruct (next_any inp l1 _ d (T2 ++ tl) Hs1) as (r2 & bs2 & s2' & l2 & Hsplit & Hbl & Hnx & Hs2 & Ho2 & Hla2 & Hdd2 & Hst2 & Hwd2 & Hps2 & Hcls).
  rewrite Hnx. cbn [bind].
  assert (Hcont : (d =? 47)%N = false \/ pwof r0 l = false -> (d =? 42)%N = false ->
                  pieces MText false (47%N :: rev w) (d :: T2) = Some pcs /\ (tl <> [] -> line_open MText false (d :: T2) = false)).
  { intros H47 H42. rewrite pieces_slash, H42 in Hpc. rewrite open_slash, H42 in Hlo.
    destruct H47 as [H47|H47]; [rewrite H47 in Hpc, Hlo|rewrite H47, Bool.andb_false_r in Hpc, Hlo]; split; assumption. }
  assert (Hback : span (backup l2) (w ++ [47%N]) (d :: T2 ++ tl)).
  { rewrite Hsplit. apply span_backup_any; assumption. }
  assert (Hfld : l_out (backup l2) = l_out l /\ l_last (backup l2) = l_last l /\ l_dd (backup l2) = l_dd l).
  { unfold backup, set_pos. cbn [l_out l_last l_dd]. repeat split; congruence. }
  destruct Hcls as [(Hd & -> & ->)|(Hd & Hall & Hr2)].
  2:{ (* a non-ASCII rune after '/': text *)
    assert (E1 : (r2 =? 47) = false) by lia. assert (E2 : (r2 =? 42) = false) by lia. rewrite E1, E2.
    left. exists (backup l2). split; [reflexivity|]. split; [exact Hback|]. destruct Hfld as (A & B & C).
    split; [exact A|]. split; [exact B|]. split; [exact C|]. apply Hcont; [left|]; lia. }
  cbn [app] in Hsplit. injection Hsplit as <-.
  destruct (N.eqb_spec d 47) as [->|H47].
  { (* "//" *)
    change (Z.of_N 47 =? 47) with true. cbv iota.
    rewrite (pwof_last r0 l l2) by congruence.
    destruct (pwof r0 l) eqn:Epw.
    2:{ left. exists (backup l2). split; [reflexivity|]. split; [exact Hback|]. destruct Hfld as (A & B & C).
        split; [exact A|]. split; [exact B|]. split; [exact C|]. apply Hcont; [right; reflexivity|reflexivity]. }
    right. rewrite pieces_slash in Hpc. change (47 =? 47)%N with true in Hpc. change (47 =? 42)%N with false in Hpc. cbv iota in Hpc.
    rewrite open_slash in Hlo. change (47 =? 47)%N with true in Hlo. change (47 =? 42)%N with false in Hlo. cbv iota in Hlo.
    try rewrite Epw in Hpc. try rewrite Epw in Hlo. cbn [andb] in Hpc, Hlo. rewrite rev_involutive in Hpc.
    destruct (pieces MLine false [] T2) as [rest|] eqn:Erest; [|discriminate]. cbn [cons_opt] in Hpc. injection Hpc as <-.
    destruct (Z.eq_dec r0 0) as [Hz|Hnz].
    - (* at the very start of this lexText: nothing pending *)
      specialize (Hr0 Hz). subst w r0. cbn [app] in *.
      assert (Hm : maybe_emit_text inp ilen 0 l2 3 = Ok l2).
      { unfold maybe_emit_text. destruct Hs2 as (_ & _ & Hp). cbn [length] in Hp.
        destruct (l_start l2 <? l_pos l2 - 3) eqn:E; [exfalso; lia|reflexivity]. }
      rewrite Hm. cbn [bind]. change (negb (0 =? 0)) with false. cbv iota.
      eexists _, _. split; [reflexivity|]. exists [], rest. split; [reflexivity|].
      right. left. exists [], [], T2. split; [congruence|]. split; [reflexivity|]. split; [reflexivity|]. split; [cbn [rev app]; congruence|].
      split; [left; reflexivity|]. split; [exact Hs2|]. split; [split; [cbn; lia|do 2 apply suffix_cons; apply suffix_refl]|]. split; [exact Erest|exact Hlo].
    - destruct (Hr1 Hnz) as (w' & b & -> & Hb).
      assert (Hwsb : ws b = true) by (apply Hb; rewrite (pwof_nz r0 l Hnz) in Epw; exact Epw).
      assert (Hs2' : span l2 (w' ++ [b; 47%N; 47%N]) (T2 ++ tl)) by (rewrite <- !app_assoc in Hs2; exact Hs2).
      destruct (met_span inp l2 w' [b; 47%N; 47%N] (T2 ++ tl) Hs2') as (l3 & txt & Hm & Hs3 & Htx & Ho3 & Hdd3 & _).
      change (Z.of_nat (length [b; 47%N; 47%N])) with 3 in Hm. rewrite Hm. cbn [bind].
      assert (En : negb (r0 =? 0) = true) by lia. rewrite En. cbv iota.
      eexists _, _. split; [reflexivity|]. exists (w' ++ [b]), rest. split; [reflexivity|].
      right. left. exists txt, w', T2. split; [unfold set_start; cbn [l_dd]; congruence|]. split; [reflexivity|]. split; [exact Htx|].
      split; [unfold set_start; cbn [l_out]; rewrite Ho3; congruence|].
      split; [right; exists b; auto|]. split; [apply (span_skip1 inp l3 b _ (T2 ++ tl) Hs3)|].
      split; [split; [cbn; lia|do 2 apply suffix_cons; apply suffix_refl]|]. split; [exact Erest|exact Hlo]. }
  assert (E47 : (Z.of_N d =? 47) = false) by lia. rewrite E47.
  destruct (N.eqb_spec d 42) as [->|H42].
  2:{ assert (E42 : (Z.of_N d =? 42) = false) by lia. rewrite E42.
      left. exists (backup l2). split; [reflexivity|]. split; [exact Hback|]. destruct Hfld as (A & B & C).
      split; [exact A|]. split; [exact B|]. split; [exact C|]. apply Hcont; [left|]; lia. }
  (* "/*" *)
  change (Z.of_N 42 =? 42) with true. cbv iota. right.
  rewrite pieces_slash in Hpc. change (42 =? 42)%N with true in Hpc. cbv iota in Hpc.
  rewrite open_slash in Hlo. change (42 =? 42)%N with true in Hlo. cbv iota in Hlo.
  destruct T2 as [|e T3]; [discriminate|].
  destruct ((e =? 42)%N && negb (match T3 with f :: _ => (f =? 47)%N | [] => false end)) eqn:Edoc; [discriminate|].
  rewrite rev_involutive in Hpc.
  destruct (pieces (MBlock false) false [] (e :: T3)) as [rest|] eqn:Erest; [|discriminate]. cbn [cons_opt] in Hpc. injection Hpc as <-.
  cbn [app] in Hs2.
  assert (Hs2' : span l2 (w ++ [47%N; 42%N]) (e :: T3 ++ tl)) by (rewrite <- app_assoc in Hs2; exact Hs2).
  destruct (met_span inp l2 w [47%N; 42%N] (e :: T3 ++ tl) Hs2') as (l3 & txt & Hm & Hs3 & Htx & Ho3 & Hdd3 & _).
  change (Z.of_nat (length [47%N; 42%N])) with 2 in Hm. rewrite Hm. cbn [bind].
  destruct (next_any inp l3 _ e (T3 ++ tl) Hs3) as (r3 & bs3 & s3' & l4 & Hsplit3 & Hbl3 & Hnx3 & Hs4 & Ho4 & Hla4 & Hdd4 & Hst4 & Hwd4 & Hps4 & Hcls3).
  rewrite Hnx3. cbn [bind].
  assert (Hback4 : span (backup l4) [47%N; 42%N] (e :: T3 ++ tl)) by (rewrite Hsplit3; apply span_backup_any; assumption).
  assert (Hfin : forall l5, span l5 [47%N; 42%N] ((e :: T3) ++ tl) -> l_out l5 = l_out l3 -> l_dd l5 = l_dd l3 ->
                 mix_result l (47%N :: 42%N :: e :: T3) tl (w :: rest) LBlockComment l5).
  { intros l5 Hs5 Ho5 Hdd5. exists w, rest. split; [reflexivity|]. right. right.
    exists txt, (e :: T3). split; [congruence|]. split; [reflexivity|]. split; [exact Htx|]. split; [rewrite Ho5, Ho3; congruence|].
    split; [exact Hs5|]. split; [split; [cbn; lia|do 2 apply suffix_cons; apply suffix_refl]|]. split; [exact Erest|exact Hlo]. }
  destruct (r3 =? 42) eqn:E3.
  2:{ cbn [bind]. eexists _, _. split; [reflexivity|]. apply Hfin; [exact Hback4| |]; unfold backup, set_pos; cbn [l_out l_dd]; congruence. }
  (* "/**": only "/**/" is a comment *)
  destruct Hcls3 as [(He & -> & ->)|(He & _ & Hr3)]; [|lia].
  cbn [app] in Hsplit3. injection Hsplit3 as <-. assert (e = 42%N) by lia. subst e.
  cbn [andb] in Edoc. destruct T3 as [|f T4]; [discriminate|]. destruct (N.eqb_spec f 47) as [->|Hf]; [|discriminate].
  cbn [app] in Hs4.
  destruct (next_ascii inp l4 _ 47%N (T4 ++ tl) Hs4 ltac:(lia)) as (Hnx5 & Hs5). unfold peek. rewrite Hnx5. cbn [bind].
  change (negb (Z.of_N 47 =? 47)) with false. cbv iota.
  eexists _, _. split; [reflexivity|]. apply Hfin.
  - destruct Hs4 as (H0 & Hd4 & Hp4). unfold LexTokens.span, backup, adv, set_pos. cbn [l_start l_pos l_width].
    split; [exact H0|]. split; [rewrite Hd4; reflexivity|]. try rewrite app_length in Hp4. cbn [length] in *. lia.
  - unfold backup, adv, set_pos. cbn [l_out]. exact Ho4.
  - unfold backup, adv, set_pos. cbn [l_dd]. exact Hdd4.
Qed.

Lemma text_loop_tl : forall n T, (length T <= n)%nat -> forall w l r0 fuel pcs tl,
  span l w (T ++ tl) -> (length (T ++ tl) < fuel)%nat -> plain T -> tag_or_end tl ->
  (r0 = 0 -> w = []) -> (r0 <> 0 -> exists w' b, w = w' ++ [b] /\ (gen_isSpaceEOL r0 = true -> ws b = true)) ->
  pieces MText (pwof r0 l) (rev w) T = Some pcs -> (tl <> [] -> line_open MText (pwof r0 l) T = false) ->
  exists st' l', lex_text_loop inp ilen 0 fuel r0 l = Ok (st', l') /\ mix_result l T tl pcs st' l'.
Proof.
  induction n as [|n IH]; intros T Hn w l r0 fuel pcs tl Hs Hf Hpl Htl Hr0 Hr1 Hpc Hlo; (destruct fuel as [|f]; [lia|]).
  - destruct T; [|cbn in Hn; lia]. cbn [pieces] in Hpc. rewrite rev_involutive in Hpc. injection Hpc as <-. cbn [app] in *.
    destruct (text_plain_end inp w l r0 f tl Hs Htl) as (st' & l' & H1 & H2). exists st', l'. split; [exact H1|].
    exists w, []. split; [reflexivity|]. left. split; [reflexivity|exact H2].
  - destruct T as [|c T1].
    { cbn [pieces] in Hpc. rewrite rev_involutive in Hpc. injection Hpc as <-. cbn [app] in *.
      destruct (text_plain_end inp w l r0 f tl Hs Htl) as (st' & l' & H1 & H2). exists st', l'. split; [exact H1|].
      exists w, []. split; [reflexivity|]. left. split; [reflexivity|exact H2]. }
    inversion Hpl as [|c' s' (Hc0 & Hc1 & Hc2) Hpl1]; subst. cbn [app] in Hs, Hf.
    rewrite lex_text_loop_S.
    destruct (next_any inp l w c (T1 ++ tl) Hs) as (r & bs & s' & l1 & Hsplit & Hbl & Hnx & Hs1 & Ho & Hla & Hdd & Hst & Hwd & Hps & Hcls).
    rewrite Hnx. cbn [bind].
    destruct Hcls as [(Hc & -> & ->)|(Hc & Hall & Hr)].
    + cbn [app] in Hsplit. injection Hsplit as <-.
      destruct (N.eqb_spec c 47) as [->|H47].
      * change (Z.of_N 47 =? 47) with true. cbv iota.
        destruct (slash_step_tl l l1 w T1 tl r0 pcs Hs1 Ho Hla Hdd Htl Hr0 Hr1 Hpc Hlo)
          as [(lb & Hin & Hsb & Hob & Hlab & Hddb & Hpcb & Hlob)|(st' & l' & Hin & Hres)].
        -- rewrite Hin. cbn [bind]. change (Z.of_N 47 =? 123) with false. change (Z.of_N 47 =? 125) with false.
           change (Z.of_N 47 =? eof) with false. cbv iota.
           destruct (IH T1 ltac:(cbn in Hn; lia) (w ++ [47%N]) lb (Z.of_N 47) f pcs tl Hsb ltac:(cbn [length] in Hf; lia) Hpl1 Htl)
             as (st' & l' & Hrun & Hres).
           { intros E. discriminate E. }
           { intros _. exists w, 47%N. split; [reflexivity|]. intros E. discriminate E. }
           { rewrite (pwof_nz _ lb) by discriminate. rewrite rev_unit. exact Hpcb. }
           { rewrite (pwof_nz _ lb) by discriminate. exact Hlob. }
           exists st', l'. split; [exact Hrun|].
           apply (mix_result_weaken lb l T1 (47%N :: T1)); [exact Hob|exact Hlab|exact Hddb|cbn; lia|apply suffix_cons, suffix_refl|exact Hres].
        -- rewrite Hin. cbn [bind]. exists st', l'. split; [reflexivity|exact Hres].
      * assert (E47 : (Z.of_N c =? 47) = false) by lia. rewrite E47. cbn [bind].
        assert (E1 : (Z.of_N c =? 123) = false) by lia. assert (E2 : (Z.of_N c =? 125) = false) by lia.
        assert (E3 : (Z.of_N c =? eof) = false) by (unfold eof; lia). rewrite E1, E2, E3.
        assert (Ec : (c =? 47)%N = false) by lia.
        destruct (IH T1 ltac:(cbn in Hn; lia) (w ++ [c]) l1 (Z.of_N c) f pcs tl Hs1 ltac:(cbn [length] in Hf; lia) Hpl1 Htl)
          as (st' & l' & Hrun & Hres).
        { intros E. lia. }
        { intros _. exists w, c. split; [reflexivity|]. rewrite spaceeol_byte. auto. }
        { rewrite (pwof_nz _ l1) by lia. rewrite spaceeol_byte, rev_unit.
          cbn [pieces] in Hpc. rewrite Ec in Hpc. exact Hpc. }
        { intros Hq. specialize (Hlo Hq). rewrite (pwof_nz _ l1) by lia. rewrite spaceeol_byte. rewrite (open_other _ _ _ Ec) in Hlo. exact Hlo. }
        exists st', l'. split; [exact Hrun|].
        apply (mix_result_weaken l1 l T1 (c :: T1)); [exact Ho|exact Hla|exact Hdd|cbn; lia|apply suffix_cons, suffix_refl|exact Hres].
    + assert (E47 : (r =? 47) = false) by lia. rewrite E47. cbn [bind].
      assert (E1 : (r =? 123) = false) by lia. assert (E2 : (r =? 125) = false) by lia.
      assert (E3 : (r =? eof) = false) by (unfold eof; lia). rewrite E1, E2, E3.
      assert (Hne : bs <> []) by (destruct bs; [cbn in Hbl; lia|discriminate]).
      destruct (prefix_in bs (c :: T1) tl s' Hsplit Hall Htl) as (T' & ET & ->).
      assert (Hlen : (length (c :: T1) = length bs + length T')%nat) by (rewrite ET, app_length; reflexivity).
      assert (Hpl' : plain T') by (unfold plain in *; rewrite ET in Hpl; apply Forall_app in Hpl; tauto).
      assert (Hf' : (length (T' ++ tl) < f)%nat).
      { cbn [length] in Hf, Hlen. rewrite app_length in Hf. rewrite app_length. lia. }
      assert (Esp : gen_isSpaceEOL r = false) by (unfold gen_isSpaceEOL, gen_isSpace, gen_isEndOfLine; lia).
      destruct (IH T' ltac:(cbn in Hn, Hlen; lia) (w ++ bs) l1 r f pcs tl Hs1 Hf' Hpl' Htl) as (st' & l' & Hrun & Hres).
      { intros E. lia. }
      { intros _. destruct (exists_last Hne) as (bs' & b & ->). exists (w ++ bs'), b. split; [rewrite app_assoc; reflexivity|].
        intros E. congruence. }
      { rewrite (pwof_nz _ l1) by lia. rewrite Esp, rev_app_distr. rewrite ET, (pieces_text_hi bs Hall Hne) in Hpc. exact Hpc. }
      { intros Hq. specialize (Hlo Hq). rewrite (pwof_nz _ l1) by lia. rewrite Esp. rewrite ET, (open_text_hi bs Hall Hne) in Hlo. exact Hlo. }
      exists st', l'. split; [exact Hrun|].
      apply (mix_result_weaken l1 l T' (c :: T1)); [exact Ho|exact Hla|exact Hdd|lia|rewrite ET; apply suffix_app, suffix_refl|exact Hres].
Qed.

End Mix.
