(* Source tie, family 74-gotrans-data (data/value.go): List.Index and Map.Key of the hand
   model (Model/Values.v) against the methods as gotrans translates them from today's source.
   (Truthy and Equals are tied by tablegen's values.go and Proofs/ValueTieProofs.v.)

   gotrans translates data.Value as an abstract type V; what a function does with a value
   enters as parameters: v_kind (the dynamic type, coded 0 Undefined 1 Null 2 Bool 3 Int
   4 Float 5 String 6 List 7 Map -- the order of tablegen's valueKinds), the constructors it
   uses (v_undefined, v_of_bool, ...) and the payload projections of one-valued type
   assertions (v_as_list, ...).  Here they are instantiated with Model/Values.v's [value]. *)
From Coq Require Import ZArith NArith Bool Lia ZifyBool ZifyN List.
From Soy Require Import Model.Bytes Model.Num Model.Outcome Model.Values Generated.Tables Proofs.SourceTieBase.
Import ListNotations.
Open Scope N_scope.

Definition vkind (v : value) : Z :=
  match v with
  | VUndef => 0 | VNull => 1 | VBool _ => 2 | VInt _ => 3 | VFloat _ => 4 | VStr _ => 5 | VList _ _ => 6 | VMap _ _ => 7
  end%Z.
Definition v_as_list (v : value) : option (list value) := match v with VList _ l => Some l | _ => None end.

(* func (v List) Index(i int) Value *)
Theorem list_index_matches_source (l : list value) (i : Z) :
  src_data_List_Index value VUndef l i = Some (list_index l i).
Proof.
  unfold src_data_List_Index, list_index.
  destruct (negb (andb (Z.leb 0 i) (Z.ltb i (go_len l)))) eqn:E.
  - replace ((i <? 0)%Z || (Z.of_nat (length l) <=? i)%Z) with true by (unfold go_len in E; lia). reflexivity.
  - replace ((i <? 0)%Z || (Z.of_nat (length l) <=? i)%Z) with false by (unfold go_len in E; lia).
    rewrite go_index_in by (unfold go_len in *; lia).
    destruct (nth_error l (Z.to_nat i)) eqn:E2; [reflexivity|].
    apply nth_error_None in E2. unfold go_len in E. lia.
Qed.

(* func (v Map) Key(k string) Value *)
Theorem map_key_matches_source (m : list (bstr * value)) (k : bstr) :
  src_data_Map_Key value VUndef m k = map_key m k.
Proof. reflexivity. Qed.

(* the String methods of the scalar kinds, as Model/Values.v's to_string prints them
   (Undefined.String panics: [Err]; Float.String is strconv.FormatFloat, modelled in Model/Num.v;
   List.String and Map.String are loops, tied by the correspondence only) *)
Theorem scalar_string_matches_source (f : nat) (v : value) :
  match v with
  | VUndef => to_string (S f) v = match src_data_Undefined_String with Some s => Ok s | None => Err e_undef_string end
  | VNull => to_string (S f) v = Ok src_data_Null_String
  | VBool x => to_string (S f) v = Ok (src_data_Bool_String x)
  | VInt z => to_string (S f) v = Ok (src_data_Int_String z)
  | VStr s => to_string (S f) v = Ok (src_data_String_String s)
  | _ => True
  end.
Proof. destruct v as [| |x|z|x|s|i l|i m]; try exact I; try reflexivity. destruct x; reflexivity. Qed.
