(* Source tie, family 74-gotrans-data (data/value.go): List.Index and Map.Key of the hand
   model (Model/Values.v) against the methods as gotrans translates them from today's source.
   (Truthy and Equals are tied by tablegen's values.go and Proofs/ValueTieProofs.v.)
 *)
From Coq Require Import ZArith NArith Bool Lia ZifyBool ZifyN List.
From Soy Require Import Model.Bytes Model.Num Model.Outcome Model.Values Generated.Tables Proofs.SourceTieBase Proofs.SourceTieValue.
Import ListNotations.
Open Scope N_scope.

(* func (v List) Index(i int) Value *)
Theorem list_index_matches_source (l : list value) (i : Z) :
  src_data_List_Index value VUndef l i = Some (list_index l i).
Proof.
  unfold src_data_List_Index, list_index. cbv zeta.
  pose proof (go_len_nonneg l) as Hl. change (Z.of_nat (length l)) with (go_len l).
  destruct (Z_lt_dec i 0) as [Hi|Hi]; [st_decide_ifs; reflexivity|].
  destruct (Z_le_dec (go_len l) i) as [Hj|Hj]; [st_decide_ifs; reflexivity|].
  st_decide_ifs. rewrite go_index_in by lia. cbv zeta.
  destruct (nth_error l (Z.to_nat i)) eqn:E2; [reflexivity|].
  apply nth_error_None in E2. unfold go_len in Hj. lia.
Qed.

(* func (v Map) Key(k string) Value *)
Theorem map_key_matches_source (m : list (bstr * value)) (k : bstr) :
  src_data_Map_Key value VUndef m k = map_key m k.
Proof. reflexivity. Qed.

(* the String methods of the scalar kinds, as Model/Values.v's to_string prints them
   (Undefined.String panics: [Err]; Float.String is strconv.FormatFloat, modelled in Model/Num.v;
   List.String and Map.String are loops, tied by the correspondence only) *)
Theorem scalar_string_matches_source (f : nat) (v : value) :
  match v with
  | VUndef => to_string (S f) v = match src_data_Undefined_String with Some s => Ok s | None => Err e_undef_string end
  | VNull => to_string (S f) v = Ok src_data_Null_String
  | VBool x => to_string (S f) v = Ok (src_data_Bool_String x)
  | VInt z => to_string (S f) v = Ok (src_data_Int_String z)
  | VStr s => to_string (S f) v = Ok (src_data_String_String s)
  | _ => True
  end.
Proof. destruct v as [| |x|z|x|s|i l|i m]; try exact I; try reflexivity. destruct x; reflexivity. Qed.
