(* C11: a PO plural with any number of forms (ja 1, en 2, ru 3, ...), for every plural selector:
   rendering selects msgstr[plural_index n] and places that form's text and placeholders where the
   translation of THAT form puts them -- plural_selects and plural_form_places_values in one statement. *)
From Coq Require Import List Lia.
From Soy Require Import Model.Bytes Model.Outcome Model.Num Model.Values Model.Ast Model.MsgId
  Model.Escape Model.Interp Model.MsgParts Spec.MsgCat Proofs.MsgPartsProofs.
Import ListNotations.
Open Scope N_scope.

Theorem plural_places_values (plural_index : Z -> nat) (bd : bundle) (w : node -> M value)
    mp id p vn pv pc cv cb dflt (trs : list (list titem)) st :
  vn <> [] \/ length trs <> 1%nat ->
  bundle_message bd id = Some (new_message vn (map msgstr_of trs)) ->
  forallb flat_node cb = true -> forallb flat_node dflt = true ->
  Forall (fun tr => items_named (dflt ++ cb) tr /\ parts_clean (map item_part tr)) trs ->
  eval_msg plural_index bd w mp id [NMsgPlural p vn pv [NMsgPluralCase pc cv cb] dflt] st =
  (v <-- eval w pv ;;;
   match v with
   | VInt i => match nth_error trs (plural_index i) with
               | Some tr => run_items w (map (resolve (dflt ++ cb)) tr)
               | None => fail e_plural_index
               end
   | _ => fail e_plural
   end) st.
Proof.
  intros Hv Hb Hc Hd Htrs.
  rewrite (plural_selects plural_index bd w mp id p vn pv [NMsgPluralCase pc cv cb] dflt (map msgstr_of trs) st);
    [|rewrite map_length; exact Hv|exact Hb].
  unfold mbind. destruct (eval w pv st) as [[v| | | | |] st']; try reflexivity.
  destruct v as [| |x|i|f|s|lid l|mid m]; try reflexivity.
  destruct (nth_error trs (plural_index i)) as [tr|] eqn:Ek.
  - assert (Hin : In tr trs) by (eapply nth_error_In; exact Ek).
    rewrite Forall_forall in Htrs. destruct (Htrs tr Hin) as [Hnamed Hclean].
    rewrite (plural_form_places_values w p vn pv pc cv cb dflt (map msgstr_of trs) (plural_index i) tr Hc Hd Hnamed);
      [reflexivity| |exact Hclean].
    apply map_nth_error. exact Ek.
  - unfold eval_form. rewrite nth_error_map, Ek. reflexivity.
Qed.
