(* C03 at the interpreter level: the autoescape mode of the tree walker.

   (i)   [walk_mode_preserved]: walking a node that contains no NTemplate leaves
         [mode] as it found it, on every outcome -- in particular a {call} puts
         the caller's mode back whatever the callee's namespace and template
         say and however the callee ends (guarded unary principle,
         Proofs/InterpGuard.v).
   (ii)  [walk_mon]: the walker instrumented with a monitor.  It carries the
         effective mode [mu] of the template whose body is being walked (on an
         NTemplate node: [template_mode] of the mode the template was entered
         with -- [entry_mode ns] from [render], [call_mode ns] from
         [call_enter] -- and the template's own attribute) and ABORTS with
         [Crash e_mode] when a print command is reached in a state whose mode is
         not [mu].  [walk_mon_is_walk]: on a well-formed registry the
         instrumented walker returns exactly what the walker returns, for
         every template, fuel and state, at any call depth: the monitor never
         changes a run (relational principle, Proofs/InterpRel.v).
         [print_at_mode]: a print command reached in a state of mode [mu]
         performs [print_writes mu].
   (iii) [print_writes_decision], [autoescaped_print_escaped]: what a print
         writes, in terms of the escaping decision; when the decision is to
         escape, exactly the Write calls of the escaper, whose concatenation is
         [html_escape] of the value after the directives. *)
From Soy Require Import Model.Bytes Model.Num Model.Values Model.Outcome Model.Ast
  Model.Escape Model.Directives Model.Print Generated.Tables Model.Interp
  Spec.Html Proofs.EscapeProofs Proofs.InterpLogic Proofs.InterpGuard Proofs.InterpRel.
Require Import Lia.
Open Scope N_scope.

(* ------------------------------------------------------------------ *)
(* guards *)

Definition not_template (n : node) : bool :=
  match n with NTemplate _ _ _ _ _ => false | _ => true end.
Definition no_template_inside (n : node) : bool := deep not_template n.

(* what compilation gives: every registry entry is a template node whose body nests no template *)
Definition template_wf (t : template) : bool :=
  match t_node t with
  | NTemplate _ _ body _ _ => no_template_inside body
  | _ => false
  end.
Definition registry_wf (r : registry) : bool := forallb template_wf (r_templates r).

Lemma not_template_plural p l : not_template (NMsg p 0 [] [] l) = true.
Proof. reflexivity. Qed.

(* ------------------------------------------------------------------ *)
(* the primitives do not touch the mode *)

Lemma write_mode w st r st' : write w st = (r, st') -> mode st' = mode st.
Proof. intros H. apply write_inv in H. inversion H; subst; reflexivity. Qed.
Lemma m_set_mode k v st r st' : m_set k v st = (r, st') -> mode st' = mode st.
Proof.
  rewrite m_set_eq. destruct (ctx st) as [|f rest]; intros H; inversion H; subst; [reflexivity|].
  destruct (f_origin f); reflexivity.
Qed.
Lemma m_lookup_mode k st r st' : m_lookup k st = (r, st') -> mode st' = mode st.
Proof. rewrite m_lookup_eq. destruct (sc_lookup (ctx st) k); intros H; inversion H; subst; reflexivity. Qed.
Lemma fresh_list_mode l st r st' : fresh_list l st = (r, st') -> mode st' = mode st.
Proof. rewrite fresh_list_eq. destruct l; intros H; inversion H; subst; reflexivity. Qed.
Lemma fresh_list_or_nil_mode l st r st' : fresh_list_or_nil l st = (r, st') -> mode st' = mode st.
Proof. rewrite fresh_list_or_nil_eq. destruct l; intros H; inversion H; subst; reflexivity. Qed.

(* ------------------------------------------------------------------ *)
(* (i) the mode is preserved *)

Definition keeps_mode {A} (m : M A) : Prop := forall st r st', m st = (r, st') -> mode st' = mode st.

Lemma keeps_mode_bind {A B} (m : M A) (f : A -> M B) :
  keeps_mode m -> (forall x, keeps_mode (f x)) -> keeps_mode (mbind m f).
Proof.
  intros Hm Hf st r st2 Hb.
  destruct (mbind_inv _ _ _ _ _ Hb) as [(x & st1 & H1 & H2) | (e & H1 & ->)].
  - rewrite (Hf x _ _ _ H2). eapply Hm; eauto.
  - eapply Hm; eauto.
Qed.

Lemma keeps_mode_logic : walker_logic_g not_template (@keeps_mode) (fun _ => True) (fun _ _ => True).
Proof.
  constructor.
  - intros A m m' Heq Hm st r st' H. rewrite <- Heq in H. eapply Hm; eauto.
  - intros A x st r st' H. inversion H; reflexivity.
  - intros A e st r st' H. inversion H; reflexivity.
  - intros A o _ st r st' H. inversion H; reflexivity.
  - intros; apply keeps_mode_bind; assumption.
  - intros p st r st' H. inversion H; reflexivity.
  - intros p name body ae priv Hg. discriminate Hg.
  - intros w st r st' H. eapply write_mode; eauto.
  - intros k v st r st' H. eapply m_set_mode; eauto.
  - intros k st r st' H. eapply m_lookup_mode; eauto.
  - intros l st r st' H. eapply fresh_list_mode; eauto.
  - intros l st r st' H. eapply fresh_list_or_nil_mode; eauto.
  - intros m st r st' H. inversion H; reflexivity.
  - intros B f Hf st r st' H. change ((st <-- get ;;; f (mode st)) st) with (f (mode st) st) in H. eapply Hf; eauto.
  - intros B f Hf st r st' H. change ((st <-- get ;;; f (ctx st)) st) with (f (ctx st) st) in H. eapply Hf; eauto.
  - intros m Hm st r st' H. rewrite scoped_eq in H.
    destruct (m (pushed st)) as [r1 st2] eqn:Hrun. cbn [fst snd] in H.
    pose proof (Hm _ _ _ Hrun) as H1. destruct (classify r1); inversion H; subst; cbn in *; exact H1.
  - intros w e Hw st r st' H. rewrite eval_eq in H.
    destruct (w e st) as [r1 st2] eqn:Hrun. cbn [fst snd] in H.
    pose proof (Hw _ _ _ Hrun) as H1. destruct (classify r1); inversion H; subst; cbn in *; exact H1.
  - intros w body Hw st r st' H. rewrite render_block_eq in H.
    destruct (w body (buf_pushed st)) as [r1 st2] eqn:Hrun. cbn [fst snd] in H.
    pose proof (Hw _ _ _ Hrun) as H1. cbn in H1.
    destruct (classify r1); [|inversion H; subst; exact H1].
    cbn zeta in H. destruct (bufs st2); inversion H; subst; cbn; exact H1.
  - intros w callee cd _ st r st' H. rewrite call_enter_eq in H. cbn zeta in H. inversion H; reflexivity.
Qed.

Theorem walk_mode_preserved cf fuel n st r st' :
  no_template_inside n = true -> walk cf fuel n st = (r, st') -> mode st' = mode st.
Proof.
  intros Hn H.
  refine (walk_logic_g cf not_template (@keeps_mode) (fun _ => True) (fun _ _ => True) keeps_mode_logic _
            not_template_plural _ fuel n Hn st r st' H).
  - constructor; intros; exact Logic.I.
  - intros; exact Logic.I.
Qed.

(* the same for one unfolding over any [w] that keeps the mode below guarded nodes *)
Lemma walk_body_mode_preserved cf (w : node -> M value) n :
  (forall c, no_template_inside c = true -> keeps_mode (w c)) ->
  no_template_inside n = true -> keeps_mode (walk_body cf w n).
Proof.
  intros Hw Hn.
  refine (gphi_walk_body cf not_template (@keeps_mode) (fun _ => True) (fun _ _ => True) keeps_mode_logic _
            not_template_plural w Hw _ n Hn).
  - constructor; intros; exact Logic.I.
  - intros; exact Logic.I.
Qed.

(* ------------------------------------------------------------------ *)
(* (ii) the instrumented walker *)

Definition e_mode := Eval vm_compute in b "print under a foreign autoescape mode".

Lemma walk_body_template cf w p name body ae priv st :
  walk_body cf w (NTemplate p name body ae priv) st =
  let st2 := set_mode (set_cur st p) (template_mode (mode st) ae) in
  (match classify (fst (w body st2)) with inl _ => Ok VUndef | inr e => of_fault e end, snd (w body st2)).
Proof.
  unfold walk_body. cbn. unfold mbind. cbn. destruct (w body _) as [[] s]; reflexivity.
Qed.

Section Monitor.
Variable cf : cfg.

Fixpoint walk_mon (fuel : nat) (mu : N) (n : node) {struct fuel} : M value :=
  match fuel with
  | O => lift OutOfFuel
  | S f =>
      match n with
      | NTemplate _ _ _ ae _ =>
          (* entering a template: from here on its effective mode is the expected one *)
          fun st => walk_body cf (walk_mon f (template_mode (mode st) ae)) n st
      | NPrint _ _ _ =>
          fun st => if mode st =? mu then walk_body cf (walk_mon f mu) n st else (Crash e_mode, st)
      | _ => walk_body cf (walk_mon f mu) n
      end
  end.

(* related runs: started in a state of mode [mu], identical, and the mode is [mu] again afterwards *)
Definition same_at (mu : N) {A} (m1 m2 : M A) : Prop :=
  forall st, mode st = mu -> m1 st = m2 st /\ mode (snd (m2 st)) = mu.
Definition same_run (m1 m2 : M value) : Prop := forall st, m1 st = m2 st.

Lemma same_at_prim mu {A} (m : M A) : keeps_mode m -> same_at mu m m.
Proof. intros Hk st Hm. split; [reflexivity|]. destruct (m st) as [r st'] eqn:H. cbn. rewrite (Hk _ _ _ H). exact Hm. Qed.

Lemma same_at_logic mu : walker_logic_r not_template (@same_at mu) same_run (fun _ _ => True).
Proof.
  pose proof keeps_mode_logic as K.
  constructor.
  - intros A m1 m1' m2 m2' H1 H2 H st Hm. rewrite <- H1, <- H2. apply H. exact Hm.
  - intros A x. apply same_at_prim. apply (wg_ret _ _ _ _ K).
  - intros A e. apply same_at_prim. apply (wg_fail _ _ _ _ K).
  - intros A o _. apply same_at_prim. apply (wg_lift _ _ _ _ K). exact Logic.I.
  - intros A B m1 m2 f1 f2 Hm Hf st Hmu.
    destruct (Hm st Hmu) as [He Hmode]. unfold mbind. rewrite He.
    destruct (m2 st) as [r st1]. cbn [snd] in Hmode.
    destruct r; try (split; [reflexivity | exact Hmode]).
    apply Hf. exact Hmode.
  - intros p. apply same_at_prim. apply (wg_set_cur _ _ _ _ K).
  - intros p name body ae priv Hg. discriminate Hg.
  - intros w. apply same_at_prim. apply (wg_write _ _ _ _ K).
  - intros k v. apply same_at_prim. apply (wg_set _ _ _ _ K).
  - intros k. apply same_at_prim. apply (wg_lookup _ _ _ _ K).
  - intros l. apply same_at_prim. apply (wg_fresh_list _ _ _ _ K).
  - intros l. apply same_at_prim. apply (wg_fresh_list_or_nil _ _ _ _ K).
  - intros m. apply same_at_prim. apply (wg_fresh_map _ _ _ _ K).
  - intros B f1 f2 Hf st Hmu.
    change ((st <-- get ;;; f1 (mode st)) st) with (f1 (mode st) st).
    change ((st <-- get ;;; f2 (mode st)) st) with (f2 (mode st) st). apply Hf. exact Hmu.
  - intros B f1 f2 Hf st Hmu.
    change ((st <-- get ;;; f1 (ctx st)) st) with (f1 (ctx st) st).
    change ((st <-- get ;;; f2 (ctx st)) st) with (f2 (ctx st) st). apply Hf. exact Hmu.
  - intros m1 m2 Hm st Hmu. rewrite !scoped_eq.
    destruct (Hm (pushed st) Hmu) as [He Hmode]. rewrite He.
    destruct (m2 (pushed st)) as [r st2]. cbn [fst snd] in *.
    destruct (classify r); (split; [reflexivity | exact Hmode]).
  - intros w1 w2 e Hw st Hmu. rewrite !eval_eq.
    destruct (Hw st Hmu) as [He Hmode]. rewrite He.
    destruct (w2 e st) as [r st2]. cbn [fst snd] in *.
    destruct (classify r); (split; [reflexivity | exact Hmode]).
  - intros w1 w2 body Hw st Hmu. rewrite !render_block_eq.
    destruct (Hw (buf_pushed st) Hmu) as [He Hmode]. rewrite He.
    destruct (w2 body (buf_pushed st)) as [r st2]. cbn [fst snd] in *.
    destruct (classify r); [|split; [reflexivity | exact Hmode]].
    cbn zeta. destruct (bufs st2); (split; [reflexivity | exact Hmode]).
  - intros w1 w2 callee cd Hw st Hmu. rewrite !call_enter_eq. cbn zeta. rewrite (Hw (entered st callee cd)).
    split; [reflexivity | exact Hmu].
Qed.

Hypothesis WF : registry_wf (c_reg cf) = true.

Lemma registry_wf_in t : In t (r_templates (c_reg cf)) ->
  exists p name body ae priv, t_node t = NTemplate p name body ae priv /\ no_template_inside body = true.
Proof.
  intros Hin. unfold registry_wf in WF. rewrite forallb_forall in WF. specialize (WF t Hin).
  unfold template_wf in WF. destruct (t_node t); try discriminate. eauto 10.
Qed.

(* the monitored walker is the walker: below a guarded node started in the expected mode, and on
   every template of the registry from any state *)
Lemma walk_mon_eq fuel :
  (forall mu n, no_template_inside n = true -> same_at mu (walk_mon fuel mu n) (walk cf fuel n)) /\
  (forall mu t, In t (r_templates (c_reg cf)) -> same_run (walk_mon fuel mu (t_node t)) (walk cf fuel (t_node t))).
Proof.
  induction fuel as [|f [IH1 IH2]].
  - split.
    + intros mu n _ st Hmu. split; [reflexivity | exact Hmu].
    + intros mu t _ st. reflexivity.
  - assert (Hbody : forall mu n, no_template_inside n = true ->
                    same_at mu (walk_body cf (walk_mon f mu) n) (walk_body cf (walk cf f) n)).
    { intros mu n Hn.
      refine (rphi_walk_body cf not_template (@same_at mu) same_run (fun _ _ => True) (same_at_logic mu) _
                not_template_plural (walk_mon f mu) (walk cf f) (IH1 mu) (IH2 mu) n Hn).
      constructor; intros; exact Logic.I. }
    split.
    + intros mu n Hn st Hmu. rewrite walk_S.
      pose proof (deep_g _ _ Hn) as Hg.
      destruct n; try discriminate Hg; cbn [walk_mon]; try (apply Hbody; assumption).
      (* NPrint: the check passes *)
      rewrite Hmu, N.eqb_refl. apply Hbody; assumption.
    + intros mu t Hin st. rewrite walk_S.
      destruct (registry_wf_in t Hin) as (p & name & body & ae & priv & Ht & Hb). rewrite Ht.
      cbn [walk_mon]. rewrite !walk_body_template. cbn zeta.
      set (st2 := set_mode (set_cur st p) (template_mode (mode st) ae)).
      assert (Hm2 : mode st2 = template_mode (mode st) ae) by reflexivity.
      destruct (IH1 (template_mode (mode st) ae) body Hb st2 Hm2) as [He _].
      rewrite He. reflexivity.
Qed.

Theorem walk_mon_is_walk fuel mu t st :
  In t (r_templates (c_reg cf)) -> walk_mon fuel mu (t_node t) st = walk cf fuel (t_node t) st.
Proof. intros Hin. apply (proj2 (walk_mon_eq fuel)). exact Hin. Qed.

Theorem walk_mon_is_walk_below fuel mu n st :
  no_template_inside n = true -> mode st = mu -> walk_mon fuel mu n st = walk cf fuel n st.
Proof. intros Hn Hmu. apply (proj1 (walk_mon_eq fuel) mu n Hn st Hmu). Qed.
End Monitor.

(* ------------------------------------------------------------------ *)
(* a print reached in a state of mode mu performs print_writes mu *)

Definition print_at (cf : cfg) (w : node -> M value) (mu : N) (arg : node) (dirs : list node) : M value :=
  v <-- w arg ;;;
  match v with
  | VUndef => fail e_undefined
  | _ =>
      ds <-- print_dirs cf w dirs v ;;;
      s <-- lift (value_string v) ;;;
      ws <-- lift (print_writes mu ds s) ;;;
      _ <-- write_all ws ;;; ret VUndef
  end.

Lemma mbind_same_at {A B} mu (m : M A) (f1 f2 : A -> M B) st :
  keeps_mode m -> mode st = mu -> (forall x s, mode s = mu -> f1 x s = f2 x s) -> mbind m f1 st = mbind m f2 st.
Proof.
  intros Hk Hmu Hf. unfold mbind. destruct (m st) as [r st1] eqn:Hm.
  destruct r; try reflexivity. apply Hf. rewrite (Hk _ _ _ Hm). exact Hmu.
Qed.

Lemma keeps_mode_sites : pure_sites (fun _ _ => True).
Proof. constructor; intros; exact Logic.I. Qed.

Theorem print_at_mode cf (w : node -> M value) p arg dirs st :
  (forall c, no_template_inside c = true -> keeps_mode (w c)) ->
  no_template_inside (NPrint p arg dirs) = true ->
  walk_node cf w (NPrint p arg dirs) st = print_at cf w (mode st) arg dirs st.
Proof.
  intros Hw Hn. unfold no_template_inside in Hn. dsplit Hn.
  cbn [walk_node]. unfold print_at.
  apply (mbind_same_at (mode st)); [apply Hw; assumption | reflexivity|].
  intros v s1 Hs1. destruct v; try reflexivity;
    (apply (mbind_same_at (mode st));
     [ exact (gphi_print_dirs cf not_template (@keeps_mode) (fun _ => True) (fun _ _ => True) keeps_mode_logic keeps_mode_sites w Hw dirs Hn _)
     | exact Hs1 |];
     intros ds s2 Hs2;
     apply (mbind_same_at (mode st)); [intros ? ? ? H; inversion H; reflexivity | exact Hs2 |];
     intros str s3 Hs3; change ((st0 <-- get ;;; ws <-- lift (print_writes (mode st0) ds str) ;;; _ <-- write_all ws ;;; ret VUndef) s3)
       with ((ws <-- lift (print_writes (mode s3) ds str) ;;; _ <-- write_all ws ;;; ret VUndef) s3);
     rewrite Hs3; reflexivity).
Qed.

(* ------------------------------------------------------------------ *)
(* (iii) what a print writes *)

Definition cancel_of (d : bstr * list darg) : bool :=
  match lookup_directive (fst d) with
  | Some (_, (cancel, _)) => cancel
  | None => false
  end.

Lemma apply_directives_esc ds : forall s esc s' e,
  apply_directives ds s esc = Ok (s', e) -> e = esc && forallb negb (map cancel_of ds).
Proof.
  induction ds as [|[name args] r IH]; intros s esc s' e H; cbn [apply_directives] in H.
  - inversion H; subst. cbn. rewrite andb_true_r. reflexivity.
  - cbn [map forallb]. unfold cancel_of at 1. cbn [fst].
    destruct (lookup_directive name) as [[arglens [cancel [nilapply fn]]]|]; [|discriminate].
    destruct (negb (check_num_args arglens (length args))); [discriminate|].
    destruct nilapply; [discriminate|].
    destruct (apply_fn fn args s) as [s1| | | | |]; try discriminate. cbn [bind] in H.
    rewrite (IH _ _ _ _ H). rewrite andb_assoc. reflexivity.
Qed.

(* the Write calls of a print: the value after its directives, escaped iff the decision says so *)
Theorem print_writes_decision mu ds s ws :
  print_writes mu ds s = Ok ws ->
  exists s', apply_directives ds s (negb (mu =? 2)) = Ok (s', escape_decision mu (map cancel_of ds)) /\
             ws = if escape_decision mu (map cancel_of ds) then esc_writes [] s' else [s'].
Proof.
  unfold print_writes. intros H.
  destruct (apply_directives ds s (negb (mu =? 2))) as [[s' e]| | | | |] eqn:Ha; try discriminate.
  cbn [bind] in H. inversion H; subst ws.
  pose proof (apply_directives_esc _ _ _ _ _ Ha) as He. unfold escape_decision. rewrite <- He.
  exists s'. split; reflexivity.
Qed.

(* mode not off and no cancelling directive (obligatory ones included): the print contributes exactly
   the escaper's Write calls, i.e. html_escape of the value after the directives, which contains no raw
   special character and decodes back to that value *)
Theorem autoescaped_print_escaped mu ds s ws :
  mu <> 2 -> Forall (fun c => c = false) (map cancel_of ds) ->
  print_writes mu ds s = Ok ws ->
  exists s', apply_directives ds s true = Ok (s', true) /\
             ws = esc_writes [] s' /\ concat_b ws = html_escape s' /\
             no_raw_special (concat_b ws) /\ html_decode (concat_b ws) = s'.
Proof.
  intros Hmu Hc H.
  assert (Hd : escape_decision mu (map cancel_of ds) = true) by (apply escape_decision_spec; split; assumption).
  destruct (print_writes_decision _ _ _ _ H) as (s' & Ha & ->). rewrite Hd in *.
  assert (Hneg : negb (mu =? 2) = true) by (apply negb_true_iff; apply N.eqb_neq; exact Hmu).
  rewrite Hneg in Ha. exists s'. split; [exact Ha|]. split; [reflexivity|].
  split; [reflexivity|]. split; [apply html_escape_safe | apply html_decode_escape].
Qed.

(* ------------------------------------------------------------------ *)
(* the walker itself never produces the monitor's fault: [Crash e_mode] as the outcome of the
   instrumented walker can only be the monitor's *)

Definition okc {A} (o : outcome A) : Prop := match o with Crash m => m <> e_mode | _ => True end.

Lemma okc_bind {A B} (o : outcome A) (f : A -> outcome B) : okc o -> (forall x, okc (f x)) -> okc (bind o f).
Proof. destruct o; cbn; auto. Qed.

Ltac okc_step :=
  first [ exact Logic.I
        | (let Hd := fresh in intro Hd; discriminate Hd)
        | apply okc_bind; [|intro]
        | match goal with |- okc (match ?x with _ => _ end) => destruct x end
        | match goal with |- okc (if ?x then _ else _) => destruct x end
        | match goal with |- okc (let '(_, _) := ?x in _) => destruct x end ].

Lemma to_float_okc v : okc (to_float v).
Proof. unfold to_float. repeat okc_step. Qed.
Lemma of_fl_okc o : okc (of_fl o).
Proof. unfold of_fl. repeat okc_step. Qed.

Lemma to_string_okc fuel : forall v, okc (to_string fuel v).
Proof.
  induction fuel as [|f IH]; intros v; cbn [to_string]; [exact Logic.I|].
  destruct v; try exact Logic.I.
  - destruct x; exact Logic.I.
  - destruct (fl_to_string f0); exact Logic.I.
  - apply okc_bind; [|intro; exact Logic.I].
    induction l as [|a l IHl]; [exact Logic.I|].
    apply okc_bind; [apply IH|]. intro. apply okc_bind; [exact IHl|]. intro; exact Logic.I.
  - apply okc_bind; [|intro; exact Logic.I].
    induction m as [|[k a] m IHm]; [exact Logic.I|].
    apply okc_bind; [destruct a; try exact Logic.I; apply IH|]. intro. apply okc_bind; [exact IHm|]. intro; exact Logic.I.
Qed.
Lemma value_string_okc v : okc (value_string v).
Proof. apply to_string_okc. Qed.

Lemma float_op_okc f a c : okc (float_op f a c).
Proof. unfold float_op. apply okc_bind; [apply to_float_okc|]. intro. apply okc_bind; [apply to_float_okc|]. intro. apply of_fl_okc. Qed.

Lemma arith_okc op a c : okc (arith op a c).
Proof.
  unfold arith. destruct op; try exact Logic.I.
  - destruct a, c; try exact Logic.I; try apply float_op_okc; repeat okc_step.
  - apply float_op_okc.
  - destruct a, c; try exact Logic.I; repeat okc_step.
  - destruct a, c; try exact Logic.I; try apply float_op_okc;
      (destruct (_ || _); [apply okc_bind; [apply value_string_okc|]; intro; apply okc_bind; [apply value_string_okc|]; intro; exact Logic.I | apply float_op_okc]).
  - destruct a, c; try exact Logic.I; try apply float_op_okc; repeat okc_step.
Qed.

Lemma compare_op_okc op a c : okc (compare_op op a c).
Proof. unfold compare_op. apply okc_bind; [apply to_float_okc|]. intro. apply okc_bind; [apply to_float_okc|]. intro. exact Logic.I. Qed.

Lemma back_to_rune_start_okc fuel s : forall n, okc (back_to_rune_start fuel s n).
Proof.
  induction fuel as [|f IH]; intros n; cbn [back_to_rune_start]; repeat okc_step. apply IH.
Qed.
Lemma truncate_okc s n e : okc (truncate s n e).
Proof.
  unfold truncate. destruct (_ <=? _)%Z; [exact Logic.I|].
  destruct (if e then _ else _) as [m el]. apply okc_bind; [apply back_to_rune_start_okc|]. intro; exact Logic.I.
Qed.
Lemma apply_fn_okc fn args s : okc (apply_fn fn args s).
Proof.
  unfold apply_fn. repeat (destruct (Directives.fn_is _ _); [try exact Logic.I|]).
  all: try (repeat okc_step; apply truncate_okc).
  all: try (repeat okc_step).
Qed.

Lemma apply_directives_okc ds : forall s esc, okc (apply_directives ds s esc).
Proof.
  induction ds as [|[name args] r IH]; intros s esc; cbn [apply_directives]; [exact Logic.I|].
  destruct (lookup_directive name) as [[arglens [cancel [nilapply fn]]]|]; [|exact Logic.I].
  destruct (negb _); [exact Logic.I|]. destruct nilapply; [exact Logic.I|].
  apply okc_bind; [apply apply_fn_okc|]. intro. apply IH.
Qed.
Lemma print_writes_okc m ds s : okc (print_writes m ds s).
Proof. unfold print_writes. apply okc_bind; [apply apply_directives_okc|]. intros [s' e]. exact Logic.I. Qed.

Lemma apply_func_okc name vs : okc (apply_func name vs).
Proof.
  unfold apply_func.
  repeat (destruct (fn_is name _); [|]).
  all: repeat first [ apply to_float_okc | apply of_fl_okc | okc_step ].
Qed.

Definition not_e_mode (e : fault) : Prop := e <> FCrash e_mode.

Lemma okc_pure {A} (o : outcome A) : okc o -> inv_pure_ok not_e_mode o.
Proof. unfold inv_pure_ok, not_e_mode. destruct o; cbn; intros H; try exact Logic.I; try discriminate. intros He. inversion He. contradiction. Qed.

Lemma no_e_mode_sites : pure_sites (@inv_pure_ok not_e_mode).
Proof.
  constructor; intros; apply okc_pure.
  - exact Logic.I.
  - apply arith_okc.
  - apply compare_op_okc.
  - apply value_string_okc.
  - apply print_writes_okc.
  - apply apply_func_okc.
Qed.

Lemma no_e_mode_conditions : inv_conditions (fun _ => True) (fun _ _ => True) (fun _ _ => True) not_e_mode.
Proof. constructor; intros; try exact Logic.I; try (split; exact Logic.I). unfold not_e_mode. discriminate. Qed.

Theorem walk_never_e_mode cf fuel n st : fst (walk cf fuel n st) <> Crash e_mode.
Proof.
  destruct (walk cf fuel n st) as [r st'] eqn:H. cbn.
  pose proof (inv_walk _ _ _ _ no_e_mode_conditions cf no_e_mode_sites fuel n st r st' Logic.I H) as H1.
  destruct r; try discriminate. cbn in H1. destruct H1 as [_ H1]. intros He. inversion He; subst. apply H1. reflexivity.
Qed.

(* so on a well-formed registry the monitor never trips *)
Theorem monitor_never_trips cf fuel mu t st :
  registry_wf (c_reg cf) = true -> In t (r_templates (c_reg cf)) ->
  fst (walk_mon cf fuel mu (t_node t) st) <> Crash e_mode.
Proof. intros WF Hin. rewrite (walk_mon_is_walk cf WF fuel mu t st Hin). apply walk_never_e_mode. Qed.

Lemma find_template_in ts name t : find_template ts name = Some t -> In t ts.
Proof.
  induction ts as [|x r IH]; cbn; intros H; [discriminate|].
  destruct (bstr_eqb (t_name x) name); [inversion H; left; reflexivity | right; apply IH; exact H].
Qed.

(* ---- a witness: the callee's namespace turns escaping off; the caller's prints before and after the
   call are escaped, the callee's is not ---- *)
Definition ex_caller := Eval vm_compute in b "a.caller".
Definition ex_callee := Eval vm_compute in b "b.callee".
Definition ex_x := Eval vm_compute in b "x".
Definition ex_print (p : N) : node := NPrint p (NDataRef p ex_x []) [].
Definition ex_reg : registry :=
  {| r_templates :=
       [{| t_name := ex_caller;
           t_node := NTemplate 0 ex_caller (NList 0 [ex_print 1; NCall 2 ex_callee true None []; ex_print 3]) 0 false;
           t_ns_name := b "a"; t_ns_autoescape := 0; t_params := [(ex_x, false)]; t_file := b "a.soy" |};
        {| t_name := ex_callee;
           t_node := NTemplate 0 ex_callee (NList 0 [ex_print 1]) 0 false;
           t_ns_name := b "b"; t_ns_autoescape := 2; t_params := [(ex_x, false)]; t_file := b "b.soy" |}];
     r_sources := [(ex_caller, b "0123456789"); (ex_callee, b "0123456789")];
     r_files := [(ex_caller, b "a.soy"); (ex_callee, b "b.soy")] |}.
Definition ex_mode_cfg : cfg := {| c_reg := ex_reg; c_ij := None; c_oblig := []; c_msgs := None |}.
