(* The expression parser model is monotone in its budgets: a run that does not end in PFuel returns the
   same result under every larger fuel (recursion budget and loop budgets alike).  So "for every
   sufficiently large fuel" statements hold at the concrete budget of the entry points as soon as
   that budget is known not to run out (Proofs/ParserProofs.v). *)
From Soy Require Import Model.Bytes Model.Num Model.Values Model.Ast Model.Token Model.NumLit Model.Quote Model.ExprParser
  Generated.Tables Proofs.ExprParserRules Proofs.ExprParserStrip.
Require Import Lia ZifyBool ZifyNat ZifyN.
Open Scope N_scope.

Definition le_res {A} (r r' : presult A) : Prop := r = PFuel \/ r = r'.

Lemma le_refl {A} (r : presult A) : le_res r r. Proof. right. reflexivity. Qed.
Lemma le_fuel {A} (r : presult A) : le_res PFuel r. Proof. left. reflexivity. Qed.

Lemma le_bind {A B} (x x' : presult A) (k k' : A -> pst -> presult B) :
  le_res x x' -> (forall a st, le_res (k a st) (k' a st)) -> le_res (pbind x k) (pbind x' k').
Proof.
  intros [->| ->] Hk; [left; reflexivity|]. destruct x' as [a st|t c st|m|]; cbn [pbind]; try apply le_refl. apply Hk.
Qed.

Section Body.
Variable w w' : N -> pst -> presult node.
Hypothesis Hw : forall p st, le_res (w p st) (w' p st).

Lemma ternary_le c st : le_res (parse_ternary w c st) (parse_ternary w' c st).
Proof.
  unfold parse_ternary. apply le_bind; [apply Hw|]. intros n1 st1. apply le_bind; [apply le_refl|]. intros _t st2.
  apply le_bind; [apply Hw|]. intros n2 st3. apply le_refl.
Qed.

Lemma expr_loop_le : forall lf lf', (lf <= lf')%nat -> forall p n st, le_res (expr_loop w lf p n st) (expr_loop w' lf' p n st).
Proof.
  induction lf as [|lf IH]; intros lf' Hle p n st; [rewrite expr_loop_0; apply le_fuel|].
  destruct lf' as [|lf']; [lia|]. rewrite !expr_loop_S. destruct (p_next st) as [t st1]. cbv zeta.
  destruct (negb (is_binary_op (t_typ t)) || (prec_of (t_typ t) <? p)).
  - destruct ((p =? 0) && (t_typ t =? pk_itemTernIf)); [apply ternary_le | apply le_refl].
  - apply le_bind; [apply Hw|]. intros n2 st2. destruct (new_binary_op t n n2); [apply IH; lia | apply le_refl].
Qed.

Lemma data_ref_loop_le : forall lf lf', (lf <= lf')%nat -> forall p key acc st,
  le_res (data_ref_loop w lf p key acc st) (data_ref_loop w' lf' p key acc st).
Proof.
  induction lf as [|lf IH]; intros lf' Hle p key acc st; [rewrite data_ref_loop_0; apply le_fuel|].
  destruct lf' as [|lf']; [lia|]. rewrite !data_ref_loop_S. destruct (p_next st) as [t st1]. cbv zeta.
  destruct ((t_typ t =? pk_itemQuestionDotIdent) || (t_typ t =? pk_itemDotIdent)).
  { destruct (slice_from _ (t_val t)); [apply IH; lia | apply le_refl]. }
  destruct ((t_typ t =? pk_itemQuestionDotIndex) || (t_typ t =? pk_itemDotIndex)).
  { destruct (slice_from _ (t_val t)); [|apply le_refl]. destruct (parse_int 10 b); [apply IH; lia | apply le_refl]. }
  destruct ((t_typ t =? pk_itemQuestionKey) || (t_typ t =? pk_itemLeftBracket)); [|apply le_refl].
  apply le_bind; [apply Hw|]. intros e st2. apply le_bind; [apply le_refl|]. intros _t st3. apply IH; lia.
Qed.

Lemma list_loop_le : forall lf lf', (lf <= lf')%nat -> forall p items st,
  le_res (list_loop w lf p items st) (list_loop w' lf' p items st).
Proof.
  induction lf as [|lf IH]; intros lf' Hle p items st; [rewrite list_loop_0; apply le_fuel|].
  destruct lf' as [|lf']; [lia|]. rewrite !list_loop_S. apply le_bind; [apply Hw|]. intros e st1. cbv zeta.
  destruct (p_next st1) as [nx st2]. destruct (t_typ nx =? pk_itemRightBracket); [apply le_refl|].
  destruct (negb (t_typ nx =? pk_itemComma)); [apply le_refl|]. apply IH; lia.
Qed.

Lemma map_loop_le : forall lf lf', (lf <= lf')%nat -> forall p items key st,
  le_res (map_loop w lf p items key st) (map_loop w' lf' p items key st).
Proof.
  induction lf as [|lf IH]; intros lf' Hle p items key st; [rewrite map_loop_0; apply le_fuel|].
  destruct lf' as [|lf']; [lia|]. rewrite !map_loop_S. apply le_bind; [apply Hw|]. intros e st1. cbv zeta.
  destruct (p_next st1) as [nx st2]. destruct (t_typ nx =? pk_itemRightBracket); [apply le_refl|].
  destruct (negb (t_typ nx =? pk_itemComma)); [apply le_refl|].
  apply le_bind; [apply le_refl|]. intros kt st3. destruct (unquote_string (t_val kt)); [|apply le_refl].
  apply le_bind; [apply le_refl|]. intros _t st4. apply IH; lia.
Qed.

Lemma parse_list_or_map_le lf lf' t st : (lf <= lf')%nat ->
  le_res (parse_list_or_map w lf t st) (parse_list_or_map w' lf' t st).
Proof.
  intros Hle. unfold parse_list_or_map. destruct (p_next st) as [nx st1].
  destruct (t_typ nx =? pk_itemColon); [apply le_refl|]. destruct (t_typ nx =? pk_itemRightBracket); [apply le_refl|].
  apply le_bind; [apply Hw|]. intros first st2. destruct (p_next st2) as [d st3].
  destruct (t_typ d =? pk_itemColon).
  { unfold parse_map_literal. destruct first; try apply le_refl. apply map_loop_le; exact Hle. }
  destruct (t_typ d =? pk_itemComma); [apply list_loop_le; exact Hle|]. apply le_refl.
Qed.

Lemma global_loop_le : forall lf lf', (lf <= lf')%nat -> forall p name nx st,
  le_res (global_loop lf p name nx st) (global_loop lf' p name nx st).
Proof.
  induction lf as [|lf IH]; intros lf' Hle p name nx st; [rewrite global_loop_0; apply le_fuel|].
  destruct lf' as [|lf']; [lia|]. rewrite !global_loop_S. destruct (t_typ nx =? pk_itemDotIdent); [|apply le_refl].
  destruct (p_next st) as [nx' st1]. apply IH; lia.
Qed.

Lemma func_loop_le : forall lf lf', (lf <= lf')%nat -> forall p name args st,
  le_res (func_loop w lf p name args st) (func_loop w' lf' p name args st).
Proof.
  induction lf as [|lf IH]; intros lf' Hle p name args st; [rewrite func_loop_0; apply le_fuel|].
  destruct lf' as [|lf']; [lia|]. rewrite !func_loop_S. apply le_bind; [apply Hw|]. intros e st1. cbv zeta.
  destruct (p_next st1) as [nx st2]. destruct (t_typ nx =? pk_itemComma); [apply IH; lia | apply le_refl].
Qed.

Lemma new_value_node_le lf lf' t st : (lf <= lf')%nat ->
  le_res (new_value_node w lf t st) (new_value_node w' lf' t st).
Proof.
  intros Hle. unfold new_value_node. cbv zeta.
  destruct (t_typ t =? pk_itemNull); [apply le_refl|]. destruct (t_typ t =? pk_itemBool); [apply le_refl|].
  destruct (t_typ t =? pk_itemInteger); [apply le_refl|]. destruct (t_typ t =? pk_itemFloat); [apply le_refl|].
  destruct (t_typ t =? pk_itemString); [apply le_refl|].
  destruct (t_typ t =? pk_itemLeftBracket); [apply parse_list_or_map_le; exact Hle|].
  destruct (t_typ t =? pk_itemDollarIdent).
  { unfold parse_data_ref. destruct (slice_from 1 (t_val t)); [apply data_ref_loop_le; exact Hle | apply le_refl]. }
  destruct (t_typ t =? pk_itemIdent); [|apply le_refl].
  destruct (p_next st) as [nx st1]. destruct (negb (t_typ nx =? pk_itemLeftParen)); [apply global_loop_le; exact Hle|].
  unfold new_function_node. destruct (p_peek_tok st1) as [pk st2].
  destruct (t_typ pk =? pk_itemRightParen); [apply le_refl | apply func_loop_le; exact Hle].
Qed.

Lemma parse_first_term_le lf lf' st : (lf <= lf')%nat -> le_res (parse_first_term w lf st) (parse_first_term w' lf' st).
Proof.
  intros Hle. unfold parse_first_term. destruct (p_next st) as [t st1].
  destruct (is_unary_op (t_typ t)); [apply le_bind; [apply Hw | intros; apply le_refl]|].
  destruct (t_typ t =? pk_itemLeftParen); [apply le_bind; [apply Hw | intros; apply le_refl]|].
  destruct (is_value (t_typ t)); [apply new_value_node_le; exact Hle | apply le_refl].
Qed.

Lemma parse_expr_body_le lf lf' p st : (lf <= lf')%nat -> le_res (parse_expr_body w lf p st) (parse_expr_body w' lf' p st).
Proof.
  intros Hle. unfold parse_expr_body. apply le_bind; [apply parse_first_term_le; exact Hle|]. intros n st1. apply expr_loop_le; exact Hle.
Qed.

Lemma directive_args_loop_le : forall lf lf', (lf <= lf')%nat -> forall args st,
  le_res (directive_args_loop w lf args st) (directive_args_loop w' lf' args st).
Proof.
  induction lf as [|lf IH]; intros lf' Hle args st; [rewrite directive_args_loop_0; apply le_fuel|].
  destruct lf' as [|lf']; [lia|]. rewrite !directive_args_loop_S. destruct (p_next st) as [nx st1].
  destruct ((t_typ nx =? pk_itemColon) || (t_typ nx =? pk_itemComma)); [|apply le_refl].
  apply le_bind; [apply Hw|]. intros e st2. apply IH; lia.
Qed.

Lemma print_loop_le : forall lf lf', (lf <= lf')%nat -> forall p e dirs st,
  le_res (print_loop w lf p e dirs st) (print_loop w' lf' p e dirs st).
Proof.
  induction lf as [|lf IH]; intros lf' Hle p e dirs st; [rewrite print_loop_0; apply le_fuel|].
  destruct lf' as [|lf']; [lia|]. rewrite !print_loop_S. destruct (p_next st) as [t st1].
  destruct (t_typ t =? pk_itemRightDelim); [apply le_refl|]. destruct (t_typ t =? pk_itemPipe); [|apply le_refl].
  apply le_bind; [apply le_refl|]. intros id st2. apply le_bind; [apply directive_args_loop_le; lia|]. intros args st3. apply IH; lia.
Qed.

End Body.

Theorem parse_expr_le : forall f f', (f <= f')%nat -> forall p st, le_res (parse_expr f p st) (parse_expr f' p st).
Proof.
  induction f as [|f IH]; intros f' Hle p st; [rewrite parse_expr_0; apply le_fuel|].
  destruct f' as [|f']; [lia|].
  change (parse_expr (S f) p st) with (parse_expr_body (parse_expr f) f p st).
  change (parse_expr (S f') p st) with (parse_expr_body (parse_expr f') f' p st).
  apply parse_expr_body_le; [|lia]. apply IH. lia.
Qed.

Theorem parse_print_le f f' p st : (f <= f')%nat -> le_res (parse_print f p st) (parse_print f' p st).
Proof.
  intros Hle. unfold parse_print, parse_print_body. apply le_bind; [apply parse_expr_le; exact Hle|].
  intros e st1. apply print_loop_le; [apply parse_expr_le; exact Hle | exact Hle].
Qed.

(* two runs that both return (no PFuel) return the same *)
Lemma parse_expr_agree f f' p st : parse_expr f p st <> PFuel -> parse_expr f' p st <> PFuel -> parse_expr f p st = parse_expr f' p st.
Proof.
  intros H1 H2. destruct (Nat.le_ge_cases f f') as [L|L].
  - destruct (parse_expr_le f f' L p st) as [E|E]; [contradiction | exact E].
  - destruct (parse_expr_le f' f L p st) as [E|E]; [contradiction | symmetry; exact E].
Qed.

Lemma parse_print_agree f f' p st : parse_print f p st <> PFuel -> parse_print f' p st <> PFuel -> parse_print f p st = parse_print f' p st.
Proof.
  intros H1 H2. destruct (Nat.le_ge_cases f f') as [L|L].
  - destruct (parse_print_le f f' p st L) as [E|E]; [contradiction | exact E].
  - destruct (parse_print_le f' f p st L) as [E|E]; [contradiction | symmetry; exact E].
Qed.
