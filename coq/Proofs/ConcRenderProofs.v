(* C09 — renders, JavaScript generation and compilations of independent bundles
   as threads (Model/ConcRender.v): they satisfy the ownership discipline of
   Model/Conc.v, hence every family of them is race-free at the model's
   abstract locations under every schedule, and each computes what it computes
   alone (Proofs/ConcProofs.v).  The one fact about the renderer that is used is
   C08's [render_no_shared_writes] (Proofs/PurityProofs.v): no [set] of any
   render lands on a frame whose map belongs to the caller. *)
From Coq Require Import List Arith Bool Lia.
From Soy Require Import Model.Bytes Model.Values Model.Outcome Model.Ast Model.Interp Model.Conc Model.ConcRender
  Proofs.ConcProofs Proofs.PurityProofs.
Import ListNotations.
Open Scope N_scope.

Lemma rloc_eqb_spec : forall a c, rloc_eqb a c = true <-> a = c.
Proof.
  intros [| | | | |i] [| | | | |j]; cbn; split; intros H; try reflexivity; try discriminate.
  - apply Nat.eqb_eq in H; now subst.
  - inversion H; apply Nat.eqb_refl.
Qed.

Section Threads.
Variable J : Type.
Variable jsgen : registry -> N -> J.
Variable compile : bstr -> registry.

Notation tres := (tres J).
Notation rprog := (rprog J).
Notation render_prog := (render_prog J).
Notation jsgen_prog := (jsgen_prog J jsgen).
Notation compile_prog := (compile_prog J compile).
Notation task_prog := (task_prog J jsgen compile).
Notation task_progs := (task_progs J jsgen compile).
Notation progs_from := (progs_from J jsgen compile).

Definition read4 : list (access rloc sval) := [Rd LRegistry; Rd LConfig; Rd LMessages; Rd LHeap].

(* ---------------- a render alone ---------------- *)

Lemma render_on_no_writes rq vr vc vm vh rr : render_on rq vr vc vm vh = Some rr -> rr_shared_writes rr = [].
Proof.
  unfold render_on. destruct vr, vc, vm, vh; try discriminate.
  destruct (cfg_on rq r oblig m h) as [cf|]; [|discriminate].
  destruct (data_on rq h) as [[id d]|]; [|discriminate].
  intros H; inversion H; subst. apply render_no_shared_writes.
Qed.

Lemma render_exec rq (s : store rloc sval) :
  exec rloc_eqb (render_prog rq) s = (RRender J (render_alone rq s), s, read4).
Proof.
  unfold ConcRender.render_prog, render_alone. cbn [exec].
  destruct (render_on rq (s LRegistry) (s LConfig) (s LMessages) (s LHeap)) as [rr|] eqn:E; [|reflexivity].
  rewrite (render_on_no_writes _ _ _ _ _ _ E). reflexivity.
Qed.

(* the accesses of a render to shared locations: four reads, no write *)
Lemma render_trace_reads rq s : render_trace J rq s = read4.
Proof. unfold render_trace, solo_trace. now rewrite render_exec. Qed.

Lemma render_result_alone rq s : solo_result rloc_eqb (render_prog rq) s = RRender J (render_alone rq s).
Proof. unfold solo_result. now rewrite render_exec. Qed.

Lemma render_write_free rq s : write_free rloc_eqb (render_prog rq) s.
Proof. unfold write_free, solo_trace. rewrite render_exec. repeat constructor. Qed.

(* ---------------- JavaScript generation and compilation alone ---------------- *)

Definition js_alone (file : N) (s : store rloc sval) : option J :=
  match s LRegistry with SRegistry r => Some (jsgen r file) | _ => None end.

Lemma jsgen_exec file (s : store rloc sval) :
  exec rloc_eqb (jsgen_prog file) s = (RJs J (js_alone file s), s, [Rd LRegistry]).
Proof. unfold ConcRender.jsgen_prog, js_alone. cbn [exec]. destruct (s LRegistry); reflexivity. Qed.

Lemma compile_exec i src (s : store rloc sval) :
  exec rloc_eqb (compile_prog i src) s =
  (RCompiled J (SRegistry (compile src)), upd rloc_eqb s (LOwn i) (SRegistry (compile src)),
   [Wr (LOwn i) (SRegistry (compile src)); Rd (LOwn i)]).
Proof. unfold ConcRender.compile_prog. cbn [exec]. unfold upd at 1. cbn [rloc_eqb]. now rewrite Nat.eqb_refl. Qed.

(* ---------------- every task is disciplined ---------------- *)

Lemma task_disciplined i t s : disciplined rloc_eqb rowner i (task_prog i t) s.
Proof.
  unfold disciplined, solo_trace. destruct t as [rq|file|src]; cbn [ConcRender.task_prog].
  - rewrite render_exec. repeat constructor.
  - rewrite jsgen_exec. repeat constructor.
  - rewrite compile_exec. constructor; [reflexivity|]. constructor; [right; reflexivity|constructor].
Qed.

Lemma nth_error_progs_from ts : forall i0 i, nth_error (progs_from i0 ts) i = option_map (task_prog (i0 + i)) (nth_error ts i).
Proof.
  induction ts as [|t r IH]; intros i0 [|i]; cbn [ConcRender.progs_from nth_error option_map]; try reflexivity.
  - now rewrite Nat.add_0_r.
  - rewrite IH. now rewrite Nat.add_succ_r.
Qed.

Lemma nth_error_task_progs ts i : nth_error (task_progs ts) i = option_map (task_prog i) (nth_error ts i).
Proof. unfold ConcRender.task_progs. now rewrite nth_error_progs_from. Qed.

Lemma tasks_disciplined ts s : all_disciplined rloc_eqb rowner (task_progs ts) s.
Proof.
  intros i p Hp. rewrite nth_error_task_progs in Hp. destruct (nth_error ts i) as [t|]; [|discriminate].
  inversion Hp; subst. apply task_disciplined.
Qed.

(* ---------------- the instantiation ---------------- *)

(* what task t, as thread i, returns when run alone on s, and how many accesses it makes *)
Definition task_alone (i : nat) (t : task) (s : store rloc sval) : tres :=
  match t with
  | TRender rq => RRender J (render_alone rq s)
  | TJsGen f => RJs J (js_alone f s)
  | TCompile src => RCompiled J (SRegistry (compile src))
  end.
Definition task_accesses (t : task) : nat :=
  match t with TRender _ => 4%nat | TJsGen _ => 1%nat | TCompile _ => 2%nat end.

Lemma task_result i t s : solo_result rloc_eqb (task_prog i t) s = task_alone i t s.
Proof.
  unfold solo_result. destruct t; cbn [ConcRender.task_prog task_alone];
    [rewrite render_exec|rewrite jsgen_exec|rewrite compile_exec]; reflexivity.
Qed.
Lemma task_length i t s : length (solo_trace rloc_eqb (task_prog i t) s) = task_accesses t.
Proof.
  unfold solo_trace. destruct t; cbn [ConcRender.task_prog task_accesses];
    [rewrite render_exec|rewrite jsgen_exec|rewrite compile_exec]; reflexivity.
Qed.

Theorem concurrent_tasks_race_free :
  forall (ts : list task) (s0 : store rloc sval) (sched : list nat),
    ~ has_race (snd (run rloc_eqb sched (Build_config (task_progs ts) s0))).
Proof.
  intros ts s0 sched.
  apply (readonly_sharing_race_free rloc sval tres rloc_eqb rloc_eqb_spec rowner). apply tasks_disciplined.
Qed.

Theorem concurrent_tasks_sequential :
  forall (ts : list task) (s0 : store rloc sval) (sched : list nat) c tr,
    run rloc_eqb sched (Build_config (task_progs ts) s0) = (c, tr) ->
    (* registry, configuration, message bundle and the caller's maps are as they were *)
    shared c LRegistry = s0 LRegistry /\ shared c LConfig = s0 LConfig
    /\ shared c LMessages = s0 LMessages /\ shared c LHeap = s0 LHeap
    /\ forall i t, nth_error ts i = Some t ->
         (* a task that has finished returns what it returns alone on the initial store *)
         (forall r, nth_error (threads c) i = Some (Done r) -> r = task_alone i t s0)
         (* and it has finished once it was scheduled as often as it has accesses *)
         /\ ((task_accesses t <= count_occ Nat.eq_dec sched i)%nat ->
               nth_error (threads c) i = Some (Done (task_alone i t s0)))
         (* what it has done so far is a prefix of what it does alone *)
         /\ proj i tr = firstn (count_occ Nat.eq_dec sched i) (solo_trace rloc_eqb (task_prog i t) s0).
Proof.
  intros ts s0 sched c tr Hrun.
  destruct (readonly_sharing_sequential rloc sval tres rloc_eqb rloc_eqb_spec rowner
              (task_progs ts) s0 sched c tr (tasks_disciplined ts s0) Hrun) as (Hsh & _ & Hth).
  split; [apply Hsh; reflexivity|]. split; [apply Hsh; reflexivity|].
  split; [apply Hsh; reflexivity|]. split; [apply Hsh; reflexivity|].
  intros i t Ht.
  assert (Hp : nth_error (task_progs ts) i = Some (task_prog i t)) by (rewrite nth_error_task_progs, Ht; reflexivity).
  destruct (Hth i _ Hp) as (Hproj & Hdone & Hfin).
  rewrite task_result in Hdone, Hfin. rewrite task_length in Hfin.
  split; [|split; [exact Hfin|exact Hproj]].
  intros r Hr. apply (Hdone r Hr).
Qed.

(* ---------------- independence of the read granularity ---------------- *)

(* [render_prog] reads each shared object once, before computing.  The real
   renderer reads the registry, the data maps and the bundle piecemeal, all
   along the render.  The interleaving theorems hold for arbitrary thread
   programs, so the placement and number of reads is immaterial: ANY program
   that, alone on the initial store, performs no write and returns the
   render's result may stand for the render. *)
Definition implements_render (s0 : store rloc sval) (p : rprog) (rq : creq) : Prop :=
  write_free rloc_eqb p s0 /\ solo_result rloc_eqb p s0 = RRender J (render_alone rq s0).

Lemma render_prog_implements s0 rq : implements_render s0 (render_prog rq) rq.
Proof. split; [apply render_write_free | apply render_result_alone]. Qed.

Theorem any_read_placement :
  forall (ps : list rprog) (rqs : list creq) (s0 : store rloc sval) (sched : list nat) c tr,
    Forall2 (implements_render s0) ps rqs ->
    run rloc_eqb sched (Build_config ps s0) = (c, tr) ->
    ~ has_race tr
    /\ (forall l, shared c l = s0 l)
    /\ forall i rq r, nth_error rqs i = Some rq -> nth_error (threads c) i = Some (Done r) ->
         r = RRender J (render_alone rq s0).
Proof.
  intros ps rqs s0 sched c tr HF Hrun.
  assert (Hwf : forall p, In p ps -> write_free rloc_eqb p s0).
  { intros p Hin. clear Hrun. induction HF as [|p' rq' ps' rqs' [Hw _] _ IH]; [contradiction|].
    destruct Hin as [->|Hin]; [exact Hw|apply IH; exact Hin]. }
  split.
  - pose proof (write_free_race_free rloc sval tres rloc_eqb rloc_eqb_spec ps s0 sched Hwf) as Hnr.
    rewrite Hrun in Hnr. exact Hnr.
  - destruct (write_free_sequential rloc sval tres rloc_eqb rloc_eqb_spec ps s0 sched c tr Hwf Hrun) as (Hsh & _ & Hth).
    split; [exact Hsh|].
    intros i rq r Hrq Hd.
    assert (Hp : exists p, nth_error ps i = Some p /\ implements_render s0 p rq).
    { clear Hrun Hth Hwf Hd. revert i Hrq. induction HF as [|p' rq' ps' rqs' Himp _ IH]; intros [|i] Hrq; try discriminate.
      - inversion Hrq; subst. exists p'; split; [reflexivity|exact Himp].
      - apply IH; exact Hrq. }
    destruct Hp as (p & Hp & _ & Hres).
    destruct (Hth i p Hp) as (_ & Hdone & _). rewrite (Hdone r Hd). exact Hres.
Qed.

End Threads.

(* ---------------- the definition of a race is not vacuous ---------------- *)

(* Two renders of the pinned tree's evalPrint with an obligatory directive
   (each reads the node's list and writes the appended list back) race under
   the schedule [0;0;1]: thread 0 writes LRegistry, then thread 1 reads it. *)
Lemma pinned_print_races :
  has_race (snd (run rloc_eqb [0; 0; 1]%nat (Build_config [pinned_print_prog unit; pinned_print_prog unit] (fun _ => SClobbered)))).
Proof.
  exists 1%nat, 2%nat, (0%nat, Wr LRegistry SClobbered), (1%nat, Rd LRegistry).
  split; [lia|]. split; [reflexivity|]. split; [reflexivity|].
  split; [cbn; discriminate|]. split; [reflexivity|]. left; reflexivity.
Qed.

(* a hypothetical render whose [set] lands on a caller's map (rr_shared_writes = [id]) races with any other render *)
Lemma shared_set_races :
  let p : rprog unit := Read LHeap (fun _ => write_ids unit [5] (Done (RRender unit None))) in
  has_race (snd (run rloc_eqb [0; 0; 1]%nat (Build_config [p; p] (fun _ => SClobbered)))).
Proof.
  exists 1%nat, 2%nat, (0%nat, Wr LHeap SClobbered), (1%nat, Rd LHeap).
  split; [lia|]. split; [reflexivity|]. split; [reflexivity|].
  split; [cbn; discriminate|]. split; [reflexivity|]. left; reflexivity.
Qed.
