(* C14, token grammar, bytes: basic facts for splitting a run of the byte lexer at a chunk boundary --
   spans, prefixes, the punctuator table, the white-space lookahead of the 'line break before' flag. *)
From Soy Require Import Model.Bytes Model.JsGen Spec.JsSyntax.
From Coq Require Import ZifyBool ZifyNat ZifyN Lia.
Open Scope N_scope.

Notation prepend ts := (option_map (fun '(t, m) => (ts ++ t, m))) (only parsing).

Lemma prepend_nil (x : option (list jstoken * lexmode)) : option_map (fun '(t, m) => ([] ++ t, m)) x = x.
Proof. destruct x as [[t m]|]; reflexivity. Qed.
Lemma cons_tok_prepend t ts (x : option (list jstoken * lexmode)) :
  cons_tok t (option_map (fun '(t0, m) => (ts ++ t0, m)) x) = option_map (fun '(t0, m) => ((t :: ts) ++ t0, m)) x.
Proof. destruct x as [[t0 m]|]; reflexivity. Qed.
Lemma cons_tok_eq t x : option_map (fun '(ts, m') => (t :: ts, m')) x = cons_tok t x.
Proof. reflexivity. Qed.

(* ---- spans ---- *)
Lemma span_le p s : (span p s <= length s)%nat.
Proof. induction s as [|c s IH]; cbn; [lia|]. destruct (p c); cbn; lia. Qed.
Lemma span_app_stop p r t : (span p r < length r)%nat -> span p (r ++ t) = span p r.
Proof. induction r as [|c r IH]; cbn; [lia|]. destruct (p c); [|reflexivity]. intro H. rewrite IH by lia. reflexivity. Qed.
Lemma span_app_all p r t : span p r = length r -> span p (r ++ t) = (length r + span p t)%nat.
Proof. induction r as [|c r IH]; cbn; [reflexivity|]. destruct (p c); [|discriminate]. intro H. rewrite IH by lia. reflexivity. Qed.
Lemma span_all_forallb p r : span p r = length r -> forallb p r = true.
Proof. induction r as [|c r IH]; cbn; [reflexivity|]. destruct (p c); [|discriminate]. intro H. apply IH. lia. Qed.
Lemma forallb_span_all p r : forallb p r = true -> span p r = length r.
Proof. induction r as [|c r IH]; cbn; [reflexivity|]. destruct (p c); [|discriminate]. intro H. rewrite IH by exact H. reflexivity. Qed.
Lemma span_stop_drop p r : (span p r < length r)%nat -> exists x t, drop (span p r) r = x :: t /\ p x = false.
Proof.
  induction r as [|c r IH]; cbn; [lia|]. destruct (p c) eqn:E.
  - intro H. cbn [drop]. apply IH. lia.
  - intros _. exists c, r. split; [reflexivity|exact E].
Qed.
Lemma span_head_false p x t : p x = false -> span p (x :: t) = O.
Proof. intro H. cbn. rewrite H. reflexivity. Qed.

Lemma drop_app_le n : forall (s t : bstr), (n <= length s)%nat -> drop n (s ++ t) = drop n s ++ t.
Proof. induction n as [|n IH]; intros s t H; [reflexivity|]. destruct s as [|c s]; cbn in *; [lia|]. apply IH. lia. Qed.
Lemma take_app_le n : forall (s t : bstr), (n <= length s)%nat -> take n (s ++ t) = take n s.
Proof. induction n as [|n IH]; intros s t H; [reflexivity|]. destruct s as [|c s]; cbn in *; [lia|]. f_equal. apply IH. lia. Qed.
Lemma drop_length (s : bstr) : drop (length s) s = [].
Proof. induction s as [|c s IH]; cbn; auto. Qed.
Lemma drop_length_app (s t : bstr) : drop (length s) (s ++ t) = t.
Proof. induction s as [|c s IH]; cbn; auto. Qed.

Lemma last_cons_ne {A} (c : A) r d : r <> [] -> last (c :: r) d = last r d.
Proof. destruct r; [congruence|reflexivity]. Qed.
Lemma last_forallb p (s : bstr) d : s <> [] -> forallb p s = true -> p (last s d) = true.
Proof.
  induction s as [|c s IH]; [congruence|]. intros _ H. cbn [forallb] in H. apply andb_prop in H. destruct H as [H1 H2].
  destruct s as [|c2 s]; [exact H1|]. rewrite last_cons_ne by discriminate. apply IH; [discriminate|exact H2].
Qed.
Lemma last_drop n : forall (s : bstr) d, (n < length s)%nat -> last (drop n s) d = last s d.
Proof.
  induction n as [|n IH]; intros s d H; [reflexivity|]. destruct s as [|c s]; cbn in H; [lia|]. cbn [drop].
  rewrite IH by lia. destruct s; [cbn in H; lia|reflexivity].
Qed.

(* ---- prefixes and the punctuator table ---- *)
Lemma is_prefix_app p : forall s t, is_prefix p s = true -> is_prefix p (s ++ t) = true.
Proof.
  induction p as [|a p IH]; intros s t H; [reflexivity|]. destruct s as [|c s]; [discriminate|]. cbn in *.
  apply andb_prop in H. destruct H as [H1 H2]. rewrite H1. apply IH. exact H2.
Qed.
Lemma is_prefix_cross p : forall s t, is_prefix p (s ++ t) = true ->
  is_prefix p s = true \/ exists b v r', p = s ++ b :: v /\ t = b :: r'.
Proof.
  induction p as [|a p IH]; intros s t H; [left; reflexivity|]. destruct s as [|c s].
  - cbn [app] in H. destruct t as [|b r']; [discriminate|]. cbn in H. apply andb_prop in H. destruct H as [H1 _].
    apply N.eqb_eq in H1. subst. right. exists b, p, r'. split; reflexivity.
  - cbn in H. apply andb_prop in H. destruct H as [H1 H2]. destruct (IH s t H2) as [L|(b & v & r' & E1 & E2)].
    + left. cbn. rewrite H1. exact L.
    + right. apply N.eqb_eq in H1. subst. exists b, v, r'. split; reflexivity.
Qed.

(* a and b stand next to each other in p *)
Fixpoint adj (a b : N) (p : bstr) : bool :=
  match p with
  | x :: ((y :: _) as r) => ((x =? a) && (y =? b)) || adj a b r
  | _ => false
  end.
Lemma adj_cons a b x y r : adj a b (x :: y :: r) = ((x =? a) && (y =? b)) || adj a b (y :: r).
Proof. reflexivity. Qed.
Lemma adj_split s : forall b v, s <> [] -> adj (last s 0) b (s ++ b :: v) = true.
Proof.
  induction s as [|c s IH]; intros b v H; [congruence|]. destruct s as [|c2 s].
  - cbn. rewrite !N.eqb_refl. reflexivity.
  - rewrite last_cons_ne by discriminate. change ((c :: c2 :: s) ++ b :: v) with (c :: c2 :: (s ++ b :: v)).
    rewrite adj_cons. change (c2 :: s ++ b :: v) with ((c2 :: s) ++ b :: v). rewrite IH by discriminate. apply orb_true_r.
Qed.
Definition glue (a b : N) : bool := existsb (fun e => adj a b (fst e)) punct_table.

Lemma find_punct_app tbl s t : s <> [] ->
  (forall b r', t = b :: r' -> existsb (fun e : bstr * option punct => adj (last s 0) b (fst e)) tbl = false) ->
  find_punct tbl (s ++ t) = find_punct tbl s.
Proof.
  intros Hs. induction tbl as [|[p r] tbl IH]; intro H; [reflexivity|]. cbn [find_punct].
  destruct (is_prefix p s) eqn:E.
  - rewrite is_prefix_app by exact E. reflexivity.
  - destruct (is_prefix p (s ++ t)) eqn:E2.
    + exfalso. destruct (is_prefix_cross p s t E2) as [L|(b & v & r' & E1 & Et)]; [congruence|].
      specialize (H b r' Et). cbn [existsb fst] in H. subst p. rewrite adj_split in H by exact Hs. discriminate.
    + apply IH. intros b r' Et. specialize (H b r' Et). cbn [existsb] in H. apply orb_false_elim in H. apply H.
Qed.

(* ---- the lookahead of the flag ---- *)
Lemma skip_spaces_all r t : skip_spaces r = [] -> skip_spaces (r ++ t) = skip_spaces t.
Proof. induction r as [|c r IH]; cbn; [reflexivity|]. destruct (is_space c); [exact IH|discriminate]. Qed.
Lemma skip_spaces_some r t : skip_spaces r <> [] -> skip_spaces (r ++ t) = skip_spaces r ++ t.
Proof. induction r as [|c r IH]; cbn; [congruence|]. destruct (is_space c); [exact IH|reflexivity]. Qed.
Lemma skip_spaces_span r : skip_spaces r = drop (span is_space r) r.
Proof. induction r as [|c r IH]; cbn; [reflexivity|]. destruct (is_space c); [exact IH|reflexivity]. Qed.
Lemma skip_spaces_nil_all r : skip_spaces r = [] -> forallb is_space r = true.
Proof. induction r as [|c r IH]; cbn; [reflexivity|]. destruct (is_space c); [exact IH|discriminate]. Qed.
Lemma skip_spaces_last r d : skip_spaces r <> [] -> last (skip_spaces r) d = last r d.
Proof.
  induction r as [|c r IH]; cbn [skip_spaces]; [congruence|]. destruct (is_space c) eqn:E.
  - intro H. rewrite IH by exact H. destruct r; [cbn in H; congruence|reflexivity].
  - reflexivity.
Qed.

(* the flag lookahead over r, continued by t: unchanged when the last byte of (c :: r) is not white space followed by ++,
   and not a + followed by + *)
Lemma incr_app c r t :
  ((is_space (last (c :: r) 0) = true) -> incr_next t = false) ->
  (forall b r', t = b :: r' -> glue (last (c :: r) 0) b = false) ->
  is_space c = true ->
  incr_next (r ++ t) = incr_next r /\ (incr_next r = true -> incr_skip (r ++ t) = incr_skip r).
Proof.
  intros Hsp Hgl Hc. unfold incr_next, incr_skip. destruct (skip_spaces r) as [|x [|y w]] eqn:E.
  - (* only white space up to the end *)
    rewrite skip_spaces_all by exact E. cbn [is_prefix]. split; [|discriminate].
    apply Hsp. destruct r as [|c2 r2]; [exact Hc|]. rewrite last_cons_ne by discriminate.
    apply last_forallb; [discriminate|]. apply skip_spaces_nil_all. exact E.
  - rewrite skip_spaces_some by (rewrite E; discriminate). rewrite E. split.
    + cbn [app is_prefix]. destruct (43 =? x) eqn:Ex; [|reflexivity]. cbn [andb]. destruct t as [|b r']; [reflexivity|].
      cbn [is_prefix]. destruct (43 =? b) eqn:Eb; [|reflexivity]. exfalso.
      apply N.eqb_eq in Ex. apply N.eqb_eq in Eb. subst x b.
      assert (L : last (c :: r) 0 = 43).
      { assert (Hr : r <> []) by (intro; subst r; discriminate E). rewrite last_cons_ne by exact Hr.
        rewrite <- (skip_spaces_last r 0) by (rewrite E; discriminate). rewrite E. reflexivity. }
      specialize (Hgl 43 r' eq_refl). rewrite L in Hgl. vm_compute in Hgl. discriminate.
    + cbn [is_prefix]. rewrite andb_false_r. discriminate.
  - rewrite skip_spaces_some by (rewrite E; discriminate). rewrite E. split.
    + cbn [app is_prefix]. reflexivity.
    + intros _. f_equal. apply span_app_stop. pose proof (span_le is_space r) as Hle.
      destruct (Nat.eq_dec (span is_space r) (length r)) as [Q|Q]; [|lia].
      rewrite skip_spaces_span, Q, drop_length in E. discriminate.
Qed.
