(* C17: the keyword clause of [lex_ok] is the decidable predicate [c17_kw_clause] (Spec/LexKeyword.v). *)
From Soy Require Import Model.Bytes Model.Num Model.Values Model.Ast Model.Token Model.AstPrint Generated.Tables Spec.ExprSyntax Spec.LexKeyword
  Proofs.ExprParserProofs Proofs.LexTokens Proofs.LexExpr Proofs.LexPrint Proofs.LexPrintMain Proofs.LexPrintCmd.
From Coq Require Import ZifyBool ZifyNat ZifyN Lia.
Open Scope N_scope.

(* an identifier: its shape, and the keyword clause *)
Definition word_shape (w : bstr) : Prop := exists c0 cs, w = c0 :: cs /\ c0 < 128 /\ letter_b c0 = true /\ alnums cs.

Lemma plain_word_iff w : plain_word w <-> word_shape w /\ c17_not_keyword w = true.
Proof.
  unfold plain_word, word_shape, c17_not_keyword. split.
  - intros (c0 & cs & E & A & B & C & D). split; [exists c0, cs; auto|]. rewrite D. reflexivity.
  - intros [(c0 & cs & E & A & B & C) D]. exists c0, cs. repeat split; try assumption.
    destruct (assoc_s w builtin_idents); [discriminate|reflexivity].
Qed.

Lemma dotted_ok_head name : dotted_ok name -> c17_not_keyword (c17_global_head name) = true.
Proof.
  unfold dotted_ok, c17_global_head. destruct (split_dots [] name) as [|first rest]; [contradiction|].
  intros [H _]. apply plain_word_iff in H. tauto.
Qed.

Lemma forallb_concat_map {A} (P : bstr -> bool) (f : A -> list bstr) l :
  (forall x, In x l -> forallb P (f x) = true) -> forallb P (concat (map f l)) = true.
Proof.
  induction l as [|a l IH]; intros H; [reflexivity|]. cbn [map concat]. rewrite forallb_app, (H a (or_introl eq_refl)), IH; [reflexivity|].
  intros x Hx. apply H. right. exact Hx.
Qed.

Lemma allP_In {A} (P : A -> Prop) l : allP P l -> forall x, In x l -> P x.
Proof. induction l as [|a l IH]; intros H x Hx; [contradiction|]. destruct H as [Ha Hl]. destruct Hx as [<-|Hx]; [exact Ha|apply IH; assumption]. Qed.

(* lex_ok implies the keyword clause *)
Theorem lex_ok_kw_clause : forall e, lex_ok e -> c17_kw_clause e = true.
Proof.
  unfold c17_kw_clause. induction e as [e IH] using size_induction. intros H.
  destruct e; cbn [lex_ok] in H; try contradiction; cbn [c17_idents]; try reflexivity.
  - (* global *) cbn [forallb]. rewrite (dotted_ok_head _ H). reflexivity.
  - (* func *) destruct H as [Hn Ha]. cbn [forallb]. apply plain_word_iff in Hn. destruct Hn as [_ ->]. cbn [andb].
    apply forallb_concat_map. intros c Hc. apply IH; [cbn [size]; pose proof (size_in_list c args Hc); lia|exact (allP_In _ _ Ha c Hc)].
  - (* list *) apply forallb_concat_map. intros c Hc. apply IH; [cbn [size]; pose proof (size_in_list c items Hc); lia|exact (allP_In _ _ H c Hc)].
  - (* map *) apply forallb_concat_map. intros kv Hc. apply IH; [cbn [size]; pose proof (list_sum_In (fun kv => size (snd kv)) kv _ Hc); lia|].
    exact (proj2 (allP_In _ _ H kv Hc)).
  - (* data ref *) destruct H as [_ Ha]. apply forallb_concat_map. intros c Hc. pose proof (allP_In _ _ Ha c Hc) as Hcc. cbn beta in Hcc.
    destruct c; try contradiction; try reflexivity. cbn [c17_idents].
    apply IH; [|exact Hcc]. pose proof (size_in_list _ access Hc) as Hs. cbn [size] in Hs |- *. lia.
  - (* not *) apply IH; [cbn [size]; lia|exact H].
  - (* neg *) apply IH; [cbn [size]; lia|exact H].
  - (* bin *) destruct H as [H1 H2]. rewrite forallb_app, IH, IH; try assumption; try reflexivity; cbn [size]; lia.
  - (* tern *) destruct H as (H1 & H2 & H3). rewrite !forallb_app, IH, IH, IH; try assumption; try reflexivity; cbn [size]; lia.
Qed.

(* ... and so does lex_ok_print, directive names included *)
Theorem lex_ok_print_kw_clause n : lex_ok_print n -> c17_kw_clause n = true.
Proof.
  destruct n; cbn [lex_ok_print]; try contradiction. intros [Ha Hd]. unfold c17_kw_clause. cbn [c17_idents].
  rewrite forallb_app. fold (c17_kw_clause n). rewrite (lex_ok_kw_clause _ Ha). cbn [andb].
  apply forallb_concat_map. intros d Hin. pose proof (allP_In _ _ Hd d Hin) as Hdd.
  destruct d; cbn [lex_ok_directive] in Hdd; try contradiction. destruct Hdd as [Hn Hargs]. cbn [c17_idents forallb].
  apply plain_word_iff in Hn. destruct Hn as [_ ->]. cbn [andb].
  apply forallb_concat_map. intros c Hc. apply lex_ok_kw_clause. exact (allP_In _ _ Hargs c Hc).
Qed.

(* ---------- the converse: lex_ok = shape + keyword clause ----------
   [lex_shape] is [lex_ok] with "is an ASCII word" in place of "is an ASCII word that is not a keyword" at the
   identifiers that are printed bare (function names, the head of a global's dotted name); every other clause is
   the same.  lex_ok e <-> lex_shape e /\ c17_kw_clause e = true: the decidable clause the harness evaluates is
   exactly what lex_ok demands of identifiers beyond their shape. *)
Definition dotted_shape (name : bstr) : Prop :=
  match split_dots [] name with
  | first :: rest => word_shape first /\ Forall dot_seg rest
  | [] => False
  end.

Fixpoint lex_shape (e : node) : Prop :=
  match e with
  | NNull _ | NBool _ _ | NInt _ _ => True
  | NFloat _ f => match fl_print f with Some s => float_txt_ok s | None => True end
  | NString _ q _ => str_ok q
  | NGlobal _ name _ => dotted_shape name
  | NFunc _ name args => word_shape name /\ allP lex_shape args
  | NListLit _ items => allP lex_shape items
  | NMapLit _ items => allP (fun kv => str_ok (quote_key (fst kv)) /\ lex_shape (snd kv)) items
  | NDataRef _ key acc =>
      alnums key /\
      allP (fun a => match a with
                     | NAccIndex _ _ _ => True
                     | NAccKey _ _ k => alnums k /\ head_digit k = false
                     | NAccExpr _ _ x => lex_shape x
                     | _ => False
                     end) acc
  | NNot _ a | NNeg _ a => lex_shape a
  | NBin _ _ a1 a2 => lex_shape a1 /\ lex_shape a2
  | NTern _ c x y => lex_shape c /\ lex_shape x /\ lex_shape y
  | _ => False
  end.

Lemma allP_of_In {A} (P : A -> Prop) l : (forall x, In x l -> P x) -> allP P l.
Proof. induction l as [|a l IH]; intros H; [exact I|]. split; [apply H; left; reflexivity|apply IH; intros x Hx; apply H; right; exact Hx]. Qed.

Lemma forallb_concat_map_inv {A} (P : bstr -> bool) (f : A -> list bstr) l :
  forallb P (concat (map f l)) = true -> forall x, In x l -> forallb P (f x) = true.
Proof.
  induction l as [|a l IH]; intros H x Hx; [contradiction|]. cbn [map concat] in H. rewrite forallb_app in H.
  apply Bool.andb_true_iff in H. destruct H as [Ha Hl]. destruct Hx as [<-|Hx]; [exact Ha|apply IH; assumption].
Qed.

Lemma dotted_ok_iff name : dotted_ok name <-> dotted_shape name /\ c17_not_keyword (c17_global_head name) = true.
Proof.
  unfold dotted_ok, dotted_shape, c17_global_head. destruct (split_dots [] name) as [|first rest]; [tauto|].
  rewrite plain_word_iff. tauto.
Qed.

Theorem lex_ok_iff : forall e, lex_ok e <-> lex_shape e /\ c17_kw_clause e = true.
Proof.
  unfold c17_kw_clause. induction e as [e IH] using size_induction.
  destruct e; cbn [lex_ok lex_shape c17_idents forallb]; try tauto.
  - (* global *) rewrite dotted_ok_iff, Bool.andb_true_r. tauto.
  - (* func *) rewrite plain_word_iff, Bool.andb_true_iff. split.
    + intros [[Hw Hk] Ha]. split; [split; [exact Hw|]|split; [exact Hk|]].
      * apply allP_of_In. intros c Hc. apply (IH c); [cbn [size]; pose proof (size_in_list c args Hc); lia|exact (allP_In _ _ Ha c Hc)].
      * apply forallb_concat_map. intros c Hc. apply (IH c); [cbn [size]; pose proof (size_in_list c args Hc); lia|exact (allP_In _ _ Ha c Hc)].
    + intros [[Hw Ha] [Hk Hf]]. split; [tauto|]. apply allP_of_In. intros c Hc.
      apply (IH c); [cbn [size]; pose proof (size_in_list c args Hc); lia|]. split; [exact (allP_In _ _ Ha c Hc)|exact (forallb_concat_map_inv _ _ _ Hf c Hc)].
  - (* list *) split.
    + intros Ha. split.
      * apply allP_of_In. intros c Hc. apply (IH c); [cbn [size]; pose proof (size_in_list c items Hc); lia|exact (allP_In _ _ Ha c Hc)].
      * apply forallb_concat_map. intros c Hc. apply (IH c); [cbn [size]; pose proof (size_in_list c items Hc); lia|exact (allP_In _ _ Ha c Hc)].
    + intros [Ha Hf]. apply allP_of_In. intros c Hc.
      apply (IH c); [cbn [size]; pose proof (size_in_list c items Hc); lia|]. split; [exact (allP_In _ _ Ha c Hc)|exact (forallb_concat_map_inv _ _ _ Hf c Hc)].
  - (* map *) assert (Hsz : forall kv, In kv items -> (size (snd kv) < size (NMapLit p items))%nat).
    { intros kv Hc. cbn [size]. pose proof (list_sum_In (fun kv => size (snd kv)) kv _ Hc). lia. }
    split.
    + intros Ha. split.
      * apply allP_of_In. intros kv Hc. destruct (allP_In _ _ Ha kv Hc) as [Hq Hv]. split; [exact Hq|]. apply (IH (snd kv) (Hsz kv Hc)). exact Hv.
      * apply forallb_concat_map. intros kv Hc. apply (IH (snd kv) (Hsz kv Hc)). exact (proj2 (allP_In _ _ Ha kv Hc)).
    + intros [Ha Hf]. apply allP_of_In. intros kv Hc. destruct (allP_In _ _ Ha kv Hc) as [Hq Hv]. split; [exact Hq|].
      apply (IH (snd kv) (Hsz kv Hc)). split; [exact Hv|exact (forallb_concat_map_inv _ _ _ Hf kv Hc)].
  - (* data ref *) assert (Hsz : forall nsf q x, In (NAccExpr q nsf x) access -> (size x < size (NDataRef p key access))%nat).
    { intros nsf q x Hc. pose proof (size_in_list _ access Hc) as Hs. cbn [size] in Hs |- *. lia. }
    split.
    + intros [Hk Ha]. split; [split; [exact Hk|]|].
      * apply allP_of_In. intros a Hc. pose proof (allP_In _ _ Ha a Hc) as Hcc. cbn beta in Hcc |- *.
        destruct a; try contradiction; try exact Hcc. apply (IH a (Hsz _ _ _ Hc)). exact Hcc.
      * apply forallb_concat_map. intros a Hc. pose proof (allP_In _ _ Ha a Hc) as Hcc. cbn beta in Hcc.
        destruct a; try contradiction; try reflexivity. cbn [c17_idents]. apply (IH a (Hsz _ _ _ Hc)). exact Hcc.
    + intros [[Hk Ha] Hf]. split; [exact Hk|]. apply allP_of_In. intros a Hc. pose proof (allP_In _ _ Ha a Hc) as Hcc. cbn beta in Hcc |- *.
      pose proof (forallb_concat_map_inv _ _ _ Hf a Hc) as Hfa.
      destruct a; try contradiction; try exact Hcc. cbn [c17_idents] in Hfa. apply (IH a (Hsz _ _ _ Hc)). split; assumption.
  - (* not *) apply IH. cbn [size]. lia.
  - (* neg *) apply IH. cbn [size]. lia.
  - (* bin *) rewrite forallb_app, Bool.andb_true_iff, (IH e1), (IH e2); [tauto|cbn [size]; lia|cbn [size]; lia].
  - (* tern *) rewrite !forallb_app, !Bool.andb_true_iff, (IH e1), (IH e2), (IH e3); [tauto|cbn [size]; lia..].
Qed.

(* print commands: directive names too *)
Definition lex_shape_directive (d : node) : Prop :=
  match d with NDirective _ name args => word_shape name /\ allP lex_shape args | _ => False end.
Definition lex_shape_print (n : node) : Prop :=
  match n with NPrint _ arg dirs => lex_shape arg /\ allP lex_shape_directive dirs | _ => False end.

Theorem lex_ok_print_iff n : lex_ok_print n <-> lex_shape_print n /\ c17_kw_clause n = true.
Proof.
  destruct n; cbn [lex_ok_print lex_shape_print]; try tauto. unfold c17_kw_clause. cbn [c17_idents].
  rewrite forallb_app, Bool.andb_true_iff. fold (c17_kw_clause n). rewrite (lex_ok_iff n). unfold c17_kw_clause.
  assert (Hd : forall d, lex_ok_directive d <-> lex_shape_directive d /\ forallb c17_not_keyword (c17_idents d) = true).
  { intros d. destruct d; cbn [lex_ok_directive lex_shape_directive]; try tauto. cbn [c17_idents forallb].
    rewrite plain_word_iff, Bool.andb_true_iff. split.
    - intros [[Hw Hk] Ha]. split; [split; [exact Hw|]|split; [exact Hk|]].
      + apply allP_of_In. intros c Hc. apply (lex_ok_iff c). exact (allP_In _ _ Ha c Hc).
      + apply forallb_concat_map. intros c Hc. apply (lex_ok_iff c). exact (allP_In _ _ Ha c Hc).
    - intros [[Hw Ha] [Hk Hf]]. split; [tauto|]. apply allP_of_In. intros c Hc. apply (lex_ok_iff c).
      split; [exact (allP_In _ _ Ha c Hc)|exact (forallb_concat_map_inv _ _ _ Hf c Hc)]. }
  split.
  - intros [Ha Hds]. split; [split; [tauto|]|split; [tauto|]].
    + apply allP_of_In. intros d Hin. apply (Hd d). exact (allP_In _ _ Hds d Hin).
    + apply forallb_concat_map. intros d Hin. apply (Hd d). exact (allP_In _ _ Hds d Hin).
  - intros [[Ha Hds] [Hk Hf]]. split; [tauto|]. apply allP_of_In. intros d Hin. apply (Hd d).
    split; [exact (allP_In _ _ Hds d Hin)|exact (forallb_concat_map_inv _ _ _ Hf d Hin)].
Qed.
