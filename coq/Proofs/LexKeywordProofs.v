(* C17: the keyword clause of [lex_ok] is the decidable predicate [c17_kw_clause] (Spec/LexKeyword.v). *)
From Soy Require Import Model.Bytes Model.Ast Model.Token Generated.Tables Spec.ExprSyntax Spec.LexKeyword
  Proofs.ExprParserProofs Proofs.LexTokens Proofs.LexExpr Proofs.LexPrint Proofs.LexPrintMain Proofs.LexPrintCmd.
From Coq Require Import ZifyBool ZifyNat ZifyN Lia.
Open Scope N_scope.

(* an identifier: its shape, and the keyword clause *)
Definition word_shape (w : bstr) : Prop := exists c0 cs, w = c0 :: cs /\ c0 < 128 /\ letter_b c0 = true /\ alnums cs.

Lemma plain_word_iff w : plain_word w <-> word_shape w /\ c17_not_keyword w = true.
Proof.
  unfold plain_word, word_shape, c17_not_keyword. split.
  - intros (c0 & cs & E & A & B & C & D). split; [exists c0, cs; auto|]. rewrite D. reflexivity.
  - intros [(c0 & cs & E & A & B & C) D]. exists c0, cs. repeat split; try assumption.
    destruct (assoc_s w builtin_idents); [discriminate|reflexivity].
Qed.

Lemma dotted_ok_head name : dotted_ok name -> c17_not_keyword (c17_global_head name) = true.
Proof.
  unfold dotted_ok, c17_global_head. destruct (split_dots [] name) as [|first rest]; [contradiction|].
  intros [H _]. apply plain_word_iff in H. tauto.
Qed.

Lemma forallb_concat_map {A} (P : bstr -> bool) (f : A -> list bstr) l :
  (forall x, In x l -> forallb P (f x) = true) -> forallb P (concat (map f l)) = true.
Proof.
  induction l as [|a l IH]; intros H; [reflexivity|]. cbn [map concat]. rewrite forallb_app, (H a (or_introl eq_refl)), IH; [reflexivity|].
  intros x Hx. apply H. right. exact Hx.
Qed.

Lemma allP_In {A} (P : A -> Prop) l : allP P l -> forall x, In x l -> P x.
Proof. induction l as [|a l IH]; intros H x Hx; [contradiction|]. destruct H as [Ha Hl]. destruct Hx as [<-|Hx]; [exact Ha|apply IH; assumption]. Qed.

(* lex_ok implies the keyword clause *)
Theorem lex_ok_kw_clause : forall e, lex_ok e -> c17_kw_clause e = true.
Proof.
  unfold c17_kw_clause. induction e as [e IH] using size_induction. intros H.
  destruct e; cbn [lex_ok] in H; try contradiction; cbn [c17_idents]; try reflexivity.
  - (* global *) cbn [forallb]. rewrite (dotted_ok_head _ H). reflexivity.
  - (* func *) destruct H as [Hn Ha]. cbn [forallb]. apply plain_word_iff in Hn. destruct Hn as [_ ->]. cbn [andb].
    apply forallb_concat_map. intros c Hc. apply IH; [cbn [size]; pose proof (size_in_list c args Hc); lia|exact (allP_In _ _ Ha c Hc)].
  - (* list *) apply forallb_concat_map. intros c Hc. apply IH; [cbn [size]; pose proof (size_in_list c items Hc); lia|exact (allP_In _ _ H c Hc)].
  - (* map *) apply forallb_concat_map. intros kv Hc. apply IH; [cbn [size]; pose proof (list_sum_In (fun kv => size (snd kv)) kv _ Hc); lia|].
    exact (proj2 (allP_In _ _ H kv Hc)).
  - (* data ref *) destruct H as [_ Ha]. apply forallb_concat_map. intros c Hc. pose proof (allP_In _ _ Ha c Hc) as Hcc. cbn beta in Hcc.
    destruct c; try contradiction; try reflexivity. cbn [c17_idents].
    apply IH; [|exact Hcc]. pose proof (size_in_list _ access Hc) as Hs. cbn [size] in Hs |- *. lia.
  - (* not *) apply IH; [cbn [size]; lia|exact H].
  - (* neg *) apply IH; [cbn [size]; lia|exact H].
  - (* bin *) destruct H as [H1 H2]. rewrite forallb_app, IH, IH; try assumption; try reflexivity; cbn [size]; lia.
  - (* tern *) destruct H as (H1 & H2 & H3). rewrite !forallb_app, IH, IH, IH; try assumption; try reflexivity; cbn [size]; lia.
Qed.

(* ... and so does lex_ok_print, directive names included *)
Theorem lex_ok_print_kw_clause n : lex_ok_print n -> c17_kw_clause n = true.
Proof.
  destruct n; cbn [lex_ok_print]; try contradiction. intros [Ha Hd]. unfold c17_kw_clause. cbn [c17_idents].
  rewrite forallb_app. fold (c17_kw_clause n). rewrite (lex_ok_kw_clause _ Ha). cbn [andb].
  apply forallb_concat_map. intros d Hin. pose proof (allP_In _ _ Hd d Hin) as Hdd.
  destruct d; cbn [lex_ok_directive] in Hdd; try contradiction. destruct Hdd as [Hn Hargs]. cbn [c17_idents forallb].
  apply plain_word_iff in Hn. destruct Hn as [_ ->]. cbn [andb].
  apply forallb_concat_map. intros c Hc. apply lex_ok_kw_clause. exact (allP_In _ _ Hargs c Hc).
Qed.
