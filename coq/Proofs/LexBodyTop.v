(* C15, scanner half, top level: the items lex() sends for a file that is one stretch of template text
   without braces, in the Spec's terms ([pieces]: the text cut at its comments), and the clause
   "http://x is not a comment". *)
From Soy Require Import Model.Bytes Model.Utf8 Model.Outcome Model.Token Generated.Tables Model.Lexer Spec.Text
  Proofs.LexerPrim Proofs.LexerStates Proofs.LexerProofs Proofs.LexTokens Proofs.LexPrintTop Proofs.LexBodyText.
From Coq Require Import ZifyBool ZifyNat ZifyN Lia.
Open Scope Z_scope.

(* the item list of a text cut into the pieces [x1; ...; xn] by n-1 comments: for each piece its text item
   (none when the piece is empty or white space with a line break; before a "//" comment the white-space
   byte in front of the comment belongs to neither item), then the comment item; EOF at the end *)
Inductive shape : list bstr -> list tok -> Prop :=
| shape_last x txt e : is_text_of x txt -> t_typ e = itemEOF -> shape [x] (txt ++ [e])
| shape_more x x' txt c rest items :
    is_text_of x' txt -> (x = x' \/ exists b, ws b = true /\ x = x' ++ [b]) -> t_typ c = itemComment ->
    shape rest items -> shape (x :: rest) (txt ++ c :: items).

Section Top.
Variable uni_letter uni_digit : Z -> bool.
Variable inp : bstr.
Notation ilen := (Z.of_nat (length inp)).
Notation span := (span inp).
Notation steps := (steps uni_letter uni_digit inp 0).

Lemma fuel_ok l w s : span l w s -> (length s < loop_fuel ilen l)%nat.
Proof. intros Hs. pose proof (span_bounds _ _ _ _ Hs) as (Hb & Hl). unfold loop_fuel. lia. Qed.

Theorem lex_text_body : forall n s, (length s <= n)%nat -> forall l pcs,
  span l [] s -> plain s -> pieces MText (pwof 0 l) [] s = Some pcs ->
  exists k l' items, steps k LText l = Ok (LDone, l') /\ l_out l' = rev items ++ l_out l /\ shape pcs items.
Proof.
  induction n as [|n IH]; intros s Hn l pcs Hs Hpl Hpc.
  - destruct s; [|cbn in Hn; lia].
    destruct (text_loop_run inp 0 [] (le_n _) [] l 0 (loop_fuel ilen l) pcs Hs (fuel_ok _ _ _ Hs) Hpl (fun _ => eq_refl)
                ltac:(intros E; congruence) Hpc) as (st' & l' & Hrun & (x & rest & txt & Hp & _ & Hres)).
    destruct Hres as [(A & B & C & e & D & E)|[(x' & s2 & _ & _ & _ & _ & _ & (F & _) & _)|(s2 & _ & _ & _ & _ & (F & _) & _)]];
      [|cbn in F; lia|cbn in F; lia].
    subst. exists 1%nat, l', (txt ++ [e]). split; [apply steps_one; exact Hrun|].
    split; [rewrite E, rev_app_distr; reflexivity|]. apply shape_last; assumption.
  - destruct (text_loop_run inp (length s) s (le_n _) [] l 0 (loop_fuel ilen l) pcs Hs (fuel_ok _ _ _ Hs) Hpl (fun _ => eq_refl)
                ltac:(intros E; congruence) Hpc) as (st' & l1 & Hrun & (x & rest & txt & Hp & Hdd & Hres)).
    destruct Hres as [(A & B & C & e & D & E)|[(x' & s2 & A & B & C & D & E & (F1 & F2) & G)|(s2 & A & B & C & D & (F1 & F2) & G)]].
    + subst. exists 1%nat, l1, (txt ++ [e]). split; [apply steps_one; exact Hrun|].
      split; [rewrite E, rev_app_distr; reflexivity|]. apply shape_last; assumption.
    + subst st'.
      destruct (line_comment_run inp (length s2) s2 (le_n _) _ l1 (loop_fuel ilen l1) rest E (fuel_ok _ _ _ E) G)
        as (l2 & s3 & v & p & Hrun2 & Hs3 & (Hl3 & Hsf3) & Ho2 & Hdd2 & Hpc3).
      destruct (IH s3 ltac:(lia) l2 rest Hs3 (Hsf3 _ (F2 _ Hpl)) Hpc3) as (k & l' & items & Hst & Ho' & Hsh).
      exists (1 + (1 + k))%nat, l', (txt ++ {| t_typ := itemComment; t_pos := p; t_val := v |} :: items).
      split.
      { assert (H1 : steps 1 LText l = Ok (LLineComment, l1)) by (apply steps_one; exact Hrun).
        assert (H2 : steps 1 LLineComment l1 = Ok (LText, l2)) by (apply steps_one; exact Hrun2).
        rewrite (steps_app _ _ _ _ 1 (1 + k) _ _ _ _ H1), (steps_app _ _ _ _ 1 k _ _ _ _ H2). exact Hst. }
      split.
      { rewrite Ho', Ho2, C, rev_app_distr. cbn [rev]. rewrite <- !app_assoc. reflexivity. }
      subst pcs. eapply shape_more; [exact B|exact D|reflexivity|exact Hsh].
    + subst st'.
      destruct (block_comment_run inp (length s2) s2 (le_n _) _ l1 (loop_fuel ilen l1) false rest D (fuel_ok _ _ _ D) G)
        as (l2 & s3 & v & p & Hrun2 & Hs3 & (Hl3 & Hsf3) & Ho2 & Hdd2 & Hpw & Hpc3).
      rewrite <- Hpw in Hpc3.
      destruct (IH s3 ltac:(lia) l2 rest Hs3 (Hsf3 _ (F2 _ Hpl)) Hpc3) as (k & l' & items & Hst & Ho' & Hsh).
      exists (1 + (1 + k))%nat, l', (txt ++ {| t_typ := itemComment; t_pos := p; t_val := v |} :: items).
      split.
      { assert (H1 : steps 1 LText l = Ok (LBlockComment, l1)) by (apply steps_one; exact Hrun).
        assert (H2 : steps 1 LBlockComment l1 = Ok (LText, l2)) by (apply steps_one; exact Hrun2).
        rewrite (steps_app _ _ _ _ 1 (1 + k) _ _ _ _ H1), (steps_app _ _ _ _ 1 k _ _ _ _ H2). exact Hst. }
      split.
      { rewrite Ho', Ho2, C, rev_app_distr. cbn [rev]. rewrite <- !app_assoc. reflexivity. }
      subst pcs. eapply shape_more; [exact B|left; reflexivity|reflexivity|exact Hsh].
Qed.

End Top.

Lemma lex_run_at_file uni_letter uni_digit fuel s :
  lex_run_at uni_letter uni_digit 0 fuel false s = run uni_letter uni_digit s (Z.of_nat (length s)) 0 fuel LText lex_init.
Proof. reflexivity. Qed.

(* lex(name, T): the whole input is one stretch of text *)
Theorem lex_body_items (uni_letter uni_digit : Z -> bool) :
  uni_letter (-1) = false -> uni_digit (-1) = false ->
  forall T pcs, plain T -> pieces MText true [] T = Some pcs ->
  exists items, lex_items uni_letter uni_digit (lex_budget T) false T = Ok items /\ shape pcs items.
Proof.
  intros Hl Hd T pcs Hpl Hpc.
  assert (Hs0 : span T lex_init [] T).
  { unfold span, lex_init. cbn [l_start l_pos length]. repeat split; try lia. }
  destruct (lex_text_body uni_letter uni_digit T (length T) T (le_n _) lex_init pcs Hs0 Hpl Hpc) as (k & l' & items & Hst & Ho & Hsh).
  destruct (lex_total_linear uni_letter uni_digit Hl Hd 0 ltac:(lia) false T) as (lf & Hr & _).
  pose proof Hr as Hr'. rewrite lex_run_at_file in Hr'.
  pose proof (run_unique uni_letter uni_digit T 0 (lex_budget T) k LText lex_init lf l' Hr' Hst) as E.
  exists items. split; [|exact Hsh]. unfold lex_items, lex_run. rewrite Hr. cbn [bind]. subst lf. rewrite Ho.
  cbn [lex_init l_out]. rewrite app_nil_r, rev_involutive. reflexivity.
Qed.
