(* encoding/json's float layout (Model/NumJson.v): what can be said about the TEXT without a theory of the shortest
   digits.

   - [fl_to_json_chars]: every byte of the text of ANY float is a digit, '-', '+', '.' or 'e' -- so it contains no
     angle bracket, ampersand, quotation mark or backslash and no white space, whatever the digits are (C16's json_encode_inert needs exactly this);
   - [fmt_json_reads]: the three positional layouts and the exponent layout of [fmt_json] are RFC 8259 numbers --
     the number reader of Spec/Json.v consumes exactly the text, for every digit string without a leading zero,
     every position of the decimal point and every continuation that does not continue a number.

   NOT proved here (open): [fl_to_string_dom x = Some s -> fl_to_json x = Some s] (on the exact printing domain the
   shortest digits ARE the exact decimal expansion).  It needs the correctness of [Num.shortest_decimal]
   ([dec_exponent]'s estimate and [shortest_from]'s interval test) -- see the report. *)
From Coq Require Import Lia ZifyN ZifyNat ZifyBool List.
Import ListNotations.
From Soy Require Import Model.Bytes Model.Utf8 Model.Num Model.NumJson Spec.Json Proofs.MsgIdProofs Proofs.CodecJsonNum.
Open Scope N_scope.

Definition jnum_char (c : N) : Prop := is_digit_byte c \/ c = 45 \/ c = 43 \/ c = 46 \/ c = 101.

Lemma jnum_char_inert c : jnum_char c -> c <> 60 /\ c <> 62 /\ c <> 38 /\ c <> 34 /\ c <> 92 /\ c <> 32 /\ c <> 10.
Proof. unfold jnum_char, is_digit_byte. lia. Qed.

Lemma jnum_digits l : Forall is_digit_byte l -> Forall jnum_char l.
Proof. apply Forall_impl. unfold jnum_char. tauto. Qed.

Lemma zeros_digits n : Forall is_digit_byte (zeros n).
Proof. unfold zeros. induction (Z.to_nat n) as [|k IH]; cbn [repeat]; constructor; [unfold is_digit_byte; lia | exact IH]. Qed.

Lemma dec_of_Z_jnum z : Forall jnum_char (dec_of_Z z).
Proof. eapply Forall_impl; [|apply dec_of_Z_chars]. unfold jnum_char. tauto. Qed.

Lemma Forall_firstn {A} (P : A -> Prop) n l : Forall P l -> Forall P (firstn n l).
Proof. revert n. induction l as [|x r IH]; intros [|n] H; cbn [firstn]; try constructor; inversion H; subst; auto. Qed.
Lemma Forall_skipn {A} (P : A -> Prop) n l : Forall P l -> Forall P (skipn n l).
Proof. revert n. induction l as [|x r IH]; intros [|n] H; cbn [skipn]; auto. inversion H; subst; auto. Qed.

Ltac jc := repeat (apply Forall_cons; [unfold jnum_char, is_digit_byte; lia|]); try apply Forall_nil.

Theorem fmt_json_chars sign ds dp : Forall jnum_char sign -> Forall jnum_char ds -> Forall jnum_char (fmt_json sign ds dp).
Proof.
  intros Hs Hd. unfold fmt_json. cbv zeta.
  destruct ((dp - 1 <? -6)%Z || (21 <=? dp - 1)%Z).
  - apply Forall_app. split; [exact Hs|]. apply Forall_app. split.
    + destruct ds as [|d rest]; [constructor|]. inversion Hd; subst. constructor; [assumption|].
      destruct rest; [constructor|]. constructor; [unfold jnum_char; lia | assumption].
    + apply Forall_app. split; [|apply dec_of_Z_jnum]. destruct (dp - 1 <? 0)%Z; jc.
  - destruct (dp <=? 0)%Z.
    + apply Forall_app. split; [exact Hs|]. apply Forall_app. split; [jc|].
      apply Forall_app. split; [apply jnum_digits, zeros_digits | exact Hd].
    + destruct (Z.of_nat (length ds) <=? dp)%Z.
      * apply Forall_app. split; [exact Hs|]. apply Forall_app. split; [exact Hd | apply jnum_digits, zeros_digits].
      * apply Forall_app. split; [exact Hs|]. apply Forall_app. split; [apply Forall_firstn; exact Hd|].
        apply Forall_app. split; [jc | apply Forall_skipn; exact Hd].
Qed.

Lemma shortest_decimal_chars a e ds dp : shortest_decimal a e = Some (ds, dp) -> Forall jnum_char ds.
Proof.
  unfold shortest_decimal. cbv zeta.
  destruct (dec_exponent _ _) as [k|]; [|discriminate].
  destruct (shortest_from _ _ _ _ _ _ _ _) as [[c p]|]; [|discriminate].
  destruct (strip10 20 c p) as [c' p']. intros H. injection H as <- _. apply dec_of_Z_jnum.
Qed.

(* the text json.Marshal writes for a float, whatever float: digits, sign, point, exponent mark *)
Theorem fl_to_json_chars x s : fl_to_json x = Some s -> Forall jnum_char s.
Proof.
  destruct x as [|n|n|m e]; cbn [fl_to_json]; try discriminate.
  - destruct n; intros H; injection H as <-; jc.
  - cbv zeta. destruct (Z.abs m) as [|q|q]; try discriminate.
    destruct (strip2 q e) as [q' e']. destruct (_ && _); [|discriminate].
    destruct (shortest_decimal (Z.pos q') e') as [[ds dp]|] eqn:E; [|discriminate].
    intros H. injection H as <-. apply fmt_json_chars; [destruct (m <? 0)%Z; jc | eapply shortest_decimal_chars; exact E].
Qed.

Corollary fl_to_json_inert x s : fl_to_json x = Some s -> Forall (fun c => c <> 60 /\ c <> 62 /\ c <> 38) s.
Proof.
  intros H. eapply Forall_impl; [|apply (fl_to_json_chars x s H)]. intros c Hc. apply jnum_char_inert in Hc. tauto.
Qed.

(* ------------------------------------------------------------------ *)
(* the layouts are numbers of RFC 8259 *)

Lemma num_exp_run sgn exd rest : (sgn = 43 \/ sgn = 45) -> exd <> [] -> Forall is_digit_byte exd -> stop_nondigit rest ->
  exists ev, num_exp (101 :: sgn :: exd ++ rest) = Some (ev, rest).
Proof.
  intros Hs Hne Hd Hr. unfold num_exp. rewrite N.eqb_refl. cbn [orb].
  assert (E1 : eat 43 (43 :: exd ++ rest) = Some (exd ++ rest)) by reflexivity.
  assert (E2 : eat 43 (45 :: exd ++ rest) = None) by reflexivity.
  assert (E3 : eat 45 (45 :: exd ++ rest) = Some (exd ++ rest)) by reflexivity.
  destruct Hs as [-> | ->]; [rewrite E1 | rewrite E2, E3]; rewrite scan_digits_run by assumption;
    (destruct exd as [|x0 xr]; [congruence|]); cbn [length Nat.add Nat.eqb]; eexists; reflexivity.
Qed.

(* [-] d [. r] e(+|-) digits *)
Lemma json_number_sci pre neg0 d r sgn exd rest :
  (pre = [] /\ neg0 = false) \/ (pre = [45] /\ neg0 = true) ->
  is_digit_byte d -> d <> 48 -> Forall is_digit_byte r ->
  (sgn = 43 \/ sgn = 45) -> exd <> [] -> Forall is_digit_byte exd -> stop_nondigit rest ->
  exists v, json_number (pre ++ (d :: match r with [] => [] | _ => 46 :: r end) ++ 101 :: sgn :: exd ++ rest) = Some (v, rest).
Proof.
  intros Hpre Hd Hd0 Hr Hs Hne Hx Hrest.
  destruct (num_exp_run sgn exd rest Hs Hne Hx Hrest) as (ev & Hexp).
  set (etail := 101 :: sgn :: exd ++ rest) in *.
  set (tail := (match r with [] => [] | _ => 46 :: r end) ++ etail).
  assert (Ht : stop_nondigit tail).
  { subst tail. destruct r; [subst etail|]; reflexivity. }
  unfold json_number.
  assert (num_sign (pre ++ (d :: match r with [] => [] | _ => 46 :: r end) ++ etail) = (neg0, d :: tail)) as ->.
  { unfold num_sign. destruct Hpre as [[-> ->]|[-> ->]].
    - cbn [app eat]. unfold is_digit_byte in Hd. destruct (N.eqb_spec d 45); [lia|reflexivity].
    - reflexivity. }
  rewrite (is_digit_byte_b d Hd). cbn [negb].
  pose proof (scan_digits_run [d] tail 0 0%nat ltac:(constructor; [exact Hd|constructor]) Ht) as Hscan.
  cbn [app] in Hscan. rewrite Hscan. cbn [length Nat.add Nat.eqb].
  destruct (N.eqb_spec d 48) as [|_]; [congruence|]. cbn [andb].
  subst tail. destruct r as [|f0 fr].
  - cbn [app]. unfold num_frac. assert (Ee : eat 46 etail = None) by reflexivity. rewrite Ee, Hexp.
    destruct (dec_norm _ _). eexists; reflexivity.
  - change ((46 :: f0 :: fr) ++ etail) with (46 :: (f0 :: fr) ++ etail).
    unfold num_frac. cbn [eat]. rewrite N.eqb_refl.
    rewrite scan_digits_run by (try assumption; reflexivity). cbn [length Nat.add Nat.eqb]. rewrite Hexp.
    destruct (dec_norm _ _). eexists; reflexivity.
Qed.

Lemma dec_of_Z_abs_digits z : Forall is_digit_byte (dec_of_Z (Z.abs z)) /\ dec_of_Z (Z.abs z) <> [].
Proof. rewrite dec_of_Z_nonneg by lia. split; [apply dec_of_N_digits | apply dec_of_N_nonempty]. Qed.

Lemma stop_num_nd rest : stop_num rest -> stop_nondigit rest.
Proof. apply stop_num_nondigit. Qed.

(* every layout of [fmt_json] is read back, completely, as one number *)
Theorem fmt_json_reads sign ds dp rest :
  (sign = [] \/ sign = [45]) ->
  (exists d r, ds = d :: r /\ d <> 48) -> Forall is_digit_byte ds -> stop_num rest ->
  exists v, json_number (fmt_json sign ds dp ++ rest) = Some (v, rest).
Proof.
  intros Hsign (d & r & -> & Hd0) Hds Hrest.
  assert (Hpre : exists neg0, (sign = [] /\ neg0 = false) \/ (sign = [45] /\ neg0 = true)).
  { destruct Hsign as [->| ->]; [exists false | exists true]; tauto. }
  destruct Hpre as (neg0 & Hpre).
  inversion Hds as [|? ? Hd Hr]; subst.
  unfold fmt_json. cbv zeta.
  destruct ((dp - 1 <? -6)%Z || (21 <=? dp - 1)%Z).
  - (* exponent layout *)
    destruct (dec_of_Z_abs_digits (dp - 1)) as (Hx & Hne).
    rewrite <- !app_assoc. cbn [app].
    apply (json_number_sci sign neg0 d r (if (dp - 1 <? 0)%Z then 45 else 43) _ rest Hpre Hd Hd0 Hr); try assumption.
    + destruct (dp - 1 <? 0)%Z; tauto.
    + apply stop_num_nondigit, Hrest.
  - destruct (Z.leb_spec dp 0) as [Hdp|Hdp].
    + (* 0.000ddd *)
      rewrite <- !app_assoc.
      pose proof (json_number_unsigned [48] (zeros (- dp) ++ d :: r) rest neg0 (or_introl eq_refl)
                    ltac:(repeat constructor; unfold is_digit_byte; lia)
                    ltac:(apply Forall_app; split; [apply zeros_digits | exact Hds]) Hrest sign Hpre) as H.
      destruct (zeros (- dp) ++ d :: r) as [|z0 zr] eqn:Ez; [destruct (zeros (- dp)); discriminate|].
      rewrite <- Ez in H. destruct (dec_norm _ _) as [m1 e1] in H. exists (JvNum neg0 m1 e1). rewrite <- H. f_equal; cbn [app]; rewrite <- ?app_assoc; reflexivity.
    + destruct (Z.leb_spec (Z.of_nat (length (d :: r))) dp) as [Hn|Hn].
      * (* dddd000 *)
        rewrite <- !app_assoc.
        pose proof (json_number_unsigned ((d :: r) ++ zeros (dp - Z.of_nat (length (d :: r)))) [] rest neg0
                      (or_intror (ex_intro _ d (ex_intro _ (r ++ zeros (dp - Z.of_nat (length (d :: r)))) (conj eq_refl Hd0))))
                      ltac:(apply Forall_app; split; [exact Hds | apply zeros_digits]) (Forall_nil _) Hrest sign Hpre) as H.
        destruct (dec_norm _ _) as [m1 e1] in H. exists (JvNum neg0 m1 e1). rewrite <- H. f_equal; cbn [app]; rewrite <- ?app_assoc; reflexivity.
      * (* dd.ddd *)
        rewrite <- !app_assoc.
        assert (Hk : exists k, Z.to_nat dp = S k) by (exists (Nat.pred (Z.to_nat dp)); lia). destruct Hk as (k & Hk).
        rewrite Hk. cbn [firstn skipn].
        assert (Hsk : skipn k r <> []).
        { intros E. apply (f_equal (@length N)) in E. rewrite skipn_length in E. cbn [length] in E, Hn. lia. }
        pose proof (json_number_unsigned (d :: firstn k r) (skipn k r) rest neg0
                      (or_intror (ex_intro _ d (ex_intro _ (firstn k r) (conj eq_refl Hd0))))
                      ltac:(constructor; [exact Hd | apply Forall_firstn; exact Hr])
                      ltac:(apply Forall_skipn; exact Hr) Hrest sign Hpre) as H.
        destruct (skipn k r) as [|s0 sr] eqn:Es; [congruence|].
        destruct (dec_norm _ _) as [m1 e1] in H. exists (JvNum neg0 m1 e1). rewrite <- H. f_equal; cbn [app]; rewrite <- ?app_assoc; reflexivity.
Qed.

(* ------------------------------------------------------------------ *)
(* the digit string of [shortest_decimal] is that of a positive integer: no sign, no leading zero -- so the text of
   EVERY float is read back as one number *)

Lemma pow10_pos k : (0 <= k)%Z -> (0 < pow10 k)%Z.
Proof. intros H. unfold pow10. apply Z.pow_pos_nonneg; lia. Qed.

Lemma in_interval_pos incl lo hi den c p :
  (0 < lo)%Z -> (0 < den)%Z -> in_interval incl lo hi den c p = true -> (0 < c)%Z.
Proof.
  intros Hlo Hden H. unfold in_interval in H. apply andb_prop in H as [H _]. unfold scaled_cmp in H.
  destruct (Z.leb_spec 0 p) as [Hp|Hp].
  - pose proof (pow10_pos p Hp) as H10.
    destruct (Z.compare_spec (c * den) (lo * pow10 p)) as [E|E|E]; try discriminate; nia.
  - pose proof (pow10_pos (- p) ltac:(lia)) as H10.
    destruct (Z.compare_spec (c * pow10 (- p) * den) lo) as [E|E|E]; try discriminate; nia.
Qed.

Lemma shortest_from_pos : forall fuel n k incl x lo hi den c p,
  (0 < x)%Z -> (0 < lo)%Z -> (0 < den)%Z ->
  shortest_from fuel n k incl x lo hi den = Some (c, p) -> (0 < c)%Z.
Proof.
  induction fuel as [|f IH]; intros n k incl x lo hi den c p Hx Hlo Hden H; cbn [shortest_from] in H; [discriminate|].
  cbv zeta in H.
  set (pp := (n - k)%Z) in *.
  set (tn := if (0 <=? pp)%Z then (x * pow10 pp)%Z else x) in *.
  set (td := if (0 <=? pp)%Z then den else (den * pow10 (- pp))%Z) in *.
  assert (Htn : (0 < tn)%Z).
  { subst tn. destruct (Z.leb_spec 0 pp); [pose proof (pow10_pos pp); nia | exact Hx]. }
  assert (Htd : (0 < td)%Z).
  { subst td. destruct (Z.leb_spec 0 pp); [exact Hden | pose proof (pow10_pos (- pp)); nia]. }
  assert (Hcd : (0 <= tn / td)%Z) by (apply Z.div_pos; lia).
  destruct (Z.eqb_spec (tn mod td) 0) as [Er|Er].
  - injection H as <- <-. pose proof (Z.div_mod tn td ltac:(lia)) as Hdm. rewrite Er in Hdm. nia.
  - destruct (in_interval incl lo hi den (tn / td) pp) eqn:Hd;
      destruct (in_interval incl lo hi den (tn / td + 1) pp) eqn:Hu; cbn [andb] in H.
    + pose proof (in_interval_pos _ _ _ _ _ _ Hlo Hden Hd) as Hpos. injection H as <- <-.
      match goal with |- (0 < match ?cmp with _ => _ end)%Z => destruct cmp end; try lia. destruct (Z.even (tn / td)); lia.
    + injection H as <- <-. exact (in_interval_pos _ _ _ _ _ _ Hlo Hden Hd).
    + injection H as <- <-. lia.
    + exact (IH _ _ _ _ _ _ _ _ _ Hx Hlo Hden H).
Qed.

Lemma strip10_pos : forall fuel c p c' p', (0 < c)%Z -> strip10 fuel c p = (c', p') -> (0 < c')%Z.
Proof.
  induction fuel as [|f IH]; intros c p c' p' Hc H; cbn [strip10] in H; [injection H as <- _; exact Hc|].
  destruct ((c mod 10 =? 0)%Z && negb (c =? 0)%Z) eqn:E; [|injection H as <- _; exact Hc].
  apply andb_prop in E as [E _]. apply Z.eqb_eq in E.
  apply (IH _ _ _ _) in H; [exact H|]. pose proof (Z.div_mod c 10 ltac:(lia)). lia.
Qed.

Lemma shortest_decimal_head a e ds dp : (0 < a < two53)%Z -> shortest_decimal a e = Some (ds, dp) ->
  exists d r, ds = d :: r /\ d <> 48 /\ Forall is_digit_byte ds.
Proof.
  intros Ha. unfold shortest_decimal. cbv zeta.
  set (shift := (53 - (Z.log2 a + 1))%Z).
  set (s := (e - shift - 2)%Z).
  set (sc := if (0 <=? s)%Z then (2 ^ s)%Z else 1%Z).
  set (den := if (0 <=? s)%Z then 1%Z else (2 ^ (- s))%Z).
  set (X := (4 * a * 2 ^ shift)%Z).
  destruct (dec_exponent (X * sc) den) as [k|]; [|discriminate].
  destruct (shortest_from 17 1 k (1 <=? shift)%Z (X * sc) ((if (a =? 1)%Z then X - 1 else X - 2) * sc)%Z ((X + 2) * sc)%Z den)
    as [[c p]|] eqn:Es; [|discriminate].
  destruct (strip10 20 c p) as [c' p'] eqn:E10. intros H. injection H as <- _.
  assert (Hsc : (0 < sc)%Z) by (subst sc; destruct (Z.leb_spec 0 s); [apply Z.pow_pos_nonneg; lia | lia]).
  assert (Hden : (0 < den)%Z) by (subst den; destruct (Z.leb_spec 0 s); [lia | apply Z.pow_pos_nonneg; lia]).
  assert (Hshift : (0 <= shift)%Z).
  { assert (Z.log2 a < 53)%Z by (apply Z.log2_lt_pow2; [lia | exact (proj2 Ha)]). subst shift. lia. }
  assert (HX : (4 <= X)%Z).
  { subst X. pose proof (Z.pow_pos_nonneg 2 shift ltac:(lia) Hshift). nia. }
  assert (Hc : (0 < c)%Z).
  { eapply shortest_from_pos; [| |exact Hden|exact Es]; [nia|]. destruct (a =? 1)%Z; nia. }
  pose proof (strip10_pos _ _ _ _ _ Hc E10) as Hc'.
  destruct c' as [|q|q]; try lia. cbn [dec_of_Z].
  destruct (dec_of_N_pos_head q) as (d & r & E & Hdig & Hd0). exists d, r. rewrite E. auto.
Qed.

(* json.Marshal's text for a float -- ANY float it has a text for -- is one RFC 8259 number *)
Theorem fl_to_json_reads x s rest : fl_to_json x = Some s -> stop_num rest ->
  exists v, json_number (s ++ rest) = Some (v, rest).
Proof.
  intros Hs Hrest. destruct x as [|n|n|m e]; cbn [fl_to_json] in Hs; try discriminate.
  - pose proof (json_number_unsigned [48] [] rest n (or_introl eq_refl)
                  ltac:(repeat constructor; unfold is_digit_byte; lia) (Forall_nil _) Hrest (if n then [45] else [])
                  ltac:(destruct n; tauto)) as H.
    destruct (dec_norm _ _) as [m1 e1] in H. exists (JvNum n m1 e1). rewrite <- H.
    destruct n; injection Hs as <-; reflexivity.
  - cbv zeta in Hs. destruct (Z.abs m) as [|q|q]; try discriminate.
    destruct (strip2 q e) as [q' e'].
    destruct (Z.ltb_spec (Z.pos q') two53) as [Hlt|]; [|discriminate]. cbn [andb] in Hs.
    destruct (_ && _); [|discriminate].
    destruct (shortest_decimal (Z.pos q') e') as [[ds dp]|] eqn:E; [|discriminate].
    injection Hs as <-.
    destruct (shortest_decimal_head (Z.pos q') e' ds dp ltac:(lia) E) as (d & r & Eds & Hd0 & Hdig).
    apply fmt_json_reads; [destruct (m <? 0)%Z; tauto | exists d, r; tauto | exact Hdig | exact Hrest].
Qed.
