(* C11, the chain closed: from the BYTES of a catalogue (header and entries, Model/PoHeader.v) to what soyhtml
   writes for a message that has an entry in it.  [new_bundle] keeps, per id, the LAST translated entry
   ([po_find]); so if the last translated entry under a flat message's id carries msgstr_of tr, loading the
   file and rendering the message with the loaded bundle and the loaded plural selector runs the translation's
   items (Proofs/MsgPartsProofs.v translation_places_values). *)
From Coq Require Import Lia ZifyN ZifyNat ZifyBool List Bool ZArith.
From Soy Require Import Model.Bytes Model.Outcome Model.Utf8 Model.Num Model.Values Model.Ast Model.MsgId Model.Interp Model.MsgParts
  Spec.MsgCat Model.PoFile Model.PoEntry Model.PoBundle Model.PoHeader Proofs.PoFileProofs Proofs.PoEntryProofs Proofs.PoBundleProofs
  Proofs.PoHeaderProofs Proofs.MsgPartsProofs.
Import ListNotations.
Open Scope N_scope.

(* the entry newBundle keeps under an id: the last translated one *)
Fixpoint po_find (es : list po_entry) (id : N) (acc : option po_entry) : option po_entry :=
  match es with
  | [] => acc
  | e :: r => if (po_id e =? id) && is_translated (po_strs e) then po_find r id (Some e) else po_find r id acc
  end.

Lemma po_find_acc : forall es id acc,
  po_find es id acc = match po_find es id None with Some e => Some e | None => acc end.
Proof.
  induction es as [|e r IH]; intros id acc; [reflexivity|]. cbn [po_find].
  destruct ((po_id e =? id) && is_translated (po_strs e)).
  - rewrite (IH id (Some e)). destruct (po_find r id None); reflexivity.
  - apply IH.
Qed.

Lemma assoc_put_same : forall (bd : bundle) id m, assoc id (bundle_put bd id m) = Some m.
Proof.
  induction bd as [|[i x] r IH]; intros id m; cbn [bundle_put assoc].
  - rewrite N.eqb_refl. reflexivity.
  - destruct (i =? id) eqn:E; cbn [assoc].
    + apply N.eqb_eq in E. subst. rewrite N.eqb_refl. reflexivity.
    + replace (id =? i) with false by lia. apply IH.
Qed.

Lemma assoc_put_other : forall (bd : bundle) id id' m, id' <> id -> assoc id' (bundle_put bd id m) = assoc id' bd.
Proof.
  induction bd as [|[i x] r IH]; intros id id' m H; cbn [bundle_put assoc].
  - replace (id' =? id) with false by lia. reflexivity.
  - destruct (i =? id) eqn:E; cbn [assoc].
    + apply N.eqb_eq in E. subst. replace (id' =? id) with false by lia. reflexivity.
    + destruct (id' =? i); [reflexivity|]. apply IH. exact H.
Qed.

(* newBundle's loop never fails on entries with an id, and looks up as po_find says *)
Lemma new_bundle_loop_lookup : forall es bd, Forall (fun e => po_id e <> 0) es ->
  exists bd', new_bundle_loop es bd = Ok bd' /\
    forall id, assoc id bd' = match po_find es id None with
                             | Some e => Some (new_message (po_var e) (po_strs e))
                             | None => assoc id bd
                             end.
Proof.
  induction es as [|e r IH]; intros bd H.
  - exists bd. split; reflexivity.
  - inversion H as [|? ? He Hr]; subst. cbn [new_bundle_loop po_find].
    replace (po_id e =? 0) with false by lia.
    destruct (is_translated (po_strs e)) eqn:Et; cbn [negb].
    + destruct (IH (bundle_put bd (po_id e) (new_message (po_var e) (po_strs e))) Hr) as (bd' & E & L).
      exists bd'. split; [exact E|]. intro id. rewrite L. rewrite andb_true_r.
      destruct (po_id e =? id) eqn:Eid.
      * apply N.eqb_eq in Eid. subst id. rewrite (po_find_acc r (po_id e) (Some e)).
        destruct (po_find r (po_id e) None); [reflexivity|]. apply assoc_put_same.
      * destruct (po_find r id None); [reflexivity|]. apply assoc_put_other. lia.
    + destruct (IH bd Hr) as (bd' & E & L). exists bd'. split; [exact E|]. intro id. rewrite L.
      rewrite andb_false_r. reflexivity.
Qed.

Definition xentry_id_nz (t : xentry) : Prop := let '(_, id, _, _) := t in id <> 0.

Lemma xentry_po_nz es : Forall xentry_id_nz es -> Forall (fun e => po_id e <> 0) (map xentry_po es).
Proof.
  intro H. induction H as [|t r Ht _ IH]; [constructor|]. cbn [map]. constructor; [|exact IH].
  destruct t as [[[desc id] pv] f]. exact Ht.
Qed.

(* THE CHAIN, for a flat message: the bytes of a catalogue whose header names a known plural rule and whose last
   translated entry under the message's id is the singular entry with msgstr_of tr, loaded by po.Parse + pomsg.newBundle
   under any locale name, give a bundle and a selector with which soyhtml's evalMsg -- for EVERY walker -- runs the
   translation's items: the text segments where the translator put them, every slot by walking the first placeholder
   that carries its name *)
Theorem catalogue_renders_translation is_print (h : poh_header) (es : list xentry) (locale : bstr) (c : N)
    (w : node -> M value) (mp id : N) (body : list node) (tr : list titem) (e : po_entry) :
  h <> [] -> poh_hdr_ok h -> Forall xentry_ok es -> Forall xentry_id64 es -> Forall xentry_id_nz es ->
  poh_lookup_selector (poh_get poh_k_plural_forms h) = Some c ->
  id <> 0 -> po_find (map xentry_po es) id None = Some e -> po_var e = [] -> po_strs e = [msgstr_of tr] ->
  forallb flat_node body = true -> items_named body tr -> parts_clean (map item_part tr) ->
  exists bd, poh_load locale (poh_write_file is_print h (map xentry_msg es)) = Ok (bd, c)
    /\ eval_msg (poh_plural_index c) bd w mp id body = run_items w (map (resolve body) tr).
Proof.
  intros Hne Hh Hok H64 Hnz Hc Hid Hfind Hvar Hstrs Hflat Hnamed Hclean.
  destruct (new_bundle_loop_lookup (map xentry_po es) [] (xentry_po_nz es Hnz)) as (bd & Ebd & L).
  exists bd. split.
  - rewrite (load_header_plural_forms is_print h es locale c Hne Hh Hok H64 Hc). unfold new_bundle. rewrite Ebd. reflexivity.
  - apply translation_places_values; try assumption.
    unfold bundle_message. replace (id =? 0) with false by lia. rewrite L, Hfind, Hvar, Hstrs. reflexivity.
Qed.
