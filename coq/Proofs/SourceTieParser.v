(* Source tie, family 71-gotrans-parser-preds (parse/parse.go), the template-parser part: the
   special-character table, the case-list tests and the attribute decisions of Model/Parser.v
   against the same functions as gotrans translates them from today's source.  (The expression
   parser's tables are in SourceTieExpr.v.) *)
From Coq Require Import ZArith NArith Bool Lia ZifyBool ZifyN List.
From Soy Require Import Model.Bytes Generated.Tables Model.Token Model.ExprParser Model.Parser Proofs.SourceTieBase.
Import ListNotations.
Open Scope N_scope.

(* ---- specialChars[tok.typ] ---- *)
Lemma special_chars_matches_source (t : N) :
  assoc t special_chars = go_assoc_z (Z.of_N t) src_parse_specialChars.
Proof.
  rewrite <- (assoc_z_ext (fun x : bstr => x) bstr_eqb special_chars src_parse_specialChars);
    [destruct (assoc t special_chars); reflexivity|exact st_bstr_eqb_true|vm_compute; reflexivity|vm_compute; reflexivity].
Qed.

(* ---- isOneOf, inStringSlice ----
   Stated through go_res (the source never panics and answers ...): an early return out of a range loop is translated
   through List.find and is total, a flag with break or an index loop with continue goes through go_flow and is typed
   `option`.  The proofs follow the MODEL's recursion (one element at a time, the test decided on the model's side)
   and never look at the shape of the source's loop. *)
Lemma one_of_matches_source (c : N) (l : list N) :
  go_res (src_parse_isOneOf (Z.of_N c) (map Z.of_N l)) = Some (one_of c l).
Proof.
  unfold go_res, one_of, src_parse_isOneOf. cbv zeta.
  induction l as [|a l IH]; [reflexivity|].
  simpl. destruct (N.eqb c a) eqn:E; st_decide_ifs; [reflexivity|exact IH].
Qed.

(* parseAttrs tests inStringSlice(name, allowedNames); Model/Parser.v attrs_loop writes the test inline *)
Lemma attr_allowed_matches_source (item : bstr) (group : list bstr) :
  go_res (src_parse_inStringSlice item group) = Some (existsb (bstr_eqb item) group).
Proof.
  unfold go_res, src_parse_inStringSlice. cbv zeta.
  induction group as [|a l IH]; [reflexivity|].
  simpl. rewrite ?(st_bstr_eqb_sym a item).
  destruct (bstr_eqb item a) eqn:E; cbn [negb orb]; [reflexivity|exact IH].
Qed.

(* ---- parseAutoescape: the attribute text -> mode code, anything else t.errorf ---- *)
Lemma go_lookup_s_attr (k : bstr) (attrs : list (bstr * bstr)) : go_lookup_s k attrs [] = attr_or_empty k attrs.
Proof. reflexivity. Qed.

(* Both sides are functions of the attribute's text v that only compare v with literals: a switch, a chain of ifs, or a
   lookup in a table of the settings (whatever its name), in any order.  v is compared with every literal that occurs;
   where it is one of them both sides are evaluated, and where it is none of them every test is false. *)
Lemma autoescape_table_matches_source (attrs : list (bstr * bstr)) :
  option_map Z.of_N (assoc_s (attr_or_empty k_autoescape attrs) autoescape_attr_table) = src_parse_tree_parseAutoescape attrs.
Proof.
  unfold src_parse_tree_parseAutoescape.
  change [97; 117; 116; 111; 101; 115; 99; 97; 112; 101] with k_autoescape.
  rewrite go_lookup_s_attr. cbv zeta. generalize (attr_or_empty k_autoescape attrs) as v. intros v.
  st_unfold_tables. cbv [go_lookup_s go_has_s autoescape_attr_table assoc_s].
  repeat match goal with
         | |- context [bstr_eqb ?lit v] =>
             lazymatch lit with v => fail | _ => rewrite (st_bstr_eqb_sym lit v) end
         end.
  repeat match goal with
         | |- context [bstr_eqb v ?lit] =>
             lazymatch lit with
             | v => fail
             | _ => let E := fresh "E" in
                    destruct (bstr_eqb v lit) eqn:E;
                    [apply st_bstr_eqb_true in E; subst v; vm_compute; reflexivity|]
             end
         end.
  reflexivity.
Qed.

Theorem parse_autoescape_matches_source (inlen : N) (attrs : list (bstr * bstr)) (s : cst) :
  parse_autoescape inlen attrs s =
  match src_parse_tree_parseAutoescape attrs with
  | Some ae => COk (Z.to_N ae) s
  | None => c_errorf inlen x_autoescape s
  end.
Proof.
  unfold parse_autoescape. rewrite <- autoescape_table_matches_source.
  destruct (assoc_s (attr_or_empty k_autoescape attrs) autoescape_attr_table); cbn [option_map]; [|reflexivity].
  now rewrite N2Z.id.
Qed.

(* ---- boolAttr ---- *)
Theorem bool_attr_matches_source (inlen : N) (attrs : list (bstr * bstr)) (key : bstr) (dflt : bool) (s : cst) :
  bool_attr inlen attrs key dflt s =
  match src_parse_tree_boolAttr attrs key dflt with
  | Some x => COk x s
  | None => c_errorf inlen x_bool s
  end.
Proof.
  unfold bool_attr, src_parse_tree_boolAttr, attr, go_lookup_s, go_has_s. cbv zeta.
  destruct (assoc_s key attrs) as [v|]; cbn [negb]; [|reflexivity].
  change [116; 114; 117; 101] with k_true. change [102; 97; 108; 115; 101] with k_false.
  destruct (bstr_eqb v k_true); [reflexivity|]. destruct (bstr_eqb v k_false); reflexivity.
Qed.
