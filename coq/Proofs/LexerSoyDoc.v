(* Progress lemma for lexSoyDoc (with lexSoyDocParam).  The loop's own measure is
   2 * remaining + [startOfLine]: the iteration that meets the first character of a line steps
   back over it (`l.pos--`) and clears startOfLine; the next iteration consumes it. *)
From Soy Require Import Model.Bytes Model.Utf8 Model.Outcome Model.Token Generated.Tables Model.Lexer Proofs.LexerPrim Proofs.LexerStates.
From Coq Require Import ZifyBool ZifyNat ZifyN Lia.
Open Scope Z_scope.

Definition sd_budget (sol : bool) : Z := if sol then 11 else 10.

Section SoyDoc.
Variable inp : bstr.
Notation ilen := (Z.of_nat (length inp)).
Variable base : Z.
Hypothesis base_nonneg : 0 <= base.
Notation inv := (inv inp base).
Notation wf := (wfi inp base).
Notation step_post := (step_post inp base).
Notation loop_post := (loop_post inp base).
Notation lim := (Z.to_N (base + ilen)).

Lemma soydoc_space_loop_ok fuel : forall l, 0 <= l_pos l <= ilen -> (Z.to_nat (ilen - l_pos l) < fuel)%nat ->
  okp (soydoc_space_loop inp ilen fuel l) (scan_post inp l).
Proof.
  induction fuel as [|f IH]; intros l Hp Hf; [lia|]. cbn [soydoc_space_loop].
  eapply okp_bind; [apply next_spec; lia|]. intros [r l1] H. unfold next_post in H. cbn beta iota.
  destruct ((r =? eof) || negb (gen_isSpace r)) eqn:E.
  - cbn. unfold scan_post. fin.
  - apply Bool.orb_false_iff in E. destruct E as [E1 E2]. apply Bool.negb_false_iff in E2. apply isSpace_nonneg in E2.
    eapply okp_weaken; [apply IH; fin|]. intros l2 HH2. unfold scan_post in *. fin.
Qed.

(* after the parameter name: everything so far is emitted or ignored *)
Definition sd_ident_post (l l' : lx) : Prop :=
  items_ok lim false (l_out l') /\ 0 <= l_start l' /\ l_start l' = l_pos l' /\ l_pos l <= l_pos l' <= ilen /\ l_dd l' = l_dd l /\
  l_ticks l <= l_ticks l' /\ l_ticks l' - l_ticks l <= l_pos l' - l_pos l + 1.

Lemma soydoc_ident_loop_ok fuel : forall l, 0 <= l_start l <= l_pos l -> l_pos l <= ilen ->
  items_ok lim false (l_out l) -> (Z.to_nat (ilen - l_pos l) < fuel)%nat ->
  okp (soydoc_ident_loop inp ilen base fuel l) (sd_ident_post l).
Proof.
  induction fuel as [|f IH]; intros l Hs Hp Hit Hf; [lia|]. cbn [soydoc_ident_loop].
  eapply okp_bind; [apply next_spec; lia|]. intros [r l1] H. unfold next_post in H. cbn beta iota. dest_hyps.
  assert (Hit1 : items_ok lim false (l_out l1)) by congruence.
  destruct (r =? eof) eqn:E1.
  - eapply okp_weaken; [apply emit_spec; [fin|fin|exact Hit1|change (val_min itemIdent) with 0%nat; fin]|].
    intros l2 HH2. unfold emit_post, sd_ident_post in *. change (is_final itemIdent) with false in *. fin.
  - destruct (gen_isSpaceEOL r) eqn:E2.
    + apply isSpaceEOL_nonneg in E2.
      eapply okp_bind; [apply emit_spec; lsimpl; [fin|fin|exact Hit1|change (val_min itemIdent) with 0%nat; fin]|].
      intros l2 HH2. unfold emit_post in HH2. change (is_final itemIdent) with false in *. dest_hyps.
      cbn [okp]. unfold sd_ident_post. destruct (gen_isSpace r); lsimpl; fin.
    + apply Z.eqb_neq in E1. eapply okp_weaken; [apply IH; [fin|fin|exact Hit1|fin]|]. intros l2 HH2. unfold sd_ident_post in *. fin.
Qed.

Definition sd_param_post (l l' : lx) : Prop :=
  items_ok lim false (l_out l') /\ 0 <= l_start l' <= l_pos l' /\ l_pos l + soydoc_kw_len <= l_pos l' <= ilen /\ l_dd l' = l_dd l /\
  l_ticks l <= l_ticks l' /\ l_ticks l' - l_ticks l <= l_pos l' - l_pos l + 6.

Lemma lex_soydoc_param_ok l : 0 <= l_start l <= l_pos l -> l_pos l + soydoc_kw_len <= ilen ->
  items_ok lim false (l_out l) ->
  okp (lex_soydoc_param inp ilen base l) (sd_param_post l).
Proof.
  intros H1 H2 Hit. unfold lex_soydoc_param, sd_param_post.
  assert (Hk : 0 <= soydoc_kw_len) by (unfold soydoc_kw_len; lia).
  set (kw := soydoc_kw_len) in *. cbv zeta.
  repeat (dest_hyps; first
    [ exec1
    | match goal with
      | |- okp (bind (soydoc_space_loop _ _ (loop_fuel _ ?l3) ?l3) _) _ =>
          eapply okp_bind; [apply soydoc_space_loop_ok; [side|apply loop_fuel_ok; side]|
                            let l := fresh "l" in let H := fresh "Hsp" in intros l H; unfold scan_post in H; cbn beta iota]
      | |- okp (soydoc_ident_loop _ _ _ (loop_fuel _ ?l5) ?l5) _ =>
          eapply okp_weaken; [apply soydoc_ident_loop_ok; [side|side|side|apply loop_fuel_ok; side]|
                              let l := fresh "l" in let H := fresh "Hid" in intros l H; unfold sd_ident_post in H; post]
      end ]).
Qed.

Lemma kw_prefix_len (tl : bstr) : is_prefix soydoc_param_kw tl = true -> soydoc_kw_len <= Z.of_nat (length tl).
Proof. intros H. apply is_prefix_length in H. unfold soydoc_kw_len. lia. Qed.

Lemma soydoc_loop_ok fuel : forall star (sol : bool) l, wf l ->
  (2 * Z.to_nat (ilen - l_pos l) + (if sol then 1 else 0) < fuel)%nat ->
  okp (soydoc_loop inp ilen base fuel star sol l) (loop_post (sd_budget sol) l).
Proof.
  induction fuel as [|f IH]; intros star sol l Hw Hf; [lia|]. unfold wfi, LexerStates.wf in Hw.
  cbn [soydoc_loop]. cbv beta zeta.
  assert (Hk : 1 <= soydoc_kw_len) by (vm_compute; discriminate).
  destruct sol; cbn [sd_budget].
  all: repeat (dest_hyps; first
    [ match goal with
      | Hv : (fun _ : bstr => _) _ |- _ => cbn beta in Hv
      | |- okp (soydoc_loop _ _ _ _ _ (snd _) _) _ => cbn [fst snd]
      | |- okp (soydoc_loop _ _ _ _ _ ?sol2 _) _ =>
          eapply okp_weaken; [apply IH; [post | norm_bools; lsimpl; fin]
                             | intros [? ?]; apply (loop_post_mono _ _ _ (sd_budget sol2)); cbn [sd_budget]; lsimpl; side]
      | Hpre : is_prefix soydoc_param_kw ?tl = true |- okp (bind (lex_soydoc_param _ _ _ ?l2) _) _ =>
          apply kw_prefix_len in Hpre;
          eapply okp_bind; [apply lex_soydoc_param_ok; side
                           | let l := fresh "l" in let H := fresh "Hpa" in intros l H; unfold sd_param_post in H; cbn beta iota]
      end
    | exec1 ]).
  (* left over: a first character of a line that is an end-of-line character but not white space *)
  exfalso. unfold gen_isSpaceEOL in E1. rewrite E4, Bool.orb_true_r in E1. discriminate.
Qed.

Lemma lex_soydoc_ok l : inv LSoyDoc l -> okp (lex_soydoc inp ilen base l) (step_post LSoyDoc l).
Proof.
  intros (Hw & Hit & _). unfold LexerStates.wf in Hw. cbn [is_done] in Hit. unfold lex_soydoc. exec1. dest_hyps.
  eapply okp_weaken; [apply (soydoc_loop_ok _ false true); [post|unfold soydoc_fuel; lia]|].
  intros p Hp. apply (loop_post_step inp base LSoyDoc); [discriminate|]. revert Hp. cbn [sd_budget rank].
  apply loop_post_mono; lia.
Qed.

End SoyDoc.
