(* Source tie, common part: facts about the go_* vocabulary of the functions that
   tablegen's gotrans translates from the Go source (the src_ definitions of Generated/Tables.v), and the
   tactics the SourceTie*.v files use.  Self-contained on purpose (Model/Bytes.v and the
   generated tables only), so that importing a tie file adds only tie obligations to a
   property's closure. *)
From Coq Require Import ZArith NArith Bool Lia ZifyBool ZifyN List.
From Soy Require Import Model.Bytes Generated.Tables.
Import ListNotations.
Open Scope N_scope.

(* ---- booleans ---- *)
Lemma if_bool (c x y : bool) : (if c then x else y) = (c && x) || (negb c && y).
Proof. destruct c, x, y; reflexivity. Qed.

(* boolean goals over integer comparisons, whatever the shape (|| chains, if chains, lets) *)
Ltac bool_lia := intros; cbv zeta; rewrite ?if_bool; lia.

(* decide every `if` whose condition lia can decide from the hypotheses (whatever the nesting of ifs / switches
   the source uses) *)
Ltac st_decide_ifs :=
  repeat match goal with
         | |- context [if ?c then _ else _] =>
             lazymatch c with
             | true => fail
             | false => fail
             | _ => first [ replace c with true by lia | replace c with false by lia ]
             end; cbv iota
         end.

Lemma find_existsb {A} (f : A -> bool) (l : list A) :
  match find f l with Some _ => true | None => false end = existsb f l.
Proof. induction l as [|a l IH]; cbn [find existsb]; [reflexivity|]. destruct (f a); [reflexivity|exact IH]. Qed.

Lemma existsb_map {A B} (f : B -> bool) (g : A -> B) (l : list A) :
  existsb f (map g l) = existsb (fun a => f (g a)) l.
Proof. induction l as [|a l IH]; cbn [map existsb]; [reflexivity|]. now rewrite IH. Qed.

Lemma st_existsb_ext {A} (f g : A -> bool) (l : list A) :
  (forall a, f a = g a) -> existsb f l = existsb g l.
Proof. intros H; induction l as [|a l IH]; cbn [existsb]; [reflexivity|]. now rewrite H, IH. Qed.

(* ---- byte strings ---- *)
Lemma st_bstr_eqb_refl (x : bstr) : bstr_eqb x x = true.
Proof. induction x as [|a x IH]; cbn [bstr_eqb]; [reflexivity|]. rewrite N.eqb_refl. exact IH. Qed.

Lemma st_bstr_eqb_true (x y : bstr) : bstr_eqb x y = true -> x = y.
Proof.
  revert y; induction x as [|a x IH]; intros [|c y] H; cbn [bstr_eqb] in H; try discriminate; [reflexivity|].
  apply andb_true_iff in H. destruct H as [H1 H2]. apply N.eqb_eq in H1. apply IH in H2. now subst.
Qed.

Lemma st_bstr_eqb_sym (x y : bstr) : bstr_eqb x y = bstr_eqb y x.
Proof.
  destruct (bstr_eqb x y) eqn:E.
  - apply st_bstr_eqb_true in E. subst. now rewrite st_bstr_eqb_refl.
  - destruct (bstr_eqb y x) eqn:E2; [|reflexivity]. apply st_bstr_eqb_true in E2. subst. now rewrite st_bstr_eqb_refl in E.
Qed.

Lemma bstr_eqb_nil_r (x : bstr) : bstr_eqb x [] = match x with [] => true | _ => false end.
Proof. destruct x; reflexivity. Qed.

(* ---- finite ranges of N ---- *)
Fixpoint nrange_from (lo : N) (n : nat) : list N :=
  match n with O => [] | S k => lo :: nrange_from (lo + 1) k end.
Definition nrange (bound : N) : list N := nrange_from 0 (N.to_nat bound).

Lemma nrange_from_in lo n t : lo <= t -> t < lo + N.of_nat n -> In t (nrange_from lo n).
Proof.
  revert lo; induction n as [|n IH]; intros lo H1 H2; [lia|].
  cbn [nrange_from]. destruct (N.eq_dec lo t) as [->|Hne]; [now left|]. right. apply IH; lia.
Qed.

Lemma forall_below (P : N -> bool) (bound : N) :
  forallb P (nrange bound) = true -> forall t, t < bound -> P t = true.
Proof.
  intros H t Ht. rewrite forallb_forall in H. apply H. unfold nrange. apply nrange_from_in; lia.
Qed.

(* ---- association lists ---- *)
Definition opt_eqb {A} (beq : A -> A -> bool) (x y : option A) : bool :=
  match x, y with
  | Some a, Some c => beq a c
  | None, None => true
  | _, _ => false
  end.

Lemma opt_eqb_true {A} (beq : A -> A -> bool) :
  (forall a c, beq a c = true -> a = c) -> forall x y, opt_eqb beq x y = true -> x = y.
Proof. intros H [a|] [c|] E; cbn in E; try discriminate; [f_equal; now apply H|reflexivity]. Qed.

Lemma assoc_s_none {A} (k : bstr) (l : list (bstr * A)) :
  existsb (bstr_eqb k) (map fst l) = false -> assoc_s k l = None.
Proof.
  induction l as [|[k' v] l IH]; cbn [map fst existsb assoc_s]; [reflexivity|].
  intros H. apply orb_false_iff in H. destruct H as [H1 H2]. rewrite H1. now apply IH.
Qed.

(* two string-keyed tables agree on every key as soon as they agree on the keys they list *)
Lemma assoc_s_ext {A B} (f : A -> B) (beq : B -> B -> bool) (l1 : list (bstr * A)) (l2 : list (bstr * B)) :
  (forall a c, beq a c = true -> a = c) ->
  forallb (fun k => opt_eqb beq (option_map f (assoc_s k l1)) (assoc_s k l2)) (map fst l1 ++ map fst l2) = true ->
  forall k, option_map f (assoc_s k l1) = assoc_s k l2.
Proof.
  intros Hb H k. rewrite forallb_forall in H.
  destruct (existsb (bstr_eqb k) (map fst l1 ++ map fst l2)) eqn:E.
  - apply existsb_exists in E. destruct E as [k' [Hin Heq]]. apply st_bstr_eqb_true in Heq. subst k'.
    apply (opt_eqb_true beq Hb). now apply H.
  - rewrite existsb_app in E. apply orb_false_iff in E. destruct E as [E1 E2].
    rewrite (assoc_s_none _ _ E1), (assoc_s_none _ _ E2). reflexivity.
Qed.

Lemma assoc_none {A} (k : N) (l : list (N * A)) :
  existsb (N.eqb k) (map fst l) = false -> assoc k l = None.
Proof.
  induction l as [|[k' v] l IH]; cbn [map fst existsb assoc]; [reflexivity|].
  intros H. apply orb_false_iff in H. destruct H as [H1 H2]. rewrite H1. now apply IH.
Qed.

Lemma go_assoc_z_none {A} (k : Z) (l : list (Z * A)) :
  existsb (Z.eqb k) (map fst l) = false -> go_assoc_z k l = None.
Proof.
  induction l as [|[k' v] l IH]; cbn [map fst existsb go_assoc_z]; [reflexivity|].
  intros H. apply orb_false_iff in H. destruct H as [H1 H2]. rewrite H1. now apply IH.
Qed.

(* an N-keyed table of the models against a Z-keyed table translated from the source *)
Lemma assoc_z_ext {A B} (f : A -> B) (beq : B -> B -> bool) (l1 : list (N * A)) (l2 : list (Z * B)) :
  (forall a c, beq a c = true -> a = c) ->
  forallb (fun kv => Z.leb 0 (fst kv)) l2 = true ->
  forallb (fun k => opt_eqb beq (option_map f (assoc k l1)) (go_assoc_z (Z.of_N k) l2))
          (map fst l1 ++ map (fun kv => Z.to_N (fst kv)) l2) = true ->
  forall k, option_map f (assoc k l1) = go_assoc_z (Z.of_N k) l2.
Proof.
  intros Hb Hpos H k. rewrite forallb_forall in H.
  destruct (existsb (N.eqb k) (map fst l1 ++ map (fun kv => Z.to_N (fst kv)) l2)) eqn:E.
  - apply existsb_exists in E. destruct E as [k' [Hin Heq]]. apply N.eqb_eq in Heq. subst k'.
    apply (opt_eqb_true beq Hb). now apply H.
  - rewrite existsb_app in E. apply orb_false_iff in E. destruct E as [E1 E2].
    rewrite (assoc_none _ _ E1). symmetry. apply go_assoc_z_none.
    rewrite forallb_forall in Hpos.
    clear - E2 Hpos. induction l2 as [|[k' v] l2 IH]; cbn [map fst existsb] in *; [reflexivity|].
    apply orb_false_iff in E2. destruct E2 as [E2 E3].
    assert (Hk : (0 <=? k')%Z = true) by (apply (Hpos (k', v)); now left).
    apply orb_false_iff. split.
    + apply N.eqb_neq in E2. apply Z.eqb_neq. cbn [fst] in *. lia.
    + apply IH; [intros x Hx; apply Hpos; now right|exact E3].
Qed.

Lemma Z_eqb_true (a c : Z) : Z.eqb a c = true -> a = c.
Proof. apply Z.eqb_eq. Qed.

(* ---- indexing, lengths, slices ---- *)
Lemma go_len_nonneg {A} (l : list A) : (0 <= go_len l)%Z.
Proof. unfold go_len. lia. Qed.

Lemma go_index_in {A} (l : list A) (i : Z) :
  (0 <= i < go_len l)%Z -> go_index l i = nth_error l (Z.to_nat i).
Proof.
  intros H. unfold go_index.
  replace (orb (Z.ltb i 0) (Z.leb (go_len l) i)) with false by lia. reflexivity.
Qed.

Lemma go_index_out {A} (l : list A) (i : Z) :
  (i < 0 \/ go_len l <= i)%Z -> go_index l i = None.
Proof.
  intros H. unfold go_index.
  replace (orb (Z.ltb i 0) (Z.leb (go_len l) i)) with true by lia. reflexivity.
Qed.

Lemma go_index_0 {A} (a : A) (l : list A) : go_index (a :: l) 0%Z = Some a.
Proof. rewrite go_index_in; [reflexivity|]. unfold go_len. cbn [List.length]. lia. Qed.

Lemma go_index_nil {A} (i : Z) : go_index (@nil A) i = None.
Proof. apply go_index_out. unfold go_len. cbn [List.length]. lia. Qed.

(* ---- strings.Replace(s, old, new, -1) with a one-byte old ---- *)
Fixpoint go_replace_char (c : N) (new s : bstr) : bstr :=
  match s with
  | [] => []
  | x :: r => (if x =? c then new else [x]) ++ go_replace_char c new r
  end.

Lemma go_replace_byte (c : N) (new s : bstr) (n : nat) :
  (length s <= n)%nat -> go_replace_from n [c] new s = go_replace_char c new s.
Proof.
  revert s; induction n as [|n IH]; intros [|x r] H; cbn [length] in H; try lia; try reflexivity.
  cbn [go_replace_from go_replace_char is_prefix length drop].
  rewrite andb_true_r, (N.eqb_sym c x). rewrite !IH by (cbn [length]; lia).
  destruct (x =? c); reflexivity.
Qed.

(* ---- wraps ---- *)
Lemma go_wrap_s_id (bits x : Z) :
  (0 < bits)%Z -> (- 2 ^ (bits - 1) <= x < 2 ^ (bits - 1))%Z -> go_wrap_s bits x = x.
Proof.
  intros Hb Hx. unfold go_wrap_s.
  assert (E : (2 ^ bits = 2 * 2 ^ (bits - 1))%Z).
  { replace bits with (Z.succ (bits - 1))%Z at 1 by lia. rewrite Z.pow_succ_r by lia. reflexivity. }
  rewrite Z.mod_small by lia. lia.
Qed.

Lemma go_wrap_u_id (bits x : Z) : (0 <= x < 2 ^ bits)%Z -> go_wrap_u bits x = x.
Proof. intros Hx. unfold go_wrap_u. now apply Z.mod_small. Qed.

(* ---- bit operations on N and on the non-negative Z ---- *)
Lemma Z_of_N_lxor (a c : N) : Z.of_N (N.lxor a c) = Z.lxor (Z.of_N a) (Z.of_N c).
Proof. destruct a, c; reflexivity. Qed.
Lemma Z_of_N_lor (a c : N) : Z.of_N (N.lor a c) = Z.lor (Z.of_N a) (Z.of_N c).
Proof. destruct a, c; reflexivity. Qed.
Lemma Z_of_N_land (a c : N) : Z.of_N (N.land a c) = Z.land (Z.of_N a) (Z.of_N c).
Proof. destruct a, c; reflexivity. Qed.
Lemma Z_of_N_shiftl (a n : N) : Z.of_N (N.shiftl a n) = Z.shiftl (Z.of_N a) (Z.of_N n).
Proof.
  apply Z.bits_inj'. intros i Hi.
  rewrite <- (Z2N.id i) by exact Hi. rewrite Z.testbit_of_N.
  destruct (N.ltb (Z.to_N i) n) eqn:E.
  - apply N.ltb_lt in E. rewrite N.shiftl_spec_low by exact E. rewrite Z.shiftl_spec_low by lia. reflexivity.
  - apply N.ltb_ge in E. rewrite N.shiftl_spec_high' by exact E.
    rewrite Z.shiftl_spec by lia. rewrite <- N2Z.inj_sub by exact E. now rewrite Z.testbit_of_N.
Qed.
Lemma Z_of_N_mod (a c : N) : c <> 0 -> Z.of_N (a mod c) = (Z.of_N a mod Z.of_N c)%Z.
Proof. intros H. now apply N2Z.inj_mod. Qed.

(* ================================================================================================================
   Shape-independent statements and proofs (so that a behaviour-preserving rewrite of the Go function does not
   break its lemma).
   ================================================================================================================ *)

(* ---- results that may or may not have a panic path ----
   gotrans types a function `option T` as soon as its text contains an operation that can panic (an index, a loop
   that it translates with fuel or through go_flow) and `T` otherwise; a rewrite can move a function from one to the
   other.  Lemmas are stated through go_res: "the source never panics here and returns ...", whatever the type. *)
Class GoRes (T R : Type) := go_res : T -> option R.
#[global] Instance GoRes_option (R : Type) : GoRes (option R) R := fun x => x.
#[global] Instance GoRes_total (R : Type) : GoRes R R := fun x => Some x.

(* ---- functions of an item code / a byte: the finite part by evaluation, the rest by lia ----
   for a goal  F t = G (Z.of_N t)  (F the model's table or predicate, G the translated function: a switch, a chain of
   ifs, a lookup in a set or a table, a range test ...): below `bound` both sides are evaluated on every code, from
   `bound` on every comparison of t with a literal is decided by lia. *)
Lemma st_split_below (P : N -> Prop) (bound : N) :
  (forall t, t < bound -> P t) -> (forall t, bound <= t -> P t) -> forall t, P t.
Proof. intros H1 H2 t. destruct (N.ltb t bound) eqn:E; [apply H1|apply H2]; lia. Qed.

Lemma st_below_bool (F G : N -> bool) (bound : N) :
  forallb (fun t => Bool.eqb (F t) (G t)) (nrange bound) = true -> forall t, t < bound -> F t = G t.
Proof. intros H t Ht. apply Bool.eqb_prop. now apply (forall_below (fun t => Bool.eqb (F t) (G t)) bound). Qed.

Lemma st_below_Z (F G : N -> Z) (bound : N) :
  forallb (fun t => Z.eqb (F t) (G t)) (nrange bound) = true -> forall t, t < bound -> F t = G t.
Proof. intros H t Ht. apply Z.eqb_eq. now apply (forall_below (fun t => Z.eqb (F t) (G t)) bound). Qed.

(* unfold every package-level table that a lookup of the goal reads (whatever its name) and the lookups themselves *)
Ltac st_unfold_tables :=
  repeat match goal with
         | |- context [go_lookup_z _ ?t _] => is_const t; unfold t
         | |- context [go_assoc_z _ ?t] => is_const t; unfold t
         | |- context [go_lookup_s _ ?t _] => is_const t; unfold t
         | |- context [go_has_s _ ?t] => is_const t; unfold t
         | |- context [go_has_z _ ?t] => is_const t; unfold t
         end.

(* a lookup in a literal table whose keys are all decided by lia *)
Ltac st_decide_lookups :=
  cbv [go_lookup_z go_assoc_z go_has_z];
  repeat match goal with
         | |- context [if ?c then _ else _] =>
             lazymatch c with
             | true => fail
             | false => fail
             | _ => first [ replace c with true by lia | replace c with false by lia ]
             end; cbv iota
         end.
