(* C01: the two halves composed.  The SYNTAX half is Proofs/ExprParserProofs.v (parse_show:
   the model of parse.go's expression parser reads the token sequence [show sty path n] of a
   well-formed tree n, written with minimal parentheses plus any redundant ones, back as n).
   Here: the tree [to_node [] e] of every Spec expression with a concrete syntax is well-formed
   in that sense, and resolving its globals (parsepasses.SetNodeGlobals) gives [to_node G e],
   the tree eval_impl_spec is about.  Hence: tokens of e  --parser model-->  tree
   --SetGlobals--> tree  --walker model-->  the Spec's value. *)
From Coq Require Import Lia ZifyN ZifyBool ZifyNat.
From Soy Require Import Model.Bytes Model.Num Model.Values Model.Outcome Model.Ast Model.AstPrint Model.Interp
  Model.Token Model.NumLit Model.Quote Model.ExprParser Model.ExprTrans Spec.Expr Spec.ExprSyntax Generated.Tables
  Proofs.EvalProofs Proofs.EvalMainProofs Proofs.ExprParserRules Proofs.ExprParserProofs.
Open Scope N_scope.

(* a Spec expression whose literals have a concrete syntax that reads back: integers within
   int64, floats of the printing domain, strings that survive quote/unquote (every valid UTF-8
   string does: a decidable condition per literal), non-negative .N indices, map literals
   written with increasing keys (the parser's Go map has no order; the model lists it sorted) *)
Fixpoint syntax_ok (e : expr) : Prop :=
  match e with
  | EInt z => in_int64 z = true
  | EFloat f => float_ok f
  | EStr s => key_ok s
  | EList es => allP syntax_ok es
  | EMap kvs => allP (fun kv => key_ok (fst kv) /\ syntax_ok (snd kv)) kvs /\ keys_sorted (map fst kvs)
  | ERef _ accs | EIj accs => allP acc_ok accs
  | ECall _ args => allP syntax_ok args
  | ENeg a | ENot a => syntax_ok a
  | EBin _ a c | EElvis a c => syntax_ok a /\ syntax_ok c
  | ETern c a d => syntax_ok c /\ syntax_ok a /\ syntax_ok d
  | _ => True
  end
with acc_ok (a : access) : Prop :=
  match a with
  | AIdx _ i => (0 <= i)%Z /\ in_int64 i = true
  | AExpr _ e => syntax_ok e
  | AKey _ _ => True
  end.

Lemma allP_map {A B} (P : A -> Prop) (Q : B -> Prop) (h : A -> B) l :
  (forall x, In x l -> P x -> Q (h x)) -> allP P l -> allP Q (map h l).
Proof.
  induction l as [|x r IH]; intros H Hp; cbn [allP map] in *; [exact I|].
  destruct Hp as [Hx Hr]. split; [apply H; [left; reflexivity | exact Hx]|].
  apply IH; [intros y Hy; apply H; right; exact Hy | exact Hr].
Qed.

Lemma pos_to_node G e : pos_of (to_node G e) = 0.
Proof. destruct e; reflexivity. Qed.

Lemma max_list_in (h : expr -> nat) l x n : (S (max_list (map h l)) <= S n)%nat -> In x l -> (h x <= n)%nat.
Proof. intros Hle Hin. pose proof (max_list_le (map h l) (h x) (in_map h l x Hin)). lia. Qed.

Lemma max_list_in_g {A} (h : A -> nat) l x n : (S (max_list (map h l)) <= S n)%nat -> In x l -> (h x <= n)%nat.
Proof. intros Hle Hin. pose proof (max_list_le (map h l) (h x) (in_map h l x Hin)). lia. Qed.

(* the parser's tree of a Spec expression is a well-formed tree of Spec/ExprSyntax.v *)
Theorem src_wf : forall n e, (height e <= n)%nat -> syntax_ok e -> ExprSyntax.wf_expr (to_node [] e).
Proof.
  induction n as [|n IH]; intros e Hh Hok.
  - pose proof (height_pos e). lia.
  - destruct e as [ | x | z | x | s | es | kvs | name | key accs | accs | fn args | a | a | op a c | a c | c a d];
      cbn [to_node ExprSyntax.wf_expr]; cbn [height] in Hh; cbn [syntax_ok] in Hok; try exact I; try exact Hok.
    + (* list *) apply (allP_map syntax_ok); [|exact Hok].
      intros x Hx Hp. apply IH; [exact (max_list_in_g height es x n Hh Hx) | exact Hp].
    + (* map *) destruct Hok as [Hitems Hsorted]. split.
      * apply (allP_map (fun kv => key_ok (fst kv) /\ syntax_ok (snd kv))); [|exact Hitems].
        intros kv Hkv [Hk Hv]. cbn [fst snd]. split; [exact Hk|].
        apply IH; [exact (max_list_in_g (fun kv => height (snd kv)) kvs kv n Hh Hkv) | exact Hv].
      * rewrite map_map. cbn [fst]. exact Hsorted.
    + (* global *) reflexivity.
    + (* data reference *) apply (allP_map acc_ok); [|exact Hok].
      intros a Ha Hp. destruct a as [ns k | ns i | ns e]; cbn [acc_node]; cbn [acc_ok] in Hp; try exact I; try exact Hp.
      apply IH; [exact (max_list_in_g acc_height accs (AExpr ns e) n Hh Ha) | exact Hp].
    + (* $ij *) apply (allP_map acc_ok); [|exact Hok].
      intros a Ha Hp. destruct a as [ns k | ns i | ns e]; cbn [acc_node]; cbn [acc_ok] in Hp; try exact I; try exact Hp.
      apply IH; [exact (max_list_in_g acc_height accs (AExpr ns e) n Hh Ha) | exact Hp].
    + (* call *) apply (allP_map syntax_ok); [|exact Hok].
      intros x Hx Hp. apply IH; [exact (max_list_in_g height args x n Hh Hx) | exact Hp].
    + apply IH; [lia | exact Hok].
    + apply IH; [lia | exact Hok].
    + destruct Hok as [H1 H2]. split; apply IH; try assumption; lia.
    + destruct Hok as [H1 H2]. split; apply IH; try assumption; lia.
    + destruct Hok as (H1&H2&H3). rewrite pos_to_node.
      split; [reflexivity|]. split; [|split]; apply IH; try assumption; lia.
Qed.

(* SetNodeGlobals turns the parser's tree into the compiled tree *)
Theorem set_globals_to_node G : forall n e, (height e <= n)%nat -> set_globals G (to_node [] e) = to_node G e.
Proof.
  induction n as [|n IH]; intros e Hh.
  - pose proof (height_pos e). lia.
  - destruct e as [ | x | z | x | s | es | kvs | name | key accs | accs | fn args | a | a | op a c | a c | c a d];
      cbn [to_node set_globals]; cbn [height] in Hh; try reflexivity.
    + f_equal. rewrite map_map. apply map_ext_in. intros x Hx. apply IH. exact (max_list_in_g height es x n Hh Hx).
    + f_equal. rewrite map_map. apply map_ext_in. intros kv Hkv. cbn [fst snd]. f_equal.
      apply IH. exact (max_list_in_g (fun kv => height (snd kv)) kvs kv n Hh Hkv).
    + f_equal. rewrite map_map. apply map_ext_in. intros a Ha.
      destruct a as [ns k | ns i | ns e]; cbn [acc_node set_globals]; try reflexivity.
      f_equal. apply IH. exact (max_list_in_g acc_height accs (AExpr ns e) n Hh Ha).
    + f_equal. rewrite map_map. apply map_ext_in. intros a Ha.
      destruct a as [ns k | ns i | ns e]; cbn [acc_node set_globals]; try reflexivity.
      f_equal. apply IH. exact (max_list_in_g acc_height accs (AExpr ns e) n Hh Ha).
    + f_equal. rewrite map_map. apply map_ext_in. intros x Hx. apply IH. exact (max_list_in_g height args x n Hh Hx).
    + f_equal. apply IH. lia.
    + f_equal. apply IH. lia.
    + f_equal; apply IH; lia.
    + f_equal; apply IH; lia.
    + f_equal; apply IH; lia.
Qed.

(* tokens -> tree -> value.  [show sty path (to_node [] e)] is the token sequence of e with the
   parentheses the operator table requires plus any redundant ones [sty] asks for; [t] is any
   item that cannot continue an expression ("}", ",", "]", ":", "|", ...). *)
Theorem text_to_value G ij cf sty path e t rest fuel st :
  syntax_ok e -> ExprTrans.wf_expr G e = true -> closer t = true ->
  c_ij cf = ij -> (height e <= fuel)%nat ->
  exists st' f0, stream st' = t :: rest /\
    (forall f, (f0 <= f)%nat -> parse_expr_top f (show sty path (to_node [] e) ++ t :: rest) = POk (to_node [] e) st') /\
    (forall v n', eval_spec G (flatten (ctx st)) ij e (next_id st) = Ok (v, n') ->
       exists st2, walk cf fuel (set_globals G (to_node [] e)) st = (Ok v, st2) /\ frame_eq st st2 /\ next_id st2 = n') /\
    (forall m, eval_spec G (flatten (ctx st)) ij e (next_id st) = Err m ->
       exists msg st2, walk cf fuel (set_globals G (to_node [] e)) st = (Err msg, st2) /\ frame_eq st st2).
Proof.
  intros Hok Hwf Hc Hij Hh.
  destruct (parse_show_top sty path (to_node [] e) t rest (src_wf (height e) e (le_n _) Hok) Hc) as (st'&f0&Hs&Hp).
  exists st', f0. split; [exact Hs|]. split; [exact Hp|].
  rewrite (set_globals_to_node G (height e) e (le_n _)).
  exact (eval_impl_spec G ij cf fuel e st Hij Hwf Hh).
Qed.
