(* C19, parse half: the window theorem (Proofs/ErrPosWindow.v) for the command-level parser
   Model/Parser.v -- one pass over every procedure, i.e. over every errorf / unexpected / expect
   site of parse.go's command half.  [eerr ts t c s]: the error (token t, class c, state s) is
   reported at the item received last or just before ([werr]), or -- a quoted attribute
   expression -- at the last or last-but-one item the sub-scanner of that expression delivered
   ([qerr]; the record of that scan is the head of c_scans). *)
From Soy Require Import Model.Bytes Model.Utf8 Model.Outcome Model.Num Model.Values Model.Ast Model.Token
  Model.RawText Model.ExprParser Model.Parser Generated.Tables Proofs.ErrPosWindow.
From Coq Require Import Lia List.
Import ListNotations.
Open Scope N_scope.

Lemma is_prefix_app_self (p s : bstr) : is_prefix p (p ++ s) = true.
Proof. induction p as [|a p IH]; [destruct s; reflexivity|]. cbn. rewrite N.eqb_refl. exact IH. Qed.

Section Cmd.
Variable inlen : N.
Variable lexq : bstr -> list tok.
Variable unq : bstr -> option bstr.
Variable pexpr : nat -> N -> pst -> presult node.
Variable efuel : list tok -> nat.
(* the expression parser keeps the window, over whatever item list it runs on *)
Hypothesis Hpexpr : forall ts f prec p, W ts p -> xpost ts (A:=node) (fun _ p' => W ts p') (pexpr f prec p).

Variable ts : list tok.

Definition qerr (t : tok) (c : bstr) (s : cst) : Prop :=
  is_prefix e_quoted c = true /\
  exists str base sr rest, c_scans s = sr :: rest /\
    (t = itm (map (shift_tok base) (lexq str)) (sc_recv sr) \/
     t = itm (map (shift_tok base) (lexq str)) (sc_recv sr - 1)%nat) /\
    (* positioned in the enclosing file, or (no enclosing text to point into) in the expression itself *)
    (t_pos t <= inlen \/ (base = 0 /\ t_pos t <= N.of_nat (length str))).
Definition eerr (t : tok) (c : bstr) (s : cst) : Prop := werr ts t (c_p s) \/ qerr t c s.

Definition gpost {A} (Q : A -> cst -> Prop) (r : cres A) : Prop :=
  match r with COk a s => Q a s | CErr t c s => eerr t c s | _ => True end.
Notation QW := (fun _ s => W ts (c_p s)).
Notation QB := (fun _ s => B ts (c_p s)).
Notation QR := (fun t s => B ts (c_p s) /\ t = cur (c_p s)).

Lemma gp_bind {A C} (Q1 : A -> cst -> Prop) (Q : C -> cst -> Prop) x f :
  gpost Q1 x -> (forall a s, Q1 a s -> gpost Q (f a s)) -> gpost Q (cbind x f).
Proof. destruct x; cbn; auto. Qed.
Lemma gp_weaken {A} (Q1 Q : A -> cst -> Prop) r : gpost Q1 r -> (forall a s, Q1 a s -> Q a s) -> gpost Q r.
Proof. destruct r; cbn; auto. Qed.

Lemma gp_error_at {A} (Q : A -> cst -> Prop) t c s : werr ts t (c_p s) -> gpost Q (c_error_at inlen t c s).
Proof. intros H. unfold c_error_at. destruct (_ <=? _); cbn; [left; exact H|exact I]. Qed.
Lemma gp_errorf {A} (Q : A -> cst -> Prop) c s : W ts (c_p s) -> gpost Q (c_errorf inlen c s).
Proof. intros H. unfold c_errorf. destruct (3 <=? _)%nat; [exact I|]. apply gp_error_at. apply err_tok_werr; exact H. Qed.
Lemma gp_unexp_w {A} (Q : A -> cst -> Prop) t ctx s : werr ts t (c_p s) -> gpost Q (c_unexp inlen t ctx s).
Proof. intros H. unfold c_unexp. destruct (tis t pit_Error); apply gp_error_at; exact H. Qed.
Lemma gp_unexp {A} (Q : A -> cst -> Prop) t ctx s : B ts (c_p s) -> t = cur (c_p s) -> gpost Q (c_unexp inlen t ctx s).
Proof. intros H ->. apply gp_unexp_w. apply cur_werr; exact H. Qed.
Lemma gp_next s : W ts (c_p s) -> gpost QR (c_next s).
Proof.
  intros H. unfold c_next. destruct (3 <=? _)%nat; [exact I|]. destruct (p_next (c_p s)) as [t p'] eqn:E.
  cbn. exact (next_B ts _ _ _ E H).
Qed.
Lemma gp_peek s : W ts (c_p s) -> gpost QW (c_peek s).
Proof.
  intros H. unfold c_peek. destruct (3 <=? _)%nat; [exact I|]. destruct (p_peek_tok (c_p s)) as [t p'] eqn:E.
  cbn. exact (peek_W ts _ _ _ E H).
Qed.
Lemma gp_expect typ ctx s : W ts (c_p s) -> gpost QR (c_expect inlen typ ctx s).
Proof.
  intros H. unfold c_expect. eapply gp_bind; [apply gp_next; exact H|]. intros t s1 [Hb Ht]. cbn beta.
  destruct (tis t typ); [cbn; auto|apply gp_unexp; auto].
Qed.
Lemma gp_backup s : B ts (c_p s) -> W ts (c_p (c_backup s)).
Proof. intros H. unfold c_backup. cbn [c_p set_p]. apply backup_W; exact H. Qed.
Lemma gp_lift_expr f prec s : W ts (c_p s) -> gpost QW (lift_expr inlen pexpr f prec s).
Proof.
  intros H. unfold lift_expr. pose proof (Hpexpr ts f prec (c_p s) H) as X.
  destruct (pexpr f prec (c_p s)); cbn in X |- *; auto. destruct (_ <=? _); cbn; [left; exact X|exact I].
Qed.
Lemma gp_quoted str s : W ts (c_p s) -> gpost QW (parse_quoted_expr inlen lexq pexpr efuel str s).
Proof.
  intros H. unfold parse_quoted_expr. destruct (3 <=? _)%nat; [exact I|]. cbv zeta.
  destruct ((N.of_nat (length str) <=? t_pos (err_tok (c_p s))) && (t_pos (err_tok (c_p s)) <=? inlen)) eqn:Ein.
  - set (base := t_pos (err_tok (c_p s)) - N.of_nat (length str)).
    set (ts' := map (shift_tok base) (lexq str)).
    pose proof (Hpexpr ts' (efuel ts') 0 (pst_init ts') (W_init ts')) as X.
    destruct (pexpr (efuel ts') 0 (pst_init ts')) as [n p'|t c p'|m|]; cbn in X |- *; auto.
    destruct (t_pos t <=? inlen) eqn:Eg; cbn; [|exact I]. right. split; [exact (is_prefix_app_self e_quoted c)|].
    eexists str, base, _, _. split; [reflexivity|]. split; [exact X|]. left. apply N.leb_le. exact Eg.
  - set (ts' := map (shift_tok 0) (lexq str)).
    pose proof (Hpexpr ts' (efuel ts') 0 (pst_init ts') (W_init ts')) as X.
    destruct (pexpr (efuel ts') 0 (pst_init ts')) as [n p'|t c p'|m|]; cbn in X |- *; auto.
    destruct (t_pos t <=? N.of_nat (length str)) eqn:Eg; cbn; [|exact I]. right. split; [exact (is_prefix_app_self e_quoted c)|].
    eexists str, 0, _, _. split; [reflexivity|]. split; [exact X|]. right. split; [reflexivity|]. apply N.leb_le. exact Eg.
Qed.

Hint Resolve B_W gp_errorf gp_unexp gp_next gp_peek gp_expect gp_backup gp_lift_expr gp_quoted : gp.

Ltac gp_intro := intros ? ? ?; cbn beta in *; repeat match goal with H : _ /\ _ |- _ => destruct H end.
Ltac gp_fin := cbn [gpost]; cbn beta; cbn [c_p set_ns add_alias set_inmsg add_scan fst snd]; eauto with gp.
Ltac gp_step :=
  match goal with
  | |- gpost _ (cbind (tail1 ?v _) _) => destruct v; cbn [tail1 cbind]
  | |- gpost _ (cbind _ _) => eapply gp_bind; [solve [eauto with gp]|gp_intro]
  | |- gpost _ (if ?c then _ else _) => destruct c
  | |- gpost _ (match ?x with _ => _ end) => destruct x
  | |- gpost _ (let _ := _ in _) => cbv zeta
  | |- gpost _ (COk _ _) => solve [gp_fin]
  | |- gpost _ (CCrash _) => exact I
  | |- gpost _ CFuel => exact I
  | |- gpost _ _ => solve [eauto with gp]
  end.
Ltac gp_go := repeat gp_step.

(* ---------- leaf loops ---------- *)
Lemma gp_attrs_loop f : forall allowed acc s, W ts (c_p s) -> gpost QW (attrs_loop inlen unq f allowed acc s).
Proof. induction f as [|f IH]; intros allowed acc s H; cbn [attrs_loop]; gp_go. Qed.
Lemma gp_parse_autoescape attrs s : W ts (c_p s) -> gpost QW (parse_autoescape inlen attrs s).
Proof. intros H. unfold parse_autoescape. gp_go. Qed.
Lemma gp_bool_attr attrs k d s : W ts (c_p s) -> gpost QW (bool_attr inlen attrs k d s).
Proof. intros H. unfold bool_attr. gp_go. Qed.
Lemma gp_next_non_comment f : forall s, W ts (c_p s) -> gpost QR (next_non_comment f s).
Proof. induction f as [|f IH]; intros s H; cbn [next_non_comment]; gp_go. Qed.
Lemma gp_skip_comments f : forall t s, B ts (c_p s) -> t = cur (c_p s) -> gpost QR (skip_comments f t s).
Proof. induction f as [|f IH]; intros t s H Ht; cbn [skip_comments]; gp_go. Qed.
Lemma gp_text_run f : forall t s, W ts (c_p s) -> gpost QB (text_run f t s).
Proof. induction f as [|f IH]; intros t s H; cbn [text_run]; gp_go. Qed.
Lemma gp_soydoc_loop f : forall p ps s, W ts (c_p s) -> gpost QW (soydoc_loop inlen f p ps s).
Proof. induction f as [|f IH]; intros p ps s H; cbn [soydoc_loop]; gp_go. Qed.
Lemma gp_alias_loop f : forall n l s, W ts (c_p s) -> gpost QW (alias_loop inlen f n l s).
Proof. induction f as [|f IH]; intros n l s H; cbn [alias_loop]; gp_go. Qed.
Hint Resolve gp_attrs_loop gp_parse_autoescape gp_bool_attr gp_next_non_comment gp_skip_comments gp_text_run
  gp_soydoc_loop gp_alias_loop : gp.
Lemma gp_parse_alias f s : W ts (c_p s) -> gpost QW (parse_alias inlen f s).
Proof. intros H. unfold parse_alias. gp_go. Qed.
Lemma gp_dotted_name f : forall n s, W ts (c_p s) -> gpost QW (dotted_name f n s).
Proof. induction f as [|f IH]; intros n s H; cbn [dotted_name]; gp_go. Qed.
Hint Resolve gp_parse_alias gp_dotted_name : gp.
Lemma gp_parse_namespace f t s : W ts (c_p s) -> gpost QW (parse_namespace inlen unq f t s).
Proof. intros H. unfold parse_namespace. gp_go. Qed.
Hint Resolve gp_parse_namespace : gp.

(* ---------- one level ---------- *)
Section Level.
Variable pe : N -> cst -> cres node.
Variable w : list N -> cst -> cres node.
Variable lf : nat.
Hypothesis Hpe : forall prec s, W ts (c_p s) -> gpost QW (pe prec s).
Hypothesis Hw : forall u s, W ts (c_p s) -> gpost QB (w u s).
Hint Resolve Hpe Hw : gp.

Lemma gp_directive_args f : forall args s, W ts (c_p s) -> gpost QW (directive_args pe f args s).
Proof. induction f as [|f IH]; intros args s H; cbn [directive_args]; gp_go. Qed.
Hint Resolve gp_directive_args : gp.
Lemma gp_cmd_print_loop f : forall pos e dirs s, W ts (c_p s) -> gpost QW (cmd_print_loop inlen pe lf f pos e dirs s).
Proof. induction f as [|f IH]; intros pos e dirs s H; cbn [cmd_print_loop]; gp_go. Qed.
Hint Resolve gp_cmd_print_loop : gp.
Lemma gp_cmd_print t s : W ts (c_p s) -> gpost QW (cmd_print inlen pe lf t s).
Proof. intros H. unfold cmd_print. gp_go. Qed.
Lemma gp_parse_let t s : W ts (c_p s) -> gpost QW (parse_let inlen unq pe w lf t s).
Proof. intros H. unfold parse_let. gp_go. Qed.
Lemma gp_parse_css t s : W ts (c_p s) -> gpost QW (parse_css inlen lexq pexpr efuel t s).
Proof. intros H. unfold parse_css. gp_go. Qed.
Lemma gp_call_name_loop f : forall n s, W ts (c_p s) -> gpost QW (call_name_loop f n s).
Proof. induction f as [|f IH]; intros n s H; cbn [call_name_loop]; gp_go. Qed.
Hint Resolve gp_call_name_loop : gp.

Lemma gp_backup2 s1 t s2 t2 : B ts (c_p s1) -> t = cur (c_p s1) -> c_next s1 = COk t2 s2 -> W ts (c_p (c_backup2 s2 t)).
Proof.
  intros Hb -> E. unfold c_next in E. destruct (3 <=? _)%nat; [discriminate|].
  destruct (p_next (c_p s1)) as [t' p'] eqn:En. inversion E; subst; clear E.
  destruct (next_prev ts _ _ _ En Hb) as (Hp & _ & _). unfold c_backup2. cbn [c_p set_p]. apply backup2_W. exact Hp.
Qed.

Lemma gp_call_name s : W ts (c_p s) -> gpost QW (call_name lf s).
Proof.
  intros H. unfold call_name. eapply gp_bind; [apply gp_next; exact H|]. intros tok s1 [Hb Ht]. cbn beta.
  destruct (tis tok pit_DotIdent); [gp_fin|]. destruct (tis tok pit_Ident); [|gp_fin].
  destruct (c_next s1) as [tok2 s2| | |] eqn:E; cbn [cbind]; try exact I.
  - pose proof (gp_next s1 (B_W _ _ Hb)) as X. rewrite E in X. cbn in X. destruct X as [Hb2 Ht2].
    destruct (tis tok2 pit_DotIdent); [gp_go|]. cbn [gpost]. eapply (gp_backup2 s1 tok s2 tok2); eauto.
  - pose proof (gp_next s1 (B_W _ _ Hb)) as X. rewrite E in X. exact X.
Qed.
Lemma gp_orphan_text f : forall t s, B ts (c_p s) -> t = cur (c_p s) -> gpost QR (orphan_text inlen lf f t s).
Proof. induction f as [|f IH]; intros t s H Ht; cbn [orphan_text]; gp_go. Qed.
Hint Resolve gp_cmd_print gp_parse_let gp_parse_css gp_call_name gp_orphan_text : gp.

Lemma gp_param_attr_form rec params initial key0 s :
  (forall ps s', W ts (c_p s') -> gpost QW (rec ps s')) -> W ts (c_p s) ->
  gpost QW (param_attr_form inlen lexq unq pexpr efuel w lf rec params initial key0 s).
Proof.
  intros Hrec H. unfold param_attr_form.
  eapply gp_bind; [apply gp_attrs_loop; exact H|]. intros attrs s7 H7. cbn beta in H7.
  eapply (gp_bind QW).
  { destruct key0; [destruct (attr k_key attrs)|]; gp_go. }
  intros key s8 H8. cbn beta in H8. gp_go.
Qed.

Lemma gp_call_params_loop f : forall params s, W ts (c_p s) ->
  gpost QW (call_params_loop inlen lexq unq pexpr efuel pe w lf f params s).
Proof.
  induction f as [|f IH]; intros params s H; cbn [call_params_loop]; [exact I|].
  eapply gp_bind; [apply gp_next_non_comment; exact H|]. intros i0 s1 [Hb1 Ht1]. cbn beta.
  eapply gp_bind; [apply gp_orphan_text; eassumption|]. intros initial s2 [Hb2 Ht2]. cbn beta.
  destruct (negb (tis initial pit_LeftDelim)); [apply gp_unexp; assumption|].
  destruct (c_next s2) as [cmd s3| | |] eqn:E; cbn [cbind]; try exact I.
  2:{ pose proof (gp_next s2 (B_W _ _ Hb2)) as X. rewrite E in X. exact X. }
  pose proof (gp_next s2 (B_W _ _ Hb2)) as X. rewrite E in X. cbn in X. destruct X as [Hb3 Ht3].
  destruct (tis cmd pit_CallEnd); [cbn [gpost]; eapply (gp_backup2 s2 initial s3 cmd); eauto|].
  destruct (negb (tis cmd pit_Param)); [gp_go|].
  eapply gp_bind; [apply gp_expect; eauto with gp|]. intros first s4 [Hb4 Ht4]. cbn beta.
  destruct (c_next s4) as [tok s5| | |] eqn:E5; cbn [cbind]; try exact I.
  2:{ pose proof (gp_next s4 (B_W _ _ Hb4)) as X. rewrite E5 in X. exact X. }
  pose proof (gp_next s4 (B_W _ _ Hb4)) as X. rewrite E5 in X. cbn in X. destruct X as [Hb5 Ht5].
  destruct (tis tok pit_Colon); [gp_go|].
  destruct (tis tok pit_RightDelim); [gp_go|].
  destruct (tis tok pit_Ident); [apply gp_param_attr_form; [exact IH|apply gp_backup; exact Hb5]|].
  destruct (tis tok pit_Equals); [apply gp_param_attr_form; [exact IH|eapply (gp_backup2 s4 first s5 tok); eauto]|].
  apply gp_unexp; assumption.
Qed.
Hint Resolve gp_call_params_loop : gp.
Lemma gp_parse_call t s : W ts (c_p s) -> gpost QW (parse_call inlen lexq unq pexpr efuel pe w lf t s).
Proof.
  intros H. unfold parse_call.
  eapply gp_bind; [apply gp_call_name; exact H|]. intros name0 s1 H1. cbn beta in H1.
  eapply gp_bind; [apply gp_attrs_loop; exact H1|]. intros attrs s2 H2. cbn beta in H2. cbv zeta.
  destruct (match name0 with [] => attr_or_empty k_name attrs | _ => name0 end); [gp_go|].
  eapply (gp_bind QW).
  { destruct (attr k_data attrs); [|gp_fin]. destruct (bstr_eqb _ _); gp_go. }
  intros ad s3 H3. cbn beta in H3. gp_go.
Qed.
Lemma gp_case_loop f : forall t vs s, W ts (c_p s) -> gpost QW (case_loop inlen pe w f t vs s).
Proof.
  induction f as [|f IH]; intros t vs s H; cbn [case_loop]; [exact I|].
  eapply (gp_bind QW).
  { destruct (tis t pit_Default); gp_go. }
  intros values1 s1 H1. cbn beta in H1. gp_go.
Qed.
Hint Resolve gp_parse_call gp_case_loop : gp.
Lemma gp_switch_loop f : forall pos endt v cs s, W ts (c_p s) -> gpost QW (switch_loop inlen pe w lf f pos endt v cs s).
Proof. induction f as [|f IH]; intros pos endt v cs s H; cbn [switch_loop]; gp_go. Qed.
Hint Resolve gp_switch_loop : gp.
Lemma gp_parse_switch t endt s : W ts (c_p s) -> gpost QW (parse_switch inlen pe w lf t endt s).
Proof. intros H. unfold parse_switch. gp_go. Qed.
Lemma gp_plural_cases cs : forall cases d s, W ts (c_p s) -> gpost QW (plural_cases inlen cs cases d s).
Proof.
  induction cs as [|c r IH]; intros cases d s H; cbn [plural_cases]; [gp_fin|].
  destruct c; try (apply IH; exact H). destruct values as [|v vs]; [apply IH; exact H|].
  destruct v; try (apply gp_errorf; exact H). destruct vs; [apply IH; exact H|apply gp_errorf; exact H].
Qed.
Hint Resolve gp_parse_switch gp_plural_cases : gp.
Lemma gp_parse_plural t s : B ts (c_p s) -> t = cur (c_p s) -> gpost QW (parse_plural inlen pe w lf t s).
Proof. intros H Ht. unfold parse_plural. gp_go. Qed.
Lemma gp_parse_for t s : W ts (c_p s) -> gpost QW (parse_for inlen pe w t s).
Proof.
  intros H. unfold parse_for.
  eapply gp_bind; [apply gp_expect; exact H|]. intros vartoken s1 [Hb1 Ht1]. cbn beta.
  eapply gp_bind; [apply gp_expect; eauto with gp|]. intros intoken s2 [Hb2 Ht2]. cbn beta.
  destruct (negb _); [apply gp_unexp; assumption|].
  eapply gp_bind; [apply Hpe; eauto with gp|]. intros coll s3 H3. cbn beta in H3.
  eapply gp_bind; [apply gp_expect; exact H3|]. intros x4 s4 [Hb4 _]. cbn beta.
  eapply gp_bind; [apply Hw; eauto with gp|]. intros body s5 H5. cbn beta in H5.
  eapply gp_bind; [apply gp_next; apply gp_backup; exact H5|]. intros nx s6 [Hb6 Ht6]. cbn beta.
  eapply (gp_bind QW).
  { destruct (tis nx pit_Ifempty); gp_go. }
  intros ie s7 H7. cbn beta in H7. gp_go.
Qed.
Lemma gp_if_loop f : forall pos conds ie s, W ts (c_p s) -> gpost QW (if_loop inlen pe w f pos conds ie s).
Proof.
  induction f as [|f IH]; intros pos conds ie s H; cbn [if_loop]; [exact I|].
  eapply (gp_bind QW).
  { destruct ie; gp_go. }
  intros cond s1 H1. cbn beta in H1.
  eapply gp_bind; [apply gp_expect; exact H1|]. intros x2 s2 [Hb2 _]. cbn beta.
  eapply gp_bind; [apply Hw; eauto with gp|]. intros body s3 H3. cbn beta in H3. cbv zeta.
  eapply gp_bind; [apply gp_next; apply gp_backup; exact H3|]. intros nx s4 [Hb4 Ht4]. cbn beta.
  gp_go.
Qed.
Lemma gp_parse_msg t s : W ts (c_p s) -> gpost QW (parse_msg inlen unq w lf t s).
Proof.
  intros H. unfold parse_msg.
  eapply gp_bind; [apply gp_attrs_loop; exact H|]. intros attrs s1 H1. cbn beta in H1.
  destruct (attr k_desc attrs); [|gp_go].
  eapply gp_bind; [apply gp_expect; exact H1|]. intros x2 s2 [Hb2 _]. cbn beta.
  eapply gp_bind; [apply Hw; cbn [c_p set_inmsg]; eauto with gp|]. intros contents s3 H3. cbn beta in H3. cbv zeta.
  destruct (_ && _).
  - apply gp_errorf. cbn [c_p set_inmsg]. eauto with gp.
  - eapply gp_bind; [apply gp_expect; cbn [c_p set_inmsg]; eauto with gp|]. gp_intro. gp_go.
Qed.
Lemma gp_parse_template t s : W ts (c_p s) -> gpost QW (parse_template inlen unq w lf t s).
Proof. intros H. unfold parse_template. gp_go. Qed.
Lemma gp_parse_header_param t s : W ts (c_p s) -> gpost QW (parse_header_param inlen pe t s).
Proof.
  intros H. unfold parse_header_param.
  eapply gp_bind; [apply gp_expect; exact H|]. intros name s1 [Hb1 _]. cbn beta.
  eapply gp_bind; [apply gp_expect; eauto with gp|]. intros x2 s2 [Hb2 _]. cbn beta.
  eapply gp_bind; [apply gp_expect; eauto with gp|]. intros typ s3 [Hb3 _]. cbn beta.
  eapply gp_bind; [apply gp_next; eauto with gp|]. intros tok s4 [Hb4 _]. cbn beta.
  eapply (gp_bind QW).
  { destruct (tis tok pit_Equals); gp_go. }
  intros dv s5 H5. cbn beta in H5. gp_go.
Qed.
Hint Resolve gp_parse_plural gp_parse_for gp_if_loop gp_parse_msg gp_parse_template gp_parse_header_param : gp.

Lemma gp_notmsg {A} (Q : A -> cst -> Prop) t s (k : cres A) :
  B ts (c_p s) -> t = cur (c_p s) -> gpost Q k -> gpost Q (notmsg inlen t s k).
Proof. intros Hb Ht H. unfold notmsg. destruct (c_inmsg s); [apply gp_unexp; assumption|exact H]. Qed.
Lemma gp_some (r : cres node) : gpost QW r -> gpost QW (do (n, s') <- r; COk (Some n) s').
Proof. intros H. eapply gp_bind; [exact H|]. intros n s' H'. exact H'. Qed.

Lemma gp_begin_tag s : W ts (c_p s) -> gpost QW (begin_tag inlen lexq unq pexpr efuel pe w lf s).
Proof.
  intros H. unfold begin_tag. eapply gp_bind; [apply gp_next; exact H|]. intros token s1 [Hb Ht]. cbn beta. cbv zeta.
  assert (H1 : W ts (c_p s1)) by (apply B_W; exact Hb).
  repeat match goal with
         | |- gpost _ (if ?c then _ else _) => destruct c
         | |- gpost _ (notmsg _ _ _ _) => apply gp_notmsg; [exact Hb|exact Ht|]
         | |- gpost _ (cbind ?r (fun n s' => COk (Some n) s')) => apply gp_some
         | |- gpost _ (match assoc ?a ?b with _ => _ end) => destruct (assoc a b)
         end; gp_go.
Qed.
Hint Resolve gp_begin_tag : gp.

(* textOrTag: on "halt" the state is the one right after a next() *)
Definition QT := fun (r : option node * bool) (s : cst) => W ts (c_p s) /\ (snd r = true -> B ts (c_p s)).
Lemma gp_text_or_tag t until s : B ts (c_p s) -> t = cur (c_p s) ->
  gpost QT (text_or_tag inlen lexq unq pexpr efuel pe w lf t until s).
Proof.
  intros Hb Ht. unfold text_or_tag. cbv zeta.
  eapply gp_bind; [apply gp_skip_comments; eassumption|]. intros token s1 [Hb1 Ht1]. cbn beta.
  destruct (one_of (t_typ token) until); [cbn; split; [apply B_W; exact Hb1|intros _; exact Hb1]|].
  destruct (c_next s1) as [token2 s2| | |] eqn:E; cbn [cbind]; try exact I.
  2:{ pose proof (gp_next s1 (B_W _ _ Hb1)) as X. rewrite E in X. exact X. }
  pose proof (gp_next s1 (B_W _ _ Hb1)) as X. rewrite E in X. cbn in X. destruct X as [Hb2 Ht2].
  destruct (_ && _); [cbn; split; [apply B_W; exact Hb2|intros _; exact Hb2]|].
  assert (H3 : W ts (c_p (c_backup s2))) by (apply gp_backup; exact Hb2).
  assert (Hprev : werr ts token (c_p (c_backup s2))).
  { unfold c_next in E. destruct (3 <=? _)%nat; [discriminate|]. destruct (p_next (c_p s1)) as [t' p'] eqn:En.
    inversion E; subst; clear E. destruct (next_prev ts _ _ _ En Hb1) as (Hp & _ & _).
    unfold c_backup. cbn [c_p set_p]. exact (proj2 (prev_backup ts _ _ Hp)). }
  destruct (tis token pit_Text).
  - eapply gp_bind; [apply gp_text_run; exact H3|]. intros tn s4 H4. cbn beta in H4.
    destruct (rawtext_run _ _ _) as [[|x tv]| | | | |]; try exact I;
      (cbn; split; [apply gp_backup; exact H4|cbn; intros; discriminate]).
  - destruct (tis token pit_LeftDelim).
    + eapply gp_bind; [apply gp_begin_tag; exact H3|]. intros n s4 H4. cbn beta in H4. cbn. split; [exact H4|intros; discriminate].
    + destruct (tis token pit_SoyDocStart).
      * eapply gp_bind; [apply gp_soydoc_loop; exact H3|]. intros n s4 H4. cbn beta in H4. cbn. split; [exact H4|intros; discriminate].
      * apply gp_unexp_w. exact Hprev.
Qed.

Lemma gp_item_list_loop f : forall until pos acc s, W ts (c_p s) ->
  gpost QB (item_list_loop inlen lexq unq pexpr efuel pe w lf f until pos acc s).
Proof.
  induction f as [|f IH]; intros unt pos acc s H; cbn [item_list_loop]; [exact I|].
  eapply gp_bind; [apply gp_next; exact H|]. intros token s1 [Hb1 Ht1]. cbn beta. cbv zeta.
  eapply gp_bind; [apply gp_text_or_tag; eassumption|]. intros r s2 [H2 Hh]. cbn beta.
  destruct (snd r) eqn:Er; [cbn; apply Hh; reflexivity|apply IH; exact H2].
Qed.
End Level.

Theorem gp_item_list fuel : forall until s, W ts (c_p s) -> gpost QB (item_list inlen lexq unq pexpr efuel fuel until s).
Proof.
  induction fuel as [|f IH]; intros unt s H; cbn [item_list]; [exact I|].
  apply gp_item_list_loop; [intros; apply gp_lift_expr; assumption|exact IH|exact H].
Qed.
End Cmd.

(* parse.SoyFile: the error it returns is reported at the item the parser received last from the
   file's scanner or at the one before it; an error inside a quoted attribute expression, at the
   last or last-but-one item that expression's own scanner delivered *)
Definition quoted_window (inlen : N) (lexq : bstr -> list tok) (t : tok) (c : bstr) (scans : list scanrec) : Prop :=
  is_prefix e_quoted c = true /\
  exists str base sr, In sr scans /\
    (t = itm (map (shift_tok base) (lexq str)) (sc_recv sr) \/
     t = itm (map (shift_tok base) (lexq str)) (sc_recv sr - 1)%nat) /\
    (t_pos t <= inlen \/ (base = 0 /\ t_pos t <= N.of_nat (length str))).

Theorem parse_file_error_window inlen lexq unq pexpr efuel fuel ts t c st :
  (forall ts f prec p, W ts p -> xpost ts (A:=node) (fun _ p' => W ts p') (pexpr f prec p)) ->
  po_result (parse_file inlen lexq unq pexpr efuel fuel ts) = PErr t c st ->
  werr ts t st \/ quoted_window inlen lexq t c (po_scans (parse_file inlen lexq unq pexpr efuel fuel ts)).
Proof.
  intros Hpe. unfold parse_file.
  pose proof (gp_item_list inlen lexq unq pexpr efuel Hpe ts fuel u_eof (cst_init ts) (W_init ts)) as H.
  destruct (item_list _ _ _ _ _ fuel u_eof (cst_init ts)) as [n s|t' c' s|m|]; cbn [po_result po_scans]; intros E; inversion E; subst; clear E.
  cbn in H. destruct H as [H|(Hq & str & base & sr & rest & Hs & Ht & Hpos)]; [left; exact H|right].
  split; [exact Hq|]. exists str, base, sr. split; [|split; [exact Ht|exact Hpos]].
  right. apply in_rev. rewrite rev_involutive. rewrite Hs. left; reflexivity.
Qed.

Theorem soy_file_error_window inlen lexq unq ts t c st :
  po_result (soy_file inlen lexq unq ts) = PErr t c st ->
  werr ts t st \/ quoted_window inlen lexq t c (po_scans (soy_file inlen lexq unq ts)).
Proof.
  unfold soy_file. apply parse_file_error_window. intros ts' f prec p H. apply xp_parse_expr. exact H.
Qed.
