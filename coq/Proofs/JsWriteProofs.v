(* C12, JavaScript side: a sequence of checked Write calls against the failing-writer automaton
   ([write_all] from a top-level state, which is what soyjs.Write does with its two pieces after the repair
   notes/pending/C12-js-write-errors.diff) returns the write error as soon as the writer refuses anything, has
   made the writer accept a prefix of the fault-free bytes, and returns nil only if every piece was accepted. *)
From Soy Require Import Model.Bytes Model.Num Model.Values Model.Outcome Model.Ast
  Model.Interp Model.JsWrite Spec.Writer Proofs.InterpLogic.
Require Import Lia ZifyBool ZifyNat ZifyN.
Open Scope N_scope.

Lemma concat_b_app2 x y : concat_b (x ++ y) = concat_b x ++ concat_b y.
Proof. induction x as [|a x IH]; cbn [concat_b app]; [reflexivity|]. rewrite IH, app_assoc. reflexivity. Qed.

Lemma take_prefix n (s t : bstr) : prefix_of (take n s) (s ++ t).
Proof.
  revert s. induction n as [|n IH]; intros s; cbn [take].
  - exists (s ++ t). reflexivity.
  - destruct s as [|a s]; [exists t; reflexivity|]. destruct (IH s) as [rest Hr]. exists rest. cbn. rewrite Hr at 1. reflexivity.
Qed.

(* what a run of checked writes from a top-level state (no capture buffer) can end in *)
Definition budgets_suffice (st : mstate) (ws : list bstr) : Prop :=
  (forall k, calls_left st = Some k -> (length ws <= k)%nat) /\
  (forall k, bytes_left st = Some k -> N.of_nat (length (concat_b ws)) <= k).

Lemma write_all_top ws : forall st r st', bufs st = [] -> write_all ws st = (r, st') ->
  exists new, out st' = new ++ out st /\
    ((r = Ok tt /\ rev new = ws /\ budgets_suffice st ws) \/
     (r = Err e_write /\ ~ budgets_suffice st ws /\ prefix_of (concat_b (rev new)) (concat_b ws))).
Proof.
  induction ws as [|w ws IH]; intros st r st' Hb H.
  - inversion H; subst. exists []. split; [reflexivity|]. left. repeat split; cbn; intros; lia.
  - rewrite write_all_cons in H.
    destruct (mbind_inv _ _ _ _ _ H) as [(x & st1 & H1 & H2) | (e & H1 & ->)].
    + pose proof (write_inv _ _ _ _ H1) as Hw. inversion Hw as [buf rest Hbb | | | Hb0 Hc Hy]; subst; try congruence.
      set (st1 := set_out st (w :: out st) (dec_calls (calls_left st))
                    (match bytes_left st with Some k => Some (k - N.of_nat (length w)) | None => None end)) in *.
      assert (Hb1 : bufs st1 = []) by exact Hb.
      destruct (IH st1 r st' Hb1 H2) as (new & Ho & Hcase).
      exists (new ++ [w]). split; [rewrite Ho; cbn; rewrite <- app_assoc; reflexivity|].
      assert (Hcl : forall k, calls_left st1 = Some k -> calls_left st = Some (S k)).
      { intros k Hk. unfold st1 in Hk. cbn in Hk. destruct (calls_left st) as [[|n]|]; cbn in Hk; congruence. }
      assert (Hcl' : forall k, calls_left st = Some k -> exists k', k = S k' /\ calls_left st1 = Some k').
      { intros k Hk. unfold st1. cbn. rewrite Hk. destruct k as [|k']; [congruence|]. exists k'. split; reflexivity. }
      assert (Hbl : forall k, bytes_left st = Some k -> bytes_left st1 = Some (k - N.of_nat (length w)) /\ N.of_nat (length w) <= k).
      { intros k Hk. unfold st1. cbn. rewrite Hk. split; [reflexivity | apply Hy; exact Hk]. }
      assert (Hbl' : forall k, bytes_left st1 = Some k -> exists k0, bytes_left st = Some k0 /\ k = k0 - N.of_nat (length w)).
      { intros k Hk. unfold st1 in Hk. cbn in Hk. destruct (bytes_left st) as [k0|]; [|discriminate]. exists k0. split; congruence. }
      destruct Hcase as [(-> & Hr & Hs1 & Hs2) | (-> & Hn & Hp)].
      * left. split; [reflexivity|]. split; [rewrite rev_app_distr; cbn; rewrite Hr; reflexivity|].
        split.
        -- intros k Hk. destruct (Hcl' k Hk) as (k' & -> & Hk'). specialize (Hs1 k' Hk'). cbn [length]. lia.
        -- intros k Hk. destruct (Hbl k Hk) as [Hk1 Hle]. specialize (Hs2 _ Hk1). cbn [concat_b]. rewrite app_length. lia.
      * right. split; [reflexivity|]. split.
        -- intros [Hs1 Hs2]. apply Hn. split.
           ++ intros k Hk. specialize (Hs1 (S k) (Hcl k Hk)). cbn [length] in Hs1. lia.
           ++ intros k Hk. destruct (Hbl' k Hk) as (k0 & Hk0 & ->). specialize (Hs2 k0 Hk0). cbn [concat_b] in Hs2.
              rewrite app_length in Hs2. destruct (Hbl k0 Hk0) as [_ Hle]. lia.
        -- rewrite rev_app_distr. cbn [rev app concat_b]. destruct Hp as [rest Hrest]. exists rest.
           rewrite Hrest, app_assoc. reflexivity.
    + pose proof (write_inv _ _ _ _ H1) as Hw. destruct e; inversion Hw as [ | Hb0 Hc | k Hb0 Hc Hy Hlt | ]; subst.
      * (* refused outright *)
        exists []. split; [reflexivity|]. right. split; [reflexivity|]. split.
        -- intros [Hs1 _]. specialize (Hs1 O Hc). cbn in Hs1. lia.
        -- exists (concat_b (w :: ws)). reflexivity.
      * (* short write *)
        exists [take (N.to_nat k) w]. split; [reflexivity|]. right. split; [reflexivity|]. split.
        -- intros [_ Hs2]. specialize (Hs2 k Hy). cbn [concat_b] in Hs2. rewrite app_length in Hs2. lia.
        -- cbn [rev app concat_b]. rewrite app_nil_r. apply take_prefix.
Qed.

Section JsWrite.
Variable pieces : list bstr.
Variables (cl : option nat) (bl : option N).

Lemma refuses_budgets : refuses cl bl pieces <-> ~ budgets_suffice (js_writer cl bl) pieces.
Proof.
  unfold refuses, budgets_suffice, js_writer. cbn. split.
  - intros [(k & -> & Hk) | (k & -> & Hk)] [H1 H2].
    + specialize (H1 k eq_refl). lia.
    + specialize (H2 k eq_refl). lia.
  - intros Hn. destruct cl as [k|].
    + destruct (Nat.ltb k (length pieces)) eqn:Hlt.
      * left. exists k. split; [reflexivity | apply Nat.ltb_lt; exact Hlt].
      * apply Nat.ltb_ge in Hlt. destruct bl as [c|].
        -- destruct (N.ltb c (N.of_nat (length (concat_b pieces)))) eqn:Hc.
           ++ right. exists c. split; [reflexivity | apply N.ltb_lt; exact Hc].
           ++ apply N.ltb_ge in Hc. exfalso. apply Hn. split; intros k' Hk'; inversion Hk'; subst; assumption.
        -- exfalso. apply Hn. split; intros k' Hk'; inversion Hk'; subst; assumption.
    + destruct bl as [c|].
      * destruct (N.ltb c (N.of_nat (length (concat_b pieces)))) eqn:Hc.
        -- right. exists c. split; [reflexivity | apply N.ltb_lt; exact Hc].
        -- apply N.ltb_ge in Hc. exfalso. apply Hn. split; intros k' Hk'; inversion Hk'; subst; assumption.
      * exfalso. apply Hn. split; intros k' Hk'; discriminate.
Qed.

Lemma js_write_cases :
  (fst (js_write pieces cl bl) = Ok tt /\ snd (js_write pieces cl bl) = pieces /\ ~ refuses cl bl pieces) \/
  (fst (js_write pieces cl bl) = Err e_write /\ refuses cl bl pieces /\
   prefix_of (concat_b (snd (js_write pieces cl bl))) (concat_b pieces)).
Proof.
  unfold js_write. destruct (write_all pieces (js_writer cl bl)) as [r st] eqn:H.
  destruct (write_all_top pieces (js_writer cl bl) r st eq_refl H) as (new & Ho & Hc). cbn [fst snd].
  assert (Hout : out st = new) by (rewrite Ho; cbn; apply app_nil_r). rewrite Hout.
  destruct Hc as [(-> & Hr & Hs) | (-> & Hn & Hp)].
  - left. repeat split; [exact Hr|]. intros Hrf. apply refuses_budgets in Hrf. contradiction.
  - right. repeat split; [apply refuses_budgets; exact Hn | exact Hp].
Qed.

(* the writer refuses something => the error is returned *)
Theorem js_write_fault_surfaces_l : refuses cl bl pieces -> fst (js_write pieces cl bl) = Err e_write.
Proof. intros Hr. destruct js_write_cases as [(_ & _ & Hn) | (H & _)]; [contradiction | exact H]. Qed.

(* what the writer accepted is a prefix of the script *)
Theorem js_accepted_is_prefix_l : prefix_of (concat_b (snd (js_write pieces cl bl))) (concat_b pieces).
Proof.
  destruct js_write_cases as [(_ & -> & _) | (_ & _ & H)]; [exists []; rewrite app_nil_r; reflexivity | exact H].
Qed.

(* nil => every piece was written, whole and in order *)
Theorem js_nil_means_all_written_l : fst (js_write pieces cl bl) = Ok tt -> snd (js_write pieces cl bl) = pieces.
Proof. intros Ho. destruct js_write_cases as [(_ & H & _) | (H & _)]; [exact H | congruence]. Qed.
End JsWrite.

(* the pinned code (results of out.Write dropped) is what the statement rules out: nil on a dead writer *)
Lemma js_write_pinned_refuted :
  exists pieces cl bl, refuses cl bl pieces /\ fst (js_write_pinned pieces cl bl) = Ok tt /\ snd (js_write_pinned pieces cl bl) = [].
Proof. exists [[105]; [106]], (Some O), None. split; [left; exists O; split; [reflexivity | cbn; lia] | vm_compute; split; reflexivity]. Qed.
