(* C07, last clause: "rendering an accepted template never looks up a name that
   nothing binds".  Model/Interp.v counts EVERY scope.lookup miss ([unbound]); a
   miss on a DECLARED param of the template being executed (an optional param the
   caller omitted, a key absent from the map behind data="$e") is a name that
   something binds statically, so it is not what the clause talks about.

   [walkx ps] is the walker of Model/Interp.v with one difference: a miss of the
   lookup at the head of a data reference $k is not counted when k is a declared
   param ([ps]) of the template being executed.  The set [ps] changes where the
   executed template changes: at [call_enter] (the {call} case below repeats the
   one of [walk_node] with the callee's params for the callee's walk).  Nothing
   else differs: [walkx] and [walk] return the same outcome and the same final
   state up to the counter (Proofs/CheckerExcuseRel.v), so [render_xc] is [render]
   with the refined counter.  Definitions only. *)
From Soy Require Import Model.Bytes Model.Num Model.Values Model.Outcome Model.Ast Model.Escape Model.Interp Model.RefView Model.MsgId Model.Compile Model.Checker Spec.Safety.
Open Scope N_scope.

Definition with_unbound (st : mstate) (u : nat) : mstate :=
  {| ctx := ctx st; mode := mode st; cur := cur st; tmpl := tmpl st; depth_ := depth_ st; out := out st; bufs := bufs st;
     calls_left := calls_left st; bytes_left := bytes_left st; next_id := next_id st; unbound := u;
     shared_writes := shared_writes st |}.
Definition uncount (st : mstate) : mstate := with_unbound st (pred (unbound st)).

(* the lookup at the head of this data reference misses, on a declared param *)
Definition is_excused (ps : list bstr) (n : node) (s : scope) : bool :=
  match n with
  | NDataRef _ key _ =>
      negb (bstr_eqb key Interp.s_ij) && contains ps key
      && match sc_lookup s key with None => true | Some _ => false end
  | _ => false
  end.

Section Excused.
Variable cf : cfg.

Fixpoint walkx (ps : list bstr) (fuel : nat) (n : node) {struct fuel} : M value :=
  match fuel with
  | O => lift OutOfFuel
  | S f =>
      match n with
      | NCall p name alldata dat params =>
          (* [walk_body] on a {call}: the params are evaluated in the caller (its [ps]), the callee runs with its own *)
          _ <-- modify (fun st => set_cur st p) ;;;
          match find_template (r_templates (c_reg cf)) name with
          | None => fail e_notemplate
          | Some callee =>
              cd <-- call_data (walkx ps f) alldata dat ;;;
              cd' <-- call_params (walkx ps f) params cd ;;;
              _ <-- modify (fun st => set_cur st p) ;;;
              call_enter (walkx (map fst (t_params callee)) f) callee cd'
          end
      | _ =>
          fun st =>
            if is_excused ps n (ctx st)
            then let '(r, st') := walk_body cf (walkx ps f) n st in (r, uncount st')
            else walk_body cf (walkx ps f) n st
      end
  end.

(* [render] with the refined counter *)
Definition render_xc (fuel : nat) (name : bstr) (data_id : N) (data : list (bstr * value))
           (cl : option nat) (bl : option N) (first_id : N) : render_result :=
  match find_template (r_templates (c_reg cf)) name with
  | None => {| rr_outcome := Err e_notemplate; rr_writes := []; rr_file := []; rr_line := 0; rr_unbound := 0; rr_shared_writes := [] |}
  | Some t =>
      let st0 := init_state (sc_enter (new_scope data_id data)) (entry_mode (t_ns_autoescape t)) name cl bl first_id in
      let '(r, st) := walkx (map fst (t_params t)) fuel (t_node t) st0 in
      let mk o file line := {| rr_outcome := o; rr_writes := rev (out st); rr_file := file; rr_line := line;
                               rr_unbound := unbound st; rr_shared_writes := shared_writes st |} in
      match r with
      | Ok _ => mk (Ok tt) [] 0
      | Err m =>
          match assoc_s name (r_sources (c_reg cf)), assoc_s name (r_files (c_reg cf)) with
          | Some src, Some file =>
              match line_number src (cur st) with
              | Some l => mk (Err m) file l
              | None => mk (Crash e_index) [] 0
              end
          | _, _ => mk (Err m) [] 0
          end
      | Crash m => mk (Crash m) [] 0
      | Diverge => mk Diverge [] 0
      | OutOfFuel => mk OutOfFuel [] 0
      | OutOfModel => mk OutOfModel [] 0
      end
  end.
End Excused.

(* ------------------------------------------------------------------ *)
(* shape of the trees the parser builds and the AST dump transmits, evaluated by the harness on every
   registry: the items of a map literal are listed by strictly increasing key (so that the sorted visit
   of MapLiteralNode.Children() is the listed order), soydoc params are SoyDocParamNodes *)
Fixpoint keys_sortedb (l : list bstr) : bool :=
  match l with
  | [] => true
  | k :: r => match r with [] => true | k' :: _ => bstr_ltb k k' end && keys_sortedb r
  end.
Definition map_sorted (n : node) : bool :=
  match n with
  | NMapLit _ items => keys_sortedb (map fst items)
  | NSoyDoc _ ps => forallb (fun c => match c with NSoyDocParam _ _ _ => true | _ => false end) ps   (* []*SoyDocParamNode *)
  | _ => true
  end.
Definition maps_sorted (n : node) : bool := node_all map_sorted n.


Definition registry_maps_sorted (reg : registry) : bool := forallb (fun t => maps_sorted (t_node t)) (r_templates reg).

(* CheckDataRefs as Model/Compile.v (C13) has it, children of map literals in sorted key order,
   with the error classes of Model/Checker.v; Proofs/CheckerCompileTie.v: equal to [check_registry] *)
Definition cls (e : check_err) : rej :=
  match e with
  | CKLetIj => RLetIj
  | CKCallNotFound _ => RNoTemplate
  | CKUndeclaredParams _ => RUndeclaredParam
  | CKMissingParams _ _ => RMissingParam
  | CKUnusedLets _ => RUnusedLet
  | CKDataRefNotFound _ _ => RUnbound
  | CKHeaderParam => RHeaderParam
  | CKUnusedParams _ => RUnusedParam
  | CKBadCallParam => RBadCallParam
  | CKLoopFunc _ _ | CKLoopFuncArity _ _ | CKLoopFuncArg _ => RLoopFunc
  | CKOutOfFuel => RShape
  end.
Definition verdict_of_failure (o : option (bstr * check_err)) : verdict :=
  match o with None => Accept | Some (_, e) => Reject (cls e) end.
Definition check_registry_c13 (reg : registry) : verdict :=
  verdict_of_failure (first_failure (check_template (sorted_after (fun ks => ks)) (find_template (r_templates reg))) (r_templates reg)).

(* ------------------------------------------------------------------ *)
(* Bundle.Compile after parsing as Model/Compile.v (C13) has it, on the files of Model/Checker.v *)
Definition conv_file (f : soyfile) : sfile :=
  {| sfile_name := sf_name f; sfile_text := sf_text f; sfile_body := sf_body f |}.

Definition cls_add (e : add_err) : rej :=
  match e with
  | AENamespaceExpected _ | AENamespaceRequired => RNoNamespace
  | AEBothParamKinds _ => RBothParamKinds
  | AEDuplicate _ _ _ => RDuplicateTemplate
  | AEIndexCrash | AEOutOfModel _ => RShape
  end.

(* Bundle.Compile after parsing, as C13's model has it (Add for every file, then CheckDataRefs; the later
   passes -- SetGlobals, message ids -- are not data-reference rules), with the classes of C07 *)
Definition compile_check_c13 (ko0 : korder) (fs : list soyfile) : verdict :=
  match add_all_files empty_creg (map (fun f => SrcOk (conv_file f)) fs) with
  | CErr (EAdd _ e) => Reject (cls_add e)
  | CErr _ => Reject RShape
  | COk r =>
      verdict_of_failure (first_failure (check_template (sorted_after ko0) (find_template (r_templates (cr_reg r))))
                                        (r_templates (cr_reg r)))
  end.

