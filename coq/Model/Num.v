(* Go int64 arithmetic with explicit wrap-around, and a dyadic model of float64.
   A float is NaN, an infinity, a signed zero, or m * 2^e with m odd; operations
   are exact and return [None] when the exact result is not a float64 or the
   operand lies outside the modelled domain (then the caller yields OutOfModel).
   Definitions only. *)
From Soy Require Import Model.Bytes.
Open Scope Z_scope.

Definition two63 : Z := 9223372036854775808.
Definition two64 : Z := 18446744073709551616.
Definition two53 : Z := 9007199254740992.
Definition wrap64 (z : Z) : Z := ((z + two63) mod two64) - two63.
Definition in_int64 (z : Z) : bool := (- two63 <=? z) && (z <? two63).

(* Go's % : truncated remainder, sign of the dividend *)
Definition go_rem (a c : Z) : Z := Z.rem a c.

Inductive fl := FNaN | FInf (neg : bool) | FZero (neg : bool) | FFin (m : Z) (e : Z).

Fixpoint strip2 (p : positive) (e : Z) : positive * Z :=
  match p with
  | xO p' => strip2 p' (e + 1)
  | _ => (p, e)
  end.

(* normalise m*2^e; [None] if the odd mantissa needs more than 53 bits or the
   exponent leaves a conservative safe range *)
Definition mk_fl (m e : Z) : option fl :=
  match m with
  | Z0 => Some (FZero false)
  | Zpos p => let '(q, e') := strip2 p e in
              if (Zpos q <? two53) && (-1000 <? e') && (e' <? 900) then Some (FFin (Zpos q) e') else None
  | Zneg p => let '(q, e') := strip2 p e in
              if (Zpos q <? two53) && (-1000 <? e') && (e' <? 900) then Some (FFin (Zneg q) e') else None
  end.

Definition fl_neg (x : fl) : fl :=
  match x with
  | FNaN => FNaN
  | FInf n => FInf (negb n)
  | FZero n => FZero (negb n)
  | FFin m e => FFin (- m) e
  end.

Definition fl_add (x y : fl) : option fl :=
  match x, y with
  | FFin m1 e1, FFin m2 e2 =>
      let e := Z.min e1 e2 in
      mk_fl (m1 * 2 ^ (e1 - e) + m2 * 2 ^ (e2 - e)) e
  | FZero n1, FZero n2 => Some (FZero (n1 && n2))
  | FZero _, FFin _ _ => Some y
  | FFin _ _, FZero _ => Some x
  | _, _ => None
  end.

Definition fl_sub (x y : fl) : option fl := fl_add x (fl_neg y).

Definition fl_isneg (x : fl) : bool :=
  match x with FNaN => false | FInf n => n | FZero n => n | FFin m _ => m <? 0 end.

Definition fl_mul (x y : fl) : option fl :=
  match x, y with
  | FFin m1 e1, FFin m2 e2 => mk_fl (m1 * m2) (e1 + e2)
  | FZero _, FFin _ _ | FFin _ _, FZero _ | FZero _, FZero _ => Some (FZero (xorb (fl_isneg x) (fl_isneg y)))
  | _, _ => None
  end.

Definition fl_div (x y : fl) : option fl :=
  match x, y with
  | FFin m1 e1, FFin m2 e2 =>
      if (m1 mod m2 =? 0) then mk_fl (m1 / m2) (e1 - e2) else None
  | FZero _, FFin _ _ => Some (FZero (xorb (fl_isneg x) (fl_isneg y)))
  | FFin _ _, FZero _ => Some (FInf (xorb (fl_isneg x) (fl_isneg y)))
  | FZero _, FZero _ => Some FNaN
  | _, _ => None
  end.

(* three-way comparison of finite values; None when unordered (NaN) *)
Definition fl_cmp (x y : fl) : option comparison :=
  match x, y with
  | FNaN, _ | _, FNaN => None
  | FInf a, FInf c => Some (if Bool.eqb a c then Eq else if a then Lt else Gt)
  | FInf a, _ => Some (if a then Lt else Gt)
  | _, FInf c => Some (if c then Gt else Lt)
  | FZero _, FZero _ => Some Eq
  | FZero _, FFin m _ => Some (if m <? 0 then Gt else Lt)
  | FFin m _, FZero _ => Some (if m <? 0 then Lt else Gt)
  | FFin m1 e1, FFin m2 e2 =>
      let e := Z.min e1 e2 in
      Some (Z.compare (m1 * 2 ^ (e1 - e)) (m2 * 2 ^ (e2 - e)))
  end.
Definition fl_eqb (x y : fl) : bool := match fl_cmp x y with Some Eq => true | _ => false end.
Definition fl_ltb (x y : fl) : bool := match fl_cmp x y with Some Lt => true | _ => false end.
Definition fl_leb (x y : fl) : bool := match fl_cmp x y with Some Lt | Some Eq => true | _ => false end.
Definition fl_is_nan (x : fl) : bool := match x with FNaN => true | _ => false end.
Definition fl_is_zero (x : fl) : bool := match x with FZero _ => true | _ => false end.

(* floor / ceil / truncation to an integer value (exact on dyadics) *)
Definition fl_floor_Z (x : fl) : option Z :=
  match x with
  | FZero _ => Some 0
  | FFin m e => Some (if 0 <=? e then m * 2 ^ e else m / 2 ^ (- e))
  | _ => None
  end.
Definition fl_ceil_Z (x : fl) : option Z :=
  match x with
  | FZero _ => Some 0
  | FFin m e => Some (if 0 <=? e then m * 2 ^ e else - ((- m) / 2 ^ (- e)))
  | _ => None
  end.
Definition fl_trunc_Z (x : fl) : option Z :=
  match x with
  | FZero _ => Some 0
  | FFin m e => Some (if 0 <=? e then m * 2 ^ e else Z.quot m (2 ^ (- e)))
  | _ => None
  end.

(* decimal digits of a dyadic fraction (used by Model/AstPrint.v) *)
Fixpoint frac_digits (fuel : nat) (num den : Z) : bstr :=
  (* decimal digits of num/den in [0,1), den a power of two, until exact *)
  match fuel with
  | O => []
  | S f => if num =? 0 then [] else
           let d := (num * 10) / den in
           (Z.to_N (48 + d)) :: frac_digits f ((num * 10) mod den) den
  end.


(* ------------------------------------------------------------------ *)
(* strconv.FormatFloat(x, 'g', -1, 64), for every finite float64 of the model.

   DIGITS (strconv's "shortest" mode, ftoa.go roundShortest / ryuFtoaShortest): x = M * 2^E with
   2^52 <= M < 2^53 is the only float64 in the interval between the midpoints to its two
   neighbours, lo = (2M-1) 2^(E-1) (or (4M-1) 2^(E-2) when M = 2^52: the lower neighbour is
   half as far) and hi = (2M+1) 2^(E-1); the end points belong to the interval when M is even
   (round-half-even reads them back as x).  The digits are those of the decimal c * 10^(-p)
   with the fewest significant digits n that lies in the interval; when x rounded down and x
   rounded up to n digits both do, the one nearer to x (a tie: the even one).
   All arithmetic is exact on integers: x, lo, hi are numerators over the common power of two [den].

   FORMAT ('g' with precision -1: ftoa.go formatDigits, eprec = 6): with dp the position of the
   decimal point relative to the digits, exponent form d.ddde+XX (at least two exponent digits)
   when dp - 1 < -4 or dp - 1 >= 6, otherwise plain positional notation.
   (The exponent threshold is 6, not JavaScript's 21: 1000000.0 prints as 1e+06.)

   Proved in Coq (Proofs/FloatRt*.v): the function answers on every float of the window, and
   NumLit.parse_float_round -- the correctly rounded reader -- reads the text back as the same float
   (fl_to_string_total, fl_to_string_parse).  That the text is strconv's is not proved: the harness of
   C01 compares this function with the real strconv on systematic and random float64 values on every run. *)
Definition pow10 (k : Z) : Z := 10 ^ k.

(* c * 10^(-p)  compared with  n / d   (d > 0) *)
Definition scaled_cmp (c p n d : Z) : comparison :=
  if 0 <=? p then Z.compare (c * d) (n * pow10 p) else Z.compare (c * pow10 (- p) * d) n.

(* 10^k <= num / den *)
Definition ge_pow10 (num den k : Z) : bool :=
  if 0 <=? k then den * pow10 k <=? num else den <=? num * pow10 (- k).

(* the k with 10^(k-1) <= num/den < 10^k: estimated from the bit lengths, then checked *)
Definition dec_exponent (num den : Z) : option Z :=
  let k0 := ((Z.log2 num - Z.log2 den) * 30103) / 100000 in
  find (fun k => ge_pow10 num den (k - 1) && negb (ge_pow10 num den k)) [k0 - 1; k0; k0 + 1; k0 + 2].

Definition in_interval (incl : bool) (lo hi den c p : Z) : bool :=
  match scaled_cmp c p lo den with Gt => true | Eq => incl | Lt => false end &&
  match scaled_cmp c p hi den with Lt => true | Eq => incl | Gt => false end.

(* the first n' >= n for which an n'-digit decimal lies in the interval: (c, p), value c * 10^(-p) *)
Fixpoint shortest_from (fuel : nat) (n k : Z) (incl : bool) (x lo hi den : Z) : option (Z * Z) :=
  match fuel with
  | O => None
  | S f =>
      let p := n - k in
      let tn := if 0 <=? p then x * pow10 p else x in
      let td := if 0 <=? p then den else den * pow10 (- p) in
      let cd := tn / td in
      let r := tn mod td in
      let cu := cd + 1 in
      if r =? 0 then Some (cd, p)
      else
        let dok := in_interval incl lo hi den cd p in
        let uok := in_interval incl lo hi den cu p in
        if dok && uok then
          Some (match Z.compare (2 * r) td with
                | Lt => cd
                | Gt => cu
                | Eq => if Z.even cd then cd else cu
                end, p)
        else if dok then Some (cd, p)
        else if uok then Some (cu, p)
        else shortest_from f (n + 1) k incl x lo hi den
  end.

(* rounding up may carry (9.99 -> 10): drop the trailing zeros *)
Fixpoint strip10 (fuel : nat) (c p : Z) : Z * Z :=
  match fuel with
  | O => (c, p)
  | S f => if (c mod 10 =? 0) && negb (c =? 0) then strip10 f (c / 10) (p - 1) else (c, p)
  end.

(* digits and position of the decimal point (value = 0.d1d2... * 10^dp) of a * 2^e, a odd, 0 < a < 2^53 *)
Definition shortest_decimal (a e : Z) : option (bstr * Z) :=
  let shift := 53 - (Z.log2 a + 1) in
  let s := e - shift - 2 in
  let X := 4 * a * 2 ^ shift in
  let HI := X + 2 in
  let LO := if a =? 1 then X - 1 else X - 2 in
  let incl := 1 <=? shift in
  let sc := if 0 <=? s then 2 ^ s else 1 in
  let den := if 0 <=? s then 1 else 2 ^ (- s) in
  match dec_exponent (X * sc) den with
  | None => None
  | Some k =>
      match shortest_from 17 1 k incl (X * sc) (LO * sc) (HI * sc) den with
      | None => None
      | Some (c, p) =>
          let '(c', p') := strip10 20 c p in
          let ds := dec_of_Z c' in
          Some (ds, Z.of_nat (length ds) - p')
      end
  end.

Definition zeros (n : Z) : bstr := repeat 48%N (Z.to_nat n).

(* formatDigits for 'g', shortest *)
Definition fmt_g (sign ds : bstr) (dp : Z) : bstr :=
  let nd := Z.of_nat (length ds) in
  let ex := dp - 1 in
  if (ex <? -4) || (6 <=? ex) then
    let mant := match ds with
                | [] => []
                | d :: rest => d :: match rest with [] => [] | _ => 46%N :: rest end
                end in
    let exd := dec_of_Z (Z.abs ex) in
    let exd2 := match exd with [_] => 48%N :: exd | _ => exd end in
    sign ++ mant ++ [101%N; if ex <? 0 then 45%N else 43%N] ++ exd2
  else if dp <=? 0 then sign ++ [48; 46]%N ++ zeros (- dp) ++ ds
  else if nd <=? dp then sign ++ ds ++ zeros (dp - nd)
  else sign ++ firstn (Z.to_nat dp) ds ++ [46%N] ++ skipn (Z.to_nat dp) ds.

Definition fl_to_string (x : fl) : option bstr :=
  match x with
  | FNaN => Some [78; 97; 78]%N                      (* NaN *)
  | FInf false => Some [43; 73; 110; 102]%N          (* +Inf *)
  | FInf true => Some [45; 73; 110; 102]%N           (* -Inf *)
  | FZero false => Some [48]%N
  | FZero true => Some [45; 48]%N
  | FFin m e =>
      let sign : bstr := if m <? 0 then [45]%N else [] in
      match Z.abs m with
      | Zpos p =>
          let '(q, e') := strip2 p e in
          (* a float64 of the normal range: 53 bits, and the range of mk_fl *)
          if (Zpos q <? two53) && (-1000 <? e') && (e' <? 900) then
            match shortest_decimal (Zpos q) e' with
            | Some (ds, dp) => Some (fmt_g sign ds dp)
            | None => None
            end
          else None
      | _ => None
      end
  end.

(* ------------------------------------------------------------------ *)
(* IEEE 754 results of + - * / on finite operands: the exact result rounded to the nearest
   binary64, ties to even (the only rounding mode Go and JavaScript use).  The exact operations
   above ([fl_add] ... [fl_div], [None] when the exact result is not a binary64) stay what the
   built-in functions use; the arithmetic OPERATORS of the expression language use these.
   [None] now only means: NaN or an infinity among the operands, or a result outside the
   exponent range of [mk_fl] (overflow / the subnormal range).
   Proved (Proofs/FloatRoundSpec.v, FloatFlocq.v, FloatFlocqDiv.v): round53 returns the nearest multiple of
   the last place kept, ties to even, and each of the four results (and fl_of_int's) is Flocq's
   round radix2 (FLX_exp 53) ZnearestE of the exact result.  The correspondence runs of C01/C02/C04 still
   compare the extracted functions with the hardware arithmetic of Go (and of node for C04). *)

(* the value with at most 53 significant bits nearest to M * 2^E, ties to even *)
Definition round53 (M E : Z) : Z * Z :=
  let a := Z.abs M in
  let n := Z.log2 a + 1 in
  if n <=? 53 then (M, E)
  else
    let shift := n - 53 in
    let hi := a / 2 ^ shift in
    let lo := a mod 2 ^ shift in
    let half := 2 ^ (shift - 1) in
    let hi' := match Z.compare lo half with
               | Gt => hi + 1
               | Lt => hi
               | Eq => if Z.even hi then hi else hi + 1
               end in
    (if M <? 0 then - hi' else hi', E + shift).

Definition mk_fl_r (M E : Z) : option fl := let '(m, e) := round53 M E in mk_fl m e.

(* float64(z) of an integer: the nearest float64, ties to even (exact up to 2^53; Go's conversion and
   JavaScript's number of a larger integer round the same way), so every int64 has a float *)
Definition fl_of_int (z : Z) : option fl := mk_fl_r z 0.

Definition fl_add_r (x y : fl) : option fl :=
  match x, y with
  | FFin m1 e1, FFin m2 e2 =>
      let e := Z.min e1 e2 in
      mk_fl_r (m1 * 2 ^ (e1 - e) + m2 * 2 ^ (e2 - e)) e
  | _, _ => fl_add x y
  end.

Definition fl_sub_r (x y : fl) : option fl := fl_add_r x (fl_neg y).

Definition fl_mul_r (x y : fl) : option fl :=
  match x, y with
  | FFin m1 e1, FFin m2 e2 => mk_fl_r (m1 * m2) (e1 + e2)
  | _, _ => fl_mul x y
  end.

(* the quotient to 56 or more bits plus a sticky bit for the remainder, then rounded *)
Definition fl_div_r (x y : fl) : option fl :=
  match x, y with
  | FFin m1 e1, FFin m2 e2 =>
      let a := Z.abs m1 in
      let c := Z.abs m2 in
      let k := Z.max 0 (56 + Z.log2 c - Z.log2 a) in
      let num := a * 2 ^ k in
      let mp := 2 * (num / c) + (if num mod c =? 0 then 0 else 1) in
      mk_fl_r (if xorb (m1 <? 0) (m2 <? 0) then - mp else mp) (e1 - e2 - k - 1)
  | _, _ => fl_div x y
  end.

(* The restricted printer the JSON models use: exact decimal expansion without exponent, defined only for
   integers below 10^6 and fractions with at most nine binary places -- the domain where strconv's 'g' form
   (Float.String, [fl_to_string]) and encoding/json's float layout agree.  Outside it the JSON models answer
   OutOfModel.  (This is the definition [fl_to_string] had before it was extended to every float.) *)
Definition fl_to_string_dom (x : fl) : option bstr :=
  match x with
  | FNaN => Some [78; 97; 78]%N                      (* NaN *)
  | FInf false => Some [43; 73; 110; 102]%N          (* +Inf *)
  | FInf true => Some [45; 73; 110; 102]%N           (* -Inf *)
  | FZero false => Some [48]%N
  | FZero true => Some [45; 48]%N
  | FFin m e =>
      let a := Z.abs m in
      let sign : bstr := if m <? 0 then [45]%N else [] in
      if 0 <=? e then
        let v := a * 2 ^ e in
        if v <? 1000000 then Some (sign ++ dec_of_Z v) else None
      else if e <? -9 then None
      else
        let den := 2 ^ (- e) in
        let ip := a / den in
        if ip <? 1000000 then
          Some (sign ++ dec_of_Z ip ++ [46]%N ++ frac_digits 12 (a mod den) den)
        else None
  end.

(* a finite float in the normal form every operation above returns (mk_fl): a signed zero, or an odd mantissa *)
Definition fl_finite_norm (x : fl) : Prop :=
  match x with
  | FZero _ => True
  | FFin m _ => Z.odd m = true
  | _ => False
  end.
