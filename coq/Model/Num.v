(* Go int64 arithmetic with explicit wrap-around, and a dyadic model of float64.
   A float is NaN, an infinity, a signed zero, or m * 2^e with m odd; operations
   are exact and return [None] when the exact result is not a float64 or the
   operand lies outside the modelled domain (then the caller yields OutOfModel).
   Definitions only. *)
From Soy Require Import Model.Bytes.
Open Scope Z_scope.

Definition two63 : Z := 9223372036854775808.
Definition two64 : Z := 18446744073709551616.
Definition two53 : Z := 9007199254740992.
Definition wrap64 (z : Z) : Z := ((z + two63) mod two64) - two63.
Definition in_int64 (z : Z) : bool := (- two63 <=? z) && (z <? two63).

(* Go's % : truncated remainder, sign of the dividend *)
Definition go_rem (a c : Z) : Z := Z.rem a c.

Inductive fl := FNaN | FInf (neg : bool) | FZero (neg : bool) | FFin (m : Z) (e : Z).

Fixpoint strip2 (p : positive) (e : Z) : positive * Z :=
  match p with
  | xO p' => strip2 p' (e + 1)
  | _ => (p, e)
  end.

(* normalise m*2^e; [None] if the odd mantissa needs more than 53 bits or the
   exponent leaves a conservative safe range *)
Definition mk_fl (m e : Z) : option fl :=
  match m with
  | Z0 => Some (FZero false)
  | Zpos p => let '(q, e') := strip2 p e in
              if (Zpos q <? two53) && (-1000 <? e') && (e' <? 900) then Some (FFin (Zpos q) e') else None
  | Zneg p => let '(q, e') := strip2 p e in
              if (Zpos q <? two53) && (-1000 <? e') && (e' <? 900) then Some (FFin (Zneg q) e') else None
  end.

Definition fl_of_int (z : Z) : option fl := mk_fl z 0.

Definition fl_neg (x : fl) : fl :=
  match x with
  | FNaN => FNaN
  | FInf n => FInf (negb n)
  | FZero n => FZero (negb n)
  | FFin m e => FFin (- m) e
  end.

Definition fl_add (x y : fl) : option fl :=
  match x, y with
  | FFin m1 e1, FFin m2 e2 =>
      let e := Z.min e1 e2 in
      mk_fl (m1 * 2 ^ (e1 - e) + m2 * 2 ^ (e2 - e)) e
  | FZero n1, FZero n2 => Some (FZero (n1 && n2))
  | FZero _, FFin _ _ => Some y
  | FFin _ _, FZero _ => Some x
  | _, _ => None
  end.

Definition fl_sub (x y : fl) : option fl := fl_add x (fl_neg y).

Definition fl_isneg (x : fl) : bool :=
  match x with FNaN => false | FInf n => n | FZero n => n | FFin m _ => m <? 0 end.

Definition fl_mul (x y : fl) : option fl :=
  match x, y with
  | FFin m1 e1, FFin m2 e2 => mk_fl (m1 * m2) (e1 + e2)
  | FZero _, FFin _ _ | FFin _ _, FZero _ | FZero _, FZero _ => Some (FZero (xorb (fl_isneg x) (fl_isneg y)))
  | _, _ => None
  end.

Definition fl_div (x y : fl) : option fl :=
  match x, y with
  | FFin m1 e1, FFin m2 e2 =>
      if (m1 mod m2 =? 0) then mk_fl (m1 / m2) (e1 - e2) else None
  | FZero _, FFin _ _ => Some (FZero (xorb (fl_isneg x) (fl_isneg y)))
  | FFin _ _, FZero _ => Some (FInf (xorb (fl_isneg x) (fl_isneg y)))
  | FZero _, FZero _ => Some FNaN
  | _, _ => None
  end.

(* three-way comparison of finite values; None when unordered (NaN) *)
Definition fl_cmp (x y : fl) : option comparison :=
  match x, y with
  | FNaN, _ | _, FNaN => None
  | FInf a, FInf c => Some (if Bool.eqb a c then Eq else if a then Lt else Gt)
  | FInf a, _ => Some (if a then Lt else Gt)
  | _, FInf c => Some (if c then Gt else Lt)
  | FZero _, FZero _ => Some Eq
  | FZero _, FFin m _ => Some (if m <? 0 then Gt else Lt)
  | FFin m _, FZero _ => Some (if m <? 0 then Lt else Gt)
  | FFin m1 e1, FFin m2 e2 =>
      let e := Z.min e1 e2 in
      Some (Z.compare (m1 * 2 ^ (e1 - e)) (m2 * 2 ^ (e2 - e)))
  end.
Definition fl_eqb (x y : fl) : bool := match fl_cmp x y with Some Eq => true | _ => false end.
Definition fl_ltb (x y : fl) : bool := match fl_cmp x y with Some Lt => true | _ => false end.
Definition fl_leb (x y : fl) : bool := match fl_cmp x y with Some Lt | Some Eq => true | _ => false end.
Definition fl_is_nan (x : fl) : bool := match x with FNaN => true | _ => false end.
Definition fl_is_zero (x : fl) : bool := match x with FZero _ => true | _ => false end.

(* floor / ceil / truncation to an integer value (exact on dyadics) *)
Definition fl_floor_Z (x : fl) : option Z :=
  match x with
  | FZero _ => Some 0
  | FFin m e => Some (if 0 <=? e then m * 2 ^ e else m / 2 ^ (- e))
  | _ => None
  end.
Definition fl_ceil_Z (x : fl) : option Z :=
  match x with
  | FZero _ => Some 0
  | FFin m e => Some (if 0 <=? e then m * 2 ^ e else - ((- m) / 2 ^ (- e)))
  | _ => None
  end.
Definition fl_trunc_Z (x : fl) : option Z :=
  match x with
  | FZero _ => Some 0
  | FFin m e => Some (if 0 <=? e then m * 2 ^ e else Z.quot m (2 ^ (- e)))
  | _ => None
  end.

(* strconv.FormatFloat(x, 'g', -1, 64) on the domain where the shortest
   representation is the exact decimal expansion printed without exponent:
   |x| < 10^6 and e >= -9 (at most 6 + 9 = 15 significant digits). *)
Fixpoint frac_digits (fuel : nat) (num den : Z) : bstr :=
  (* decimal digits of num/den in [0,1), den a power of two, until exact *)
  match fuel with
  | O => []
  | S f => if num =? 0 then [] else
           let d := (num * 10) / den in
           (Z.to_N (48 + d)) :: frac_digits f ((num * 10) mod den) den
  end.

Definition fl_to_string (x : fl) : option bstr :=
  match x with
  | FNaN => Some [78; 97; 78]%N                      (* NaN *)
  | FInf false => Some [43; 73; 110; 102]%N          (* +Inf *)
  | FInf true => Some [45; 73; 110; 102]%N           (* -Inf *)
  | FZero false => Some [48]%N
  | FZero true => Some [45; 48]%N
  | FFin m e =>
      let a := Z.abs m in
      let sign : bstr := if m <? 0 then [45]%N else [] in
      if 0 <=? e then
        let v := a * 2 ^ e in
        if v <? 1000000 then Some (sign ++ dec_of_Z v) else None
      else if e <? -9 then None
      else
        let den := 2 ^ (- e) in
        let ip := a / den in
        if ip <? 1000000 then
          Some (sign ++ dec_of_Z ip ++ [46]%N ++ frac_digits 12 (a mod den) den)
        else None
  end.
