(* C09 — the renderer (Model/Interp.v), JavaScript generation and compilation
   as THREADS of the interleaving model (Model/Conc.v).  Definitions only.

   What is shared between goroutines that use one compiled bundle, and the
   abstract location that stands for it here:

     LRegistry   the template.Registry behind the Tofu: templates, syntax
                 trees (including every PrintNode.Directives list), sources
     LFiles      the same registry's SoyFiles: the tree of every file, which
                 soyjs.Write walks (the same Go objects as the template
                 bodies; a separate location only because the two models take
                 them as separate values -- nobody writes either)
     LConfig     the package-level registries a render consults
                 (ObligatoryPrintDirectiveNames; PrintDirectives and Funcs are
                 tables of Generated/Tables.v in the model)
     LMessages   the soymsg.Bundle given to WithMessages
     LHeap       every map the CALLER owns and passes in: the data maps and the
                 $ij map, with everything reachable from them
     LOwn i      memory only thread i can reach (a Bundle being compiled, its
                 scanner goroutine and channel, ...)

   The heap is ONE location on purpose: a map nested in one data map may be
   the same Go object as a map nested in another, so a write through one root
   can conflict with a read through another; with one location every such
   pair is a conflict, so race-freedom at this granularity implies
   race-freedom at any finer one.

   A render thread reads the four shared objects (the model's [render] takes
   them as immutable Coq values: reads only, by construction) and then performs
   one write to LHeap per entry of [rr_shared_writes], the list in which
   Interp records every [set] on a frame whose map belongs to the caller
   (frame origin [OExternal]).  That an immutable [cfg] is the right model of
   the registry is a statement about the Go code: on the pinned tree
   evalPrint APPENDED the obligatory directives to the shared
   PrintNode.Directives (ledger I5) -- a write to LRegistry by every render,
   modelled below as [pinned_print_prog] to show that the theory flags it; the
   model of the renderer describes the tree after that repair. *)
From Soy Require Import Model.Bytes Model.Values Model.Outcome Model.Ast Model.Interp Model.Conc.
Open Scope N_scope.

Inductive rloc := LRegistry | LFiles | LConfig | LMessages | LHeap | LOwn (i : nat).

Definition rloc_eqb (a c : rloc) : bool :=
  match a, c with
  | LRegistry, LRegistry | LFiles, LFiles | LConfig, LConfig | LMessages, LMessages | LHeap, LHeap => true
  | LOwn i, LOwn j => Nat.eqb i j
  | _, _ => false
  end.

Definition rowner (l : rloc) : option nat := match l with LOwn i => Some i | _ => None end.

Definition cheap := list (N * list (bstr * value)).      (* caller-owned root maps by identity *)
Fixpoint cheap_get (h : cheap) (id : N) : option (list (bstr * value)) :=
  match h with
  | [] => None
  | (k, m) :: r => if k =? id then Some m else cheap_get r id
  end.

(* a SoyFileNode: name and children *)
Record jfile := { jf_name : bstr; jf_body : list node }.

Inductive sval :=
| SRegistry (r : registry)
| SConfig (oblig : list bstr)
| SMessages (m : option msg_bundle)
| SHeap (h : cheap)
| SFiles (fs : list jfile)        (* Registry.SoyFiles: the processed tree of every file (what soyjs.Write walks) *)
| SClobbered.                     (* content after a write the model does not describe *)

(* one call of Renderer.Execute *)
Record creq := {
  cq_name : bstr;                 (* template *)
  cq_data : option N;             (* identity of the data map; None = nil map *)
  cq_ij : option N;               (* identity of the injected map, if any *)
  cq_fuel : nat;
  cq_calls : option nat;          (* the caller's writer (private to the render): fault automaton *)
  cq_bytes : option N;
  cq_first_id : N;                (* identities of the collections this render allocates *)
}.

Definition cfg_on (rq : creq) (r : registry) (o : list bstr) (m : option msg_bundle) (h : cheap) : option cfg :=
  match cq_ij rq with
  | None => Some {| c_reg := r; c_ij := None; c_oblig := o; c_msgs := m |}
  | Some j =>
      match cheap_get h j with
      | Some mj => Some {| c_reg := r; c_ij := Some (VMap j mj); c_oblig := o; c_msgs := m |}
      | None => None
      end
  end.

Definition data_on (rq : creq) (h : cheap) : option (N * list (bstr * value)) :=
  match cq_data rq with
  | None => Some (0, [])
  | Some d => match cheap_get h d with Some m => Some (d, m) | None => None end
  end.

(* the render on the values read from the store; None = the store does not hold a bundle *)
Definition render_on (rq : creq) (vr vc vm vh : sval) : option render_result :=
  match vr, vc, vm, vh with
  | SRegistry r, SConfig o, SMessages m, SHeap h =>
      match cfg_on rq r o m h, data_on rq h with
      | Some cf, Some (id, d) =>
          Some (render cf (cq_fuel rq) (cq_name rq) id d (cq_calls rq) (cq_bytes rq) (cq_first_id rq))
      | _, _ => None
      end
  | _, _, _, _ => None
  end.

Section Threads.
(* JavaScript generation and compilation are not modelled here: any functions *)
Variable J : Type.
Variable jsgen : registry -> N -> J.          (* soyjs.Write of file n of the registry *)
Variable compile : bstr -> registry.          (* Bundle.Compile of a source text *)

Inductive tres :=
| RRender (r : option render_result)
| RJs (j : option J)
| RCompiled (v : sval).

Definition rprog := prog rloc sval tres.

Fixpoint write_ids (ids : list N) (k : rprog) : rprog :=
  match ids with
  | [] => k
  | _ :: r => Write LHeap SClobbered (write_ids r k)
  end.

Definition render_prog (rq : creq) : rprog :=
  Read LRegistry (fun vr => Read LConfig (fun vc => Read LMessages (fun vm => Read LHeap (fun vh =>
    match render_on rq vr vc vm vh with
    | None => Done (RRender None)
    | Some rr => write_ids (rr_shared_writes rr) (Done (RRender (Some rr)))
    end)))).

(* the accesses of a render to shared locations, and its result, when run alone *)
Definition render_trace (rq : creq) (s : store rloc sval) : list (access rloc sval) :=
  solo_trace rloc_eqb (render_prog rq) s.
Definition render_alone (rq : creq) (s : store rloc sval) : option render_result :=
  render_on rq (s LRegistry) (s LConfig) (s LMessages) (s LHeap).

(* soyjs state is private to each Write: the thread reads the file node and writes nothing shared *)
Definition jsgen_prog (file : N) : rprog :=
  Read LRegistry (fun vr => match vr with SRegistry r => Done (RJs (Some (jsgen r file))) | _ => Done (RJs None) end).

(* compilation of an independent bundle by thread [i]: everything it writes is its own *)
Definition compile_prog (i : nat) (src : bstr) : rprog :=
  Write (LOwn i) (SRegistry (compile src)) (Read (LOwn i) (fun v => Done (RCompiled v))).

Inductive task := TRender (rq : creq) | TJsGen (file : N) | TCompile (src : bstr).

Definition task_prog (i : nat) (t : task) : rprog :=
  match t with
  | TRender rq => render_prog rq
  | TJsGen f => jsgen_prog f
  | TCompile src => compile_prog i src
  end.

Fixpoint progs_from (i0 : nat) (ts : list task) : list rprog :=
  match ts with
  | [] => []
  | t :: r => task_prog i0 t :: progs_from (S i0) r
  end.
Definition task_progs (ts : list task) : list rprog := progs_from 0 ts.

(* The pinned tree's evalPrint with a non-empty obligatory list, as a thread:
   it reads the node's directive list and writes the appended list back. *)
Definition pinned_print_prog : rprog :=
  Read LRegistry (fun vr => Write LRegistry SClobbered (Done (RRender None))).

End Threads.

(* a store that holds one compiled bundle, its configuration, a message bundle and the caller's maps *)
Definition bundle_store (reg : registry) (oblig : list bstr) (msgs : option msg_bundle) (h : cheap) : store rloc sval :=
  fun l => match l with
           | LRegistry => SRegistry reg
           | LConfig => SConfig oblig
           | LMessages => SMessages msgs
           | LHeap => SHeap h
           | LFiles => SClobbered      (* see bundle_store_files of Model/ConcJs.v *)
           | LOwn _ => SClobbered
           end.
