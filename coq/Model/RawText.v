(* parse/rawtext.go: rawtext(s, trimBefore, trimAfter), the line-joining loop.
   Definitions only; proofs are in Proofs/RawTextProofs.v.

   The Go loop reads one rune per iteration (utf8.DecodeRuneInString) and keeps
     spaces, seenNewline, lastChar, charBeforeTrim, result[:resultLen]
   plus the lexer positions lastpos/pos.  Here:
     - [before] is s[:lastpos] reversed (so s[lastpos-n:lastpos] reversed is
       [firstn n before]);
     - [result] is result[:resultLen] reversed;
     - [oob] records a slice index below 0 in one of the two copy loops (Go
       would panic with "index out of range"); it is sticky and turns the
       outcome into [Crash], so that a totalised [firstn] cannot hide it;
     - a rune of width w is handled at its first byte ([rt_step], which copies
       that first byte when the rune is not white space); its remaining w-1
       bytes are copied by the [skip] branch of [rt_loop].  This is the loop
       "for i := lex.lastpos; i < lex.pos; i++ { result[..] = lex.str[i] }"
       unrolled over the structural recursion.  Invalid UTF-8 decodes to
       (RuneError, 1): the byte is copied verbatim and lastChar = RuneError. *)
From Soy Require Import Model.Bytes.
From Soy Require Import Model.Utf8.
From Soy Require Import Model.Outcome.
Open Scope N_scope.

(* parse/lexer.go isSpace, isEndOfLine; parse/rawtext.go isTightJoiner *)
Definition is_space (r : N) : bool := (r =? 32) || (r =? 9).
Definition is_eol (r : N) : bool := (r =? 13) || (r =? 10).
Definition is_tight_joiner (r : N) : bool := (r =? 0) || (r =? 60) || (r =? 62).

Record rt := mk_rt {
  rt_spaces : nat;      (* spaces *)
  rt_nl : bool;         (* seenNewline *)
  rt_last : N;          (* lastChar (a rune) *)
  rt_cbt : N;           (* charBeforeTrim (a rune) *)
  rt_result : bstr;     (* result[:resultLen], reversed *)
  rt_oob : bool         (* a copy loop indexed s below 0 *)
}.

(* for i := lo-n; i < lo; i++ { result[resultLen] = s[i]; resultLen++ }
   with [before] = s[:lo] reversed *)
Definition rt_copy_back (n : nat) (before : bstr) (st : rt) : rt :=
  if (n <=? length before)%nat
  then mk_rt (rt_spaces st) (rt_nl st) (rt_last st) (rt_cbt st) (firstn n before ++ rt_result st) (rt_oob st)
  else mk_rt (rt_spaces st) (rt_nl st) (rt_last st) (rt_cbt st) (rt_result st) true.

Definition rt_push (c : N) (st : rt) : rt :=
  mk_rt (rt_spaces st) (rt_nl st) (rt_last st) (rt_cbt st) (c :: rt_result st) (rt_oob st).

(* the switch "done with scanning a set of space", followed by spaces = 0 *)
Definition rt_flush (before : bstr) (r : N) (st : rt) : rt :=
  let st1 :=
    if negb (rt_nl st) then rt_copy_back (rt_spaces st) before st
    else if negb (is_tight_joiner (rt_cbt st)) && negb (is_tight_joiner r) then rt_push 32 st
    else st in
  mk_rt 0 (rt_nl st1) (rt_last st1) (rt_cbt st1) (rt_result st1) (rt_oob st1).

(* from "begin to trim" to the end of the loop body; [c] is the first byte of
   the rune [r] *)
Definition rt_begin (r c : N) (st : rt) : rt :=
  let nl := is_eol r in
  if is_space r || nl
  then mk_rt 1 nl (rt_last st) (rt_last st) (rt_result st) (rt_oob st)
  else mk_rt (rt_spaces st) nl r (rt_cbt st) (c :: rt_result st) (rt_oob st).

(* one iteration of the loop for the rune [r] whose first byte is [c] *)
Definition rt_step (before : bstr) (r c : N) (st : rt) : rt :=
  match rt_spaces st with
  | S n =>
      if is_space r then mk_rt (S (S n)) (rt_nl st) (rt_last st) (rt_cbt st) (rt_result st) (rt_oob st)
      else if is_eol r then mk_rt (S (S n)) true (rt_last st) (rt_cbt st) (rt_result st) (rt_oob st)
      else rt_begin r c (rt_flush before r st)
  | O => rt_begin r c st
  end.

Definition e_rt_index := Eval vm_compute in b "index out of range".

(* the branch "if lex.eof()"; [all] is s reversed *)
Definition rt_finish (ta : bool) (all : bstr) (st : rt) : outcome bstr :=
  let st1 :=
    if negb (rt_nl st) && (0 <? rt_spaces st)%nat && negb ta
    then rt_copy_back (rt_spaces st) all st else st in
  if rt_oob st1 then Crash e_rt_index else Ok (rev (rt_result st1)).

Fixpoint rt_loop (ta : bool) (skip : nat) (before : bstr) (st : rt) (s : bstr) : outcome bstr :=
  match s with
  | [] => rt_finish ta before st
  | c :: rest =>
      match skip with
      | S k => rt_loop ta k (c :: before) (rt_push c st) rest
      | O => let '(r, w) := decode_rune s in
             rt_loop ta (pred w) (c :: before) (rt_step before r c st) rest
      end
  end.

Definition rt_init (tb : bool) : rt := mk_rt (if tb then 1%nat else 0%nat) tb 0 0 [] false.

Definition rawtext_run (s : bstr) (tb ta : bool) : outcome bstr := rt_loop ta 0 [] (rt_init tb) s.

(* the returned slice; [] stands for "did not return" (Proofs/RawTextProofs.v
   shows that never happens) *)
Definition rawtext (s : bstr) (tb ta : bool) : bstr :=
  match rawtext_run s tb ta with Ok o => o | _ => [] end.
