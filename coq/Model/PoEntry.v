(* A whole entry of a PO file and the file-level loop, as xgettext-soy writes them and pomsg reads them
   back: the comment lines (library code github.com/robfig/gettext/po, modelled by hand from its source)
     writer.mul / spc / one, Comment.WriteTo, Message.WriteTo, File.WriteTo          (writer.go, po.go)
     scanner.nextmsg / mul / spc / one, the message literal and the loop of Parse     (scanner.go, po.go)
     strings.Split(desc, "\n"), strings.Fields (ASCII white space)
   and the entry of the extractor (soymsg/pomsg/xgettext-soy/main.go, after repair a5cfda0: one "#. " line
   per line of the description) and of the tree before that repair (the description as ONE value).
   The quoted fields are Model/PoFile.v.  Definitions only; proofs in Proofs/PoEntryProofs.v.

   The writer's values are BYTES: a value with a newline inside becomes two physical lines of the file,
   which is exactly what the reader sees (scan_lines over the bytes).  Nothing here assumes that a
   "line" written by the writer has no newline inside. *)
From Soy Require Import Model.Bytes Model.Outcome Model.Utf8 Model.PoFile.
Open Scope N_scope.

(* strings.Split(s, "\n"): always at least one piece *)
Fixpoint pe_split_nl (cur s : bstr) : list bstr :=
  match s with
  | [] => [cur]
  | c :: r => if c =? 10 then cur :: pe_split_nl [] r else pe_split_nl (cur ++ [c]) r
  end.

(* strings.Fields on ASCII white space *)
Fixpoint pe_fields_go (cur s : bstr) : list bstr :=
  match s with
  | [] => match cur with [] => [] | _ => [cur] end
  | c :: r => if is_space c then (match cur with [] => pe_fields_go [] r | _ => cur :: pe_fields_go [] r end)
              else pe_fields_go (cur ++ [c]) r
  end.
Definition pe_fields (s : bstr) : list bstr := pe_fields_go [] s.

Definition pe_w_translator := Eval vm_compute in b "#  ".
Definition pe_w_extracted := Eval vm_compute in b "#. ".
Definition pe_w_reference := Eval vm_compute in b "#: ".
Definition pe_w_flag := Eval vm_compute in b "#, ".
Definition pe_w_prev_ctxt := Eval vm_compute in b "#| msgctxt ".
Definition pe_w_prev_id := Eval vm_compute in b "#| msgid ".
Definition pe_w_prev_id_plural := Eval vm_compute in b "#| msgid_plural ".

Definition pe_r_translator := Eval vm_compute in b "# ".
Definition pe_r_extracted := Eval vm_compute in b "#.".
Definition pe_r_reference := Eval vm_compute in b "#:".
Definition pe_r_flag := Eval vm_compute in b "#,".
Definition pe_r_prev_ctxt := Eval vm_compute in b "#| msgctxt".
Definition pe_r_prev_id := Eval vm_compute in b "#| msgid".
Definition pe_r_prev_id_plural := Eval vm_compute in b "#| msgid_plural".

Record pe_comment := {
  pc_translator : list bstr; pc_extracted : list bstr; pc_refs : list bstr; pc_flags : list bstr;
  pc_prev_ctxt : bstr; pc_prev_id : bstr; pc_prev_id_plural : bstr }.

Record pe_message := { pm_comment : pe_comment; pm_fields : po_fields }.

(* ------------------------------------------------------------------ *)
(* writer: every element is written followed by "\n"                   *)
(* ------------------------------------------------------------------ *)

Definition pe_w_mul (prefix : bstr) (vals : list bstr) : list bstr := map (fun v => prefix ++ v) vals.
Fixpoint pe_join_sp (vals : list bstr) : bstr :=
  match vals with [] => [] | [v] => v | v :: r => v ++ 32 :: pe_join_sp r end.
Definition pe_w_spc (prefix : bstr) (vals : list bstr) : list bstr :=
  match vals with [] => [] | _ => [prefix ++ pe_join_sp vals] end.
Definition pe_w_one (prefix val : bstr) : list bstr := match val with [] => [] | _ => [prefix ++ val] end.

(* Comment.WriteTo *)
Definition pe_write_comment (c : pe_comment) : list bstr :=
  pe_w_mul pe_w_translator (pc_translator c) ++ pe_w_mul pe_w_extracted (pc_extracted c)
  ++ pe_w_spc pe_w_reference (pc_refs c) ++ pe_w_spc pe_w_flag (pc_flags c)
  ++ pe_w_one pe_w_prev_ctxt (pc_prev_ctxt c) ++ pe_w_one pe_w_prev_id (pc_prev_id c)
  ++ pe_w_one pe_w_prev_id_plural (pc_prev_id_plural c).

Section PoEntry.
Variable is_print : N -> bool.

(* Message.WriteTo *)
Definition pe_write_message (m : pe_message) : list bstr :=
  pe_write_comment (pm_comment m) ++ po_write_fields is_print (pm_fields m).

(* File.WriteTo without a header: every message followed by an empty line; the bytes of the file *)
Definition pe_write_file (ms : list pe_message) : bstr :=
  join_lines (flat_map (fun m => pe_write_message m ++ [[]]) ms).

(* ------------------------------------------------------------------ *)
(* the extractor's entry                                               *)
(* ------------------------------------------------------------------ *)

Definition pe_id_eq := Eval vm_compute in b "id=".
Definition pe_var_eq := Eval vm_compute in b "var=".
Definition pe_sp_var_eq := Eval vm_compute in b " var=".

(* fmt.Sprintf("id=%d%v", node.ID, pluralVar): ONE reference string, with a blank inside for a plural *)
Definition pe_reference (id : N) (plural_var : option bstr) : bstr :=
  pe_id_eq ++ dec_of_N id ++ match plural_var with Some v => pe_sp_var_eq ++ v | None => [] end.

Definition pe_comment_of (extracted : list bstr) (ref : bstr) : pe_comment :=
  {| pc_translator := []; pc_extracted := extracted; pc_refs := [ref]; pc_flags := [];
     pc_prev_ctxt := []; pc_prev_id := []; pc_prev_id_plural := [] |}.

(* after a5cfda0: ExtractedComments = strings.Split(node.Desc, "\n") *)
Definition pe_extract_entry (desc : bstr) (id : N) (plural_var : option bstr) (f : po_fields) : pe_message :=
  {| pm_comment := pe_comment_of (pe_split_nl [] desc) (pe_reference id plural_var); pm_fields := f |}.

(* before it: ExtractedComments = []string{node.Desc} *)
Definition pe_extract_entry_pinned (desc : bstr) (id : N) (plural_var : option bstr) (f : po_fields) : pe_message :=
  {| pm_comment := pe_comment_of [desc] (pe_reference id plural_var); pm_fields := f |}.

(* ------------------------------------------------------------------ *)
(* scanner                                                             *)
(* ------------------------------------------------------------------ *)

(* scanner.mul(prefix) *)
Fixpoint pe_r_mul (fuel : nat) (prefix : bstr) (acc : list bstr) (s : scan) : outcome (list bstr * scan) :=
  match fuel with
  | O => OutOfFuel
  | S f =>
      if sc_prefix prefix s then
        let acc' := acc ++ [sc_txt prefix s] in
        let '(more, s1) := sc_scan s in
        if more then pe_r_mul f prefix acc' s1 else Ok (acc', s1)
      else Ok (acc, s)
  end.

(* scanner.spc(prefix) *)
Definition pe_r_spc (prefix : bstr) (s : scan) : list bstr * scan :=
  if sc_prefix prefix s then (pe_fields (sc_txt prefix s), snd (sc_scan s)) else ([], s).

(* scanner.one(prefix) *)
Definition pe_r_one (prefix : bstr) (s : scan) : bstr * scan :=
  if sc_prefix prefix s then (sc_txt prefix s, snd (sc_scan s)) else ([], s).

(* the message literal of Parse, fields in source order *)
Definition pe_read_message (s : scan) : outcome (pe_message * scan) :=
  let fuel := S (S (length (sc_rest s))) in
  '(tr, s1) <- pe_r_mul fuel pe_r_translator [] s ;;
  '(ex, s2) <- pe_r_mul fuel pe_r_extracted [] s1 ;;
  let '(refs, s3) := pe_r_spc pe_r_reference s2 in
  let '(flags, s4) := pe_r_spc pe_r_flag s3 in
  let '(pc, s5) := pe_r_one pe_r_prev_ctxt s4 in
  let '(pi, s6) := pe_r_one pe_r_prev_id s5 in
  let '(pp, s7) := pe_r_one pe_r_prev_id_plural s6 in
  '(f, s8) <- po_read_fields s7 ;;
  Ok ({| pm_comment := {| pc_translator := tr; pc_extracted := ex; pc_refs := refs; pc_flags := flags;
                          pc_prev_ctxt := pc; pc_prev_id := pi; pc_prev_id_plural := pp |};
         pm_fields := f |}, s8).

(* scanner.nextmsg(): skips lines that are blank or precisely "#" *)
Fixpoint pe_nextmsg (fuel : nat) (s : scan) : outcome (bool * scan) :=
  match fuel with
  | O => OutOfFuel
  | S f =>
      if sc_err s then Ok (false, s)
      else let '(more, s1) := sc_scan s in
           if negb more then Ok (false, s1)
           else if Nat.ltb 1 (length (trim_space (sc_cur s1))) then Ok (true, s1)
           else pe_nextmsg f s1
  end.

(* the loop of Parse *)
Fixpoint pe_parse_loop (fuel : nat) (acc : list pe_message) (s : scan) : outcome (list pe_message * scan) :=
  match fuel with
  | O => OutOfFuel
  | S f =>
      '(more, s1) <- pe_nextmsg (S (S (length (sc_rest s)))) s ;;
      if negb more then Ok (acc, s1)
      else '(m, s2) <- pe_read_message s1 ;; pe_parse_loop f (acc ++ [m]) s2
  end.

(* po.Parse up to the header: the messages, or the scanner's error.  (The first message is taken for
   the header when its msgid is empty and it has one msgstr; what Parse does with it -- textproto,
   Plural-Forms -- is outside this model: the caller gets it as it stands.) *)
Definition pe_e_scan := Eval vm_compute in b "po: scanner error".
Definition pe_parse (input : bstr) : outcome (list pe_message) :=
  let ls := scan_lines [] input in
  '(ms, s) <- pe_parse_loop (S (length ls)) [] {| sc_cur := []; sc_rest := ls; sc_err := false |} ;;
  if sc_err s then Err pe_e_scan else Ok ms.

(* ------------------------------------------------------------------ *)
(* what pomsg.newBundle takes from the references of an entry           *)
(* ------------------------------------------------------------------ *)

(* the loop over msg.References: the last "id=" and the last "var=" win; id text as written *)
Fixpoint pe_refs_id_var (refs : list bstr) (id var : option bstr) : option bstr * option bstr :=
  match refs with
  | [] => (id, var)
  | r :: rest =>
      if is_prefix pe_id_eq r then pe_refs_id_var rest (Some (drop 3 r)) var
      else if is_prefix pe_var_eq r then pe_refs_id_var rest id (Some (drop 4 r))
      else pe_refs_id_var rest id var
  end.

End PoEntry.
