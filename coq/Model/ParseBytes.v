(* parse.SoyFile and parse.Expr from the BYTES: the scanner model (Model/Lexer.v) composed with the
   parser model (Model/Parser.v over Model/ExprParser.v).  Definitions only.

   The nested scanner tree.parseQuotedExpr starts on an attribute string (lexExprAt) is the scanner
   model itself in expression mode; Model/Parser.v shifts its items to their place in the enclosing
   file.  strconv.Unquote (Go standard library, used by parseAttrs) stays a parameter [unq]: no
   theorem about termination or about the scanners' goroutines assumes anything about it.
   [uni_letter] / [uni_digit]: unicode.IsLetter / unicode.IsDigit. *)
From Soy Require Import Model.Bytes Model.Outcome Model.Ast Model.Token Model.Lexer Model.ExprParser Model.Parser.
Open Scope N_scope.

(* lexExpr("", str) as a total function.  The second branch is dead: the scanner model returns an item
   list for every string within its budget (Proofs/LexParseBridge.v lexq_model_runs). *)
Definition lexq_model (uni_letter uni_digit : Z -> bool) (str : bstr) : list tok :=
  match lex_items uni_letter uni_digit (lex_budget str) true str with
  | Ok ts => ts
  | _ => []
  end.

(* parse.SoyFile(name, s) *)
Definition soy_file_bytes (uni_letter uni_digit : Z -> bool) (unq : bstr -> option bstr) (s : bstr) : outcome parse_out :=
  ts <- lex_items uni_letter uni_digit (lex_budget s) false s ;;
  Ok (soy_file (N.of_nat (length s)) (lexq_model uni_letter uni_digit) unq ts).

(* parse.Expr(s) *)
Definition soy_expr_bytes (uni_letter uni_digit : Z -> bool) (s : bstr) : outcome parse_out :=
  ts <- lex_items uni_letter uni_digit (lex_budget s) true s ;;
  Ok (soy_expr (N.of_nat (length s)) ts).

(* the instances the model runner executes: the unicode tables of the toolchain *)
Definition soy_file_bytes_tbl (unq : bstr -> option bstr) (s : bstr) : outcome parse_out :=
  soy_file_bytes is_letter_tbl is_digit_tbl unq s.
Definition soy_expr_bytes_tbl (s : bstr) : outcome parse_out := soy_expr_bytes is_letter_tbl is_digit_tbl s.
