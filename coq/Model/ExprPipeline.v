(* C06: parse.Expr and the two standalone entry points that go through it, as
   functions of BYTE STRINGS: the scanner model (Model/Lexer.v, lexExpr with the
   toolchain's unicode tables), the expression parser model (Model/Parser.v
   soy_expr = parse.Expr after the drain repair, over Model/ExprParser.v) and the
   evaluator with the nil template (Model/InterpSafety.v eval_expr_impl, i.e.
   soyhtml.EvalExpr through errRecover), composed.  Definitions only.

   [OutOfModel] marks the one boundary of the parser model: a float literal
   whose decimal value is not a float64 of Model/Num.v's dyadic domain
   (NumLit.parse_float = None); the scanner has no such boundary. *)
From Soy Require Import Model.Bytes Model.Num Model.Values Model.Outcome Model.Ast Model.Token Model.NumLit
  Model.ExprParser Model.Parser Generated.Tables Model.Lexer Model.Interp Model.InterpSafety Model.Globals Spec.Safety.
Open Scope N_scope.

(* every float item denotes a float of the parser model's domain (decidable form of
   Proofs/LexParseBridge.v floats_ok) *)
Definition float_item_ok (t : tok) : bool :=
  if t_typ t =? itemFloat then match parse_float (t_val t) with Some _ => true | None => false end else true.
Definition floats_okb (ts : list tok) : bool := forallb float_item_ok ts.

(* parse.Expr(str): lexExpr("", str) in its goroutine, parseExpr(0) on the items, recover *)
Definition parse_expr_bytes (s : bstr) : outcome node :=
  match lex_items_tbl true s with
  | Ok (ts, _) =>
      if floats_okb ts then
        match po_result (soy_expr (N.of_nat (length s)) ts) with
        | POk n _ => Ok n
        | PErr _ class _ => Err class
        | PCrash m => Crash m
        | PFuel => OutOfFuel
        end
      else OutOfModel
  | Err m => Err m
  | Crash m => Crash m
  | Diverge => Diverge
  | OutOfFuel => OutOfFuel
  | OutOfModel => OutOfModel
  end.

(* the standalone evaluation of an expression given as text: parse.Expr, then soyhtml.EvalExpr
   (bare state, nil template, errRecover with the nil-template repair) *)
Definition eval_expr_bytes (fuel : nat) (s : bstr) : outcome value :=
  nd <- parse_expr_bytes s ;; eval_expr_impl true fuel nd.

(* soy.ParseGlobals on the bytes of the reader: the line loop of Model/Globals.v over that parser *)
Definition parse_globals_bytes (fuel : nat) (input : bstr) : outcome (list (bstr * value)) :=
  parse_globals parse_expr_bytes fuel input.

(* ---- budgets (Spec/Safety.v tree_height: the nesting depth of a tree) ---- *)

(* the text evaluated with the budget its own tree asks for: a value, an error, or outside the float model,
   for EVERY byte string *)
Definition eval_expr_text (s : bstr) : outcome value :=
  nd <- parse_expr_bytes s ;; eval_expr_impl true (tree_height nd) nd.


(* the budget ParseGlobals needs for an input: the tallest right-hand side *)
Definition line_fuel (line : bstr) : nat :=
  match line with
  | [] => 0%nat
  | _ => if is_comment line then 0%nat else
         match split_eq [] line with
         | None => 0%nat
         | Some (_, rhs) => match parse_expr_bytes (trim_space rhs) with Ok nd => tree_height nd | _ => 0%nat end
         end
  end.
Definition globals_fuel (input : bstr) : nat :=
  fold_right (fun raw acc => Nat.max (line_fuel (drop_cr raw)) acc) 0%nat (raw_lines [] input).

