(* C06: parse.Expr and the two standalone entry points that go through it, as
   functions of BYTE STRINGS: the scanner model (Model/Lexer.v, lexExpr with the
   toolchain's unicode tables), the expression parser model (Model/Parser.v
   soy_expr = parse.Expr after the drain repair, over Model/ExprParser.v) and the
   evaluator with the nil template (Model/InterpSafety.v eval_expr_impl, i.e.
   soyhtml.EvalExpr through errRecover), composed.  Definitions only.

   [OutOfModel] marks the one boundary of the parser model: a float literal
   whose decimal value is not a float64 of Model/Num.v's dyadic domain
   (NumLit.parse_float = None); the scanner has no such boundary. *)
From Soy Require Import Model.Bytes Model.Num Model.Values Model.Outcome Model.Ast Model.Token Model.NumLit
  Model.ExprParser Model.Parser Generated.Tables Model.Lexer Model.Interp Model.InterpSafety Model.Globals.
Open Scope N_scope.

(* every float item denotes a float of the parser model's domain (decidable form of
   Proofs/LexParseBridge.v floats_ok) *)
Definition float_item_ok (t : tok) : bool :=
  if t_typ t =? itemFloat then match parse_float (t_val t) with Some _ => true | None => false end else true.
Definition floats_okb (ts : list tok) : bool := forallb float_item_ok ts.

(* parse.Expr(str): lexExpr("", str) in its goroutine, parseExpr(0) on the items, recover *)
Definition parse_expr_bytes (s : bstr) : outcome node :=
  match lex_items_tbl true s with
  | Ok (ts, _) =>
      if floats_okb ts then
        match po_result (soy_expr (N.of_nat (length s)) ts) with
        | POk n _ => Ok n
        | PErr _ class _ => Err class
        | PCrash m => Crash m
        | PFuel => OutOfFuel
        end
      else OutOfModel
  | Err m => Err m
  | Crash m => Crash m
  | Diverge => Diverge
  | OutOfFuel => OutOfFuel
  | OutOfModel => OutOfModel
  end.

(* the standalone evaluation of an expression given as text: parse.Expr, then soyhtml.EvalExpr
   (bare state, nil template, errRecover with the nil-template repair) *)
Definition eval_expr_bytes (fuel : nat) (s : bstr) : outcome value :=
  nd <- parse_expr_bytes s ;; eval_expr_impl true fuel nd.

(* soy.ParseGlobals on the bytes of the reader: the line loop of Model/Globals.v over that parser *)
Definition parse_globals_bytes (fuel : nat) (input : bstr) : outcome (list (bstr * value)) :=
  parse_globals parse_expr_bytes fuel input.
