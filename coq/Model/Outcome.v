(* Outcomes of modelled Go computations. *)
From Soy Require Import Model.Bytes.

Inductive outcome (A : Type) : Type :=
| Ok (v : A)       (* returned normally *)
| Err (m : bstr)   (* a Go panic that a recover turns into an error value (class tag in [m]) *)
| Crash (m : bstr) (* a Go panic (or scanner-goroutine crash) that reaches the caller *)
| Diverge          (* a Go loop that never exits *)
| OutOfFuel        (* the model's own recursion budget ran out *)
| OutOfModel.      (* the computation left the modelled domain (inexact float, unmodelled library call) *)
Arguments Ok {A} v.
Arguments Err {A} m.
Arguments Crash {A} m.
Arguments Diverge {A}.
Arguments OutOfFuel {A}.
Arguments OutOfModel {A}.

Definition bind {A B} (x : outcome A) (f : A -> outcome B) : outcome B :=
  match x with
  | Ok v => f v
  | Err m => Err m
  | Crash m => Crash m
  | Diverge => Diverge
  | OutOfFuel => OutOfFuel
  | OutOfModel => OutOfModel
  end.
Notation "x <- e ;; f" := (bind e (fun x => f)) (at level 61, e at next level, right associativity).
Notation "' p <- e ;; f" := (bind e (fun p => f)) (at level 61, p pattern, e at next level, right associativity).

Definition is_ok {A} (x : outcome A) : bool := match x with Ok _ => true | _ => false end.
Definition is_err {A} (x : outcome A) : bool := match x with Err _ => true | _ => false end.
