(* The view of an AST node that the data-reference rules talk about (shared by
   Model/Checker.v, the model of parsepasses/datarefcheck.go, and Spec/Wf.v).

   The Go checker is generic in the node type: [checkTemplate] switches on a
   handful of node types (let, call, for, data reference, function, header
   param) and otherwise only uses [ParentNode.Children()].  [view] is that
   interface: every node becomes its kind [ck] plus the list of its children
   in the order of the Go [Children()] method (nil children omitted:
   [checkTemplate(nil)] does nothing).  Definitions only. *)
From Soy Require Import Model.Bytes Model.Values Model.Ast.
Open Scope N_scope.

(* ------------------------------------------------------------------ *)
(* the view of a node *)

Inductive ck :=
| KBlock                                   (* ListNode *)
| KLet (name : bstr)                       (* LetValueNode, LetContentNode *)
| KCall (name : bstr) (alldata hasdata : bool) (pkeys : list (option bstr))
                                           (* pkeys: Key of each CallParam{Value,Content}Node; None = any other node type *)
| KFor (var : bstr)                        (* children: List, Body, then IfEmpty when present *)
| KRef (key : bstr)                        (* DataRefNode *)
| KFunc (name : bstr) (arg0 : option bstr) (* FunctionNode; arg0 = Key of Args[0] when Args is exactly one DataRefNode without
                                              accesses (the only shape checkLoopFunc accepts for index/isFirst/isLast) *)
| KHeaderParam
| KOther.

Inductive rt := RT (k : ck) (kids : list rt).

Definition rt_kind (t : rt) : ck := match t with RT k _ => k end.
Definition rt_kids (t : rt) : list rt := match t with RT _ ks => ks end.

Definition param_key (n : node) : option bstr :=
  match n with
  | NParamValue _ k _ | NParamContent _ k _ => Some k
  | _ => None
  end.
Definition ref_key (n : node) : option bstr :=
  match n with NDataRef _ k _ => Some k | _ => None end.

(* checkLoopFunc: len(node.Args) == 1, Args[0] a *ast.DataRefNode with len(ref.Access) == 0 *)
Definition loop_arg (args : list node) : option bstr :=
  match args with [NDataRef _ k []] => Some k | _ => None end.

Fixpoint view (n : node) : rt :=
  let opt := fun (o : option node) => match o with Some x => [view x] | None => [] end in
  match n with
  | NNull _ | NBool _ _ | NInt _ _ | NFloat _ _ | NString _ _ _ | NGlobal _ _ _ => RT KOther []
  | NFunc _ name args => RT (KFunc name (loop_arg args)) (map view args)
  | NListLit _ items => RT KOther (map view items)
  | NMapLit _ items => RT KOther (map (fun kv => match kv with (_, e) => view e end) items)
  | NDataRef _ key access => RT (KRef key) (map view access)
  | NAccIndex _ _ _ | NAccKey _ _ _ => RT KOther []
  | NAccExpr _ _ a => RT KOther [view a]
  | NNot _ a | NNeg _ a => RT KOther [view a]
  | NBin _ _ a1 a2 => RT KOther [view a1; view a2]
  | NTern _ a1 a2 a3 => RT KOther [view a1; view a2; view a3]
  | NList _ nodes => RT KBlock (map view nodes)
  | NRawText _ _ => RT KOther []
  | NPrint _ arg dirs => RT KOther (view arg :: map view dirs)
  | NDirective _ _ args => RT KOther (map view args)
  | NCss _ e _ => RT KOther (opt e)
  | NLog _ body => RT KOther [view body]
  | NDebugger _ => RT KOther []
  | NIf _ conds => RT KOther (map view conds)
  | NIfCond _ c body => RT KOther (opt c ++ [view body])
  | NFor _ var l body ie => RT (KFor var) (view l :: view body :: opt ie)
  | NSwitch _ v cases => RT KOther (view v :: map view cases)
  | NSwitchCase _ values body => RT KOther (view body :: map view values)      (* Body first *)
  | NCall _ name alldata dat params =>
      RT (KCall name alldata (match dat with Some _ => true | None => false end) (map param_key params))
         (opt dat ++ map view params)
  | NParamValue _ _ v => RT KOther [view v]
  | NParamContent _ _ c => RT KOther [view c]
  | NLetValue _ name e => RT (KLet name) [view e]
  | NLetContent _ name body => RT (KLet name) [view body]
  | NMsg _ _ _ _ body => RT KOther (map view body)                               (* MsgNode.Children = Body.Children() *)
  | NMsgPlaceholder _ _ body => RT KOther [view body]
  | NMsgHtmlTag _ _ => RT KOther []
  | NMsgPlural _ _ v cases dflt =>
      (* [Value, Cases..., Default]; Default is itself a parent whose children are [dflt] *)
      RT KOther (view v :: map view cases ++ [RT KOther (map view dflt)])
  | NMsgPluralCase _ _ body => RT KOther [RT KOther (map view body)]            (* [Body], a parent *)
  | NTemplate _ _ body _ _ => RT KOther [view body]
  | NNamespace _ _ _ => RT KOther []
  | NSoyDoc _ params => RT KOther (map view params)
  | NSoyDocParam _ _ _ => RT KOther []
  | NHeaderParam _ _ _ _ _ => RT KHeaderParam []
  | NLiteral _ _ | NIdent _ _ | NOther _ _ => RT KOther []
  end.


Definition s_ij : bstr := Eval vm_compute in b "ij".
(* soyhtml loopFuncs (Generated.Tables.html_loop_funcs; equality checked in Proofs/CheckerProofs.v) *)
Definition loop_func_names : list bstr := Eval vm_compute in [b "index"; b "isFirst"; b "isLast"].

(* parsepasses.contains *)
Fixpoint contains (l : list bstr) (x : bstr) : bool :=
  match l with [] => false | y :: r => bstr_eqb y x || contains r x end.

Definition is_let_kind (k : ck) : bool := match k with KLet _ => true | _ => false end.
Definition is_block_kind (k : ck) : bool := match k with KBlock => true | _ => false end.

(* ast.SoyFileNode as parse.SoyFile returns it *)
Record soyfile := { sf_name : bstr; sf_text : bstr; sf_body : list node }.

(* every node of a file body paired with the node before it *)
Fixpoint with_prev (prev : option node) (body : list node) : list (option node * node) :=
  match body with
  | [] => []
  | x :: r => (prev, x) :: with_prev (Some x) r
  end.


(* ------------------------------------------------------------------ *)
(* shape and totality predicates used by the theorems and evaluated by the harness *)

(* a {let} occurs only as a direct child of a ListNode (the parser's shape) *)
Fixpoint shaped (t : rt) : bool :=
  match t with
  | RT k kids =>
      (is_block_kind k || negb (existsb (fun c => is_let_kind (rt_kind c)) kids))
      && (match k with KFor _ => (2 <=? length kids)%nat | _ => true end)
      && forallb shaped kids
  end.
Definition registry_shaped (reg : registry) : bool :=
  forallb (fun t => shaped (view (t_node t))) (r_templates reg).

(* every call passes every param its callee declares, explicitly or through
   data="all", and no call passes data="$expr" *)
Section Total.
Variable templates : list template.
Variable params : list bstr.
Fixpoint calls_total_rt (t : rt) : bool :=
  match t with
  | RT k kids =>
      (match k with
       | KCall name alldata hasdata pkeys =>
           negb hasdata &&
           match find_template templates name with
           | None => false
           | Some callee =>
               forallb (fun p => existsb (fun k => match k with Some k => bstr_eqb k p | None => false end) pkeys
                                 || (alldata && contains params p))
                       (map fst (t_params callee))
           end
       | _ => true
       end) && forallb calls_total_rt kids
  end.
End Total.
Definition calls_total (reg : registry) : bool :=
  forallb (fun t => calls_total_rt (r_templates reg) (map fst (t_params t)) (view (t_node t))) (r_templates reg).

(* the loops of a tree have a list and a body, and neither these nor {ifempty} is itself a {let} *)
Fixpoint loops_ok (t : rt) : bool :=
  match t with
  | RT k kids =>
      (match k with
       | KFor _ => (2 <=? length kids)%nat && negb (existsb (fun c => is_let_kind (rt_kind c)) kids)
       | _ => true
       end) && forallb loops_ok kids
  end.

(* what the Go types guarantee of a parsed file (TemplateNode.Body is a *ListNode,
   SoyDocNode.Params are *SoyDocParamNode) and [loops_ok] of every template *)
Definition template_typed (pn : option node * node) : bool :=
  match snd pn with
  | NTemplate _ _ body _ _ =>
      (match body with NList _ _ => true | _ => false end)
      && loops_ok (view body)
      && (match fst pn with
          | Some (NSoyDoc _ ps) => forallb (fun n => match n with NSoyDocParam _ _ _ => true | _ => false end) ps
          | _ => true
          end)
  | _ => true
  end.
Definition files_shaped (fs : list soyfile) : bool :=
  forallb (fun f => forallb template_typed (with_prev None (sf_body f))) fs.
Definition registry_loops_ok (reg : registry) : bool :=
  forallb (fun t => loops_ok (view (t_node t))) (r_templates reg).
