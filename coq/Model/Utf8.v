(* unicode/utf8: DecodeRune(InString), RuneStart, EncodeRune.  Definitions only. *)
From Soy Require Import Model.Bytes.
Open Scope N_scope.

Definition rune_error : N := 65533.
Definition in_range (lo hi c : N) : bool := (lo <=? c) && (c <=? hi).
Definition is_cont (c : N) : bool := in_range 128 191 c.
Definition rune_start (c : N) : bool := negb (is_cont c).   (* b&0xC0 != 0x80, for a byte *)

(* (rune, width); width 0 only for the empty string *)
Definition decode_rune (s : bstr) : N * nat :=
  match s with
  | [] => (rune_error, 0%nat)
  | b0 :: r =>
      if b0 <? 128 then (b0, 1%nat)
      else if in_range 194 223 b0 then
        match r with
        | b1 :: _ => if is_cont b1 then ((b0 - 192) * 64 + (b1 - 128), 2%nat) else (rune_error, 1%nat)
        | _ => (rune_error, 1%nat)
        end
      else if in_range 224 239 b0 then
        match r with
        | b1 :: b2 :: _ =>
            let lo := if b0 =? 224 then 160 else 128 in
            let hi := if b0 =? 237 then 159 else 191 in
            if in_range lo hi b1 && is_cont b2
            then ((b0 - 224) * 4096 + (b1 - 128) * 64 + (b2 - 128), 3%nat)
            else (rune_error, 1%nat)
        | _ => (rune_error, 1%nat)
        end
      else if in_range 240 244 b0 then
        match r with
        | b1 :: b2 :: b3 :: _ =>
            let lo := if b0 =? 240 then 144 else 128 in
            let hi := if b0 =? 244 then 143 else 191 in
            if in_range lo hi b1 && is_cont b2 && is_cont b3
            then ((b0 - 240) * 262144 + (b1 - 128) * 4096 + (b2 - 128) * 64 + (b3 - 128), 4%nat)
            else (rune_error, 1%nat)
        | _ => (rune_error, 1%nat)
        end
      else (rune_error, 1%nat)
  end.

Definition rune_width (s : bstr) : nat := snd (decode_rune s).

(* utf8.EncodeRune / string(rune): surrogates and out-of-range become U+FFFD *)
Definition encode_rune (r : N) : bstr :=
  if r <? 128 then [r]
  else if r <? 2048 then [192 + r / 64; 128 + r mod 64]
  else if (in_range 55296 57343 r) || (1114111 <? r) then [239; 191; 189]
  else if r <? 65536 then [224 + r / 4096; 128 + (r / 64) mod 64; 128 + r mod 64]
  else [240 + r / 262144; 128 + (r / 4096) mod 64; 128 + (r / 64) mod 64; 128 + r mod 64].

(* the runes of a string as `for _, r := range s` yields them, with offsets *)
Fixpoint runes_aux (skip : nat) (s : bstr) : list N :=
  match s with
  | [] => []
  | _ :: r =>
      match skip with
      | S k => runes_aux k r
      | O => let '(ru, w) := decode_rune s in ru :: runes_aux (pred w) r
      end
  end.
Definition runes (s : bstr) : list N := runes_aux 0 s.

(* utf8.Valid *)
Fixpoint utf8_valid_aux (skip : nat) (s : bstr) : bool :=
  match s with
  | [] => match skip with O => true | _ => false end
  | _ :: r =>
      match skip with
      | S k => utf8_valid_aux k r
      | O => let '(ru, w) := decode_rune s in
             if (ru =? rune_error) && Nat.eqb w 1 then false else utf8_valid_aux (pred w) r
      end
  end.
Definition utf8_valid (s : bstr) : bool := utf8_valid_aux 0 s.
