(* soyhtml/exec.go evalPrint, from the value's String() image onwards. *)
From Soy Require Import Model.Bytes Model.Outcome Generated.Tables Model.Escape Model.Directives.
Open Scope N_scope.

Definition e_nodirective := Eval vm_compute in b "no such directive".
Definition e_arity := Eval vm_compute in b "arity".
Definition e_nilapply := Eval vm_compute in b "nil Apply".

Definition directive_entry := (list N * (bool * (bool * bstr)))%type.
Definition lookup_directive (name : bstr) : option directive_entry := assoc_s name html_directives.

Definition check_num_args (allowed : list N) (n : nat) : bool := mem (N.of_nat n) allowed.

(* returns the final string and whether escaping is still wanted *)
Fixpoint apply_directives (dirs : list (bstr * list darg)) (s : bstr) (esc : bool) : outcome (bstr * bool) :=
  match dirs with
  | [] => Ok (s, esc)
  | (name, args) :: rest =>
      match lookup_directive name with
      | None => Err e_nodirective
      | Some (arglens, (cancel, (nilapply, fn))) =>
          if negb (check_num_args arglens (length args)) then Err e_arity
          else if nilapply then Err e_nilapply
          else s' <- apply_fn fn args s ;;
               apply_directives rest s' (esc && negb cancel)
      end
  end.

(* the sequence of Write calls evalPrint makes for a defined value *)
Definition print_writes (mode : N) (dirs : list (bstr * list darg)) (s : bstr) : outcome (list bstr) :=
  '(s', esc) <- apply_directives dirs s (negb (mode =? 2)) ;;
  Ok (if esc then esc_writes [] s' else [s']).

Definition print_impl (mode : N) (dirs : list (bstr * list darg)) (s : bstr) : outcome bstr :=
  ws <- print_writes mode dirs s ;; Ok (concat_b ws).
