(* C08: a sequence of renders over what the Go program shares between them.
   What a render could possibly write to, other than its own state:
     - the compiled registry: the only writer in soyhtml is evalPrint
       (exec.go:325-330), which builds the list of directives to apply from
       node.Directives and ObligatoryPrintDirectiveNames.  [dirs_after_print]
       says what the PrintNode's own list is after one execution: on the pinned
       tree the obligatory directives were appended to the node itself; the
       repaired code (/repo 25f4246, notes/applied/C08-directive-list-local.diff) builds the
       list locally.
     - the caller's data and injected-data maps (by identity): a [set] that
       lands on a frame whose map is the caller's is recorded by Interp in
       [rr_shared_writes]; here such a map is clobbered by an arbitrary function.
   Definitions only. *)
From Soy Require Import Model.Bytes Model.Num Model.Values Model.Outcome Model.Ast Model.Interp.
Open Scope N_scope.

Inductive variant := Pinned | Repaired.

(* the directive nodes evalPrint adds for the obligatory names *)
Definition oblig_nodes (oblig : list bstr) (p : N) : list node := map (fun nm => NDirective p nm []) oblig.

(* PrintNode.Directives after evalPrint ran once on a node whose list was [dirs] *)
Definition dirs_after_print (v : variant) (oblig : list bstr) (p : N) (dirs : list node) : list node :=
  match v with
  | Pinned => dirs ++ oblig_nodes oblig p        (* node.Directives = append(node.Directives, ...) *)
  | Repaired => dirs                             (* a local, capacity-capped copy is appended to *)
  end.

(* apply [f] to the directive list of every PrintNode of a tree *)
Fixpoint map_prints (f : N -> list node -> list node) (n : node) : node :=
  let go := map_prints f in
  match n with
  | NPrint p arg dirs => NPrint p (go arg) (f p (map go dirs))
  | NFunc p name args => NFunc p name (map go args)
  | NListLit p items => NListLit p (map go items)
  | NMapLit p items => NMapLit p (map (fun kv => (fst kv, go (snd kv))) items)
  | NDataRef p key access => NDataRef p key (map go access)
  | NAccExpr p ns arg => NAccExpr p ns (go arg)
  | NNot p a => NNot p (go a)
  | NNeg p a => NNeg p (go a)
  | NBin op p a1 a2 => NBin op p (go a1) (go a2)
  | NTern p a1 a2 a3 => NTern p (go a1) (go a2) (go a3)
  | NList p ns => NList p (map go ns)
  | NDirective p name args => NDirective p name (map go args)
  | NCss p e suffix => NCss p (option_map go e) suffix
  | NLog p body => NLog p (go body)
  | NIf p conds => NIf p (map go conds)
  | NIfCond p c body => NIfCond p (option_map go c) (go body)
  | NFor p var lst body ifempty => NFor p var (go lst) (go body) (option_map go ifempty)
  | NSwitch p v cases => NSwitch p (go v) (map go cases)
  | NSwitchCase p values body => NSwitchCase p (map go values) (go body)
  | NCall p name alldata dat params => NCall p name alldata (option_map go dat) (map go params)
  | NParamValue p k v => NParamValue p k (go v)
  | NParamContent p k c => NParamContent p k (go c)
  | NLetValue p name e => NLetValue p name (go e)
  | NLetContent p name body => NLetContent p name (go body)
  | NMsg p id meaning desc body => NMsg p id meaning desc (map go body)
  | NMsgPlaceholder p name body => NMsgPlaceholder p name (go body)
  | NMsgPlural p vn v cases dflt => NMsgPlural p vn (go v) (map go cases) (map go dflt)
  | NMsgPluralCase p v body => NMsgPluralCase p v (map go body)
  | NTemplate p name body ae priv => NTemplate p name (go body) ae priv
  | NSoyDoc p params => NSoyDoc p (map go params)
  | NHeaderParam p opt name typ dflt => NHeaderParam p opt name typ (option_map go dflt)
  | _ => n
  end.

Definition map_template (g : node -> node) (t : template) : template :=
  {| t_name := t_name t; t_node := g (t_node t); t_ns_name := t_ns_name t; t_ns_autoescape := t_ns_autoescape t;
     t_params := t_params t; t_file := t_file t |}.
Definition map_registry (g : node -> node) (r : registry) : registry :=
  {| r_templates := map (map_template g) (r_templates r); r_sources := r_sources r; r_files := r_files r |}.

(* what is shared between the renders of a history *)
Record shared := {
  sh_reg : registry;
  sh_heap : list (N * list (bstr * value));     (* the caller's data / ij maps, by identity *)
}.

Record request := {
  rq_name : bstr;
  rq_data : N;                 (* identity of the data map in the heap *)
  rq_ij : option N;            (* identity of the injected-data map, if any *)
  rq_fuel : nat;
  rq_calls_left : option nat;  (* the writer of this render *)
  rq_bytes_left : option N;
  rq_first_id : N;
}.

(* configuration that does not change along a history *)
Record world := {
  w_variant : variant;
  w_oblig : list bstr;                                     (* ObligatoryPrintDirectiveNames *)
  w_msgs : option msg_bundle;
  w_executions : request -> N -> nat;                      (* how often the print node at a position ran in that render *)
  w_clobber : N -> list (bstr * value) -> list (bstr * value);  (* what a write through a shared frame leaves behind *)
}.

Definition heap_get (h : list (N * list (bstr * value))) (id : N) : list (bstr * value) :=
  match assoc id h with Some m => m | None => [] end.

Definition cfg_of (wd : world) (sh : shared) (rq : request) : cfg :=
  {| c_reg := sh_reg sh;
     c_ij := match rq_ij rq with Some id => Some (VMap id (heap_get (sh_heap sh) id)) | None => None end;
     c_oblig := w_oblig wd; c_msgs := w_msgs wd |}.

Definition render_in (wd : world) (sh : shared) (rq : request) : render_result :=
  render (cfg_of wd sh rq) (rq_fuel rq) (rq_name rq) (rq_data rq) (heap_get (sh_heap sh) (rq_data rq))
         (rq_calls_left rq) (rq_bytes_left rq) (rq_first_id rq).

Definition shared_after (wd : world) (sh : shared) (rq : request) (r : render_result) : shared :=
  {| sh_reg := map_registry (map_prints (fun p dirs =>
                  Nat.iter (w_executions wd rq p) (dirs_after_print (w_variant wd) (w_oblig wd) p) dirs)) (sh_reg sh);
     sh_heap := map (fun e => if mem (fst e) (rr_shared_writes r) then (fst e, w_clobber wd (fst e) (snd e)) else e) (sh_heap sh) |}.

Definition step (wd : world) (sh : shared) (rq : request) : render_result * shared :=
  let r := render_in wd sh rq in (r, shared_after wd sh rq r).

Fixpoint run_history (wd : world) (sh : shared) (h : list request) : list render_result * shared :=
  match h with
  | [] => ([], sh)
  | rq :: rest =>
      let '(r, sh1) := step wd sh rq in
      let '(rs, sh2) := run_history wd sh1 rest in
      (r :: rs, sh2)
  end.
