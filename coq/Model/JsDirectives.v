(* soyjs/lib/soyutils.js: the helpers the generated JavaScript calls for the print
   directives (soyjs/directives.go), over UTF-16 code units -- a JavaScript string
   is a sequence of code units, each < 65536:
     soy.$$escapeJsString    str.replace(MATCHER_FOR_ESCAPE_JS_STRING_, table)
     soy.$$escapeUri         encodeURIComponent, then ' ( ) percent-encoded
     soy.$$escapeHtml        str.replace(MATCHER_FOR_ESCAPE_HTML_, table)
     soy.$$changeNewlineToBr goog.string.newLineToBr(str, false)
     soy.$$insertWordBreaks  the goog.format.insertWordBreaks shim
     soy.$$truncate
   For {$x|changeNewlineToBr} and {$x|insertWordBreaks:n} the generator emits
   helper(soy.$$escapeHtml(x)) (soyjs/exec.go visitPrint).  Arguments are integers.
   Definitions only. *)
From Soy Require Import Model.Bytes Model.Utf8 Model.Outcome Model.Directives Model.JsEscape.
Open Scope N_scope.

Definition ustr := list N.

Definition u_is_high (u : N) : bool := in_range 55296 56319 u.
Definition u_is_low (u : N) : bool := in_range 56320 57343 u.

(* ---- soy.$$escapeJsString ---- *)
Definition hex2_lc (c : N) : bstr := [hexdigit_lc (c / 16); hexdigit_lc (c mod 16)].
(* the escape map restricted to the characters the matcher matches; None = copied *)
Definition u_js_escape1 (c : N) : option ustr :=
  if c =? 9 then Some [92; 116]            (* \t *)
  else if c =? 10 then Some [92; 110]      (* \n *)
  else if c =? 12 then Some [92; 102]      (* \f *)
  else if c =? 13 then Some [92; 114]      (* \r *)
  else if c =? 47 then Some [92; 47]       (* \/ *)
  else if c =? 92 then Some [92; 92]       (* \\ *)
  else if (c =? 0) || (c =? 8) || (c =? 11) || (c =? 34) || (c =? 38) || (c =? 39) || (c =? 60) || (c =? 61) || (c =? 62) || (c =? 133)
       then Some (92 :: 120 :: hex2_lc c)  (* \xHH, lower-case digits *)
  else if c =? 8232 then Some [92; 117; 50; 48; 50; 56]
  else if c =? 8233 then Some [92; 117; 50; 48; 50; 57]
  else None.
Fixpoint u_escape_js_string (s : ustr) : ustr :=
  match s with
  | [] => []
  | c :: r => match u_js_escape1 c with Some e => e ++ u_escape_js_string r | None => c :: u_escape_js_string r end
  end.

(* ---- soy.$$escapeHtml ---- *)
Definition u_html_escape1 (c : N) : option ustr :=
  if c =? 0 then Some [38; 35; 48; 59]                    (* &#0; *)
  else if c =? 34 then Some [38; 113; 117; 111; 116; 59]  (* &quot; *)
  else if c =? 38 then Some [38; 97; 109; 112; 59]        (* &amp; *)
  else if c =? 39 then Some [38; 35; 51; 57; 59]          (* &#39; *)
  else if c =? 60 then Some [38; 108; 116; 59]            (* &lt; *)
  else if c =? 62 then Some [38; 103; 116; 59]            (* &gt; *)
  else None.
Definition u_esc1 (c : N) : ustr := match u_html_escape1 c with Some e => e | None => [c] end.
Fixpoint u_escape_html (s : ustr) : ustr :=
  match s with
  | [] => []
  | c :: r => u_esc1 c ++ u_escape_html r
  end.

(* ---- soy.$$changeNewlineToBr: str.replace(/(\r\n|\r|\n)/g, '<br>') ---- *)
Definition u_newline_to_br (s : ustr) : ustr := nl2br s.      (* the same loop as Model/Directives.v, on units *)
(* what the generated code computes for {$x|changeNewlineToBr} *)
Definition u_change_newline_to_br (s : ustr) : ustr := u_newline_to_br (u_escape_html s).

(* ---- the goog.format.insertWordBreaks shim ---- *)
(* state: inTag, maybeInEntity, numCharsWithoutBreak; the <wbr> is written before the unit *)
Fixpoint u_iwb_aux (maxc : Z) (intag inent : bool) (n : Z) (s : ustr) : ustr :=
  match s with
  | [] => []
  | c :: r =>
      let brk := (n >=? maxc)%Z && negb (c =? 32) && negb (u_is_low c) in
      let n := if brk then 0%Z else n in
      let pre := if brk then wbr else [] in
      let '(intag', inent', n') :=
        if intag then (negb (c =? 62), inent, n)
        else if inent then
          (if c =? 59 then (false, false, (n + 1)%Z)
           else if c =? 60 then (true, false, n)
           else if c =? 32 then (false, false, 0%Z)
           else (false, true, n))
        else
          (if c =? 60 then (true, false, n)
           else if c =? 38 then (false, true, n)
           else if c =? 32 then (false, false, 0%Z)
           else (false, false, (n + 1)%Z)) in
      pre ++ c :: u_iwb_aux maxc intag' inent' n' r
  end.
Definition u_word_breaks (s : ustr) (maxc : Z) : ustr := u_iwb_aux maxc false false 0%Z s.
(* what the generated code computes for {$x|insertWordBreaks:n} *)
Definition u_insert_word_breaks (s : ustr) (maxc : Z) : ustr := u_word_breaks (u_escape_html s) maxc.

(* ---- soy.$$truncate(str, maxLen, doAddEllipsis) ---- *)
(* str.charCodeAt(i): NaN outside the string, and NaN is in no range *)
Definition u_at (s : ustr) (i : Z) : option N := if (i <? 0)%Z then None else nth_error s (Z.to_nat i).
Definition u_high_at (s : ustr) (i : Z) : bool := match u_at s i with Some c => u_is_high c | None => false end.
Definition u_low_at (s : ustr) (i : Z) : bool := match u_at s i with Some c => u_is_low c | None => false end.

Definition u_truncate (s : ustr) (maxLen : Z) (ellipsis : bool) : ustr :=
  if (Z.of_nat (length s) <=? maxLen)%Z then s else
  let '(maxLen, ellipsis) :=
    if ellipsis then (if (maxLen >? 3)%Z then ((maxLen - 3)%Z, true) else (maxLen, false))
    else (maxLen, false) in
  let maxLen := if u_high_at s (maxLen - 1) && u_low_at s maxLen then (maxLen - 1)%Z else maxLen in
  take (Z.to_nat maxLen) s ++ (if ellipsis then dots else []).      (* substring(0, n): a negative n is 0 *)

(* ---- soy.$$escapeUri: encodeURIComponent (ECMA-262 Encode with uriUnescaped), then ' ( ) ---- *)
Definition uri_unescaped (c : N) : bool :=            (* uriAlpha, DecimalDigit, uriMark = - _ . ! ~ * ' ( ) *)
  in_range 65 90 c || in_range 97 122 c || in_range 48 57 c || mem c [45; 95; 46; 33; 126; 42; 39; 40; 41].
Definition pct_byte (c : N) : bstr := [37; hexdigit (c / 16); hexdigit (c mod 16)].     (* upper case *)
Fixpoint pct_bytes (bs : bstr) : bstr := match bs with [] => [] | c :: r => pct_byte c ++ pct_bytes r end.
Definition e_uri := Eval vm_compute in b "URIError".

Fixpoint u_escape_uri (s : ustr) : outcome bstr :=
  match s with
  | [] => Ok []
  | c :: r =>
      if uri_unescaped c then
        r' <- u_escape_uri r ;;
        Ok ((if (c =? 39) || (c =? 40) || (c =? 41) then [37; hexdigit_lc (c / 16); hexdigit_lc (c mod 16)]   (* soy.$$pctEncode_: toString(16) *)
             else [c]) ++ r')
      else if u_is_low c then Err e_uri
      else if u_is_high c then
        match r with
        | l :: r2 =>
            if u_is_low l then
              r' <- u_escape_uri r2 ;;
              Ok (pct_bytes (encode_rune (65536 + (c - 55296) * 1024 + (l - 56320))) ++ r')
            else Err e_uri
        | [] => Err e_uri
        end
      else r' <- u_escape_uri r ;; Ok (pct_bytes (encode_rune c) ++ r')
  end.

(* ---- UTF-16 <-> UTF-8 (for stating the JavaScript side against the byte-level decoders) ---- *)
(* the UTF-8 bytes of a well-formed code-unit string; None when a surrogate is unpaired *)
Fixpoint units_utf8 (s : ustr) : option bstr :=
  match s with
  | [] => Some []
  | c :: r =>
      if u_is_low c then None
      else if u_is_high c then
        match r with
        | l :: r2 => if u_is_low l then option_map (app (encode_rune (65536 + (c - 55296) * 1024 + (l - 56320)))) (units_utf8 r2) else None
        | [] => None
        end
      else option_map (app (encode_rune c)) (units_utf8 r)
  end.
