(* parsepasses/datarefcheck.go (CheckDataRefs, as repaired by cb3f9df, 3fac11a and
   the C14-loopfunc-shape repair) and template/registry.go (Registry.Add).

   The Go checker is generic in the node type; it runs here on the view of a
   node defined in Model/RefView.v (kind + Children()).  [chk] is
   [checkTemplate] on that view; [chk_recurse] is [templateChecker.recurse] with its save
   [initialVars := len(tc.vars)] / pop logic; [check_call] is [checkCall];
   [visit_key] is [visitKey].

   Orientation: Go keeps [tc.vars] innermost LAST; here the head of [vars] is
   the innermost binding, so [tc.vars[initialVars:]] is [firstn (len - initial)]
   and [tc.vars[:initialVars]] is [skipn (len - initial)].
   Definitions only. *)
From Soy Require Import Model.Bytes Model.Values Model.Outcome Model.Ast Model.RefView Generated.Tables.
Open Scope N_scope.

(* ------------------------------------------------------------------ *)
(* outcome of the checker *)

Inductive rej :=
| RUnbound            (* data ref %q not found *)
| RUnusedLet          (* {let} variables %q are not used *)
| RLetIj              (* Invalid variable name in 'let' command text: '$ij' *)
| RHeaderParam        (* unexpected {@param ...} tag found *)
| RNoTemplate         (* {call}: template %q not found *)
| RUndeclaredParam    (* Params %q are not declared by the callee *)
| RMissingParam       (* Required params %q are not passed by the call *)
| RBadCallParam       (* unexpected call param type *)
| RLoopFunc           (* index/isFirst/isLast applied to something that is not the variable of an enclosing loop *)
| RUnusedParam        (* params %q are unused *)
| RBothParamKinds     (* template may not have both soydoc and header params specified *)
| RDuplicateTemplate  (* template %q is defined more than once *)
| RNoNamespace        (* expected namespace / namespace required *)
| RShape.             (* a tree the Go types rule out (TemplateNode.Body is a *ListNode, ...) *)

Inductive verdict := Accept | Reject (r : rej).

(* ------------------------------------------------------------------ *)
(* templateChecker *)

Record binding := { b_name : bstr; b_let : bool; b_used : bool }.
Record cstate := {
  vars : list binding;       (* {let} and loop variables in scope, innermost FIRST *)
  used_keys : list bstr;     (* params that are referenced or passed on by data="all" *)
}.
Inductive cres := CO (s : cstate) | CR (r : rej).

Definition cbind (x : cres) (f : cstate -> cres) : cres :=
  match x with CO s => f s | CR r => CR r end.

Definition set_vars (st : cstate) (vs : list binding) : cstate := {| vars := vs; used_keys := used_keys st |}.
Definition add_used (st : cstate) (k : bstr) : cstate := {| vars := vars st; used_keys := used_keys st ++ [k] |}.
Definition push_var (st : cstate) (bd : binding) : cstate := set_vars st (bd :: vars st).

(* the loop of visitKey: mark the innermost binding of that name *)
Fixpoint mark (key : bstr) (vs : list binding) : option (list binding) :=
  match vs with
  | [] => None
  | v :: r =>
      if bstr_eqb (b_name v) key then Some ({| b_name := b_name v; b_let := b_let v; b_used := true |} :: r)
      else match mark key r with Some r' => Some (v :: r') | None => None end
  end.

Section Template.
Variable templates : list template.     (* tc.registry *)
Variable params : list bstr.            (* tc.params *)

Definition visit_key (key : bstr) (st : cstate) : cres :=
  if bstr_eqb key s_ij then CO st
  else match mark key (vars st) with
       | Some vs => CO (set_vars st vs)
       | None => if contains params key then CO (add_used st key) else CR RUnbound
       end.

(* checkCall *)
Fixpoint all_keys (pkeys : list (option bstr)) : option (list bstr) :=
  match pkeys with
  | [] => Some []
  | Some k :: r => match all_keys r with Some l => Some (k :: l) | None => None end
  | None :: _ => None
  end.

Definition check_call (name : bstr) (alldata hasdata : bool) (pkeys : list (option bstr)) (st : cstate) : cres :=
  match find_template templates name with
  | None => CR RNoTemplate
  | Some callee =>
      let all_callee := map fst (t_params callee) in
      let required_callee := map fst (filter (fun p => negb (snd p)) (t_params callee)) in
      (* data="all": the caller's params that the callee declares are used, and passed *)
      let passed_all := if alldata then filter (contains all_callee) params else [] in
      let st1 := {| vars := vars st; used_keys := used_keys st ++ passed_all |} in
      match all_keys pkeys with
      | None => CR RBadCallParam
      | Some keys =>
          let caller_names := passed_all ++ keys in
          if negb (forallb (contains all_callee) caller_names) then CR RUndeclaredParam
          else if hasdata then CO st1
          else if negb (forallb (contains caller_names) required_callee) then CR RMissingParam
          else CO st1
      end
  end.

(* checkLoopFunc (3fac11a + C14-loopfunc-shape): a loop function takes exactly one argument, the plain variable of an
   enclosing loop; [arg0] = None stands for every other shape of the argument list (RefView.loop_arg) *)
Definition check_loop_func (name : bstr) (arg0 : option bstr) (st : cstate) : cres :=
  if contains loop_func_names name then
    match arg0 with
    | Some key => if existsb (fun v => negb (b_let v) && bstr_eqb (b_name v) key) (vars st) then CO st else CR RLoopFunc
    | None => CR RLoopFunc
    end
  else CO st.

(* the loop over parent.Children() *)
Fixpoint run_each (cs : list (cstate -> cres)) (st : cstate) : cres :=
  match cs with
  | [] => CO st
  | c :: r => cbind (c st) (run_each r)
  end.

(* recurse *)
Definition chk_recurse (cs : list (cstate -> cres)) (st : cstate) : cres :=
  let initial := length (vars st) in
  cbind (run_each cs st) (fun st' =>
    let n := (length (vars st') - initial)%nat in
    (* the variables bound in this block go out of scope: every {let} among them must have been used *)
    if existsb (fun v => b_let v && negb (b_used v)) (firstn n (vars st')) then CR RUnusedLet
    else CO (set_vars st' (skipn n (vars st')))).

(* checkTemplate on a node of kind [k] whose children's checks are [cs] *)
Definition chk_body (k : ck) (cs : list (cstate -> cres)) (st : cstate) : cres :=
  match k with
  | KLet name =>
      (* the variable is in scope only after the {let}, not in its own value *)
      if bstr_eqb name s_ij then CR RLetIj
      else cbind (chk_recurse cs st) (fun st' => CO (push_var st' {| b_name := name; b_let := true; b_used := false |}))
  | KCall name alldata hasdata pkeys =>
      cbind (check_call name alldata hasdata pkeys st) (chk_recurse cs)
  | KFor var =>
      match cs with
      | l :: body :: ifempty =>
          (* the loop variable is in scope in the body only *)
          cbind (l st) (fun st1 =>
          cbind (body (push_var st1 {| b_name := var; b_let := false; b_used := false |})) (fun st2 =>
          run_each ifempty (set_vars st2 (tl (vars st2)))))
      | _ => CR RShape
      end
  | KRef key => cbind (visit_key key st) (chk_recurse cs)
  | KFunc name arg0 => cbind (check_loop_func name arg0 st) (chk_recurse cs)
  | KHeaderParam => CR RHeaderParam
  | KBlock | KOther => chk_recurse cs st
  end.

Fixpoint chk (t : rt) : cstate -> cres :=
  match t with RT k kids => chk_body k (map chk kids) end.

(* the body of the loop of CheckDataRefs for one template *)
Definition check_template_node (n : node) : verdict :=
  match chk (view n) {| vars := []; used_keys := [] |} with
  | CR r => Reject r
  | CO st => if forallb (contains (used_keys st)) params then Accept else Reject RUnusedParam
  end.
End Template.

(* CheckDataRefs *)
Fixpoint check_templates (all : list template) (ts : list template) : verdict :=
  match ts with
  | [] => Accept
  | t :: r =>
      match check_template_node all (map fst (t_params t)) (t_node t) with
      | Accept => check_templates all r
      | v => v
      end
  end.
Definition check_registry (reg : registry) : verdict := check_templates (r_templates reg) (r_templates reg).

(* ------------------------------------------------------------------ *)
(* Registry.Add *)

(* the namespace: the first node that is not a soydoc must be one *)
Fixpoint file_namespace (body : list node) : option (bstr * N) :=
  match body with
  | [] => None                                   (* namespace required *)
  | NSoyDoc _ _ :: r => file_namespace r
  | NNamespace _ name ae :: _ => Some (name, ae)
  | _ :: _ => None                               (* expected namespace, found ... *)
  end.

Fixpoint soydoc_params (ps : list node) : option (list (bstr * bool)) :=
  match ps with
  | [] => Some []
  | NSoyDocParam _ name opt :: r => match soydoc_params r with Some l => Some ((name, opt) :: l) | None => None end
  | _ :: _ => None                               (* []*SoyDocParamNode in Go *)
  end.

(* leading header params of the template body, and the rest.  Each becomes a
   SoyDocParamNode{Name, Optional}; the expression for Optional is regenerated
   from registry.go (Generated.Tables.header_param_optional: at present just the
   ? marker -- the Default expression is parsed and stored but never applied by
   the renderer, so a default does not make a param optional) *)
Definition is_some {A} (o : option A) : bool := match o with Some _ => true | None => false end.
Fixpoint split_header (ns : list node) : list (bstr * bool) * list node :=
  match ns with
  | NHeaderParam _ opt name typ dflt :: r =>
      let '(hs, rest) := split_header r in
      ((name, header_param_optional opt (is_some dflt) (match typ with [] => false | _ => true end)) :: hs, rest)
  | _ => ([], ns)
  end.

Definition is_nil {A} (l : list A) : bool := match l with [] => true | _ => false end.

Inductive add_result := AddOk (ts : list template) | AddRej (r : rej).

(* the loop over soyfile.Body: [prev] is Body[i-1]; [acc] is r.Templates (its names are the keys of fileByTemplateName) *)
Fixpoint add_templates (fname : bstr) (ns : bstr * N) (prev : option node) (body : list node) (acc : list template)
  : add_result :=
  match body with
  | [] => AddOk acc
  | (NTemplate p name tbody ae priv as tn) :: r =>
      match tbody with
      | NList lp nodes =>
          match (match prev with Some (NSoyDoc _ ps) => soydoc_params ps | _ => Some [] end) with
          | None => AddRej RShape                                     (* []*SoyDocParamNode in Go *)
          | Some sd =>
              let '(hs, rest) := split_header nodes in
              if negb (is_nil hs) && negb (is_nil sd) then AddRej RBothParamKinds
              else if existsb (fun t => bstr_eqb (t_name t) name) acc then AddRej RDuplicateTemplate
              else
                let t := {| t_name := name; t_node := NTemplate p name (NList lp rest) ae priv;
                            t_ns_name := fst ns; t_ns_autoescape := snd ns;
                            t_params := sd ++ hs; t_file := fname |} in
                add_templates fname ns (Some tn) r (acc ++ [t])
          end
      | _ => AddRej RShape                                            (* TemplateNode.Body is a *ListNode *)
      end
  | x :: r => add_templates fname ns (Some x) r acc
  end.

Definition add_file (acc : list template) (f : soyfile) : add_result :=
  match file_namespace (sf_body f) with
  | None => AddRej RNoNamespace
  | Some ns => add_templates (sf_name f) ns None (sf_body f) acc
  end.

Fixpoint add_files (acc : list template) (fs : list soyfile) : add_result :=
  match fs with
  | [] => AddOk acc
  | f :: r => match add_file acc f with AddOk acc' => add_files acc' r | e => e end
  end.

(* sourceByTemplateName / fileByTemplateName: the last Add wins; not used by the checker *)
Definition registry_of (ts : list template) (fs : list soyfile) : registry :=
  {| r_templates := ts;
     r_sources := flat_map (fun f => flat_map (fun n => match n with NTemplate _ name _ _ _ => [(name, sf_text f)] | _ => [] end) (sf_body f)) (rev fs);
     r_files := flat_map (fun f => flat_map (fun n => match n with NTemplate _ name _ _ _ => [(name, sf_name f)] | _ => [] end) (sf_body f)) (rev fs) |}.

(* Bundle.Compile after parsing: registry.Add for every file, then CheckDataRefs *)
Definition compile_check (fs : list soyfile) : verdict :=
  match add_files [] fs with
  | AddRej r => Reject r
  | AddOk ts => check_registry (registry_of ts fs)
  end.

