(* The compile pipeline as a function of the parsed files in insertion order:
   bundle.go (AddGlobalsMap, Compile), template/registry.go (Add, Template),
   parsepasses/datarefcheck.go (CheckDataRefs), parsepasses/globals.go
   (SetGlobals), parsepasses/msgids.go (ProcessMessages; ids and names through
   Model/MsgId.v), ast/node.go (Children), and of code generation the one step
   whose order Go leaves open: the emission of the ES6 import block from
   funcsCalled / funcsInFile (soyjs/exec.go difference, Write).  The generator
   itself, including the walk that fills those two maps, is Model/JsGen.v.
   Definitions only; proofs are in Proofs/CompileProofs.v.

   INVENTORY of every `for ... range` over a Go map, and every other source of
   nondeterminism, on the compile / check / globals / message / JS-generation /
   render paths (read, not grepped).  "oracle" = the loop is modelled here with an
   explicit key order; "pinned" = behaviour of the tree as pinned; "repaired" =
   after the notes/pending diff named.

   site                                  reaches an observable of C13?
   ------------------------------------  ------------------------------------------------
   bundle.go:112 AddGlobalsMap           YES (pinned): stops at the first redefined key in
     range globals                       map order -> Compile's error text (3 texts / 100
                                         runs for 3 collisions) and the set of globals
                                         added before.  oracle [o_globals]; repaired
                                         (C13-addglobalsmap-sorted.diff): keys sorted.
   ast/node.go:772 MapLiteralNode        YES (pinned): CheckDataRefs, SetGlobals and
     .Children() range n.Items           ProcessMessages walk through Children() and stop
                                         at the first error -> error text (3 texts / 100
                                         runs: data ref "x"|"y"|"z" not found; global
                                         "G1"|"G2"|"G3" is undefined).  oracle
                                         [o_children]; repaired
                                         (C13-mapliteral-children-sorted.diff): key order.
   soyjs/exec.go:34 difference           YES (pinned, ledger J11): the ES6 import block is
     range funcsCalled                   written in this order (5 blocks / 100 runs).
                                         oracle [o_imports]; repaired
                                         (C13-es6-imports-sorted.diff): names sorted.
   soyjs/exec.go:187 MapLiteralNode      no: keys are collected, sort.Strings, then
     range node.Items                    emitted ([sorted_after]; Model/JsGen.v sort_items).
   soymsg/placeholder.go:57 step 2       no after the C10 repair (commit cd68e40): the
     range baseNameToRepNodes            suffix search tests base names only; the writes of
                                         different base names commute.  oracle [o_ph]
                                         (Model/MsgId.v, C10_names_order_independent).
   soymsg/placeholder.go:81,84,89        no: each iteration writes one distinct key /
     steps 3, 4                          node from values no longer modified (MsgId.v).
   ast/node.go:756 MapLiteralNode        no: keys sorted before printing (commit 19f0963,
     .String()                           ledger M2); enters ids through placeholder
                                         String() only.
   soyjs/exec.go:694 nodeFromValue       no: builds a Go map from a Go map (global of map
     range val (data.Map)                type); emission sorts (previous row but one).
   soyhtml/exec.go:204 MapLiteralNode    only the TEXT of a render error (which of several
     eval, range node.Items              failing item expressions is reported; 3 texts /
                                         100 runs): evaluation has no output and no side
                                         effect, the resulting map is the same.  Not an
                                         observable of the statement (rendered output,
                                         bytes before the error are equal); harness
                                         compares render output and error-or-not only.
   soyhtml/funcs.go:68 funcKeys          no: sorted (commit b38388c, ledger I6).
   soyhtml/funcs.go:83,86 augmentMap     no: copies m1 then m2 into a fresh map; keys of
                                         one map are distinct, m2 wins regardless.
   data/value.go:92 Map.String           no: items sorted (C20 map_string_order_independent).
   data/convert.go:72 reflect MapKeys    no: builds a map (caller data, not compile path).
   parse/lexer.go:271,276 itemType       no: error texts use it only through expect(),
     .String() range builtinIdents       never with itemBool, the one type with two keys
                                         ("true"/"false"); all other types have one key or
                                         the same text in both tables.
   parse/quote.go:22 init                no: inverts an injective table.
   parse/parse.go:407 "%v" of attrs      no: fmt prints maps with sorted keys.
   template/registry.go maps             lookups and writes by key only (never ranged);
                                         LAST Add wins for source/file while Template()
                                         returns the FIRST match -> with a template name
                                         defined in two files the file order changes the
                                         render (ledger I9; repaired by wt-safety's
                                         C06-duplicate-template-names.diff, modelled here).
   soyjs scope / Funcs /                 lookups by key only.
     PrintDirectives / funcsInFile
   goroutines: parse/lexer.go:354,366    the scanner goroutine hands items over an
                                         unbuffered channel to one consumer: a FIFO; the
                                         parse is a function of the text (C05/C18 models).
   goroutines/time: bundle.go:170,190    recompiler of WatchFiles only (not modelled).
   rand: soyhtml/funcs.go:150 randomInt  render-time function, excluded (generators never
                                         emit it).
   pointers: data/value.go:134,141       identity of lists/maps in ==; no printing of
                                         addresses anywhere on these paths.
   sort stability                        sort.Strings only (total order on strings).
   datarefcheck.go                       slices only; Registry.Template (first match).

   The model describes the tree AFTER the three C13 repairs and the I9 repair:
   [compile] takes a record of arbitrary key orders (one per ranged map) and applies
   them as the repaired code does ([sorted_after]: collect in map order, sort,
   iterate).  [compile_gen] is the same pipeline with the effective key orders
   as parameters, so that the pinned behaviour ([pinned_orders]: map order used
   directly) is available for the refutations in Properties/C13.v.

   Not modelled here: the parser (a file arrives parsed, or as its parse error),
   the JavaScript generator (Model/JsGen.v), rendering (Model/Interp.v).
   SetGlobals and ProcessMessages write into the tree (GlobalNode.Value,
   MsgNode.ID, placeholder names); the model keeps these as side tables of the
   result ([cp_globals], [cp_msgs]) instead of rewriting nodes. *)
From Soy Require Import Model.Bytes Model.Num Model.Values Model.Outcome Model.Ast Model.MsgId Generated.Tables.
Open Scope N_scope.

(* ------------------------------------------------------------------ *)
(* Go map iteration                                                   *)
(* ------------------------------------------------------------------ *)

(* the order in which the keys of a Go map are visited *)
Definition korder := list bstr -> list bstr.
(* keys = collect in map order; sort.Strings(keys); iterate keys *)
Definition sorted_after (order : korder) : korder := fun ks => sort_strings (order ks).

(* a Go map written by key: the last write of a key wins *)
Fixpoint put {A} (m : list (bstr * A)) (k : bstr) (v : A) : list (bstr * A) :=
  match m with
  | [] => [(k, v)]
  | (k', v') :: r => if bstr_eqb k k' then (k, v) :: r else (k', v') :: put r k v
  end.

(* ------------------------------------------------------------------ *)
(* ast/node.go: Children()                                            *)
(* ------------------------------------------------------------------ *)

Definition olist (o : option node) : list node := match o with Some n => [n] | None => [] end.

(* MapLiteralNode.Children(): the values, keys visited in the order [ko] *)
Definition map_values (ko : korder) (items : list (bstr * node)) : list node :=
  flat_map (fun k => match assoc_s k items with Some v => [v] | None => [] end) (ko (map fst items)).

(* Children() of every ParentNode; [] for the other nodes.  nil entries (the
   Expr of {css}, the Data of {call}, the Cond of {else}) are left out: every
   walker below ignores a nil child. *)
Definition children (ko : korder) (n : node) : list node :=
  match n with
  | NList _ ns => ns
  | NTemplate _ _ body _ _ => [body]
  | NSoyDoc _ ps => ps
  | NPrint _ arg dirs => arg :: dirs
  | NDirective _ _ args => args
  | NCss _ e _ => olist e
  | NLog _ body => [body]
  | NLetValue _ _ e => [e]
  | NLetContent _ _ body => [body]
  | NMsg _ _ _ _ body => body
  | NMsgPlaceholder _ _ body => [body]
  | NMsgPlural p _ v cases dflt => v :: cases ++ [NList p dflt]
  | NMsgPluralCase p _ body => [NList p body]
  | NCall _ _ _ data params => olist data ++ params
  | NParamValue _ _ v => [v]
  | NParamContent _ _ c => [c]
  | NIf _ conds => conds
  | NIfCond _ c body => olist c ++ [body]
  | NSwitch _ v cases => v :: cases
  | NSwitchCase _ vals body => body :: vals
  | NFor _ _ l body ie => l :: body :: olist ie
  | NFunc _ _ args => args
  | NListLit _ items => items
  | NMapLit _ items => map_values ko items
  | NDataRef _ _ acc => acc
  | NAccExpr _ _ a => [a]
  | NNot _ a => [a]
  | NNeg _ a => [a]
  | NBin _ _ a1 a2 => [a1; a2]
  | NTern _ a1 a2 a3 => [a1; a2; a3]
  | _ => []
  end.

(* recursion budget of the tree walkers: twice the node_height (the model wraps the
   bodies of plural cases in a ListNode of its own) *)
Fixpoint node_height (n : node) : nat :=
  let hl := fix hl (l : list node) : nat := match l with [] => O | x :: r => Nat.max (node_height x) (hl r) end in
  let hm := fix hm (l : list (bstr * node)) : nat := match l with [] => O | (_, x) :: r => Nat.max (node_height x) (hm r) end in
  let ho := fun (o : option node) => match o with Some x => node_height x | None => O end in
  S (match n with
     | NFunc _ _ args => hl args
     | NListLit _ items => hl items
     | NMapLit _ items => hm items
     | NDataRef _ _ acc => hl acc
     | NAccExpr _ _ a => node_height a
     | NNot _ a => node_height a
     | NNeg _ a => node_height a
     | NBin _ _ a1 a2 => Nat.max (node_height a1) (node_height a2)
     | NTern _ a1 a2 a3 => Nat.max (node_height a1) (Nat.max (node_height a2) (node_height a3))
     | NList _ ns => hl ns
     | NPrint _ arg dirs => Nat.max (node_height arg) (hl dirs)
     | NDirective _ _ args => hl args
     | NCss _ e _ => ho e
     | NLog _ body => node_height body
     | NIf _ conds => hl conds
     | NIfCond _ c body => Nat.max (ho c) (node_height body)
     | NFor _ _ l body ie => Nat.max (node_height l) (Nat.max (node_height body) (ho ie))
     | NSwitch _ v cases => Nat.max (node_height v) (hl cases)
     | NSwitchCase _ vals body => Nat.max (hl vals) (node_height body)
     | NCall _ _ _ data params => Nat.max (ho data) (hl params)
     | NParamValue _ _ v => node_height v
     | NParamContent _ _ c => node_height c
     | NLetValue _ _ e => node_height e
     | NLetContent _ _ body => node_height body
     | NMsg _ _ _ _ body => hl body
     | NMsgPlaceholder _ _ body => node_height body
     | NMsgPlural _ _ v cases dflt => Nat.max (node_height v) (Nat.max (hl cases) (hl dflt))
     | NMsgPluralCase _ _ body => hl body
     | NTemplate _ _ body _ _ => node_height body
     | NSoyDoc _ ps => hl ps
     | NHeaderParam _ _ _ _ d => ho d
     | _ => O
     end).
Definition walk_fuel (n : node) : nat := (2 * node_height n + 2)%nat.

(* ------------------------------------------------------------------ *)
(* template/registry.go: Add (after the I9 repair)                    *)
(* ------------------------------------------------------------------ *)

(* a parsed file: ast.SoyFileNode *)
Record sfile := { sfile_name : bstr; sfile_text : bstr; sfile_body : list node }.

Inductive add_err :=
| AENamespaceExpected (found : node)          (* "expected namespace, found %v" *)
| AENamespaceRequired                          (* "namespace required" *)
| AEBothParamKinds (tmpl : bstr)               (* "template may not have both soydoc and header params specified" *)
| AEDuplicate (tmpl first_file second_file : bstr)  (* I9 repair: "template %q is defined more than once (in %s and in %s)" *)
| AEIndexCrash                                 (* Body[i-1] with i = 0: a Go panic out of Add (shown unreachable) *)
| AEOutOfModel (tmpl : bstr).                  (* a template whose Body is not a ListNode *)

(* the first node of the body that is not a soydoc must be the namespace *)
Fixpoint find_namespace (body : list node) : add_err + (bstr * N) :=
  match body with
  | [] => inl AENamespaceRequired
  | NSoyDoc _ _ :: r => find_namespace r
  | NNamespace _ name ae :: _ => inr (name, ae)
  | n :: _ => inl (AENamespaceExpected n)
  end.

Definition is_header_param (n : node) : bool := match n with NHeaderParam _ _ _ _ _ => true | _ => false end.
Fixpoint span_headers (nodes : list node) : list node * list node :=
  match nodes with
  | n :: r => if is_header_param n then let '(hs, rest) := span_headers r in (n :: hs, rest) else ([], nodes)
  | [] => ([], [])
  end.

(* &ast.SoyDocParamNode{Pos: param.Pos, Name: param.Name, Optional: param.Optional} *)
Definition header_to_docparam (h : node) : node :=
  match h with NHeaderParam p opt name _ _ => NSoyDocParam p name opt | _ => h end.
Definition docparam_sig (p : node) : list (bstr * bool) :=
  match p with NSoyDocParam _ name opt => [(name, opt)] | _ => [] end.

(* what Add derives from one template and the node before it, the registry
   aside: the Template value, the template node with the header params taken
   out of its body, and the soydoc params (header params folded in) *)
Record tmpl_unit := { tu_template : template; tu_node : node; tu_docparams : list node }.

Definition template_local (fname nsname : bstr) (nsae : N) (prev : option node) (tn : node) : add_err + tmpl_unit :=
  match tn with
  | NTemplate p name (NList lp nodes) ae priv =>
      match prev with
      | None => inl AEIndexCrash
      | Some pv =>
          let docparams := match pv with NSoyDoc _ ps => ps | _ => [] end in
          let '(hs, rest) := span_headers nodes in
          let params := docparams ++ map header_to_docparam hs in
          match hs, docparams with
          | _ :: _, _ :: _ => inl (AEBothParamKinds name)
          | _, _ =>
              let node' := NTemplate p name (NList lp rest) ae priv in
              inr {| tu_template := {| t_name := name; t_node := node'; t_ns_name := nsname; t_ns_autoescape := nsae;
                                       t_params := flat_map docparam_sig params; t_file := fname |};
                     tu_node := node'; tu_docparams := params |}
          end
      end
  | NTemplate _ name _ _ _ => inl (AEOutOfModel name)
  | _ => inl AEIndexCrash   (* not called on other nodes *)
  end.

Definition is_template (n : node) : bool := match n with NTemplate _ _ _ _ _ => true | _ => false end.

(* the templates of a file in order, each with its local result *)
Fixpoint file_units (fname nsname : bstr) (nsae : N) (prev : option node) (body : list node) : list (add_err + tmpl_unit) :=
  match body with
  | [] => []
  | n :: r => (if is_template n then [template_local fname nsname nsae prev n] else [])
              ++ file_units fname nsname nsae (Some n) r
  end.

(* the file as the registry (and soyjs) see it after Add: header params moved
   from the template body into the soydoc before it *)
Fixpoint processed_body (fname nsname : bstr) (nsae : N) (prev : option node) (body : list node) : list node :=
  match body with
  | [] => []
  | n :: r =>
      let n' :=
        match n, r with
        | NSoyDoc p _, t :: _ =>
            if is_template t then
              match template_local fname nsname nsae (Some n) t with
              | inr u => NSoyDoc p (tu_docparams u)
              | inl _ => n
              end
            else n
        | _, _ =>
            if is_template n then
              match template_local fname nsname nsae prev n with inr u => tu_node u | inl _ => n end
            else n
        end in
      n' :: processed_body fname nsname nsae (Some n) r
  end.

Record creg := { cr_soyfiles : list sfile; cr_reg : registry }.
Definition empty_creg : creg :=
  {| cr_soyfiles := []; cr_reg := {| r_templates := []; r_sources := []; r_files := [] |} |}.

(* r.Templates = append(...); sourceByTemplateName[name] = text; fileByTemplateName[name] = file *)
Definition reg_append (r : registry) (t : template) (text : bstr) : registry :=
  {| r_templates := r_templates r ++ [t];
     r_sources := put (r_sources r) (t_name t) text;
     r_files := put (r_files r) (t_name t) (t_file t) |}.

(* the loop over the templates of one file: local errors first, then the
   duplicate test of the I9 repair, then the append *)
Fixpoint add_units (fname ftext : bstr) (us : list (add_err + tmpl_unit)) (r : registry) : add_err + registry :=
  match us with
  | [] => inr r
  | inl e :: _ => inl e
  | inr u :: rest =>
      let t := tu_template u in
      match assoc_s (t_name t) (r_files r) with
      | Some other => inl (AEDuplicate (t_name t) other fname)
      | None => add_units fname ftext rest (reg_append r t ftext)
      end
  end.

Definition registry_add (r : creg) (f : sfile) : add_err + creg :=
  match find_namespace (sfile_body f) with
  | inl e => inl e
  | inr (nsname, nsae) =>
      match add_units (sfile_name f) (sfile_text f) (file_units (sfile_name f) nsname nsae None (sfile_body f)) (cr_reg r) with
      | inl e => inl e
      | inr reg' =>
          inr {| cr_soyfiles := cr_soyfiles r ++ [{| sfile_name := sfile_name f; sfile_text := sfile_text f;
                                                      sfile_body := processed_body (sfile_name f) nsname nsae None (sfile_body f) |}];
                 cr_reg := reg' |}
      end
  end.

(* Add works IN PLACE on the tree it is handed: sdn.Params = append(sdn.Params, ...)
   on the SoyDoc node in front of the template when there is one (when there is
   none, Add makes a SoyDoc node of its own that is NOT put into the tree), and
   tn.Body.Nodes = tn.Body.Nodes[len(headerParams):].  [rewritten_file f] is the
   tree of [f] as a successful Add leaves it -- the very tree registry_add puts
   into cr_soyfiles.  Add returns its namespace errors before it touches the tree.
   Bundle.Compile parses every file anew on each call, so a tree is handed to Add
   once; what Add would make of a tree it has rewritten already is the subject of
   Proofs/CompileReaddProofs.v. *)
Definition rewritten_file (f : sfile) : sfile :=
  match find_namespace (sfile_body f) with
  | inr (nsname, nsae) =>
      {| sfile_name := sfile_name f; sfile_text := sfile_text f;
         sfile_body := processed_body (sfile_name f) nsname nsae None (sfile_body f) |}
  | inl _ => f
  end.

(* ... and the tree of [f] when Add returned an error at one of its templates:
   the first [k] nodes as Add rewrites them, the others as [tail] leaves them
   (untouched; or, when the error is "both soydoc and header params", with the
   header params appended to the SoyDoc node of the rejected template already:
   sdn.Params = append(...) comes before the test, tn.Body.Nodes = ... after it) *)
Definition interrupted_file (k : nat) (tail : list node -> list node) (f : sfile) : sfile :=
  match find_namespace (sfile_body f) with
  | inr (nsname, nsae) =>
      {| sfile_name := sfile_name f; sfile_text := sfile_text f;
         sfile_body := firstn k (processed_body (sfile_name f) nsname nsae None (sfile_body f)) ++ tail (skipn k (sfile_body f)) |}
  | inl _ => f
  end.
Definition params_appended (extra : list node) (suffix : list node) : list node :=
  match suffix with
  | NSoyDoc p ps :: rest => NSoyDoc p (ps ++ extra) :: rest
  | _ => suffix
  end.

(* the tree as pinned (before the I9 repair, commit 4041f47): no duplicate test;
   kept for the refutation in Properties/C13.v *)
Fixpoint add_units_pinned (ftext : bstr) (us : list (add_err + tmpl_unit)) (r : registry) : add_err + registry :=
  match us with
  | [] => inr r
  | inl e :: _ => inl e
  | inr u :: rest => add_units_pinned ftext rest (reg_append r (tu_template u) ftext)
  end.
Definition registry_add_pinned (r : creg) (f : sfile) : add_err + creg :=
  match find_namespace (sfile_body f) with
  | inl e => inl e
  | inr (nsname, nsae) =>
      match add_units_pinned (sfile_text f) (file_units (sfile_name f) nsname nsae None (sfile_body f)) (cr_reg r) with
      | inl e => inl e
      | inr reg' =>
          inr {| cr_soyfiles := cr_soyfiles r ++ [{| sfile_name := sfile_name f; sfile_text := sfile_text f;
                                                      sfile_body := processed_body (sfile_name f) nsname nsae None (sfile_body f) |}];
                 cr_reg := reg' |}
      end
  end.
Fixpoint add_files_pinned (r : creg) (fs : list sfile) : add_err + creg :=
  match fs with
  | [] => inr r
  | f :: rest => match registry_add_pinned r f with inl e => inl e | inr r' => add_files_pinned r' rest end
  end.

(* ------------------------------------------------------------------ *)
(* parsepasses/datarefcheck.go                                        *)
(* ------------------------------------------------------------------ *)

Inductive check_err :=
| CKLetIj                                       (* Invalid variable name in 'let' command text: '$ij' *)
| CKCallNotFound (name : bstr)                  (* {call}: template %q not found *)
| CKUndeclaredParams (names : list bstr)        (* Params %q are not declared by the callee. *)
| CKMissingParams (names : list bstr) (call_pos : N)  (* Required params %q are not passed by the call: %v *)
| CKUnusedLets (names : list bstr)              (* {let} variables %q are not used. *)
| CKDataRefNotFound (key : bstr) (in_scope : list bstr)  (* data ref %q not found. params: %v, variables in scope: %v *)
| CKHeaderParam                                 (* unexpected {@param ...} tag found *)
| CKUnusedParams (names : list bstr)            (* params %q are unused *)
| CKBadCallParam                                (* unexpected call param type *)
| CKLoopFunc (fname key : bstr)                 (* function %s: $%s is not the variable of an enclosing loop (commit 3fac11a) *)
| CKLoopFuncArity (fname : bstr) (nargs : N)    (* function %s takes the variable of an enclosing loop, got %d arguments (C14-loopfunc-shape) *)
| CKLoopFuncArg (fname : bstr)                  (* function %s: %s is not the variable of an enclosing loop; Args[0] is not a plain variable *)
| CKOutOfFuel.                                  (* the model's recursion budget (shown sufficient: never returned by check_template) *)

Record vbinding := { vb_name : bstr; vb_let : bool; vb_used : bool }.
(* tc.vars with the innermost vbinding FIRST (Go appends; the model conses), tc.usedKeys *)
Record tcs := { tc_vars : list vbinding; tc_used : list bstr }.

Definition k_ij : bstr := Eval vm_compute in b "ij".
Definition k_is_first : bstr := Eval vm_compute in b "isFirst".
Definition k_is_last : bstr := Eval vm_compute in b "isLast".
Definition k_index : bstr := Eval vm_compute in b "index".

Fixpoint mark_used (key : bstr) (vars : list vbinding) : option (list vbinding) :=
  match vars with
  | [] => None
  | v :: r =>
      if bstr_eqb (vb_name v) key then Some ({| vb_name := vb_name v; vb_let := vb_let v; vb_used := true |} :: r)
      else match mark_used key r with Some r' => Some (v :: r') | None => None end
  end.

Section Checker.
  Variable ko : korder.                          (* MapLiteralNode.Children() *)
  Variable lookup : bstr -> option template.     (* Registry.Template *)
  Variable params : list bstr.                   (* tc.params *)

  Definition visit_key (st : tcs) (key : bstr) : check_err + tcs :=
    if bstr_eqb key k_ij then inr st
    else match mark_used key (tc_vars st) with
         | Some vars' => inr {| tc_vars := vars'; tc_used := tc_used st |}
         | None =>
             if mem_s key params then inr {| tc_vars := tc_vars st; tc_used := tc_used st ++ [key] |}
             else inl (CKDataRefNotFound key (rev (map vb_name (tc_vars st))))
         end.

  Fixpoint call_param_keys (ps : list node) : option (list bstr) :=
    match ps with
    | [] => Some []
    | NParamValue _ k _ :: r => match call_param_keys r with Some l => Some (k :: l) | None => None end
    | NParamContent _ k _ :: r => match call_param_keys r with Some l => Some (k :: l) | None => None end
    | _ :: _ => None
    end.

  Definition check_call (st : tcs) (pos : N) (name : bstr) (alldata : bool) (data : option node) (ps : list node) : check_err + tcs :=
    match lookup name with
    | None => inl (CKCallNotFound name)
    | Some callee =>
        let all_callee := map fst (t_params callee) in
        let required := map fst (filter (fun p => negb (snd p)) (t_params callee)) in
        let passed_on := if alldata then filter (fun p => mem_s p all_callee) params else [] in
        let st' := {| tc_vars := tc_vars st; tc_used := tc_used st ++ passed_on |} in
        match call_param_keys ps with
        | None => inl CKBadCallParam
        | Some keys =>
            let caller := passed_on ++ keys in
            match filter (fun k => negb (mem_s k all_callee)) caller with
            | (_ :: _) as undeclared => inl (CKUndeclaredParams undeclared)
            | [] =>
                match data with
                | Some _ => inr st'
                | None =>
                    match filter (fun k => negb (mem_s k caller)) required with
                    | (_ :: _) as missing => inl (CKMissingParams missing pos)
                    | [] => inr st'
                    end
                end
            end
        end
    end.

  (* checkLoopFunc: index, isFirst and isLast take exactly one argument, the plain variable of an enclosing loop *)
  Definition check_loop_func (st : tcs) (fname : bstr) (args : list node) : option check_err :=
    if bstr_eqb fname k_index || bstr_eqb fname k_is_first || bstr_eqb fname k_is_last then
      match args with
      | [NDataRef _ key []] =>
          if existsb (fun v => negb (vb_let v) && bstr_eqb (vb_name v) key) (tc_vars st) then None
          else Some (CKLoopFunc fname key)
      | [_] => Some (CKLoopFuncArg fname)
      | _ => Some (CKLoopFuncArity fname (N.of_nat (length args)))
      end
    else None.

  (* end of recurse(): the variables bound in the block go out of scope; every
     {let} among them must have been used.  [initial] = len(tc.vars) on entry. *)
  Definition pop_block (initial : nat) (st : tcs) : check_err + tcs :=
    let n := (length (tc_vars st) - initial)%nat in
    let block := rev (firstn n (tc_vars st)) in
    match map vb_name (filter (fun v => vb_let v && negb (vb_used v)) block) with
    | (_ :: _) as unused => inl (CKUnusedLets unused)
    | [] => inr {| tc_vars := skipn n (tc_vars st); tc_used := tc_used st |}
    end.

  Fixpoint check_seq (w : tcs -> node -> check_err + tcs) (st : tcs) (l : list node) : check_err + tcs :=
    match l with
    | [] => inr st
    | n :: r => match w st n with inr st' => check_seq w st' r | inl e => inl e end
    end.

  (* tc.recurse(parent) *)
  Definition check_block (w : tcs -> node -> check_err + tcs) (st : tcs) (n : node) : check_err + tcs :=
    match check_seq w st (children ko n) with
    | inr st' => pop_block (length (tc_vars st)) st'
    | inl e => inl e
    end.

  Definition push_var (st : tcs) (name : bstr) (is_let : bool) : tcs :=
    {| tc_vars := {| vb_name := name; vb_let := is_let; vb_used := false |} :: tc_vars st; tc_used := tc_used st |}.

  (* one level of tc.checkTemplate; [w] is the recursive call *)
  Definition check_body (w : tcs -> node -> check_err + tcs) (st : tcs) (n : node) : check_err + tcs :=
    match n with
    | NLetValue _ name _ | NLetContent _ name _ =>
        if bstr_eqb name k_ij then inl CKLetIj
        else match check_block w st n with
             | inr st' => inr (push_var st' name true)
             | inl e => inl e
             end
    | NFor _ var l body ie =>
        match w st l with
        | inl e => inl e
        | inr st1 =>
            match w (push_var st1 var false) body with
            | inl e => inl e
            | inr st2 =>
                let st3 := {| tc_vars := tl (tc_vars st2); tc_used := tc_used st2 |} in
                match ie with Some e => w st3 e | None => inr st3 end
            end
        end
    | NCall p name alldata data ps =>
        match check_call st p name alldata data ps with
        | inr st' => check_block w st' n
        | inl e => inl e
        end
    | NDataRef _ key _ =>
        match visit_key st key with
        | inr st' => check_block w st' n
        | inl e => inl e
        end
    | NFunc _ fname args =>
        match check_loop_func st fname args with
        | Some e => inl e
        | None => check_block w st n
        end
    | NHeaderParam _ _ _ _ _ => inl CKHeaderParam
    | _ => check_block w st n
    end.

  Fixpoint check_node (fuel : nat) (st : tcs) (n : node) : check_err + tcs :=
    match fuel with
    | O => inl CKOutOfFuel
    | S f => check_body (check_node f) st n
    end.
End Checker.

(* one iteration of CheckDataRefs' loop: None = the template passes *)
Definition check_template (ko : korder) (lookup : bstr -> option template) (t : template) : option check_err :=
  let params := map fst (t_params t) in
  match check_node ko lookup params (walk_fuel (t_node t)) {| tc_vars := []; tc_used := [] |} (t_node t) with
  | inl e => Some e
  | inr st =>
      match filter (fun p => negb (mem_s p (tc_used st))) params with
      | (_ :: _) as unused => Some (CKUnusedParams unused)
      | [] => None
      end
  end.

(* the first template (in registry order) that fails *)
Fixpoint first_failure {E} (f : template -> option E) (ts : list template) : option (bstr * E) :=
  match ts with
  | [] => None
  | t :: r => match f t with Some e => Some (t_name t, e) | None => first_failure f r end
  end.

(* ------------------------------------------------------------------ *)
(* bundle.go: AddGlobalsMap; parsepasses/globals.go: SetGlobals       *)
(* ------------------------------------------------------------------ *)

Definition gmap := list (bstr * value).   (* a data.Map of globals: keys unique *)

Record bundle_globals := { bg_map : gmap; bg_err : option (bstr * value) }.   (* b.globals, b.err *)

(* for k, v := range globals { if existing, ok := b.globals[k]; ok { b.err = ...; return b }; b.globals[k] = v } *)
Fixpoint add_globals_loop (m : gmap) (keys : list bstr) (b : bundle_globals) : bundle_globals :=
  match keys with
  | [] => b
  | k :: r =>
      match assoc_s k (bg_map b) with
      | Some existing => {| bg_map := bg_map b; bg_err := Some (k, existing) |}
      | None =>
          match assoc_s k m with
          | Some v => add_globals_loop m r {| bg_map := map_set (bg_map b) k v; bg_err := bg_err b |}
          | None => add_globals_loop m r b     (* not a key of m: cannot happen for a permutation of the keys *)
          end
      end
  end.
Definition add_globals_map (ko : korder) (b : bundle_globals) (m : gmap) : bundle_globals :=
  add_globals_loop m (ko (map fst m)) b.
Definition bundle_of_globals (ko : korder) (calls : list gmap) : bundle_globals :=
  fold_left (add_globals_map ko) calls {| bg_map := []; bg_err := None |}.

Inductive global_err := GUndefined (name : bstr) | GOutOfFuel.

(* SetNodeGlobals: the first GlobalNode (in walk order) that is not defined *)
Section SetGlobals.
  Variable ko : korder.
  Variable globals : gmap.
  Fixpoint globals_seq (w : node -> option global_err) (l : list node) : option global_err :=
    match l with
    | [] => None
    | n :: r => match w n with Some e => Some e | None => globals_seq w r end
    end.
  Definition globals_body (w : node -> option global_err) (n : node) : option global_err :=
    match n with
    | NGlobal _ name _ => match assoc_s name globals with Some _ => None | None => Some (GUndefined name) end
    | _ => globals_seq w (children ko n)
    end.
  Fixpoint globals_node (fuel : nat) (n : node) : option global_err :=
    match fuel with
    | O => Some GOutOfFuel
    | S f => globals_body (globals_node f) n
    end.
End SetGlobals.
Definition set_globals_template (ko : korder) (globals : gmap) (t : template) : option global_err :=
  globals_node ko globals (walk_fuel (t_node t)) (t_node t).

(* ------------------------------------------------------------------ *)
(* parsepasses/msgids.go: ProcessMessages                             *)
(* ------------------------------------------------------------------ *)

Section Messages.
  (* String() of a placeholder / plural node (ast/node.go; branch wt-astprint
     models it as Model/AstPrint.v).  It enters only through equality of the
     texts of placeholders that share a base name. *)
  Variable node_string : node -> bstr.

  Definition ph_access_of (a : node) : ph_access := match a with NAccKey _ _ k => PaKey k | _ => PaOther end.
  Definition ph_expr_of (e : node) : ph_expr :=
    match e with
    | NGlobal _ name _ => PeGlobal name
    | NDataRef _ key acc => PeDataRef key (map ph_access_of acc)
    | _ => PeOther
    end.
  (* genBasePlaceholderName(node.Body, "XXX") *)
  Definition ph_node_of_body (body : node) : ph_node :=
    match body with
    | NPrint _ arg _ => PhPrint (ph_expr_of arg)
    | NMsgHtmlTag _ text => PhHtml text
    | NDataRef _ _ _ => PhExpr (ph_expr_of body)
    | _ => PhOther
    end.

  (* the children of a message body as MsgId.v's source parts; anything that
     is neither raw text nor a placeholder nor a plural is skipped, as phNodes
     and writeFingerprint's callers do (the parser produces nothing else) *)
  Fixpoint spart_of (n : node) : list spart :=
    match n with
    | NRawText _ t => [SText t]
    | NMsgPlaceholder _ _ body => [SPh (ph_node_of_body body) (node_string n)]
    | NMsgPlural _ _ v cases dflt =>
        [SPlural (PhExpr (ph_expr_of v)) (node_string n)
                 (flat_map (fun c => match c with
                                     | NMsgPluralCase _ z body => [(z, flat_map spart_of body)]
                                     | _ => []
                                     end) cases)
                 (flat_map spart_of dflt)]
    | _ => []
    end.

  (* SetPlaceholdersAndID on one MsgNode: id and the body with names set *)
  Definition process_msg (pho : korder) (meaning desc : bstr) (body : list node) : outcome (N * list npart) :=
    m <- msg_of_source meaning desc (flat_map spart_of body) ;;
    named <- msg_named pho (m_body m) ;;
    Ok (calc_id (write_fp_list false named) (m_meaning m), named).

  Section Walk.
    Variable ko : korder.
    Variable pho : korder.
    Fixpoint msgs_seq (w : node -> list (outcome (N * list npart))) (l : list node) : list (outcome (N * list npart)) :=
      match l with
      | [] => []
      | n :: r => w n ++ msgs_seq w r
      end.
    Definition msgs_body (w : node -> list (outcome (N * list npart))) (n : node) : list (outcome (N * list npart)) :=
      match n with
      | NMsg _ _ meaning desc body => [process_msg pho meaning desc body]
      | _ => msgs_seq w (children ko n)
      end.
    Fixpoint msgs_node (fuel : nat) (n : node) : list (outcome (N * list npart)) :=
      match fuel with
      | O => [OutOfFuel]
      | S f => msgs_body (msgs_node f) n
      end.
  End Walk.
  Definition template_msgs (ko pho : korder) (t : template) : list (outcome (N * list npart)) :=
    msgs_node ko pho (walk_fuel (t_node t)) (t_node t).
End Messages.

(* ------------------------------------------------------------------ *)
(* bundle.go: Compile                                                 *)
(* ------------------------------------------------------------------ *)

Inductive src :=
| SrcOk (f : sfile)                  (* parse.SoyFile returned a tree *)
| SrcParseErr (name msg : bstr).     (* ... or an error *)

Inductive cerr :=
| EGlobalsRedefined (name : bstr) (existing : value)    (* b.err: global %q already defined as %q *)
| EParse (file msg : bstr)
| EAdd (file : bstr) (e : add_err)
| ECheck (tmpl : bstr) (e : check_err)                   (* template %v: ... *)
| EGlobalErr (tmpl : bstr) (e : global_err).                (* template %v: global %q is undefined *)

Inductive cresult (A : Type) := COk (a : A) | CErr (e : cerr).
Arguments COk {A} a.
Arguments CErr {A} e.

(* a source whose tree (if it has one) went through a successful Add before *)
Definition rewritten_src (s : src) : src :=
  match s with SrcOk f => SrcOk (rewritten_file f) | SrcParseErr _ _ => s end.

(* for _, soyfile := range b.files { parse; registry.Add } *)
Fixpoint add_all_files (r : creg) (srcs : list src) : cresult creg :=
  match srcs with
  | [] => COk r
  | SrcParseErr name msg :: _ => CErr (EParse name msg)
  | SrcOk f :: rest =>
      match registry_add r f with
      | inl e => CErr (EAdd (sfile_name f) e)
      | inr r' => add_all_files r' rest
      end
  end.

Record compiled := {
  cp_reg : registry;                  (* Templates (lookup order), sourceByTemplateName, fileByTemplateName *)
  cp_soyfiles : list sfile;           (* SoyFiles in insertion order, as processed by Add *)
  cp_globals : gmap;                  (* what SetGlobals stored in the GlobalNodes *)
  cp_msgs : list (bstr * list (outcome (N * list npart)));  (* per template: id and named body of every {msg} in document order *)
}.

(* the effective key order of every ranged Go map *)
Record orders := {
  o_globals : korder;    (* bundle.go AddGlobalsMap *)
  o_children : korder;   (* ast/node.go MapLiteralNode.Children *)
  o_ph : korder;         (* soymsg/placeholder.go step 2 *)
  o_imports : korder;    (* soyjs/exec.go difference *)
}.

Section Compile.
  Variable node_string : node -> bstr.

  Definition compile_gen (o : orders) (globals_calls : list gmap) (srcs : list src) : cresult compiled :=
    let bg := bundle_of_globals (o_globals o) globals_calls in
    match bg_err bg with
    | Some (name, existing) => CErr (EGlobalsRedefined name existing)
    | None =>
        match add_all_files empty_creg srcs with
        | CErr e => CErr e
        | COk r =>
            let ts := r_templates (cr_reg r) in
            match first_failure (check_template (o_children o) (find_template ts)) ts with
            | Some (name, e) => CErr (ECheck name e)
            | None =>
                match first_failure (set_globals_template (o_children o) (bg_map bg)) ts with
                | Some (name, e) => CErr (EGlobalErr name e)
                | None =>
                    COk {| cp_reg := cr_reg r; cp_soyfiles := cr_soyfiles r; cp_globals := bg_map bg;
                           cp_msgs := map (fun t => (t_name t, template_msgs node_string (o_children o) (o_ph o) t)) ts |}
                end
            end
        end
    end.

  (* the tree after the repairs: maps are ranged in an arbitrary order, then
     the keys are sorted where the code sorts them *)
  Definition repaired_orders (o : orders) : orders :=
    {| o_globals := sorted_after (o_globals o); o_children := sorted_after (o_children o); o_ph := o_ph o;
       o_imports := sorted_after (o_imports o) |}.
  (* the tree as pinned: the map order is used as it comes *)
  Definition pinned_orders (o : orders) : orders :=
    {| o_globals := o_globals o; o_children := o_children o; o_ph := o_ph o;
       o_imports := o_imports o |}.

  Definition compile (o : orders) := compile_gen (repaired_orders o).
End Compile.

(* ------------------------------------------------------------------ *)
(* soyjs.Write: the ES6 import block                                  *)
(* ------------------------------------------------------------------ *)

(* What Write puts before the generated code, given s.funcsCalled (name ->
   import line; a Go map) and s.funcsInFile as the walk left them (Model/JsGen.v
   models that walk and this step for the repaired tree; it is restated here
   with the key order as a parameter so that the pinned behaviour can be
   refuted).  difference(funcsCalled, funcsInFile): the keys of funcsCalled that
   are not templates of the file, collected in map order (and, since 3edbe48,
   sorted).  The key order is applied to the collected keys: every order in
   which a range over funcsCalled can deliver them is some order of that list. *)
Definition import_block (ko : korder) (called : list (bstr * bstr)) (infile : list bstr) : bstr :=
  match called with
  | [] => []
  | _ =>
      let names := ko (filter (fun k => negb (mem_s k infile)) (map fst called)) in
      flat_map (fun k => match assoc_s k called with Some line => line ++ [10] | None => [] end) names ++ [10]
  end.
