(* ast/node.go: the String methods of the expression nodes, of PrintNode and of
   PrintDirectiveNode -- AFTER the repairs proposed in notes/applied/C17-*.diff, applied to /repo as a67ff8b a61ee13 980bf96 418294b 94b42ac (operands are
   parenthesised by the precedence table, a negated numeric literal prints as -(5), the
   ternary operator prints with spaces, map keys are written as escaped string literals, an
   integral float prints with ".0").  The tables (ast_binary_prec, ast_prec_*,
   ast_string_escapes) are regenerated from ast/node.go by go/cmd/tablegen/astprint.go.

   Floats: strconv.FormatFloat(x,'g',-1,64) is modelled on the values whose shortest
   representation is their exact decimal expansion with at most 15 significant digits and
   whose magnitude is at least 2^-9 (Num.fl_to_string, extended here with Go's exponent
   form for magnitudes >= 10^6).  Outside that domain [print_node] returns None.
   Definitions only. *)
From Soy Require Import Model.Bytes Model.Num Model.Values Model.Ast Generated.Tables.
Open Scope N_scope.

Definition binop_index (op : binop) : N :=
  match op with
  | OMul => 0 | ODiv => 1 | OMod => 2 | OAdd => 3 | OSub => 4 | OEq => 5 | ONotEq => 6
  | OGt => 7 | OGte => 8 | OLt => 9 | OLte => 10 | OOr => 11 | OAnd => 12 | OElvis => 13
  end.

(* BinaryOpNode.Name, as newBinaryOpNode sets it (parse/parse.go, regenerated table) *)
Definition binop_name (op : binop) : bstr :=
  match find (fun e => fst (snd e) =? binop_index op) binop_node_table with
  | Some (_, (_, s)) => s
  | None => []
  end.

(* func (n *BinaryOpNode) precedence() int  -- a missing key of the Go map reads as 0 *)
Definition binop_level (op : binop) : N :=
  match assoc_s (binop_name op) ast_binary_prec with Some q => q | None => 0 end.

(* func precedence(n Node) int *)
Definition level_of (n : node) : N :=
  match n with
  | NTern _ _ _ _ => ast_prec_ternary
  | NBin op _ _ _ => binop_level op
  | NNot _ _ | NNeg _ _ => ast_prec_unary
  | _ => ast_prec_primary
  end.

(* func operand(n Node, min int) string, given n's level and text *)
Definition wrap_operand (lvl min : N) (s : bstr) : bstr :=
  if lvl <? min then [40] ++ s ++ [41] else s.

(* stringEscaper.Replace(k): every old string is a single byte *)
Definition escape_key (k : bstr) : bstr :=
  concat_b (map (fun c => match assoc c ast_string_escapes with Some r => r | None => [c] end) k).
Definition quote_key (k : bstr) : bstr := [39] ++ escape_key k ++ [39].

(* ---- floats ---- *)
Definition has_dot_or_e (s : bstr) : bool := mem 46 s || mem 101 s.

(* func (n *FloatNode) String() string *)
Definition fl_print (x : fl) : option bstr :=
  match fl_to_string x with
  | Some s => Some (if has_dot_or_e s then s else s ++ [46; 48])
  | None => None
  end.

(* ---- nodes ---- *)
Fixpoint opt_all (l : list (option bstr)) : option (list bstr) :=
  match l with
  | [] => Some []
  | None :: _ => None
  | Some x :: r => match opt_all r with Some r' => Some (x :: r') | None => None end
  end.

Fixpoint opt_all_kv (l : list (bstr * option bstr)) : option (list (bstr * bstr)) :=
  match l with
  | [] => Some []
  | (_, None) :: _ => None
  | (k, Some x) :: r => match opt_all_kv r with Some r' => Some ((k, x) :: r') | None => None end
  end.

(* sort.Strings(keys) then one "'k': v" per key: insertion sort of the printed items by key *)
Fixpoint insert_kv (x : bstr * bstr) (l : list (bstr * bstr)) : list (bstr * bstr) :=
  match l with
  | [] => [x]
  | y :: r => if bstr_leb (fst x) (fst y) then x :: l else y :: insert_kv x r
  end.
Definition sort_kv (l : list (bstr * bstr)) : list (bstr * bstr) := fold_right insert_kv [] l.

Definition s_not_sp := Eval vm_compute in b "not ".
Definition s_q_sp := Eval vm_compute in b " ? ".
Definition s_c_sp := Eval vm_compute in b " : ".
Definition s_empty_map := Eval vm_compute in b "[:]".
Definition s_comma := Eval vm_compute in b ",".
Definition s_comma_space := Eval vm_compute in b ", ".
Definition s_colon_space := Eval vm_compute in b ": ".

Definition starts_with_digit (s : bstr) : bool :=
  match s with c :: _ => (48 <=? c) && (c <=? 57) | [] => false end.

Definition obind {A B} (x : option A) (f : A -> option B) : option B :=
  match x with Some a => f a | None => None end.

(* String(); None = a float outside the printing domain, a node that is not an expression,
   print command or directive, or a negation whose operand prints as the empty string *)
Fixpoint print_node (n : node) : option bstr :=
  match n with
  | NNull _ => Some s_null
  | NBool _ x => Some (if x then s_true else s_false)
  | NInt _ z => Some (dec_of_Z z)
  | NFloat _ f => fl_print f
  | NString _ q _ => Some q
  | NGlobal _ name _ => Some name
  | NFunc _ name args =>
      obind (opt_all (map print_node args)) (fun l => Some (name ++ [40] ++ join s_comma l ++ [41]))
  | NListLit _ items =>
      obind (opt_all (map print_node items)) (fun l => Some ([91] ++ join s_comma_space l ++ [93]))
  | NMapLit _ items =>
      match items with
      | [] => Some s_empty_map
      | _ =>
          obind (opt_all_kv (map (fun kv => (fst kv, print_node (snd kv))) items)) (fun l =>
            Some ([91] ++ join s_comma_space (map (fun kv => quote_key (fst kv) ++ s_colon_space ++ snd kv) (sort_kv l)) ++ [93]))
      end
  | NDataRef _ key access =>
      obind (opt_all (map print_node access)) (fun l => Some ([36] ++ key ++ concat_b l))
  | NAccIndex _ ns i => Some ((if ns then [63; 46] else [46]) ++ dec_of_Z i)
  | NAccKey _ ns k => Some ((if ns then [63; 46] else [46]) ++ k)
  | NAccExpr _ ns e =>
      obind (print_node e) (fun s => Some ((if ns then [63; 91] else [91]) ++ s ++ [93]))
  | NNot _ a =>
      obind (print_node a) (fun s => Some (s_not_sp ++ wrap_operand (level_of a) ast_prec_unary s))
  | NNeg _ a =>
      obind (print_node a) (fun s =>
        let arg := wrap_operand (level_of a) ast_prec_unary s in
        match arg with
        | [] => None                      (* arg[0] on an empty string: Go panics *)
        | _ => Some (if starts_with_digit arg then [45; 40] ++ arg ++ [41] else [45] ++ arg)
        end)
  | NBin op _ a1 a2 =>
      obind (print_node a1) (fun s1 =>
      obind (print_node a2) (fun s2 =>
        let q := binop_level op in
        Some (wrap_operand (level_of a1) q s1 ++ [32] ++ binop_name op ++ [32] ++ wrap_operand (level_of a2) (q + 1) s2)))
  | NTern _ a1 a2 a3 =>
      obind (print_node a1) (fun s1 =>
      obind (print_node a2) (fun s2 =>
      obind (print_node a3) (fun s3 =>
        Some (wrap_operand (level_of a1) (ast_prec_ternary + 1) s1 ++ s_q_sp ++ s2 ++ s_c_sp ++ s3))))
  | NPrint _ arg dirs =>
      obind (print_node arg) (fun s =>
      obind (opt_all (map print_node dirs)) (fun l => Some ([123] ++ s ++ concat_b l ++ [125])))
  | NDirective _ name args =>
      match args with
      | [] => Some ([124] ++ name)
      | _ => obind (opt_all (map print_node args)) (fun l => Some ([124] ++ name ++ [58] ++ join s_comma l))
      end
  | _ => None
  end.
