(* soyhtml/exec.go htmlEscapeString and text/template.HTMLEscapeString.
   Definitions only; proofs are in Proofs/EscapeProofs.v. *)
From Soy Require Import Model.Bytes Generated.Tables.
Open Scope N_scope.

Definition html_entity (c : N) : option bstr := assoc c html_entity_table.

(* The loop of htmlEscapeString as the sequence of Write calls it makes:
   str[last:i] then the entity at each replaced byte, and str[last:] at the
   end.  [acc] is the pending segment str[last:i], reversed. *)
Fixpoint esc_writes (acc : bstr) (s : bstr) : list bstr :=
  match s with
  | [] => [rev acc]
  | c :: r =>
      match html_entity c with
      | Some e => rev acc :: e :: esc_writes [] r
      | None => esc_writes (c :: acc) r
      end
  end.

Definition html_escape (s : bstr) : bstr := concat_b (esc_writes [] s).

(* text/template.HTMLEscapeString (Go 1.23): the same five replacements and
   NUL -> U+FFFD (EF BF BD). *)
Definition tmpl_entity (c : N) : option bstr := Eval cbv [bytes_of_string N_of_ascii N_of_digits N.add N.mul Pos.add Pos.mul Pos.succ] in
  if c =? 0 then Some [239; 191; 189]
  else if c =? 34 then Some (b "&#34;")
  else if c =? 39 then Some (b "&#39;")
  else if c =? 38 then Some (b "&amp;")
  else if c =? 60 then Some (b "&lt;")
  else if c =? 62 then Some (b "&gt;")
  else None.

Fixpoint tmpl_html_escape (s : bstr) : bstr :=
  match s with
  | [] => []
  | c :: r => match tmpl_entity c with
              | Some e => e ++ tmpl_html_escape r
              | None => c :: tmpl_html_escape r
              end
  end.

(* evalPrint's escaping decision: escape unless the mode is off (code 2) or any
   applied directive carries CancelAutoescape. *)
Definition escape_decision (mode : N) (cancels : list bool) : bool :=
  negb (mode =? 2) && forallb negb cancels.

(* Effective mode at a print reached from Execute / evalCall:
   Execute: namespace value, unspecified -> on; evalCall: the callee's
   namespace value as is; walk(TemplateNode): template value overrides unless
   unspecified.  Codes: 0 unspecified, 1 on, 2 off, 3 contextual. *)
Definition entry_mode (ns : N) : N := if ns =? 0 then 1 else ns.
Definition call_mode (ns : N) : N := ns.
Definition template_mode (cur tmpl : N) : N := if tmpl =? 0 then cur else tmpl.
