(* C09 — a small, general interleaving theory.  Definitions only.

   What is modelled: a finite pool of THREADS running over one STORE of
   locations.  A thread is a deterministic program that can touch the store
   only through [Read] and [Write]; everything else it computes with (its
   private state) lives in the continuation.  An execution is driven by a
   SCHEDULE, an arbitrary list of thread ids: at each entry the named thread
   performs its next access atomically (an entry naming a finished or
   non-existent thread is skipped).  Every interleaving of the threads' access
   sequences, complete or partial, is the execution of some schedule.

   What is NOT modelled: the Go memory model (here every execution is
   sequentially consistent at the granularity of one access), the scheduler,
   synchronisation operations, and accesses inside the runtime and libraries.
   Because the model has no synchronisation operation, there is no
   happens-before edge between different threads, so the definition of a data
   race used here is simply: two accesses of DIFFERENT threads, in one
   execution, to the SAME location, at least one of them a write
   ([has_race]). *)
From Coq Require Import List Arith Bool.
Import ListNotations.

Section Conc.
Variables loc val res : Type.
Variable loc_eqb : loc -> loc -> bool.

Inductive access := Rd (l : loc) | Wr (l : loc) (v : val).
Definition acc_loc (a : access) : loc := match a with Rd l => l | Wr l _ => l end.
Definition is_write (a : access) : bool := match a with Wr _ _ => true | Rd _ => false end.

Definition store := loc -> val.
Definition upd (s : store) (l : loc) (v : val) : store := fun l' => if loc_eqb l' l then v else s l'.

(* a thread *)
Inductive prog :=
| Done (r : res)
| Read (l : loc) (k : val -> prog)
| Write (l : loc) (v : val) (k : prog).

(* one atomic step of a thread against the store *)
Definition step (p : prog) (s : store) : option (access * prog * store) :=
  match p with
  | Done _ => None
  | Read l k => Some (Rd l, k (s l), s)
  | Write l v k => Some (Wr l v, k, upd s l v)
  end.

(* the thread run ALONE on store [s]: result, final store, its access trace *)
Fixpoint exec (p : prog) (s : store) : res * store * list access :=
  match p with
  | Done r => (r, s, [])
  | Read l k => let '(r, s', t) := exec (k (s l)) s in (r, s', Rd l :: t)
  | Write l v k => let '(r, s', t) := exec k (upd s l v) in (r, s', Wr l v :: t)
  end.
Definition solo_result (p : prog) (s : store) : res := fst (fst (exec p s)).
Definition solo_store (p : prog) (s : store) : store := snd (fst (exec p s)).
Definition solo_trace (p : prog) (s : store) : list access := snd (exec p s).

(* the machine *)
Record config := { threads : list prog; shared : store }.
Definition event := (nat * access)%type.            (* thread id, access *)

Fixpoint set_nth {A} (i : nat) (x : A) (l : list A) : list A :=
  match l, i with
  | [], _ => []
  | _ :: r, O => x :: r
  | y :: r, S i' => y :: set_nth i' x r
  end.

Definition sched_step (i : nat) (c : config) : config * list event :=
  match nth_error (threads c) i with
  | None => (c, [])
  | Some p =>
      match step p (shared c) with
      | None => (c, [])
      | Some (a, p', s') => ({| threads := set_nth i p' (threads c); shared := s' |}, [(i, a)])
      end
  end.

Fixpoint run (sched : list nat) (c : config) : config * list event :=
  match sched with
  | [] => (c, [])
  | i :: r =>
      let '(c1, e1) := sched_step i c in
      let '(c2, e2) := run r c1 in
      (c2, e1 ++ e2)
  end.

(* the accesses of thread [i] in a global trace, in order *)
Definition proj (i : nat) (t : list event) : list access :=
  map snd (filter (fun e => Nat.eqb (fst e) i) t).

(* data race *)
Definition conflict (e1 e2 : event) : Prop :=
  fst e1 <> fst e2 /\ acc_loc (snd e1) = acc_loc (snd e2) /\ (is_write (snd e1) = true \/ is_write (snd e2) = true).
Definition has_race (t : list event) : Prop :=
  exists i j e1 e2, i < j /\ nth_error t i = Some e1 /\ nth_error t j = Some e2 /\ conflict e1 e2.

(* Ownership discipline.  [owner l = None]: the location is shared between
   the threads; [owner l = Some i]: it is private to thread [i].  An access of
   thread [i] is allowed if it is a read of a shared location or any access to
   a location [i] owns.  A thread is disciplined on [s] when every access of
   its solo run on [s] is allowed: in particular its trace contains no write
   to a shared location. *)
Variable owner : loc -> option nat.
Definition allowed (i : nat) (a : access) : Prop :=
  match a with
  | Rd l => owner l = None \/ owner l = Some i
  | Wr l _ => owner l = Some i
  end.
Definition disciplined (i : nat) (p : prog) (s : store) : Prop := Forall (allowed i) (solo_trace p s).
Definition all_disciplined (ps : list prog) (s : store) : Prop :=
  forall i p, nth_error ps i = Some p -> disciplined i p s.

(* the simplest instance: a trace without any write *)
Definition write_free (p : prog) (s : store) : Prop := Forall (fun a => is_write a = false) (solo_trace p s).

End Conc.

Arguments Rd {loc val} l.
Arguments Wr {loc val} l v.
Arguments Done {loc val res} r.
Arguments Read {loc val res} l k.
Arguments Write {loc val res} l v k.
Arguments acc_loc {loc val} a.
Arguments is_write {loc val} a.
Arguments upd {loc val} loc_eqb s l v _.
Arguments step {loc val res} loc_eqb p s.
Arguments exec {loc val res} loc_eqb p s.
Arguments solo_result {loc val res} loc_eqb p s.
Arguments solo_store {loc val res} loc_eqb p s _.
Arguments solo_trace {loc val res} loc_eqb p s.
Arguments threads {loc val res} c.
Arguments shared {loc val res} c _.
Arguments Build_config {loc val res} threads shared.
Arguments sched_step {loc val res} loc_eqb i c.
Arguments run {loc val res} loc_eqb sched c.
Arguments proj {loc val} i t.
Arguments conflict {loc val} e1 e2.
Arguments has_race {loc val} t.
Arguments allowed {loc val} owner i a.
Arguments disciplined {loc val res} loc_eqb owner i p s.
Arguments all_disciplined {loc val res} loc_eqb owner ps s.
Arguments write_free {loc val res} loc_eqb p s.

(* the same thread with its result renamed *)
Fixpoint prog_map {loc val res res' : Type} (f : res -> res') (p : prog loc val res) : prog loc val res' :=
  match p with
  | Done r => Done (f r)
  | Read l k => Read l (fun v => prog_map f (k v))
  | Write l v k => Write l v (prog_map f k)
  end.
