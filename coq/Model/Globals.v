(* globals.go ParseGlobals, evaluation side.  The expression parser is a
   parameter ([parse], modelled by Model/Parser.v of the parsing properties):
   what is modelled here is the bufio.Scanner line loop (ScanLines, the
   64 KiB token limit), the skipping of empty and // lines, the split at the
   first '=', strings.TrimSpace on both halves, soyhtml.EvalExpr on the parsed
   node (through Interp.eval_expr, i.e. after the nil-template repair), and the
   assignment into the result map.  Definitions only. *)
From Soy Require Import Model.Bytes Model.Num Model.Values Model.Outcome Model.Ast Model.Interp
  Model.InterpSafety.
Open Scope N_scope.

Definition e_noequals := Eval vm_compute in b "no equals on line".
Definition e_toolong := Eval vm_compute in b "bufio.Scanner: token too long".

(* linear-time reversal (List.rev is quadratic, and lines of 64 KiB are in scope) *)
Definition frev (l : bstr) : bstr := rev_append l [].

(* ---- bufio.ScanLines ---- *)
(* raw lines: the byte runs between '\n's; a final run without '\n' is a line
   only when it is not empty *)
Fixpoint raw_lines (cur : bstr) (s : bstr) : list bstr :=   (* [cur] reversed *)
  match s with
  | [] => match cur with [] => [] | _ => [frev cur] end
  | c :: r => if c =? 10 then frev cur :: raw_lines [] r else raw_lines (c :: cur) r
  end.
(* dropCR *)
Definition drop_cr (l : bstr) : bstr :=
  match frev l with
  | c :: r => if c =? 13 then frev r else l
  | [] => l
  end.
(* bufio.MaxScanTokenSize: a line whose bytes before the '\n' fill the 64 KiB buffer is ErrTooLong *)
Definition max_token : N := 65536.

(* ---- strings.TrimSpace ---- *)
(* unicode.IsSpace: the six ASCII ones, U+0085, U+00A0 (two bytes), U+1680, U+2000-200A,
   U+2028, U+2029, U+202F, U+205F, U+3000 (three bytes).  [space_prefix s] = number of
   bytes of the white-space character s starts with (0 = none). *)
Definition space_prefix (s : bstr) : nat :=
  match s with
  | c :: r =>
      if (c =? 32) || ((9 <=? c) && (c <=? 13)) then 1%nat
      else if c =? 194 then
        match r with d :: _ => if (d =? 133) || (d =? 160) then 2%nat else 0%nat | [] => 0%nat end
      else if c =? 225 then
        match r with d :: e :: _ => if (d =? 154) && (e =? 128) then 3%nat else 0%nat | _ => 0%nat end
      else if c =? 226 then
        match r with
        | d :: e :: _ =>
            if (d =? 128) && (((128 <=? e) && (e <=? 138)) || (e =? 168) || (e =? 169) || (e =? 175)) then 3%nat
            else if (d =? 129) && (e =? 159) then 3%nat else 0%nat
        | _ => 0%nat
        end
      else if c =? 227 then
        match r with d :: e :: _ => if (d =? 128) && (e =? 128) then 3%nat else 0%nat | _ => 0%nat end
      else 0%nat
  | [] => 0%nat
  end.
Fixpoint trim_left (fuel : nat) (s : bstr) : bstr :=
  match fuel with
  | O => s
  | S f => match space_prefix s with O => s | k => trim_left f (drop k s) end
  end.
(* the same characters read backwards (utf8.DecodeLastRuneInString on a valid encoding) *)
Definition space_suffix (rs : bstr) : nat :=     (* [rs] = the string reversed *)
  match rs with
  | c :: r =>
      if (c =? 32) || ((9 <=? c) && (c <=? 13)) then 1%nat
      else match r with
           | d :: r2 =>
               if (d =? 194) && ((c =? 133) || (c =? 160)) then 2%nat
               else match r2 with
                    | e :: _ =>
                        if (e =? 225) && (d =? 154) && (c =? 128) then 3%nat
                        else if (e =? 226) && (d =? 128) && (((128 <=? c) && (c <=? 138)) || (c =? 168) || (c =? 169) || (c =? 175)) then 3%nat
                        else if (e =? 226) && (d =? 129) && (c =? 159) then 3%nat
                        else if (e =? 227) && (d =? 128) && (c =? 128) then 3%nat
                        else 0%nat
                    | [] => 0%nat
                    end
           | [] => 0%nat
           end
  | [] => 0%nat
  end.
Fixpoint trim_right_rev (fuel : nat) (rs : bstr) : bstr :=
  match fuel with
  | O => rs
  | S f => match space_suffix rs with O => rs | k => trim_right_rev f (drop k rs) end
  end.
Definition trim_space (s : bstr) : bstr :=
  let l := trim_left (length s) s in frev (trim_right_rev (length l) (frev l)).

(* strings.Index(line, "=") *)
Fixpoint split_eq (pre : bstr) (s : bstr) : option (bstr * bstr) :=   (* [pre] reversed *)
  match s with
  | [] => None
  | c :: r => if c =? 61 then Some (frev pre, r) else split_eq (c :: pre) r
  end.

Definition is_comment (l : bstr) : bool :=
  match l with a :: c :: _ => (a =? 47) && (c =? 47) | _ => false end.

Section Globals.
Variable parse : bstr -> outcome node.       (* parse.Expr on the right-hand side *)
Variable fuel : nat.                         (* recursion budget of the expression walker *)

(* one iteration of the scanner loop on an accepted token *)
Definition globals_line (g : list (bstr * value)) (line : bstr) : outcome (list (bstr * value)) :=
  match line with
  | [] => Ok g
  | _ =>
      if is_comment line then Ok g else
      match split_eq [] line with
      | None => Err e_noequals
      | Some (lhs, rhs) =>
          nd <- parse (trim_space rhs) ;;
          v <- eval_expr_impl true fuel nd ;;
          Ok (map_set g (trim_space lhs) v)
      end
  end.

Fixpoint globals_lines (g : list (bstr * value)) (ls : list bstr) : outcome (list (bstr * value)) :=
  match ls with
  | [] => Ok g
  | raw :: r =>
      if max_token <=? N.of_nat (length raw) then Err e_toolong
      else g' <- globals_line g (drop_cr raw) ;; globals_lines g' r
  end.

Definition parse_globals (input : bstr) : outcome (list (bstr * value)) :=
  globals_lines [] (raw_lines [] input).
End Globals.
