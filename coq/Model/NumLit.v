(* Number literal conversion as the parser uses it (parse/parse.go newValueNode, parseDataRef):
   strconv.ParseInt(s, base, 64) for an explicit base, and strconv.ParseFloat(s, 64) on the
   shapes of float literal the lexer emits.  Definitions only. *)
From Soy Require Import Model.Bytes Model.Num Model.Utf8.
Open Scope N_scope.

(* strconv.ParseUint's digit loop for an explicit base (no "0x" prefix, no underscores):
   '0'..'9' -> c-'0'; a letter (either case) -> lower(c)-'a'+10; anything else, or a digit
   >= base, is a syntax error *)
Definition digit_val (c : N) : option N :=
  if in_range 48 57 c then Some (c - 48)
  else if in_range 97 122 c then Some (c - 87)
  else if in_range 65 90 c then Some (c - 55)
  else None.

Fixpoint digits_val (base : N) (s : bstr) (acc : N) : option N :=
  match s with
  | [] => Some acc
  | c :: r =>
      match digit_val c with
      | Some d => if d <? base then digits_val base r (acc * base + d) else None
      | None => None
      end
  end.

(* strconv.ParseInt(s, base, 64) with base 10 or 16: [None] is err != nil (syntax or range) *)
Definition parse_int (base : N) (s : bstr) : option Z :=
  let '(neg, ds) := match s with
                    | c :: r => if c =? 43 then (false, r) else if c =? 45 then (true, r) else (false, s)
                    | [] => (false, s)
                    end in
  match ds with
  | [] => None
  | _ =>
      match digits_val base ds 0 with
      | None => None
      | Some n =>
          let z := if neg then (- Z.of_N n)%Z else Z.of_N n in
          if in_int64 z then Some z else None
      end
  end.

(* ---- float literals ---- *)
Definition is_dec_digit (c : N) : bool := in_range 48 57 c.

(* longest prefix of decimal digits, and the rest *)
Fixpoint span_digits (s : bstr) : bstr * bstr :=
  match s with
  | c :: r => if is_dec_digit c then let '(d, r') := span_digits r in (c :: d, r') else ([], s)
  | [] => ([], [])
  end.

Fixpoint dec_val (s : bstr) (acc : N) : N :=
  match s with
  | [] => acc
  | c :: r => dec_val r (acc * 10 + (c - 48))
  end.

(* the pieces of  -? D+ ( . D+ )? ( e [+-]? D+ )?  -- the float literals scanNumber emits;
   [None] for any other shape *)
Record float_lit := { lit_neg : bool; lit_int : bstr; lit_frac : bstr; lit_eneg : bool; lit_exp : bstr }.

Definition split_float (s : bstr) : option float_lit :=
  let '(neg, s1) := match s with 45 :: r => (true, r) | _ => (false, s) end in
  let '(ip, s2) := span_digits s1 in
  match ip with
  | [] => None
  | _ =>
      let after_frac (fp : bstr) (s3 : bstr) : option float_lit :=
        match s3 with
        | [] => Some {| lit_neg := neg; lit_int := ip; lit_frac := fp; lit_eneg := false; lit_exp := [] |}
        | 101 :: s4 =>
            let '(eneg, s5) := match s4 with 43 :: r => (false, r) | 45 :: r => (true, r) | _ => (false, s4) end in
            let '(ex, s6) := span_digits s5 in
            match ex, s6 with
            | _ :: _, [] => Some {| lit_neg := neg; lit_int := ip; lit_frac := fp; lit_eneg := eneg; lit_exp := ex |}
            | _, _ => None
            end
        | _ => None
        end in
      match s2 with
      | 46 :: s3 =>
          let '(fp, s4) := span_digits s3 in
          match fp with [] => None | _ => after_frac fp s4 end
      | _ => after_frac [] s2
      end
  end.

(* strconv.ParseFloat(s, 64) on such a literal whose decimal value is exactly a float64 of the
   model's domain (Num.mk_fl): ParseFloat rounds correctly, so it returns exactly that value.
   [None] = outside the model (another shape, an inexact value, an exponent beyond +-400). *)
Definition parse_float (s : bstr) : option fl :=
  match split_float s with
  | None => None
  | Some l =>
      let d := dec_val (lit_int l ++ lit_frac l) 0 in
      if d =? 0 then Some (FZero (lit_neg l))
      else if (4 <? N.of_nat (length (lit_exp l))) then None
      else
        let ex := Z.of_N (dec_val (lit_exp l) 0) in
        let k := ((if lit_eneg l then - ex else ex) - Z.of_nat (length (lit_frac l)))%Z in
        let m := if lit_neg l then (- Z.of_N d)%Z else Z.of_N d in
        if (400 <? Z.abs k)%Z then None
        else if (0 <=? k)%Z then mk_fl (m * 10 ^ k)%Z 0
        else
          let p5 := (5 ^ (- k))%Z in
          if (m mod p5 =? 0)%Z then mk_fl (m / p5)%Z k else None
  end.

(* ---- strconv.ParseFloat(s, 64) on EVERY float literal the scanner emits ----
   ParseFloat returns the float64 nearest to the decimal value (round to nearest, ties to even;
   strconv guarantees correct rounding), silently 0 or a subnormal on underflow, and +-Inf with
   ErrRange when the rounded value exceeds the largest float64.  [parse_float] above is the
   special case of a decimal that is exactly a float64 of Num.v's safe window; [parse_float_round]
   is total on the scanner's float syntax: it computes the correctly rounded value with integer
   arithmetic.  The result is always a genuine float64 m * 2^e (m odd, |m| < 2^53, e >= -1074,
   value < 2^1024) but may lie outside the window of Num.mk_fl (exponent beyond (-1000, 900)):
   arithmetic on such a value re-checks its own result. *)
Inductive float_res :=
| FRVal (f : fl)      (* err == nil *)
| FRRange             (* ErrRange: the parser reports it through t.error *)
| FRSyntax.           (* not of the scanner's float syntax (see [parse_float_round]) *)

(* n / (d * 2^e) as a fraction of integers; n >= 0, d > 0 *)
Definition scale_num (n e : Z) : Z := if (0 <=? e)%Z then n else (n * 2 ^ (- e))%Z.
Definition scale_den (d e : Z) : Z := if (0 <=? e)%Z then (d * 2 ^ e)%Z else d.
Definition floor_div_pow2 (n d e : Z) : Z := (scale_num n e / scale_den d e)%Z.
(* the integer nearest to n / (d * 2^e), ties to even *)
Definition round_div_pow2 (n d e : Z) : Z :=
  let nn := scale_num n e in
  let dd := scale_den d e in
  let q := (nn / dd)%Z in
  let r := (nn mod dd)%Z in
  if (2 * r <? dd)%Z then q
  else if (dd <? 2 * r)%Z then (q + 1)%Z
  else if Z.even q then q else (q + 1)%Z.

(* the float64 nearest to n / d (n, d > 0) with the given sign.  The exponent e is chosen so that
   2^52 <= n / (d * 2^e) < 2^53, but not below -1074 (subnormals); the spacing of float64 values
   around n/d is then 2^e, so rounding the quotient to an integer is IEEE rounding. *)
Definition round_ratio (neg : bool) (n d : Z) : float_res :=
  let e1 := (Z.log2 n - Z.log2 d - 53)%Z in
  let e2 := Z.max e1 (-1074) in
  let e := if (two53 <=? floor_div_pow2 n d e2)%Z then (e2 + 1)%Z else e2 in
  match round_div_pow2 n d e with
  | Zpos p =>
      if (1024 <=? Z.log2 (Zpos p) + e)%Z then FRRange
      else let '(m, e') := strip2 p e in FRVal (FFin (if neg then Zneg m else Zpos m) e')
  | _ => FRVal (FZero neg)
  end.

(* digits * 10^k: beyond 10^400 every non-zero literal overflows, below 10^-400 it rounds to zero
   (the least subnormal is about 4.9e-324), so the power of ten computed is bounded by the length
   of the literal + 400 whatever the exponent digits say *)
Definition float_of_lit (l : float_lit) : float_res :=
  let ds := lit_int l ++ lit_frac l in
  let d := dec_val ds 0 in
  if d =? 0 then FRVal (FZero (lit_neg l))
  else
    let ex := Z.of_N (dec_val (lit_exp l) 0) in
    let k := ((if lit_eneg l then - ex else ex) - Z.of_nat (length (lit_frac l)))%Z in
    if (400 <? k)%Z then FRRange
    else if (k + Z.of_nat (length ds) <? -400)%Z then FRVal (FZero (lit_neg l))
    else if (0 <=? k)%Z then round_ratio (lit_neg l) (Z.of_N d * 10 ^ k)%Z 1
    else round_ratio (lit_neg l) (Z.of_N d) (10 ^ (- k))%Z.

(* [FRSyntax]: the text is not of the form -? D+ (. D+)? (e [+-]? D+)?.  The scanner sends no such
   float item (scanNumber; tied by the token correspondence on every run, not proved), and what
   ParseFloat makes of other texts ("+1", ".5", "1E5", "inf", "0x1p-2", ...) is not modelled. *)
Definition parse_float_round (s : bstr) : float_res :=
  match split_float s with
  | None => FRSyntax
  | Some l => float_of_lit l
  end.
