(* data/value.go: Soy values with Truthy / Equals / String / Index / Key.
   Collections carry an identity [id] (Soy == on lists and maps is identity:
   reflect pointer equality); id 0 is the shared identity of empty/nil
   collections.  Maps are association lists with unique keys kept sorted by key
   (a Go map has no order; wherever Go ranges over one the model says how the
   order is chosen).  Definitions only. *)
From Soy Require Import Model.Bytes Model.Num Model.Outcome.
Open Scope N_scope.

Inductive value :=
| VUndef | VNull
| VBool (x : bool)
| VInt (z : Z)
| VFloat (f : fl)
| VStr (s : bstr)
| VList (id : N) (l : list value)
| VMap (id : N) (m : list (bstr * value)).

(* ---- byte-string ordering (Go string comparison) ---- *)
Fixpoint bstr_ltb (x y : bstr) : bool :=
  match x, y with
  | [], [] => false
  | [], _ :: _ => true
  | _ :: _, [] => false
  | a :: x', c :: y' => if a <? c then true else if c <? a then false else bstr_ltb x' y'
  end.
Definition bstr_leb (x y : bstr) : bool := negb (bstr_ltb y x).

Fixpoint insert_sorted (x : bstr) (l : list bstr) : list bstr :=
  match l with
  | [] => [x]
  | y :: r => if bstr_leb x y then x :: l else y :: insert_sorted x r
  end.
Definition sort_strings (l : list bstr) : list bstr := fold_right insert_sorted [] l.

(* ---- Truthy ---- *)
Definition truthy (v : value) : bool :=
  match v with
  | VUndef | VNull => false
  | VBool x => x
  | VInt z => negb (z =? 0)%Z
  | VFloat f => negb (fl_is_zero f) && negb (fl_is_nan f)
  | VStr s => match s with [] => false | _ => true end
  | VList _ _ | VMap _ _ => true
  end.

(* ---- Equals ---- *)
Definition int_float_eqb (z : Z) (f : fl) : bool :=
  (* float64(z) == f ; the conversion is exact up to 2^53 and rounds to the nearest float64 beyond, as Go's does *)
  match fl_of_int z with Some g => fl_eqb g f | None => false end.

Definition equals (a c : value) : bool :=
  match a, c with
  | VUndef, VUndef => true
  | VNull, VNull => true
  | VBool x, VBool y => Bool.eqb x y
  | VStr s, VStr t => bstr_eqb s t
  | VList i _, VList j _ => i =? j
  | VMap i _, VMap j _ => i =? j
  | VInt x, VInt y => (x =? y)%Z
  | VInt x, VFloat f => int_float_eqb x f
  | VFloat f, VInt x => int_float_eqb x f
  | VFloat f, VFloat g => fl_eqb f g
  | _, _ => false
  end.

(* ---- String ---- *)
Definition s_null := Eval vm_compute in b "null".
Definition s_true := Eval vm_compute in b "true".
Definition s_false := Eval vm_compute in b "false".
Definition s_undefined := Eval vm_compute in b "undefined".
Definition s_comma_sp := Eval vm_compute in b ", ".
Definition s_colon_sp := Eval vm_compute in b ": ".
Definition e_undef_string := Eval vm_compute in b "coerce undefined to string".

Fixpoint join (sep : bstr) (l : list bstr) : bstr :=
  match l with
  | [] => []
  | [x] => x
  | x :: r => x ++ sep ++ join sep r
  end.

(* [Err] = the panic of Undefined.String(); [OutOfModel] = a float outside the printing domain *)
Fixpoint to_string (fuel : nat) (v : value) : outcome bstr :=
  match fuel with
  | O => OutOfFuel
  | S f =>
      match v with
      | VUndef => Err e_undef_string
      | VNull => Ok s_null
      | VBool true => Ok s_true
      | VBool false => Ok s_false
      | VInt z => Ok (dec_of_Z z)
      | VFloat x => match fl_to_string x with Some s => Ok s | None => OutOfModel end
      | VStr s => Ok s
      | VList _ l =>
          items <- (fix go (l : list value) : outcome (list bstr) :=
                      match l with
                      | [] => Ok []
                      | x :: r => s <- to_string f x ;; rs <- go r ;; Ok (s :: rs)
                      end) l ;;
          Ok ([91] ++ join s_comma_sp items ++ [93])
      | VMap _ m =>
          items <- (fix go (m : list (bstr * value)) : outcome (list bstr) :=
                      match m with
                      | [] => Ok []
                      | (k, x) :: r =>
                          s <- (match x with VUndef => Ok s_undefined | _ => to_string f x end) ;;
                          rs <- go r ;; Ok ((k ++ s_colon_sp ++ s) :: rs)
                      end) m ;;
          Ok ([123] ++ join s_comma_sp (sort_strings items) ++ [125])
      end
  end.

Fixpoint depth (v : value) : nat :=
  match v with
  | VList _ l => S (fold_right (fun x acc => Nat.max (depth x) acc) 0%nat l)
  | VMap _ m => S (fold_right (fun kx acc => Nat.max (depth (snd kx)) acc) 0%nat m)
  | _ => 1%nat
  end.
Definition value_string (v : value) : outcome bstr := to_string (S (depth v)) v.

(* ---- Index / Key ---- *)
Definition list_index (l : list value) (i : Z) : value :=
  (* the upper bound is tested first so that a 53-bit index is never converted to a unary nat *)
  if (i <? 0)%Z || (Z.of_nat (length l) <=? i)%Z then VUndef
  else match nth_error l (Z.to_nat i) with Some x => x | None => VUndef end.
Definition map_key (m : list (bstr * value)) (k : bstr) : value :=
  match assoc_s k m with Some x => x | None => VUndef end.

(* map update keeping keys unique and sorted *)
Fixpoint map_set (m : list (bstr * value)) (k : bstr) (v : value) : list (bstr * value) :=
  match m with
  | [] => [(k, v)]
  | (k', v') :: r =>
      if bstr_eqb k k' then (k, v) :: r
      else if bstr_ltb k k' then (k, v) :: m
      else (k', v') :: map_set r k v
  end.
