(* The header entry of a PO catalogue and the choice of the plural rule: what po.Parse does AFTER its
   loop over the messages (Model/PoEntry.v) and what pomsg.newBundle does BEFORE its own loop
   (Model/PoBundle.v).  Hand model of LIBRARY code, tied on every run by c11_po_header against po.Parse /
   pomsg.Load (go/cmd/soyverif/c11po.go):

     net/textproto (Go 1.23.5) Reader.readLineSlice over bufio.Reader.ReadLine, readContinuedLineSlice,
       skipSpace, trim, readMIMEHeader, mustHaveFieldNameColon, canonicalMIMEHeaderKey,
       validHeaderFieldByte, validHeaderValueByte, MIMEHeader.Get
     robfig/gettext/po   the tail of Parse (header taken out of the messages, Plural-Forms, Language),
       pluralExprs, pluralSelectors / stripSpace, lookupPluralSelector, PluralSelectorForLanguage and the
       twelve selector functions of plural.go
     soymsg/pomsg        the head of newBundle (file.Pluralize, else the rule of the locale's name, else
       "Plural-Forms must be specified")

   Outside the model: the memory limit of readMIMEHeader (math.MaxInt64 - 400 bytes; its countdown never
   reaches zero on an input that fits in memory), the interning of common header names (same string), the
   peek of readContinuedLineSlice that avoids a copy (same result as the general path: skipSpace reads no
   byte when the next line starts with a letter, a newline or CR LF).

   A header is the list of (canonical key, value) pairs in the order of the lines; MIMEHeader.Get(k) is the
   first value under k.  A plural selector is its index in the literal of pluralSelectors (0 .. 11);
   [poh_select] are the functions.  Definitions only; proofs in Proofs/PoHeaderProofs.v. *)
From Coq Require Import ZArith.
From Soy Require Import Model.Bytes Model.Outcome Model.Utf8 Model.Num Model.Values Model.Ast Model.MsgId Model.MsgParts
  Model.PoFile Model.PoEntry Model.PoBundle.
Open Scope N_scope.

(* ------------------------------------------------------------------ *)
(* textproto: lines                                                    *)
(* ------------------------------------------------------------------ *)

(* up to the first "\n" *)
Fixpoint poh_cut_nl (s : bstr) : bstr * option bstr :=
  match s with
  | [] => ([], None)
  | c :: r => if c =? 10 then ([], Some r) else let '(l, t) := poh_cut_nl r in (c :: l, t)
  end.

(* readLineSlice: None = io.EOF (nothing left); a final line without "\n" keeps its "\r" *)
Definition poh_read_line (s : bstr) : option (bstr * bstr) :=
  match s with
  | [] => None
  | _ => match poh_cut_nl s with
         | (l, Some r) => Some (drop_cr l, r)
         | (l, None) => Some (l, [])
         end
  end.

Definition poh_is_blank (c : N) : bool := (c =? 32) || (c =? 9).
Fixpoint poh_trim_left (s : bstr) : bstr :=
  match s with
  | c :: r => if poh_is_blank c then poh_trim_left r else s
  | [] => []
  end.
(* trim: spaces and tabs at both ends *)
Definition poh_trim (s : bstr) : bstr := rev (poh_trim_left (rev (poh_trim_left s))).

(* the continuation loop of readContinuedLineSlice: while skipSpace() > 0 *)
Fixpoint poh_cont (fuel : nat) (buf s : bstr) : outcome (bstr * bstr) :=
  match fuel with
  | O => OutOfFuel
  | S f =>
      match s with
      | c :: _ =>
          if poh_is_blank c then
            let s1 := poh_trim_left s in
            let buf1 := buf ++ [32] in
            match poh_read_line s1 with
            | None => Ok (buf1, s1)
            | Some (l, s2) => poh_cont f (buf1 ++ poh_trim l) s2
            end
          else Ok (buf, s)
      | [] => Ok (buf, s)
      end
  end.

(* ------------------------------------------------------------------ *)
(* textproto: keys and values                                          *)
(* ------------------------------------------------------------------ *)

(* validHeaderFieldByte: RFC 7230 tchar *)
Definition poh_field_byte (c : N) : bool :=
  in_range 48 57 c || in_range 97 122 c || in_range 65 90 c
  || mem c [33; 35; 36; 37; 38; 39; 42; 43; 45; 46; 94; 95; 96; 124; 126].

(* validHeaderValueByte: VCHAR, SP, HTAB, obs-text *)
Definition poh_value_byte (c : N) : bool :=
  (128 <=? c) || in_range 33 126 c || (c =? 32) || (c =? 9).

(* the second loop of canonicalMIMEHeaderKey *)
Fixpoint poh_canon (upper : bool) (a : bstr) : bstr :=
  match a with
  | [] => []
  | c :: r =>
      let c' := if upper && in_range 97 122 c then c - 32
                else if negb upper && in_range 65 90 c then c + 32 else c in
      c' :: poh_canon (c' =? 45) r
  end.

(* canonicalMIMEHeaderKey: None = not ok; a key with a space inside is accepted as it stands *)
Definition poh_canonical_key (a : bstr) : option bstr :=
  match a with
  | [] => None
  | _ => if forallb (fun c => poh_field_byte c || (c =? 32)) a
         then Some (if mem 32 a then a else poh_canon true a)
         else None
  end.

(* bytes.Cut(kv, ":") when the colon is there *)
Fixpoint poh_cut_colon (s : bstr) : bstr * bstr :=
  match s with
  | [] => ([], [])
  | c :: r => if c =? 58 then ([], r) else let '(k, v) := poh_cut_colon r in (c :: k, v)
  end.

Definition poh_header : Type := list (bstr * bstr).

(* MIMEHeader.Get of a canonical key *)
Definition poh_get (key : bstr) (h : poh_header) : bstr :=
  match assoc_s key h with Some v => v | None => [] end.

Definition poh_e_mime := Eval vm_compute in b "textproto: malformed MIME header".

(* the loop of readMIMEHeader *)
Fixpoint poh_header_loop (fuel : nat) (m : poh_header) (s : bstr) : outcome poh_header :=
  match fuel with
  | O => OutOfFuel
  | S f =>
      match poh_read_line s with
      | None => Ok m                                   (* io.EOF, which Parse accepts *)
      | Some ([], _) => Ok m                           (* the blank line that ends a header *)
      | Some (line, s1) =>
          if negb (mem 58 line) then Err poh_e_mime    (* mustHaveFieldNameColon *)
          else
            '(kv, s2) <- poh_cont (S (length s1)) (poh_trim line) s1 ;;
            match kv with
            | [] => Ok m
            | _ =>
                let '(k, v) := poh_cut_colon kv in
                match poh_canonical_key k with
                | None => Err poh_e_mime
                | Some key =>
                    if forallb poh_value_byte v
                    then poh_header_loop f (m ++ [(key, poh_trim_left v)]) s2
                    else Err poh_e_mime
                end
            end
      end
  end.

(* ReadMIMEHeader on the bytes of the header entry's msgstr *)
Definition poh_read_mime_header (s : bstr) : outcome poh_header :=
  match s with
  | c :: _ => if poh_is_blank c then Err poh_e_mime else poh_header_loop (S (length s)) [] s
  | [] => poh_header_loop 1 [] s
  end.

(* ------------------------------------------------------------------ *)
(* po/plural.go                                                        *)
(* ------------------------------------------------------------------ *)

(* strings.Replace(s, " ", "", -1) *)
Definition poh_strip_space (s : bstr) : bstr := filter (fun c => negb (c =? 32)) s.

Definition poh_pf_0 := Eval vm_compute in b "nplurals=1; plural=0;".
Definition poh_pf_neq1 := Eval vm_compute in b "nplurals=2; plural=(n != 1);".
Definition poh_pf_gt1 := Eval vm_compute in b "nplurals=2; plural=(n > 1);".
Definition poh_pf_lv := Eval vm_compute in b "nplurals=3; plural=(n%10==1 && n%100!=11 ? 0 : n != 0 ? 1 : 2);".
Definition poh_pf_ga := Eval vm_compute in b "nplurals=3; plural=n==1 ? 0 : n==2 ? 1 : 2;".
Definition poh_pf_ro := Eval vm_compute in b "nplurals=3; plural=n==1 ? 0 : (n==0 || (n%100 > 0 && n%100 < 20)) ? 1 : 2;".
Definition poh_pf_lt := Eval vm_compute in b "nplurals=3; plural=(n%10==1 && n%100!=11 ? 0 : n%10>=2 && (n%100<10 || n%100>=20) ? 1 : 2);".
Definition poh_pf_ru := Eval vm_compute in b "nplurals=3; plural=(n%10==1 && n%100!=11 ? 0 : n%10>=2 && n%10<=4 && (n%100<10 || n%100>=20) ? 1 : 2);".
Definition poh_pf_cs := Eval vm_compute in b "nplurals=3; plural=(n==1) ? 0 : (n>=2 && n<=4) ? 1 : 2;".
Definition poh_pf_pl := Eval vm_compute in b "nplurals=3; plural=(n==1 ? 0 : n%10>=2 && n%10<=4 && (n%100<10 || n%100>=20) ? 1 : 2);".
Definition poh_pf_sl := Eval vm_compute in b "nplurals=4; plural=(n%100==1 ? 0 : n%100==2 ? 1 : n%100==3 || n%100==4 ? 2 : 3);".
Definition poh_pf_ar := Eval vm_compute in b "nplurals=6; plural=(n==0 ? 0 : n==1 ? 1 : n==2 ? 2 : n%100>=3 && n%100<=10 ? 3 : n%100>=11 ? 4 : 5);".

(* pluralSelectors after stripSpace: the keys without their spaces, the selector by its index in the literal *)
Definition poh_selectors : list (bstr * N) := Eval vm_compute in
  map (fun p => (poh_strip_space (fst p), snd p))
    [(poh_pf_0, 0); (poh_pf_neq1, 1); (poh_pf_gt1, 2); (poh_pf_lv, 3); (poh_pf_ga, 4); (poh_pf_ro, 5);
     (poh_pf_lt, 6); (poh_pf_ru, 7); (poh_pf_cs, 8); (poh_pf_pl, 9); (poh_pf_sl, 10); (poh_pf_ar, 11)].

(* lookupPluralSelector *)
Definition poh_lookup_selector (plural_forms : bstr) : option N :=
  assoc_s (poh_strip_space plural_forms) poh_selectors.

(* pluralExprs *)
Definition poh_plural_exprs : list (bstr * bstr) := Eval vm_compute in
  [(b "ja", poh_pf_0); (b "vi", poh_pf_0); (b "ko", poh_pf_0); (b "zh", poh_pf_0); (b "ms", poh_pf_0); (b "th", poh_pf_0);
   (b "en", poh_pf_neq1); (b "de", poh_pf_neq1); (b "nl", poh_pf_neq1); (b "sv", poh_pf_neq1); (b "da", poh_pf_neq1);
   (b "no", poh_pf_neq1); (b "nb", poh_pf_neq1); (b "nn", poh_pf_neq1); (b "fo", poh_pf_neq1); (b "es", poh_pf_neq1);
   (b "pt", poh_pf_neq1); (b "it", poh_pf_neq1); (b "bg", poh_pf_neq1); (b "el", poh_pf_neq1); (b "fi", poh_pf_neq1);
   (b "et", poh_pf_neq1); (b "he", poh_pf_neq1); (b "eo", poh_pf_neq1); (b "hu", poh_pf_neq1); (b "tr", poh_pf_neq1);
   (b "pt_BR", poh_pf_gt1); (b "fr", poh_pf_gt1); (b "lv", poh_pf_lv); (b "ga", poh_pf_ga); (b "ro", poh_pf_ro);
   (b "lt", poh_pf_lt); (b "ru", poh_pf_ru); (b "uk", poh_pf_ru); (b "be", poh_pf_ru); (b "sr", poh_pf_ru); (b "hr", poh_pf_ru);
   (b "cs", poh_pf_cs); (b "sk", poh_pf_cs); (b "pl", poh_pf_pl); (b "sl", poh_pf_sl); (b "ar", poh_pf_ar)].

(* PluralSelectorForLanguage *)
Definition poh_selector_for_language (lang0 : bstr) : option N :=
  let lang := map (fun c => if c =? 45 then 95 else c) lang0 in
  match assoc_s lang poh_plural_exprs with
  | Some pf => poh_lookup_selector pf
  | None =>
      match lang with
      | c0 :: c1 :: 95 :: _ =>
          match assoc_s [c0; c1] poh_plural_exprs with
          | Some pf => poh_lookup_selector pf
          | None => None
          end
      | _ => None
      end
  end.

(* the selector functions; n is a Go int, % truncates towards zero *)
Definition poh_select (code : N) (n : Z) : Z :=
  let r10 := Z.rem n 10 in
  let r100 := Z.rem n 100 in
  (if (code =? 0)%N then 0
   else if (code =? 1)%N then (if n =? 1 then 0 else 1)
   else if (code =? 2)%N then (if 1 <? n then 1 else 0)
   else if (code =? 3)%N then
     (if (r10 =? 1) && negb (r100 =? 11) then 0 else if negb (n =? 0) then 1 else 2)
   else if (code =? 4)%N then
     (if n =? 1 then 0 else if n =? 2 then 1 else 2)
   else if (code =? 5)%N then
     (if n =? 1 then 0 else if (n =? 0) || ((0 <? r100) && (r100 <? 20)) then 1 else 2)
   else if (code =? 6)%N then
     (if (r10 =? 1) && negb (r100 =? 11) then 0
      else if (2 <=? r10) && ((r100 <? 10) || (20 <=? r100)) then 1 else 2)
   else if (code =? 7)%N then
     (if (r10 =? 1) && negb (r100 =? 11) then 0
      else if (2 <=? r10) && (r10 <=? 4) && ((r100 <? 10) || (20 <=? r100)) then 1 else 2)
   else if (code =? 8)%N then
     (if n =? 1 then 0 else if (2 <=? n) && (n <=? 4) then 1 else 2)
   else if (code =? 9)%N then
     (if n =? 1 then 0
      else if (2 <=? r10) && (r10 <=? 4) && ((r100 <? 10) || (20 <=? r100)) then 1 else 2)
   else if (code =? 10)%N then
     (if r100 =? 1 then 0 else if r100 =? 2 then 1 else if (r100 =? 3) || (r100 =? 4) then 2 else 3)
   else
     (if n =? 0 then 0 else if n =? 1 then 1 else if n =? 2 then 2
      else if (3 <=? r100) && (r100 <=? 10) then 3 else if 11 <=? r100 then 4 else 5))%Z.

(* Bundle.PluralCase as the walker takes it (Model/MsgParts.v: plural_index) *)
Definition poh_plural_index (code : N) (n : Z) : nat := Z.to_nat (poh_select code n).

(* ------------------------------------------------------------------ *)
(* po.Parse after its loop; pomsg.newBundle before its loop             *)
(* ------------------------------------------------------------------ *)

Record poh_file := { pohf_header : poh_header; pohf_messages : list pe_message; pohf_pluralize : option N }.

Definition poh_k_plural_forms := Eval vm_compute in b "Plural-Forms".
Definition poh_k_language := Eval vm_compute in b "Language".
Definition poh_e_selector := Eval vm_compute in b "unrecognized plural form selector".
Definition poh_e_forms := Eval vm_compute in b "Plural-Forms must be specified".

(* the plural rule a header asks for: Plural-Forms if it is there (and then it must be a known one), else
   the rule of the header's Language, if any *)
Definition poh_pluralize (h : poh_header) : outcome (option N) :=
  match poh_get poh_k_plural_forms h with
  | [] => Ok (poh_selector_for_language (poh_get poh_k_language h))
  | pf => match poh_lookup_selector pf with
          | Some c => Ok (Some c)
          | None => Err poh_e_selector
          end
  end.

(* the tail of po.Parse on the messages its loop has read: the first one is the header when its msgid is
   empty and it has one msgstr *)
Definition poh_finish (ms : list pe_message) : outcome poh_file :=
  match ms with
  | [] => Ok {| pohf_header := []; pohf_messages := []; pohf_pluralize := None |}
  | m0 :: rest =>
      '(h, msgs) <-
         match pf_id (pm_fields m0), pf_str (pm_fields m0) with
         | [], [s] => h <- poh_read_mime_header s ;; Ok (h, rest)
         | _, _ => Ok ([], ms)
         end ;;
      sel <- poh_pluralize h ;;
      Ok {| pohf_header := h; pohf_messages := msgs; pohf_pluralize := sel |}
  end.

(* po.Parse *)
Definition poh_parse (input : bstr) : outcome poh_file := ms <- pe_parse input ;; poh_finish ms.

(* pomsg.newBundle(locale, file): the plural rule, then the loop over the messages *)
Definition poh_new_bundle (locale : bstr) (f : poh_file) : outcome (bundle * N) :=
  match (match pohf_pluralize f with Some c => Some c | None => poh_selector_for_language locale end) with
  | None => Err poh_e_forms
  | Some c => bd <- pb_bundle_loop (pohf_messages f) [] ;; Ok (bd, c)
  end.

(* pomsg.Load for one locale: the bundle and the index of its plural selector *)
Definition poh_load (locale input : bstr) : outcome (bundle * N) :=
  f <- poh_parse input ;; poh_new_bundle locale f.

(* ------------------------------------------------------------------ *)
(* File.WriteTo with a header                                           *)
(* ------------------------------------------------------------------ *)

Definition poh_colon_sp := Eval vm_compute in b ": ".

(* the value of the header entry's msgstr: "k: v\n" per key, keys sorted by the caller (sort.Strings) *)
Definition poh_header_text (h : poh_header) : bstr :=
  flat_map (fun kv => fst kv ++ poh_colon_sp ++ snd kv ++ [10]) h.

Definition poh_header_fields (h : poh_header) : po_fields :=
  {| pf_ctxt := []; pf_id := []; pf_id_plural := []; pf_str := [poh_header_text h] |}.

Section PoHeader.
Variable is_print : N -> bool.

(* wr.quo("msgid ", ""); wr.quo("msgstr ", text); wr.newline() -- only when the header has a key *)
Definition poh_write_header (h : poh_header) : list bstr :=
  match h with
  | [] => []
  | _ => po_quo is_print p_msgid [] ++ po_quo is_print p_msgstr (poh_header_text h) ++ [[]]
  end.

(* File.WriteTo: the header entry, then every message followed by an empty line *)
Definition poh_write_file (h : poh_header) (ms : list pe_message) : bstr :=
  join_lines (poh_write_header h ++ flat_map (fun m => pe_write_message is_print m ++ [[]]) ms).

End PoHeader.
