(* soymsg/id.go, soymsg/placeholder.go, soymsg/soymsg.go (PlaceholderString,
   SetPlaceholdersAndID) and parsepasses/msgids.go.  Definitions only; proofs are
   in Proofs/MsgIdProofs.v.

   The arithmetic of hash32 / fingerprint / calcID (initial constants, word
   loads, the 27-assignment mix block, tail switch, seeds, xor constants, mask),
   htmlTagNames and the tag-type prefixes come from Generated/Tables.v, i.e.
   from the Go source of the tree under check.

   The model describes the tree *after* the two C10 repairs
   (notes/pending/C10-*.diff): a suffixed name is skipped when it is itself a
   base name (as official Soy does), and MapLiteralNode.String() sorts its keys,
   so that a node's String() is a function of the node.  The pinned algorithm
   (collision test against the names handed out so far, a lone node overwriting
   a name already taken) is kept at the end of this file for the refutation in
   Properties/C10.v. *)
From Soy Require Import Model.Bytes Model.Outcome Generated.Tables.
(* scopes *) Open Scope N_scope.

(* ------------------------------------------------------------------ *)
(* hash32                                                             *)
(* ------------------------------------------------------------------ *)

Definition w32 (x : N) : N := x mod 4294967296.
Definition w64 (x : N) : N := x mod 18446744073709551616.

(* uint32(str[i+off] & 0xff) *)
Definition h32_byte (blk : bstr) (off : N) : N := N.land (nth (N.to_nat off) blk 0) 255.

(* (byte << s) | (byte << s') | ... *)
Definition h32_word (blk : bstr) (terms : list (N * N)) : N :=
  fold_left (fun acc t => N.lor acc (shl32 (h32_byte blk (fst t)) (snd t))) terms 0.

(* target += v   (uint32) *)
Definition h32_add (target v : N) (st : N * N * N) : N * N * N :=
  let '(a, b0, c) := st in
  if target =? 0 then (w32 (a + v), b0, c)
  else if target =? 1 then (a, w32 (b0 + v), c)
  else (a, b0, w32 (c + v)).

Definition h32_loads (blk : bstr) (loads : list (N * list (N * N))) (st : N * N * N) : N * N * N :=
  fold_left (fun st l => h32_add (fst l) (h32_word blk (snd l)) st) loads st.

(* for i = start; i+12 <= limit; i += 12 { loads; mix } -- returns the
   unconsumed bytes str[i:limit] and (a, b, c) *)
Fixpoint h32_blocks (s : bstr) (st : N * N * N) : bstr * (N * N * N) :=
  match s with
  | b0 :: b1 :: b2 :: b3 :: b4 :: b5 :: b6 :: b7 :: b8 :: b9 :: b10 :: b11 :: r =>
      let '(a, b', c) := h32_loads [b0; b1; b2; b3; b4; b5; b6; b7; b8; b9; b10; b11] h32_loop_loads st in
      h32_blocks r (mix a b' c)
  | _ => (s, st)
  end.

(* hash32(str, 0, len(str), seed) *)
Definition hash32 (s : bstr) (seed : N) : N :=
  let '(rest, st) := h32_blocks s (h32_init_a, h32_init_b, w32 seed) in
  let st := h32_add 2 (w32 (N.of_nat (length s))) st in          (* c += uint32(limit - start) *)
  let k := N.of_nat (length rest) in                              (* switch limit - i, cases fall through *)
  let '(a, b', c) := h32_loads rest (map snd (filter (fun e => fst e <=? k) h32_tail_loads)) st in
  let '(_, _, c) := mix a b' c in
  c.

(* ------------------------------------------------------------------ *)
(* fingerprint, calcID                                                *)
(* ------------------------------------------------------------------ *)

Definition fingerprint (s : bstr) : N :=
  let hi := hash32 s fp_seed_hi in
  let lo := hash32 s fp_seed_lo in
  let degenerate := (hi =? 0) && ((lo =? 0) || (lo =? 1)) in
  let hi := if degenerate then N.lxor hi fp_xor_hi else hi in
  let lo := if degenerate then N.lxor lo fp_xor_lo else lo in
  N.lor (w64 (N.shiftl hi 32)) (N.land lo 4294967295).

(* calcID on the string written by writeFingerprint(_, n, false) and n.Meaning *)
Definition calc_id (fpstr meaning : bstr) : N :=
  let fp := fingerprint fpstr in
  let fp :=
    match meaning with
    | [] => fp
    | _ => let topbit := if 0 <? N.land fp 9223372036854775808 then 1 else 0 in
           w64 (w64 (N.shiftl fp 1) + topbit + fingerprint meaning)
    end in
  N.land fp calc_id_mask.

(* ------------------------------------------------------------------ *)
(* toUpperUnderscore: the five regexps as matchers over bytes         *)
(* (patterns pinned by tablegen in msg_regex_sources).  All classes   *)
(* are ASCII, so bytes >= 128 never match and are copied.             *)
(* ------------------------------------------------------------------ *)

Definition c_upper (c : N) : bool := (65 <=? c) && (c <=? 90).
Definition c_lower (c : N) : bool := (97 <=? c) && (c <=? 122).
Definition c_letter (c : N) : bool := c_upper c || c_lower c.
Definition c_digit (c : N) : bool := (48 <=? c) && (c <=? 57).
Definition c_alnum (c : N) : bool := c_letter c || c_digit c.      (* isAlphaNumeric *)

(* ^_+|_+$  -> ""  *)
Fixpoint strip_us (s : bstr) : bstr :=
  match s with
  | c :: r => if c =? 95 then strip_us r else s
  | [] => []
  end.
Definition trim_us (s : bstr) : bstr := rev (strip_us (rev (strip_us s))).

(* __+ -> "${1}_${2}" = "_"  (the pattern has no groups) *)
Fixpoint squeeze_us (s : bstr) : bstr :=
  match s with
  | c :: r => if (c =? 95) && (match r with d :: _ => d =? 95 | [] => false end)
              then squeeze_us r else c :: squeeze_us r
  | [] => []
  end.

(* ([a-zA-Z])([A-Z][a-z]) -> "${1}_${2}"; matches do not overlap *)
Fixpoint word_boundary1 (s : bstr) : bstr :=
  match s with
  | x :: ((y :: z :: r) as t) =>
      if c_letter x && c_upper y && c_lower z then x :: 95 :: y :: z :: word_boundary1 r
      else x :: word_boundary1 t
  | x :: t => x :: word_boundary1 t
  | [] => []
  end.

(* ([a-zA-Z])([0-9]) and ([0-9])([a-zA-Z]) -> "${1}_${2}" *)
Fixpoint word_boundary2 (p q : N -> bool) (s : bstr) : bstr :=
  match s with
  | x :: ((y :: r) as t) =>
      if p x && q y then x :: 95 :: y :: word_boundary2 p q r
      else x :: word_boundary2 p q t
  | x :: t => x :: word_boundary2 p q t
  | [] => []
  end.

Definition ascii_upper (c : N) : N := if c_lower c then c - 32 else c.
Definition ascii_lower (c : N) : N := if c_upper c then c + 32 else c.

(* strings.ToUpper is modelled on ASCII only (identifiers above ASCII are
   outside the model; the harness generates ASCII identifiers) *)
Definition to_upper_underscore (ident : bstr) : bstr :=
  map ascii_upper
    (word_boundary2 c_digit c_letter
      (word_boundary2 c_letter c_digit
        (word_boundary1 (squeeze_us (trim_us ident))))).

(* ------------------------------------------------------------------ *)
(* base names                                                         *)
(* ------------------------------------------------------------------ *)

Definition s_xxx : bstr := Eval vm_compute in b "XXX".
Definition s_num : bstr := Eval vm_compute in b "NUM".
Definition s_plural_kw : bstr := Eval vm_compute in b ",plural,".
Definition s_other_open : bstr := Eval vm_compute in b "other{".
Definition s_no_tag_name : bstr := Eval vm_compute in b "no tag name found".

(* what genBasePlaceholderNameFromExpr looks at *)
Inductive ph_access := PaKey (k : bstr) | PaOther.
Inductive ph_expr := PeGlobal (name : bstr) | PeDataRef (key : bstr) (acc : list ph_access) | PeOther.
(* what genBasePlaceholderName looks at: a PrintNode (its Arg), a
   MsgHtmlTagNode (its Text), a bare expression (the Value of a plural), or any
   other node *)
Inductive ph_node := PhPrint (e : ph_expr) | PhHtml (text : bstr) | PhExpr (e : ph_expr) | PhOther.

Definition base_from_expr (e : ph_expr) (default : bstr) : bstr :=
  match e with
  | PeGlobal name => to_upper_underscore name
  | PeDataRef key acc =>
      match rev acc with
      | [] => to_upper_underscore key
      | PaKey k :: _ => to_upper_underscore k
      | PaOther :: _ => default
      end
  | PeOther => default
  end.

Fixpoint alnum_prefix (s : bstr) : option bstr :=      (* None: no non-alphanumeric byte follows (Go panics) *)
  match s with
  | [] => None
  | c :: r => if c_alnum c then match alnum_prefix r with Some p => Some (c :: p) | None => None end
              else Some []
  end.

Definition has_suffix (suf s : bstr) : bool := is_prefix (rev suf) (rev s).
Definition trim_prefix (p s : bstr) : bstr := if is_prefix p s then drop (length p) s else s.

(* tagName: (lower-cased name, tag type) *)
Definition tag_name (text : bstr) : outcome (bstr * bstr) :=
  let tag_type :=
    if is_prefix [60; 47] text then tag_type_end
    else if has_suffix [47; 62] text then tag_type_selfclosing
    else tag_type_start in
  match alnum_prefix (trim_prefix [47] (trim_prefix [60] text)) with
  | Some name => Ok (map ascii_lower name, tag_type)
  | None => Crash s_no_tag_name
  end.

Definition base_from_html (text : bstr) : outcome bstr :=
  '(tag, tag_type) <- tag_name text ;;
  let tag := match assoc_s tag html_tag_names with Some pretty => pretty | None => tag end in
  Ok (to_upper_underscore (tag_type ++ tag)).

Definition gen_base (n : ph_node) (default : bstr) : outcome bstr :=
  match n with
  | PhPrint e => Ok (base_from_expr e default)
  | PhHtml text => base_from_html text
  | PhExpr (PeDataRef k acc) => Ok (base_from_expr (PeDataRef k acc) default)
  | PhExpr _ => Ok default
  | PhOther => Ok default
  end.

(* ------------------------------------------------------------------ *)
(* message bodies                                                     *)
(* ------------------------------------------------------------------ *)

(* as parsed: every placeholder carries the node its base name is derived
   from and the text of its String() (supplied by the harness, opaque here) *)
Inductive spart :=
| SText (t : bstr)
| SPh (n : ph_node) (str : bstr)
| SPlural (value : ph_node) (str : bstr) (cases : list (Z * list spart)) (dflt : list spart).

(* with base names computed *)
Inductive mpart :=
| MText (t : bstr)
| MPh (base str : bstr)
| MPlural (base str : bstr) (cases : list (Z * list mpart)) (dflt : list mpart).

Definition omap {A B} (f : A -> outcome B) : list A -> outcome (list B) :=
  fix go (l : list A) : outcome (list B) :=
    match l with
    | [] => Ok []
    | x :: r => y <- f x ;; r' <- go r ;; Ok (y :: r')
    end.

Fixpoint msg_resolve (p : spart) : outcome mpart :=
  match p with
  | SText t => Ok (MText t)
  | SPh n str => base <- gen_base n s_xxx ;; Ok (MPh base str)
  | SPlural v str cases dflt =>
      base <- gen_base v s_num ;;
      cases' <- omap (fun c => body <- omap msg_resolve (snd c) ;; Ok (fst c, body)) cases ;;
      dflt' <- omap msg_resolve dflt ;;
      Ok (MPlural base str cases' dflt')
  end.

Definition is_ph (p : mpart) : bool := match p with MText _ => false | _ => true end.
Definition ph_nodes (l : list mpart) : list mpart := filter is_ph l.
Definition plural_case_bodies (cases : list (Z * list mpart)) (dflt : list mpart) : list mpart :=
  flat_map (fun c => ph_nodes (snd c)) cases ++ ph_nodes dflt.

(* (base name, String()) of a queued node *)
Definition ph_entry (p : mpart) : bstr * bstr :=
  match p with
  | MPh base str => (base, str)
  | MPlural base str _ _ => (base, str)
  | MText _ => ([], [])
  end.

(* number of placeholder and plural nodes *)
Fixpoint ph_count (p : mpart) : nat :=
  match p with
  | MText _ => 0
  | MPh _ _ => 1
  | MPlural _ _ cases dflt =>
      S (fold_right (fun c acc => fold_right (fun x acc => ph_count x + acc) 0 (snd c) + acc) 0 cases
         + fold_right (fun x acc => ph_count x + acc) 0 dflt)%nat
  end.
Definition ph_count_list (l : list mpart) : nat := fold_right (fun x acc => (ph_count x + acc)%nat) 0%nat l.

(* step 1's queue: pop the head; a plural appends the placeholders of its case
   bodies.  Each iteration pops one node, so [ph_count_list body] iterations
   suffice (Proofs: msg_bfs_total). *)
Fixpoint msg_bfs (fuel : nat) (queue : list mpart) : outcome (list (bstr * bstr)) :=
  match queue with
  | [] => Ok []
  | node :: rest =>
      match fuel with
      | O => OutOfFuel
      | S f =>
          let queue' := match node with
                        | MPlural _ _ cases dflt => rest ++ plural_case_bodies cases dflt
                        | _ => rest
                        end in
          r <- msg_bfs f queue' ;; Ok (ph_entry node :: r)
      end
  end.

(* placeholders in the order step 1 meets them *)
Definition msg_entries (body : list mpart) : outcome (list (bstr * bstr)) :=
  msg_bfs (ph_count_list body) (ph_nodes body).

Definition mem_s (s : bstr) (l : list bstr) : bool := existsb (bstr_eqb s) l.

(* baseNameToRepNodes: base name -> representative nodes.  A representative
   is identified by its String(): a node is equivalent to the first node of the
   same base name with the same String().  The association list keeps insertion
   order only as a modelling device: the Go map has none, and step 2 visits the
   keys through the oracle. *)
Fixpoint add_rep (tbl : list (bstr * list bstr)) (base str : bstr) : list (bstr * list bstr) :=
  match tbl with
  | [] => [(base, [str])]
  | (b', strs) :: r =>
      if bstr_eqb base b' then (b', if mem_s str strs then strs else strs ++ [str]) :: r
      else (b', strs) :: add_rep r base str
  end.
Definition rep_table (es : list (bstr * bstr)) : list (bstr * list bstr) :=
  fold_left (fun t e => add_rep t (fst e) (snd e)) es [].

(* baseName + "_" + strconv.Itoa(n) *)
Definition sfx_name (base : bstr) (n : N) : bstr := base ++ 95 :: dec_of_N n.

(* nameToRepNodes: name -> node (base, String()); a Go map write *)
Definition namemap := list (bstr * (bstr * bstr)).
Fixpoint nm_put (nm : namemap) (name : bstr) (node : bstr * bstr) : namemap :=
  match nm with
  | [] => [(name, node)]
  | (n', v) :: r => if bstr_eqb name n' then (n', node) :: r else (n', v) :: nm_put r name node
  end.
Definition nm_put_all (nm : namemap) (l : namemap) : namemap :=
  fold_left (fun nm e => nm_put nm (fst e) (snd e)) l nm.

(* the inner  for { newName = base_n; n++; if newName is not a base name { break } }
   returns the n that was used.  At most [length bases] candidates can be base
   names, so [S (length bases)] iterations suffice (Proofs: next_free_total). *)
Fixpoint next_free (fuel : nat) (bases : list bstr) (base : bstr) (n : N) : outcome N :=
  match fuel with
  | O => OutOfFuel
  | S f => if mem_s (sfx_name base n) bases then next_free f bases base (n + 1) else Ok n
  end.

(* for _, node := range nodes { ... }  with nextSuffix = n on entry *)
Fixpoint number_nodes (bases : list bstr) (base : bstr) (strs : list bstr) (n : N) : outcome namemap :=
  match strs with
  | [] => Ok []
  | s :: r =>
      k <- next_free (S (length bases)) bases base n ;;
      rest <- number_nodes bases base r (k + 1) ;;
      Ok ((sfx_name base k, (base, s)) :: rest)
  end.

(* the map writes of one iteration of step 2's outer loop *)
Definition assign_base (bases : list bstr) (base : bstr) (strs : list bstr) : outcome namemap :=
  match strs with
  | [s] => Ok [(base, (base, s))]
  | _ => number_nodes bases base strs 1
  end.

(* Step 2.  [order] stands for Go's map iteration: it is applied to the keys of
   baseNameToRepNodes and returns them in the order the loop visits them. *)
Fixpoint step2_loop (tbl : list (bstr * list bstr)) (bases keys : list bstr) (nm : namemap) : outcome namemap :=
  match keys with
  | [] => Ok nm
  | base :: r =>
      match assoc_s base tbl with
      | None => step2_loop tbl bases r nm          (* not a key: cannot happen for a permutation *)
      | Some strs => ws <- assign_base bases base strs ;; step2_loop tbl bases r (nm_put_all nm ws)
      end
  end.
Definition step2 (order : list bstr -> list bstr) (tbl : list (bstr * list bstr)) : outcome namemap :=
  let bases := map fst tbl in
  step2_loop tbl bases (order bases) [].

(* Steps 3 and 4 also range over Go maps, but their order cannot matter:
   step 3's first loop writes nodeToName[node] = name for the entries of
   nameToRepNodes, and every node occurs there under at most one name (step 2
   writes each representative once; an overwrite can only drop a node), so no
   key is written twice; its second loop and step 4 write one distinct key /
   one distinct node per iteration from values that are no longer modified.
   The result is therefore the function below: the name under which the node's
   representative is stored, or "" (the zero value; Name is never set) when the
   representative lost its name. *)
Fixpoint name_of (nm : namemap) (base str : bstr) : bstr :=
  match nm with
  | [] => []
  | (name, (b', s')) :: r => if bstr_eqb base b' && bstr_eqb str s' then name else name_of r base str
  end.

Definition msg_names (order : list bstr -> list bstr) (body : list mpart) : outcome namemap :=
  es <- msg_entries body ;; step2 order (rep_table es).

(* the message with Name / VarName set *)
Inductive npart :=
| NmText (t : bstr)
| NmPh (name : bstr)
| NmPlural (name : bstr) (cases : list (Z * list npart)) (dflt : list npart).

Fixpoint set_names (nm : namemap) (p : mpart) : npart :=
  match p with
  | MText t => NmText t
  | MPh base str => NmPh (name_of nm base str)
  | MPlural base str cases dflt =>
      NmPlural (name_of nm base str)
               (map (fun c => (fst c, map (set_names nm) (snd c))) cases)
               (map (set_names nm) dflt)
  end.

Definition msg_named (order : list bstr -> list bstr) (body : list mpart) : outcome (list npart) :=
  nm <- msg_names order body ;; Ok (map (set_names nm) body).

(* writeFingerprint *)
Fixpoint write_fp (braces : bool) (p : npart) : bstr :=
  match p with
  | NmText t => t
  | NmPh name => if braces then 123 :: name ++ [125] else name
  | NmPlural name cases dflt =>
      123 :: name ++ s_plural_kw
        ++ flat_map (fun c => 61 :: dec_of_Z (fst c) ++ 123 :: flat_map (write_fp true) (snd c) ++ [125]) cases
        ++ s_other_open ++ flat_map (write_fp true) dflt ++ [125; 125]
  end.
Definition write_fp_list (braces : bool) (l : list npart) : bstr := flat_map (write_fp braces) l.

(* a {msg}: only body and meaning enter the id *)
Record msg := { m_meaning : bstr; m_desc : bstr; m_body : list mpart }.

(* SetPlaceholdersAndID: n.ID *)
Definition msg_id (order : list bstr -> list bstr) (m : msg) : outcome N :=
  named <- msg_named order (m_body m) ;; Ok (calc_id (write_fp_list false named) (m_meaning m)).

(* PlaceholderString *)
Definition placeholder_string (order : list bstr -> list bstr) (m : msg) : outcome bstr :=
  named <- msg_named order (m_body m) ;; Ok (write_fp_list true named).

(* parsepasses.ProcessMessages: every msg node of every template, each on its
   own; everything else is walked over *)
Inductive titem := ICode (src : bstr) | IMsg (m : msg).
Definition process_messages (order : list bstr -> list bstr) (file : list titem) : list (outcome N) :=
  flat_map (fun it => match it with ICode _ => [] | IMsg m => [msg_id order m] end) file.

(* what the harness compares: id, PlaceholderString, the string that is
   fingerprinted, names in document order *)
Fixpoint names_of (p : npart) : list bstr :=
  match p with
  | NmText _ => []
  | NmPh name => [name]
  | NmPlural name cases dflt => name :: flat_map (fun c => flat_map names_of (snd c)) cases ++ flat_map names_of dflt
  end.

Definition msg_observe (m : msg) : outcome (N * (bstr * (bstr * list bstr))) :=
  named <- msg_named (fun l => l) (m_body m) ;;
  Ok (calc_id (write_fp_list false named) (m_meaning m),
      (write_fp_list true named, (write_fp_list false named, flat_map names_of named))).

Definition msg_of_source (meaning desc : bstr) (body : list spart) : outcome msg :=
  body' <- omap msg_resolve body ;; Ok {| m_meaning := meaning; m_desc := desc; m_body := body' |}.

(* ------------------------------------------------------------------ *)
(* the pinned algorithm (before the repair), for the refutation       *)
(* ------------------------------------------------------------------ *)

Definition nm_has (nm : namemap) (name : bstr) : bool := existsb (fun e => bstr_eqb name (fst e)) nm.

(* for { newName = base_n; if newName not in nameToRepNodes { break }; n++ } *)
Fixpoint next_free_pinned (fuel : nat) (nm : namemap) (base : bstr) (n : N) : outcome N :=
  match fuel with
  | O => OutOfFuel
  | S f => if nm_has nm (sfx_name base n) then next_free_pinned f nm base (n + 1) else Ok n
  end.

Fixpoint number_nodes_pinned (base : bstr) (strs : list bstr) (n : N) (nm : namemap) : outcome namemap :=
  match strs with
  | [] => Ok nm
  | s :: r =>
      k <- next_free_pinned (S (length nm)) nm base n ;;
      number_nodes_pinned base r k (nm_put nm (sfx_name base k) (base, s))
  end.

Fixpoint step2_loop_pinned (tbl : list (bstr * list bstr)) (keys : list bstr) (nm : namemap) : outcome namemap :=
  match keys with
  | [] => Ok nm
  | base :: r =>
      match assoc_s base tbl with
      | None => step2_loop_pinned tbl r nm
      | Some [s] => step2_loop_pinned tbl r (nm_put nm base (base, s))      (* unconditional write *)
      | Some strs => nm' <- number_nodes_pinned base strs 1 nm ;; step2_loop_pinned tbl r nm'
      end
  end.

Definition msg_named_pinned (order : list bstr -> list bstr) (body : list mpart) : outcome (list npart) :=
  es <- msg_entries body ;;
  let tbl := rep_table es in
  nm <- step2_loop_pinned tbl (order (map fst tbl)) [] ;;
  Ok (map (set_names nm) body).

Definition msg_id_pinned (order : list bstr -> list bstr) (m : msg) : outcome N :=
  named <- msg_named_pinned order (m_body m) ;; Ok (calc_id (write_fp_list false named) (m_meaning m)).
