(* soyhtml: exec.go (state.walk and friends), scope.go, funcs.go, renderer.go,
   eval.go.  One tree walker over an explicit machine state, with every
   observable the properties talk about: the sequence of Write calls accepted by
   the top-level writer (with a fault automaton), the scope stack with
   [entered] frames and frame origins (a [set] on a frame that is the caller's
   own map is recorded as a shared write), the s.node position for error
   reporting, the unbound-lookup counter.  Models the tree AFTER the repairs
   recorded in known_findings.json (status "fixed").  Definitions only. *)
From Soy Require Import Model.Bytes Model.Num Model.Values Model.Outcome Model.Ast
  Model.Escape Model.Directives Model.Print Generated.Tables.
Open Scope N_scope.

(* ------------------------------------------------------------------ *)
(* scope.go *)

Inductive origin := OExternal (id : N) | OFresh.
Record frame := { f_vars : list (bstr * value); f_entered : bool; f_origin : origin }.
Definition scope := list frame.            (* head = deepest frame *)

Definition fresh_frame : frame := {| f_vars := []; f_entered := false; f_origin := OFresh |}.
Definition new_scope (id : N) (m : list (bstr * value)) : scope :=
  [{| f_vars := m; f_entered := false; f_origin := OExternal id |}].
Definition sc_push (s : scope) : scope := fresh_frame :: s.
Definition sc_pop (s : scope) : scope := tl s.
Definition sc_set (s : scope) (k : bstr) (v : value) : scope :=
  match s with
  | f :: r => {| f_vars := map_set (f_vars f) k v; f_entered := f_entered f; f_origin := f_origin f |} :: r
  | [] => []
  end.
Definition sc_top_origin (s : scope) : origin :=
  match s with f :: _ => f_origin f | [] => OFresh end.
Fixpoint sc_lookup (s : scope) (k : bstr) : option value :=
  match s with
  | [] => None
  | f :: r => match assoc_s k (f_vars f) with Some v => Some v | None => sc_lookup r k end
  end.
(* alldata: the frames from the topmost entered one downwards; None = panic("impossible") *)
Fixpoint sc_alldata (s : scope) : option scope :=
  match s with
  | [] => None
  | f :: r => if f_entered f then Some s else sc_alldata r
  end.
Definition sc_enter (s : scope) : scope :=
  match s with
  | f :: r => sc_push ({| f_vars := f_vars f; f_entered := true; f_origin := f_origin f |} :: r)
  | [] => sc_push []
  end.

(* ------------------------------------------------------------------ *)
(* machine state *)

Record mstate := {
  ctx : scope;
  mode : N;                      (* autoescape: 0 unspecified 1 on 2 off 3 contextual *)
  cur : N;                       (* position of s.node of the top-level state *)
  tmpl : bstr;                   (* template of the top-level state *)
  depth_ : nat;                  (* call depth: 0 in the entry template *)
  out : list bstr;               (* reversed: Write calls accepted by the top-level writer *)
  bufs : list (list bstr);       (* renderBlock capture buffers, innermost first, each reversed *)
  calls_left : option nat;       (* writer fault automaton: fail the (n+1)-th Write call *)
  bytes_left : option N;         (* ... or after accepting this many bytes *)
  next_id : N;                   (* identities for lists/maps created while rendering *)
  unbound : nat;                 (* scope.lookup misses *)
  shared_writes : list N;        (* ids of caller-owned maps that a [set] wrote to *)
}.

Definition set_ctx (st : mstate) (c : scope) : mstate :=
  {| ctx := c; mode := mode st; cur := cur st; tmpl := tmpl st; depth_ := depth_ st; out := out st; bufs := bufs st;
     calls_left := calls_left st; bytes_left := bytes_left st; next_id := next_id st; unbound := unbound st;
     shared_writes := shared_writes st |}.
Definition set_mode (st : mstate) (m : N) : mstate :=
  {| ctx := ctx st; mode := m; cur := cur st; tmpl := tmpl st; depth_ := depth_ st; out := out st; bufs := bufs st;
     calls_left := calls_left st; bytes_left := bytes_left st; next_id := next_id st; unbound := unbound st;
     shared_writes := shared_writes st |}.
Definition set_cur (st : mstate) (p : N) : mstate :=
  {| ctx := ctx st; mode := mode st; cur := (if Nat.eqb (depth_ st) 0 then p else cur st); tmpl := tmpl st; depth_ := depth_ st;
     out := out st; bufs := bufs st;
     calls_left := calls_left st; bytes_left := bytes_left st; next_id := next_id st; unbound := unbound st;
     shared_writes := shared_writes st |}.
Definition set_depth (st : mstate) (d : nat) : mstate :=
  {| ctx := ctx st; mode := mode st; cur := cur st; tmpl := tmpl st; depth_ := d; out := out st; bufs := bufs st;
     calls_left := calls_left st; bytes_left := bytes_left st; next_id := next_id st; unbound := unbound st;
     shared_writes := shared_writes st |}.
Definition set_out (st : mstate) (o : list bstr) (cl : option nat) (bl : option N) : mstate :=
  {| ctx := ctx st; mode := mode st; cur := cur st; tmpl := tmpl st; depth_ := depth_ st; out := o; bufs := bufs st;
     calls_left := cl; bytes_left := bl; next_id := next_id st; unbound := unbound st;
     shared_writes := shared_writes st |}.
Definition set_bufs (st : mstate) (bs : list (list bstr)) : mstate :=
  {| ctx := ctx st; mode := mode st; cur := cur st; tmpl := tmpl st; depth_ := depth_ st; out := out st; bufs := bs;
     calls_left := calls_left st; bytes_left := bytes_left st; next_id := next_id st; unbound := unbound st;
     shared_writes := shared_writes st |}.
Definition bump_id (st : mstate) : mstate :=
  {| ctx := ctx st; mode := mode st; cur := cur st; tmpl := tmpl st; depth_ := depth_ st; out := out st; bufs := bufs st;
     calls_left := calls_left st; bytes_left := bytes_left st; next_id := next_id st + 1; unbound := unbound st;
     shared_writes := shared_writes st |}.
Definition bump_unbound (st : mstate) : mstate :=
  {| ctx := ctx st; mode := mode st; cur := cur st; tmpl := tmpl st; depth_ := depth_ st; out := out st; bufs := bufs st;
     calls_left := calls_left st; bytes_left := bytes_left st; next_id := next_id st; unbound := S (unbound st);
     shared_writes := shared_writes st |}.
Definition note_shared (st : mstate) (id : N) : mstate :=
  {| ctx := ctx st; mode := mode st; cur := cur st; tmpl := tmpl st; depth_ := depth_ st; out := out st; bufs := bufs st;
     calls_left := calls_left st; bytes_left := bytes_left st; next_id := next_id st; unbound := unbound st;
     shared_writes := id :: shared_writes st |}.

Definition M (A : Type) := mstate -> outcome A * mstate.
Definition ret {A} (x : A) : M A := fun st => (Ok x, st).
Definition fail {A} (m : bstr) : M A := fun st => (Err m, st).
Definition mbind {A B} (m : M A) (f : A -> M B) : M B :=
  fun st => match m st with
            | (Ok x, st') => f x st'
            | (Err e, st') => (Err e, st')
            | (Crash e, st') => (Crash e, st')
            | (Diverge, st') => (Diverge, st')
            | (OutOfFuel, st') => (OutOfFuel, st')
            | (OutOfModel, st') => (OutOfModel, st')
            end.
Notation "x <-- e ;;; f" := (mbind e (fun x => f)) (at level 61, e at next level, right associativity).
Definition lift {A} (o : outcome A) : M A := fun st => (o, st).
Definition get : M mstate := fun st => (Ok st, st).
Definition modify (f : mstate -> mstate) : M unit := fun st => (Ok tt, f st).

(* error classes (the harness compares only ok/error, never texts) *)
Definition e_write := Eval vm_compute in b "write error".
Definition e_undefined := Eval vm_compute in b "undefined".
Definition e_notnumber := Eval vm_compute in b "not a number".
Definition e_type := Eval vm_compute in b "type".
Definition e_notlist := Eval vm_compute in b "not a list".
Definition e_notmap := Eval vm_compute in b "not a map".
Definition e_notemplate := Eval vm_compute in b "template not found".
Definition e_noij := Eval vm_compute in b "no injected data".
Definition e_nullref := Eval vm_compute in b "null or undefined".
Definition e_index := Eval vm_compute in b "bad index".
Definition e_key := Eval vm_compute in b "bad key".
Definition e_noncollection := Eval vm_compute in b "non-collection".
Definition e_unknown := Eval vm_compute in b "unknown node".
Definition e_func := Eval vm_compute in b "function".
Definition e_arity := Eval vm_compute in b "arity".
Definition e_impossible := Eval vm_compute in b "impossible".
Definition e_divzero := Eval vm_compute in b "integer divide by zero".
Definition e_range := Eval vm_compute in b "range step".
Definition e_plural := Eval vm_compute in b "plural".
Definition e_placeholder := Eval vm_compute in b "placeholder".
Definition s_index := Eval vm_compute in b ".index".
Definition s_lastindex := Eval vm_compute in b ".lastIndex".
Definition s_ij := Eval vm_compute in b "ij".
Definition s_dash := Eval vm_compute in b "-".

(* ------------------------------------------------------------------ *)
(* the writer: one Write call *)

Definition write (w : bstr) : M unit := fun st =>
  match bufs st with
  | buf :: rest => (Ok tt, set_bufs st ((w :: buf) :: rest))     (* bytes.Buffer never fails *)
  | [] =>
      match calls_left st with
      | Some O => (Err e_write, st)
      | cl =>
          let cl' := match cl with Some (S n) => Some n | x => x end in
          match bytes_left st with
          | Some k =>
              if N.of_nat (length w) <=? k
              then (Ok tt, set_out st (w :: out st) cl' (Some (k - N.of_nat (length w))))
              else (Err e_write, set_out st (take (N.to_nat k) w :: out st) cl' (Some 0))
          | None => (Ok tt, set_out st (w :: out st) cl' None)
          end
      end
  end.

Fixpoint write_all (ws : list bstr) : M unit :=
  match ws with
  | [] => ret tt
  | w :: r => _ <-- write w ;;; write_all r
  end.

(* scope operations on the state *)
Definition m_set (k : bstr) (v : value) : M unit := fun st =>
  match ctx st with [] => (Err e_index, st) | _ =>
  let st1 := match sc_top_origin (ctx st) with OExternal id => note_shared st id | OFresh => st end in
  (Ok tt, set_ctx st1 (sc_set (ctx st) k v)) end.
Definition m_lookup (k : bstr) : M value := fun st =>
  match sc_lookup (ctx st) k with
  | Some v => (Ok v, st)
  | None => (Ok VUndef, bump_unbound st)
  end.
Definition m_push : M unit := modify (fun st => set_ctx st (sc_push (ctx st))).
Definition m_pop : M unit := modify (fun st => set_ctx st (sc_pop (ctx st))).

(* fresh identities: nil list 0, empty non-nil list 1 (all zero-size allocations share one address) *)
Definition fresh_list (l : list value) : M value := fun st =>
  match l with
  | [] => (Ok (VList 1 []), st)
  | _ => (Ok (VList (next_id st) l), bump_id st)
  end.
Definition fresh_list_or_nil (l : list value) : M value := fun st =>
  match l with
  | [] => (Ok (VList 0 []), st)
  | _ => (Ok (VList (next_id st) l), bump_id st)
  end.
Definition fresh_map (m : list (bstr * value)) : M value := fun st => (Ok (VMap (next_id st) m), bump_id st).

(* ------------------------------------------------------------------ *)
(* arithmetic (exec.go) on evaluated operands *)

Definition to_float (v : value) : outcome fl :=
  match v with
  | VInt z => match fl_of_int z with Some f => Ok f | None => OutOfModel end
  | VFloat f => Ok f
  | _ => Err e_notnumber
  end.
Definition of_fl (o : option fl) : outcome value :=
  match o with Some f => Ok (VFloat f) | None => OutOfModel end.
Definition is_int (v : value) := match v with VInt _ => true | _ => false end.
Definition is_str (v : value) := match v with VStr _ => true | _ => false end.

Definition float_op (f : fl -> fl -> option fl) (a c : value) : outcome value :=
  x <- to_float a ;; y <- to_float c ;; of_fl (f x y).

Definition arith (op : binop) (a c : value) : outcome value :=
  match op with
  | OAdd =>
      match a, c with
      | VInt x, VInt y => Ok (VInt (wrap64 (x + y)))
      | _, _ =>
          if is_str a || is_str c then
            s1 <- value_string a ;; s2 <- value_string c ;; Ok (VStr (s1 ++ s2))
          else float_op fl_add_r a c
      end
  | OSub =>
      match a, c with
      | VInt x, VInt y => Ok (VInt (wrap64 (x - y)))
      | _, _ => float_op fl_sub_r a c
      end
  | OMul =>
      match a, c with
      | VInt x, VInt y => Ok (VInt (wrap64 (x * y)))
      | _, _ => float_op fl_mul_r a c
      end
  | ODiv => float_op fl_div_r a c
  | OMod =>
      match a, c with
      | VInt x, VInt y => if (y =? 0)%Z then Err e_divzero else Ok (VInt (wrap64 (Z.rem x y)))
      | _, _ => Err e_type
      end
  | _ => Err e_type
  end.

Definition compare_op (op : binop) (a c : value) : outcome value :=
  x <- to_float a ;; y <- to_float c ;;
  Ok (VBool (match op with
             | OLt => fl_ltb x y
             | OLte => fl_leb x y
             | OGt => fl_ltb y x
             | OGte => fl_leb y x
             | _ => false
             end)).

Definition is_nullish (v : value) : bool := match v with VNull | VUndef => true | _ => false end.

(* ------------------------------------------------------------------ *)
(* funcs.go on evaluated arguments; [None] result of the lookup = unknown function *)

Definition func_arities (name : bstr) : option (list N) := assoc_s name html_funcs.

Fixpoint range_list (fuel : nat) (i limit step : Z) : list value :=
  match fuel with
  | O => []
  | S f => if (i <? limit)%Z then VInt i :: range_list f (i + step)%Z limit step else []
  end.

Fixpoint is_infix (fuel : nat) (needle hay : bstr) : bool :=
  match fuel with
  | O => is_prefix needle hay
  | S f => is_prefix needle hay || match hay with [] => false | _ :: r => is_infix f needle r end
  end.

Definition fl_min (x y : fl) : option fl :=
  match x, y with
  | FZero a, FZero c => Some (FZero (a || c))
  | FFin _ _, FFin _ _ | FFin _ _, FZero _ | FZero _, FFin _ _ => Some (if fl_ltb y x then y else x)
  | _, _ => None
  end.
Definition fl_max (x y : fl) : option fl :=
  match x, y with
  | FZero a, FZero c => Some (FZero (a && c))
  | FFin _ _, FFin _ _ | FFin _ _, FZero _ | FZero _, FFin _ _ => Some (if fl_ltb x y then y else x)
  | _, _ => None
  end.

Definition fn_is (name : bstr) (lit : bstr) : bool := bstr_eqb name lit.
Definition n_isNonnull := Eval vm_compute in b "isNonnull".
Definition n_length := Eval vm_compute in b "length".
Definition n_keys := Eval vm_compute in b "keys".
Definition n_augmentMap := Eval vm_compute in b "augmentMap".
Definition n_round := Eval vm_compute in b "round".
Definition n_floor := Eval vm_compute in b "floor".
Definition n_ceiling := Eval vm_compute in b "ceiling".
Definition n_min := Eval vm_compute in b "min".
Definition n_max := Eval vm_compute in b "max".
Definition n_randomInt := Eval vm_compute in b "randomInt".
Definition n_strContains := Eval vm_compute in b "strContains".
Definition n_range := Eval vm_compute in b "range".
Definition n_hasData := Eval vm_compute in b "hasData".
Definition n_index := Eval vm_compute in b "index".
Definition n_isFirst := Eval vm_compute in b "isFirst".
Definition n_isLast := Eval vm_compute in b "isLast".

Definition half : fl := FFin 1 (-1).

(* result as a "raw" value: lists/maps created here get their identity from the caller *)
Inductive fres := FVal (v : value) | FNewList (l : list value) | FNewMap (m : list (bstr * value)).

Definition apply_func (name : bstr) (args : list value) : outcome fres :=
  if fn_is name n_isNonnull then
    match args with [v] => Ok (FVal (VBool (negb (is_nullish v)))) | _ => Err e_func end
  else if fn_is name n_length then
    match args with [VList _ l] => Ok (FVal (VInt (Z.of_nat (length l)))) | _ => Err e_type end
  else if fn_is name n_keys then
    match args with [VMap _ m] => Ok (FNewList (map (fun kv => VStr (fst kv)) m)) | _ => Err e_type end
  else if fn_is name n_augmentMap then
    match args with
    | [VMap _ m1; VMap _ m2] => Ok (FNewMap (fold_left (fun acc kv => map_set acc (fst kv) (snd kv)) m2 m1))
    | _ => Err e_type
    end
  else if fn_is name n_round then
    match args with
    | [v] =>
        x <- to_float v ;;
        match fl_add x (if fl_isneg x && negb (fl_is_zero x) then fl_neg half else half) with
        | Some y => match fl_trunc_Z y with Some z => Ok (FVal (VInt (wrap64 z))) | None => OutOfModel end
        | None => OutOfModel
        end
    | [v; VInt d] =>
        x <- to_float v ;;
        if (d =? 0)%Z then
          match fl_add x (if fl_isneg x && negb (fl_is_zero x) then fl_neg half else half) with
          | Some y => match fl_trunc_Z y with Some z => Ok (FVal (VInt (wrap64 z))) | None => OutOfModel end
          | None => OutOfModel
          end
        else OutOfModel
    | [_; _] => Err e_type
    | _ => Err e_func
    end
  else if fn_is name n_floor then
    match args with
    | [VInt z] => Ok (FVal (VInt z))
    | [v] => x <- to_float v ;; match fl_floor_Z x with Some z => Ok (FVal (VInt (wrap64 z))) | None => OutOfModel end
    | _ => Err e_func
    end
  else if fn_is name n_ceiling then
    match args with
    | [VInt z] => Ok (FVal (VInt z))
    | [v] => x <- to_float v ;; match fl_ceil_Z x with Some z => Ok (FVal (VInt (wrap64 z))) | None => OutOfModel end
    | _ => Err e_func
    end
  else if fn_is name n_min then
    match args with
    | [VInt x; VInt y] => Ok (FVal (VInt (if (x <? y)%Z then x else y)))
    | [a; c] => x <- to_float a ;; y <- to_float c ;; r <- of_fl (fl_min x y) ;; Ok (FVal r)
    | _ => Err e_func
    end
  else if fn_is name n_max then
    match args with
    | [VInt x; VInt y] => Ok (FVal (VInt (if (x >? y)%Z then x else y)))
    | [a; c] => x <- to_float a ;; y <- to_float c ;; r <- of_fl (fl_max x y) ;; Ok (FVal r)
    | _ => Err e_func
    end
  else if fn_is name n_randomInt then
    match args with
    | [VInt n] => if (n <=? 0)%Z then Err e_func else OutOfModel
    | _ => Err e_type
    end
  else if fn_is name n_strContains then
    match args with
    | [VStr s; VStr t] => Ok (FVal (VBool (is_infix (length s) t s)))
    | _ => Err e_type
    end
  else if fn_is name n_range then
    match args with
    | [VInt lim] => Ok (FNewList (range_list (Z.to_nat lim) 0 lim 1))
    | [VInt i; VInt lim] => Ok (FNewList (range_list (Z.to_nat (lim - i)) i lim 1))
    | [VInt i; VInt lim; VInt step] =>
        if (step <=? 0)%Z then Err e_range
        else Ok (FNewList (range_list (Z.to_nat ((lim - i) / step + 1)) i lim step))   (* fuel >= the number of elements *)
    | _ => Err e_type
    end
  else if fn_is name n_hasData then Ok (FVal (VBool true))
  else Crash e_unknown.    (* a user-installed function: outside the model *)

(* ------------------------------------------------------------------ *)
(* configuration of one render *)

Record msg_bundle := {
  mb_msgs : list (N * list node);      (* id -> parts, as nodes: NRawText / NIdent(placeholder name) / NMsgPlural *)
  mb_plural : list (Z * N);            (* PluralCase on the integers that occur; others -> mb_plural_default *)
  mb_plural_default : N;
}.

Record cfg := {
  c_reg : registry;
  c_ij : option value;                 (* Some (VMap ..) when injected data is supplied *)
  c_oblig : list bstr;                 (* ObligatoryPrintDirectiveNames *)
  c_msgs : option msg_bundle;
}.

Definition darg_of (v : value) : darg :=
  match v with VInt z => DInt z | VBool x => DBool x | _ => DOther end.

(* ------------------------------------------------------------------ *)
(* the walker *)

Definition is_nullsafe (n : node) : bool :=
  match n with NAccIndex _ ns _ | NAccKey _ ns _ | NAccExpr _ ns _ => ns | _ => false end.

Section Walk.
Variable cf : cfg.

(* The walker is written in open-recursion style: [walk_body w n] is one
   unfolding of state.walk on node [n] in which every recursive call is [w];
   [walk (S fuel) = walk_body (walk fuel)].  Every Go loop of the walker is a
   top-level fixpoint over its list, parametrised by [w], so that each can be
   given its own lemma. *)
Section Body.
Variable w : node -> M value.

Definition eval (e : node) : M value :=                (* state.eval: s.node is restored on normal return *)
  st0 <-- get ;;;
  v <-- w e ;;;
  _ <-- modify (fun st => set_cur st (cur st0)) ;;;
  ret v.
Definition evaldef (e : node) : M value :=
  v <-- eval e ;;;
  match v with VUndef => fail e_undefined | _ => ret v end.
Fixpoint eval_list (es : list node) : M (list value) :=
  match es with
  | [] => ret []
  | e :: r => v <-- eval e ;;; vs <-- eval_list r ;;; ret (v :: vs)
  end.
Fixpoint walk_list (ns : list node) : M unit :=
  match ns with
  | [] => ret tt
  | x :: r => _ <-- w x ;;; walk_list r
  end.
Definition render_block (body : node) : M bstr :=      (* renderBlock: capture into a fresh buffer *)
  _ <-- modify (fun st => set_bufs st ([] :: bufs st)) ;;;
  _ <-- w body ;;;
  st <-- get ;;;
  match bufs st with
  | buf :: rest => _ <-- modify (fun st => set_bufs st rest) ;;; ret (concat_b (rev buf))
  | [] => fail e_impossible
  end.

Fixpoint maplit_items (l : list (bstr * node)) : M (list (bstr * value)) :=
  match l with
  | [] => ret []
  | (k, e) :: r => v <-- eval e ;;; m <-- maplit_items r ;;; ret (map_set m k v)
  end.

Definition loop_func (name : bstr) (args : list node) : M value :=
  match args with
  | NDataRef _ key _ :: _ =>
      ix <-- m_lookup (key ++ s_index) ;;;
      if fn_is name n_index then ret ix
      else match ix with
           | VInt i =>
               if fn_is name n_isFirst then ret (VBool (i =? 0)%Z)
               else
                 li <-- m_lookup (key ++ s_lastindex) ;;;
                 match li with VInt l => ret (VBool (i =? l)%Z) | _ => fail e_type end
           | _ => fail e_type
           end
  | _ => fail e_type
  end.

Definition call_func (name : bstr) (args : list node) : M value :=
  match func_arities name with
  | None => fail e_func
  | Some ar =>
      if negb (mem (N.of_nat (length args)) ar) then fail e_arity
      else
        vs <-- eval_list args ;;;
        r <-- lift (apply_func name vs) ;;;
        match r with
        | FVal v => ret v
        | FNewList l => fresh_list_or_nil l
        | FNewMap m => fresh_map m
        end
  end.

Fixpoint dataref_access (acc : list node) (ref : value) : M value :=
  match acc with
  | [] => ret ref
  | a :: rest =>
      ik <-- match a with
             | NAccIndex _ _ i => ret (Some i, @nil N)
             | NAccKey _ _ k => ret (None, k)
             | NAccExpr _ _ e =>
                 kv <-- eval e ;;;
                 match kv with
                 | VInt i => ret (Some i, @nil N)
                 | _ => s <-- lift (value_string kv) ;;; ret (None, s)
                 end
             | _ => fail e_unknown
             end ;;;
      let '(oi, k) := ik in
      match ref with
      | VUndef | VNull => if is_nullsafe a then ret VNull else fail e_nullref
      | VList _ l =>
          match oi with
          | Some i => dataref_access rest (list_index l i)
          | None => fail e_index
          end
      | VMap _ m =>
          (* after repair C01-dataref-sentinels: "no key" is the presence of an index, not the key "" *)
          match oi with
          | None => dataref_access rest (map_key m k)
          | Some _ => fail e_key
          end
      | _ => fail e_noncollection
      end
  end.

(* evalPrint's loop over the directives of a print, one directive at a time: its name and arity are checked, its
   arguments evaluated, and it is APPLIED to the result so far -- before the next directive is looked at (a failing
   application is reported with s.node where the evaluation of ITS arguments left it, and the arguments of later
   directives are never evaluated).  [v] is the result so far (the library directives take its String() image and
   return a string).  The application is checked here through [print_writes] with autoescape off (mode 2: the Write
   calls are then exactly [directive's result]); the list returned is handed to [print_writes] again by the caller,
   which recomputes the same applications (they are pure) and adds the obligatory directives and the escaping. *)
Fixpoint print_dirs (l : list node) (v : value) : M (list (bstr * list darg)) :=
  match l with
  | [] => ret (map (fun nm => (nm, @nil darg)) (c_oblig cf))
  | NDirective _ name args :: r =>
      match lookup_directive name with
      | None => fail e_nodirective
      | Some (arglens, _) =>
          if negb (check_num_args arglens (length args)) then fail e_arity
          else vs <-- eval_list args ;;;
               s <-- lift (value_string v) ;;;
               ws <-- lift (print_writes 2 [(name, map darg_of vs)] s) ;;;
               rest <-- print_dirs r (VStr (concat_b ws)) ;;;
               ret ((name, map darg_of vs) :: rest)
      end
  | _ :: _ => fail e_unknown
  end.

Fixpoint if_conds (cs : list node) : M value :=
  match cs with
  | [] => ret VUndef
  | NIfCond _ None body :: _ => _ <-- w body ;;; ret VUndef
  | NIfCond _ (Some c) body :: r =>
      v <-- eval c ;;;
      if truthy v then (_ <-- w body ;;; ret VUndef) else if_conds r
  | _ :: _ => fail e_unknown
  end.

Fixpoint for_items (var : bstr) (body : node) (i : Z) (items : list value) : M unit :=
  match items with
  | [] => ret tt
  | x :: r =>
      _ <-- m_set var x ;;;
      _ <-- m_set (var ++ s_index) (VInt i) ;;;
      _ <-- w body ;;;
      for_items var body (i + 1)%Z r
  end.

Fixpoint case_hit (sv : value) (vs : list node) : M bool :=
  match vs with
  | [] => ret false
  | x :: xs => cv <-- eval x ;;; if equals sv cv then ret true else case_hit sv xs
  end.
Fixpoint switch_cases (sv : value) (cs : list node) : M value :=
  match cs with
  | [] => ret VUndef
  | NSwitchCase _ values body :: r =>
      hit <-- case_hit sv values ;;;
      if hit || match values with [] => true | _ => false end
      then (_ <-- w body ;;; ret VUndef) else switch_cases sv r
  | _ :: _ => fail e_unknown
  end.

(* params are evaluated in the caller's scope and set on the callee's *)
Fixpoint call_params (ps : list node) (cd : scope) : M scope :=
  match ps with
  | [] => ret cd
  | NParamValue _ k v :: r => x <-- eval v ;;; call_params r (sc_set cd k x)
  | NParamContent _ k c :: r => s <-- render_block c ;;; call_params r (sc_set cd k (VStr s))
  | _ :: _ => fail e_unknown
  end.

Definition call_data (alldata : bool) (dat : option node) : M scope :=
  caller <-- get ;;;
  if alldata then
    match sc_alldata (ctx caller) with
    | Some s => ret (sc_push s)
    | None => fail e_impossible
    end
  else match dat with
       | Some e =>
           dv <-- eval e ;;;
           match dv with
           | VMap id m => ret (sc_push (new_scope id m))
           | _ => fail e_notmap
           end
       | None => ret [fresh_frame]
       end.

(* the callee runs in a fresh state (scope, autoescape); the caller's are back afterwards, on every outcome *)
Definition call_enter (callee : template) (cd : scope) : M value :=
  st1 <-- get ;;;
  let saved_ctx := ctx st1 in
  let saved_mode := mode st1 in
  let saved_depth := depth_ st1 in
  _ <-- modify (fun st => set_depth (set_mode (set_ctx st (sc_enter cd)) (call_mode (t_ns_autoescape callee))) (S saved_depth)) ;;;
  fun st =>
    match w (t_node callee) st with
    | (Ok _, st') => (Ok VUndef, set_depth (set_mode (set_ctx st' saved_ctx) saved_mode) saved_depth)
    | (r, st') => (r, set_depth (set_mode (set_ctx st' saved_ctx) saved_mode) saved_depth)
    end.

(* messages without a bundle (walkMsgBody / walkPlural) *)
Fixpoint plural_pick (mp : N) (i : Z) (dflt : list node) (cs : list node) : M unit :=
  match cs with
  | [] => _ <-- w (NMsg mp 0 [] [] dflt) ;;; ret tt
  | NMsgPluralCase _ cv cbody :: r2 =>
      if (i =? cv)%Z then (_ <-- w (NMsg mp 0 [] [] cbody) ;;; ret tt) else plural_pick mp i dflt r2
  | _ :: _ => fail e_unknown
  end.
Fixpoint msg_body (mp : N) (ns : list node) : M unit :=
  match ns with
  | [] => ret tt
  | NRawText p t :: r => _ <-- w (NRawText p t) ;;; msg_body mp r
  | NMsgPlaceholder _ _ ph :: r => _ <-- w ph ;;; msg_body mp r
  | NMsgPlural _ _ pv cases dflt :: r =>
      v <-- eval pv ;;;
      match v with
      | VInt i => _ <-- plural_pick mp i dflt cases ;;; msg_body mp r
      | _ => fail e_plural
      end
  | _ :: r => msg_body mp r
  end.

Definition walk_node (n : node) : M value :=
  match n with
  (* ---- values ---- *)
  | NNull _ => ret VNull
  | NString _ _ v => ret (VStr v)
  | NInt _ z => ret (VInt z)
  | NFloat _ f => ret (VFloat f)
  | NBool _ x => ret (VBool x)
  | NGlobal _ _ v => ret v
  | NListLit _ items => vs <-- eval_list items ;;; fresh_list vs
  | NMapLit _ items => kvs <-- maplit_items items ;;; fresh_map kvs
  | NFunc _ name args =>
      if fn_is name n_index || fn_is name n_isFirst || fn_is name n_isLast
      then loop_func name args else call_func name args
  | NDataRef _ key access =>
      ref0 <-- (if bstr_eqb key s_ij
                then match c_ij cf with Some v => ret v | None => fail e_noij end
                else m_lookup key) ;;;
      dataref_access access ref0
  (* ---- operators ---- *)
  | NNeg _ a =>
      v <-- evaldef a ;;;
      match v with
      | VInt z => ret (VInt (wrap64 (- z)))
      | VFloat f => ret (VFloat (fl_neg f))
      | _ => fail e_notnumber
      end
  | NNot _ a => v <-- eval a ;;; ret (VBool (negb (truthy v)))
  | NBin op _ a1 a2 =>
      match op with
      | OAdd | OSub | OMul | ODiv | OMod =>
          x <-- evaldef a1 ;;; y <-- evaldef a2 ;;; lift (arith op x y)
      | OEq => x <-- eval a1 ;;; y <-- eval a2 ;;; ret (VBool (equals x y))
      | ONotEq => x <-- eval a1 ;;; y <-- eval a2 ;;; ret (VBool (negb (equals x y)))
      | OLt | OLte | OGt | OGte =>
          x <-- evaldef a1 ;;; y <-- evaldef a2 ;;; lift (compare_op op x y)
      | OAnd => x <-- eval a1 ;;; if truthy x then (y <-- eval a2 ;;; ret (VBool (truthy y))) else ret (VBool false)
      | OOr => x <-- eval a1 ;;; if truthy x then ret (VBool true) else (y <-- eval a2 ;;; ret (VBool (truthy y)))
      | OElvis => x <-- eval a1 ;;; if is_nullish x then eval a2 else ret x
      end
  | NTern _ a1 a2 a3 => c <-- eval a1 ;;; if truthy c then eval a2 else eval a3
  (* ---- output ---- *)
  | NList _ nodes =>
      _ <-- m_push ;;; _ <-- walk_list nodes ;;; _ <-- m_pop ;;; ret VUndef
  | NRawText _ text => _ <-- write text ;;; ret VUndef
  | NMsgHtmlTag _ text => _ <-- write text ;;; ret VUndef
  | NPrint _ arg dirs =>
      v <-- w arg ;;;
      match v with
      | VUndef => fail e_undefined
      | _ =>
          ds <-- print_dirs dirs v ;;;
          s <-- lift (value_string v) ;;;
          st <-- get ;;;
          ws <-- lift (print_writes (mode st) ds s) ;;;
          _ <-- write_all ws ;;; ret VUndef
      end
  | NCss _ e suffix =>
      pre <-- match e with
              | None => ret []
              | Some x => v <-- eval x ;;; s <-- lift (value_string v) ;;; ret (s ++ s_dash)
              end ;;;
      _ <-- write (pre ++ suffix) ;;; ret VUndef
  | NDebugger _ => ret VUndef
  | NHeaderParam _ _ _ _ _ => ret VUndef
  | NLog _ body => _ <-- render_block body ;;; ret VUndef
  (* ---- control flow ---- *)
  | NIf _ conds => if_conds conds
  | NFor _ var lst body ifempty =>
      lv <-- eval lst ;;;
      match lv with
      | VList _ [] =>
          match ifempty with
          | Some ie => _ <-- w ie ;;; ret VUndef
          | None => ret VUndef
          end
      | VList _ l =>
          _ <-- m_push ;;;
          _ <-- m_set (var ++ s_lastindex) (VInt (Z.of_nat (length l) - 1)) ;;;
          _ <-- for_items var body 0%Z l ;;;
          _ <-- m_pop ;;; ret VUndef
      | _ => fail e_notlist
      end
  | NSwitch _ v cases => sv <-- eval v ;;; switch_cases sv cases
  | NLetValue _ name e => v <-- eval e ;;; _ <-- m_set name v ;;; ret VUndef
  | NLetContent _ name body => s <-- render_block body ;;; _ <-- m_set name (VStr s) ;;; ret VUndef
  | NCall p name alldata dat params =>
      match find_template (r_templates (c_reg cf)) name with
      | None => fail e_notemplate
      | Some callee =>
          cd <-- call_data alldata dat ;;;
          cd' <-- call_params params cd ;;;
          (* evalCall: s.at(node) once the params are resolved -- a param's content block has moved
             s.node into that block; a failure inside the callee is reported at this call *)
          _ <-- modify (fun st => set_cur st p) ;;;
          call_enter callee cd'
      end
  | NTemplate _ _ body ae _ =>
      _ <-- modify (fun st => set_mode st (template_mode (mode st) ae)) ;;;
      _ <-- w body ;;; ret VUndef
  | NMsg mp id _ _ body => _ <-- msg_body mp body ;;; ret VUndef
  | _ => fail e_unknown
  end.

(* state.walk: s.node = n, then the case for n *)
Definition walk_body (n : node) : M value :=
  _ <-- modify (fun st => set_cur st (pos_of n)) ;;; walk_node n.
End Body.

Fixpoint walk (fuel : nat) (n : node) {struct fuel} : M value :=
  match fuel with
  | O => lift OutOfFuel
  | S fuel' => walk_body (walk fuel') n
  end.
End Walk.

(* ------------------------------------------------------------------ *)
(* renderer.go Execute, exec.go errRecover, eval.go EvalExpr *)

Fixpoint count_nl (s : bstr) : N :=
  match s with [] => 0 | c :: r => (if c =? 10 then 1 else 0) + count_nl r end.

(* Registry.LineNumber: 1 + strings.Count(src[:pos], "\n"); the slice panics when pos > len(src) *)
Definition line_number (src : bstr) (pos : N) : option N :=
  if pos <=? N.of_nat (length src) then Some (1 + count_nl (take (N.to_nat pos) src)) else None.

Record render_result := {
  rr_outcome : outcome unit;
  rr_writes : list bstr;        (* Write calls accepted by the caller's writer, in order *)
  rr_file : bstr;               (* file and line carried by the error (0 = none) *)
  rr_line : N;
  rr_unbound : nat;
  rr_shared_writes : list N;
}.

Definition init_state (c : scope) (m : N) (name : bstr) (cl : option nat) (bl : option N) (first_id : N) : mstate :=
  {| ctx := c; mode := m; cur := 0; tmpl := name; depth_ := 0; out := []; bufs := []; calls_left := cl; bytes_left := bl;
     next_id := first_id; unbound := 0; shared_writes := [] |}.

Definition render (cf : cfg) (fuel : nat) (name : bstr) (data_id : N) (data : list (bstr * value))
           (cl : option nat) (bl : option N) (first_id : N) : render_result :=
  match find_template (r_templates (c_reg cf)) name with
  | None => {| rr_outcome := Err e_notemplate; rr_writes := []; rr_file := []; rr_line := 0; rr_unbound := 0; rr_shared_writes := [] |}
  | Some t =>
      let st0 := init_state (sc_enter (new_scope data_id data)) (entry_mode (t_ns_autoescape t)) name cl bl first_id in
      let '(r, st) := walk cf fuel (t_node t) st0 in
      let mk o file line := {| rr_outcome := o; rr_writes := rev (out st); rr_file := file; rr_line := line;
                               rr_unbound := unbound st; rr_shared_writes := shared_writes st |} in
      match r with
      | Ok _ => mk (Ok tt) [] 0
      | Err m =>
          (* errRecover -> errFromNode: file and line of s.node in the entry template's source *)
          match assoc_s name (r_sources (c_reg cf)), assoc_s name (r_files (c_reg cf)) with
          | Some src, Some file =>
              match line_number src (cur st) with
              | Some l => mk (Err m) file l
              | None => mk (Crash e_index) [] 0       (* the slice in LineNumber panics inside the recover handler *)
              end
          | _, _ => mk (Err m) [] 0
          end
      | Crash m => mk (Crash m) [] 0
      | Diverge => mk Diverge [] 0
      | OutOfFuel => mk OutOfFuel [] 0
      | OutOfModel => mk OutOfModel [] 0
      end
  end.

(* soyhtml.EvalExpr: a bare state (nil scope, no registry, no ij, no messages) *)
Definition empty_registry : registry := {| r_templates := []; r_sources := []; r_files := [] |}.
Definition eval_expr (fuel : nat) (n : node) : outcome value :=
  let cf := {| c_reg := empty_registry; c_ij := None; c_oblig := []; c_msgs := None |} in
  fst (walk cf fuel n (init_state [] 0 [] None None 2)).
