(* parse/lexer.go: the whole lexer as an executable small-step machine.  Definitions only.

   One constructor of [lstate] per Go state function (the functions that lexText calls
   directly -- lexSoyDoc, lexLineComment, lexBlockComment -- are states too: `return f(l)`
   and `return f` differ only in who makes the call; lexNegative, lexSoyDocParam,
   scanNumber, maybeEmitText, skipSpace, accept, acceptRun are plain calls, as in Go).
   [step] runs one state function; [run] is lexer.run.

   The lexer state mirrors the Go struct: pos, start, width (all Go ints, here Z: nothing
   is truncated at 0), doubleDelim, lastEmit; the unbuffered channel is the list [l_out]
   (most recent first).  [l_ticks] counts the work done: one unit per call of l.next()
   plus the bytes strings.Index scans in lexLiteral.

   Outcomes.  A slice expression input[a:b] with a < 0, b < a or b > len is [Crash] (in Go
   a runtime panic in the scanner goroutine, which kills the process).  Every Go loop
   recurses on its own fuel (remaining input + 1; 2*remaining + 2 for lexSoyDoc, whose
   `l.pos--` re-reads one byte once per line) and returns [Diverge] when it runs out: that
   is the Go loop that keeps calling next() at end of input.  [OutOfFuel] is the budget of
   [run]; [OutOfModel] is an error item at a negative position (the token record has N).
   Item positions are base + pos, as in Go: base is 0 for lex and lexExpr, and the offset
   of the quoted expression in its file for lexExprAt (used by parseQuotedExpr).

   The model describes the code with the three scanner repairs this check proposed
   (notes/applied/C05-lexcss-eof, C05-headerparam-eof, C05-soydocparam-eof; in /repo as
   08a5312, 60ff4a5, 718d4aa): the scans of lexCss and of lexHeaderParam's type stop with
   an error item at end of input, and lexSoyDocParam emits the identifier instead of
   stepping back when the input ends.

   unicode.IsLetter / unicode.IsDigit are Section variables; for execution they are
   instantiated with the tables tablegen evaluates over all of 0..0x10FFFF
   ([is_letter_tbl], [is_digit_tbl] below).  Error items carry a short class tag, not
   the Go message. *)
From Soy Require Import Model.Bytes Model.Utf8 Model.Outcome Model.Token Generated.Tables.
Open Scope Z_scope.

Inductive lstate :=
| LText | LLeftDelim | LRightDelim | LRightDelimEnd | LBeginTag | LInsideTag
| LSoyDoc | LLineComment | LBlockComment | LString (quote : Z) | LIdent
| LHeaderParam | LCss | LLiteral | LNumber
| LDone.                                       (* the nil stateFn *)

Record lx := {
  l_pos : Z; l_start : Z; l_width : Z; l_dd : bool; l_last : tok;
  l_out : list tok;      (* items sent so far, most recent first *)
  l_ticks : Z }.

Definition set_pos (l : lx) (p : Z) : lx :=
  {| l_pos := p; l_start := l_start l; l_width := l_width l; l_dd := l_dd l; l_last := l_last l; l_out := l_out l; l_ticks := l_ticks l |}.
Definition set_start (l : lx) (s : Z) : lx :=
  {| l_pos := l_pos l; l_start := s; l_width := l_width l; l_dd := l_dd l; l_last := l_last l; l_out := l_out l; l_ticks := l_ticks l |}.
Definition set_dd (l : lx) (d : bool) : lx :=
  {| l_pos := l_pos l; l_start := l_start l; l_width := l_width l; l_dd := d; l_last := l_last l; l_out := l_out l; l_ticks := l_ticks l |}.
Definition tick (l : lx) (n : Z) : lx :=
  {| l_pos := l_pos l; l_start := l_start l; l_width := l_width l; l_dd := l_dd l; l_last := l_last l; l_out := l_out l; l_ticks := l_ticks l + n |}.

Definition lex_init : lx :=
  {| l_pos := 0; l_start := 0; l_width := 0; l_dd := false; l_last := zero_tok; l_out := []; l_ticks := 0 |}.

Definition eof : Z := -1.
Definition crash_slice : bstr := Eval vm_compute in b "slice bounds out of range".
Definition crash_index : bstr := Eval vm_compute in b "index out of range".

(* error classes (the Go messages are not modelled) *)
Definition e_close_brace : bstr := Eval vm_compute in b "unexpected-closing-delimiter".
Definition e_double_close : bstr := Eval vm_compute in b "expected-double-closing-braces".
Definition e_symbol : bstr := Eval vm_compute in b "unexpected-symbol".
Definition e_unclosed_tag : bstr := Eval vm_compute in b "unclosed-tag".
Definition e_bad_char : bstr := Eval vm_compute in b "unrecognized-character".
Definition e_soydoc_eof : bstr := Eval vm_compute in b "eof-in-soydoc".
Definition e_comment_eof : bstr := Eval vm_compute in b "unclosed-block-comment".
Definition e_string_eof : bstr := Eval vm_compute in b "eof-in-string".
Definition e_ident_start : bstr := Eval vm_compute in b "unexpected-beginning-to-ident".
Definition e_ident : bstr := Eval vm_compute in b "unrecognized-identifier".
Definition e_header_kw : bstr := Eval vm_compute in b "expected-param".
Definition e_header_colon : bstr := Eval vm_compute in b "expected-param-colon".
Definition e_literal_close : bstr := Eval vm_compute in b "expected-closing-tag-after-literal".
Definition e_literal_unclosed : bstr := Eval vm_compute in b "unclosed-literal".
Definition e_number : bstr := Eval vm_compute in b "bad-number-syntax".

(* strings.IndexRune(valid, r) >= 0 for the ASCII sets the lexer passes: eof (-1), RuneError and
   every rune >= 0x80 are not found *)
Definition in_set (valid : bstr) (r : Z) : bool :=
  (0 <=? r) && (r <? 128) && mem (Z.to_N r) valid.

(* strings.Index(s, sep) for a non-empty sep: Some i, or None for -1 *)
Fixpoint index_of (sep s : bstr) (i : Z) : option Z :=
  if is_prefix sep s then Some i
  else match s with [] => None | _ :: s' => index_of sep s' (i + 1) end.

(* allSpaceWithNewline: `for _, ch := range str` *)
Fixpoint all_space_nl_aux (rs : list N) (seen : bool) : bool :=
  match rs with
  | [] => seen
  | r :: t => if negb (gen_isSpaceEOL (Z.of_N r)) then false
              else all_space_nl_aux t (seen || gen_isEndOfLine (Z.of_N r))
  end.
Definition all_space_with_newline (s : bstr) : bool := all_space_nl_aux (runes s) false.

Fixpoint last_byte (s : bstr) : Z :=
  match s with [] => 0 | [c] => Z.of_N c | _ :: t => last_byte t end.

(* membership in an ascending list of disjoint ranges (stops at the first range above r) *)
Fixpoint in_ranges (tbl : list (Z * Z)) (r : Z) : bool :=
  match tbl with
  | [] => false
  | (lo, hi) :: t => if r <? lo then false else if r <=? hi then true else in_ranges t r
  end.
Definition is_letter_tbl (r : Z) : bool := in_ranges is_letter_ranges r.
Definition is_digit_tbl (r : Z) : bool := in_ranges is_digit_ranges r.

Section Lexer.
Variable uni_letter uni_digit : Z -> bool.   (* unicode.IsLetter, unicode.IsDigit *)
Variable inp : bstr.                          (* l.input *)
Variable ilen : Z.                            (* len(l.input) *)
Variable base : Z.                            (* l.base: the offset of input in the enclosing file (lexExprAt), else 0 *)

Definition is_alnum (r : Z) : bool := gen_isAlphaNumeric uni_letter uni_digit r.

(* l.input[a:e] *)
Definition slice (a e : Z) : outcome bstr :=
  if (a <? 0) || (e <? a) || (ilen <? e) then Crash crash_slice
  else Ok (take (Z.to_nat (e - a)) (drop (Z.to_nat a) inp)).
(* l.input[i] *)
Definition byte_at (i : Z) : outcome Z :=
  if (i <? 0) || (ilen <=? i) then Crash crash_index
  else match drop (Z.to_nat i) inp with c :: _ => Ok (Z.of_N c) | [] => Crash crash_index end.

(* func (l *lexer) next() rune *)
Definition next (l : lx) : outcome (Z * lx) :=
  if ilen <=? l_pos l then
    Ok (eof, {| l_pos := l_pos l; l_start := l_start l; l_width := 0; l_dd := l_dd l; l_last := l_last l; l_out := l_out l; l_ticks := l_ticks l + 1 |})
  else if l_pos l <? 0 then Crash crash_slice
  else
    let '(r, w) := decode_rune (drop (Z.to_nat (l_pos l)) inp) in
    Ok (Z.of_N r, {| l_pos := l_pos l + Z.of_nat w; l_start := l_start l; l_width := Z.of_nat w; l_dd := l_dd l;
                     l_last := l_last l; l_out := l_out l; l_ticks := l_ticks l + 1 |}).

Definition backup (l : lx) : lx := set_pos l (l_pos l - l_width l).
Definition peek (l : lx) : outcome (Z * lx) := '(r, l1) <- next l ;; Ok (r, backup l1).
Definition ignore (l : lx) : lx := set_start l (l_pos l).

(* func (l *lexer) emit(t itemType) *)
Definition emit (t : N) (l : lx) : outcome lx :=
  let l1 := if ilen <? l_pos l then set_pos l ilen else l in
  v <- slice (l_start l1) (l_pos l1) ;;
  let it := {| t_typ := t; t_pos := Z.to_N (base + l_pos l1); t_val := v |} in
  Ok {| l_pos := l_pos l1; l_start := l_pos l1; l_width := l_width l1; l_dd := l_dd l1; l_last := it;
        l_out := it :: l_out l1; l_ticks := l_ticks l1 |}.

(* func (l *lexer) errorf: sends the error item (lastEmit and start untouched), next state nil *)
Definition errorf (class : bstr) (l : lx) : outcome (lstate * lx) :=
  if base + l_pos l <? 0 then OutOfModel
  else Ok (LDone, {| l_pos := l_pos l; l_start := l_start l; l_width := l_width l; l_dd := l_dd l; l_last := l_last l;
                     l_out := {| t_typ := itemError; t_pos := Z.to_N (base + l_pos l); t_val := class |} :: l_out l; l_ticks := l_ticks l |}).

(* func (l *lexer) accept(valid string) bool *)
Definition accept (valid : bstr) (l : lx) : outcome (bool * lx) :=
  '(r, l1) <- next l ;;
  if in_set valid r then Ok (true, l1) else Ok (false, backup l1).

(* the loop of acceptRun *)
Fixpoint accept_run_loop (fuel : nat) (valid : bstr) (l : lx) : outcome lx :=
  match fuel with
  | O => Diverge
  | S f => '(r, l1) <- next l ;;
           if in_set valid r then accept_run_loop f valid l1 else Ok l1
  end.
Definition loop_fuel (l : lx) : nat := S (Z.to_nat (ilen - l_pos l)).
(* func (l *lexer) acceptRun(valid string) bool *)
Definition accept_run (valid : bstr) (l : lx) : outcome (bool * lx) :=
  let p0 := l_pos l in
  l1 <- accept_run_loop (loop_fuel l) valid l ;;
  let l2 := backup l1 in
  Ok (p0 <? l_pos l2, l2).

(* func maybeEmitText(l *lexer, backup int) *)
Definition maybe_emit_text (l : lx) (bk : Z) : outcome lx :=
  if l_start l <? l_pos l - bk then
    let l1 := set_pos l (l_pos l - bk) in
    v <- slice (l_start l1) (l_pos l1) ;;
    l2 <- (if all_space_with_newline v then Ok (ignore l1) else emit itemText l1) ;;
    Ok (set_pos l2 (l_pos l2 + bk))
  else Ok l.

(* func skipSpace(l *lexer) *)
Fixpoint skip_space_loop (fuel : nat) (l : lx) : outcome lx :=
  match fuel with
  | O => Diverge
  | S f => '(ch, l1) <- next l ;;
           if gen_isSpaceEOL ch then skip_space_loop f l1 else Ok l1
  end.
Definition skip_space (l : lx) : outcome lx :=
  l1 <- skip_space_loop (loop_fuel l) l ;;
  Ok (ignore (backup l1)).

(* `for isAlphaNumeric(l.next()) {}` *)
Fixpoint alnum_loop (fuel : nat) (l : lx) : outcome lx :=
  match fuel with
  | O => Diverge
  | S f => '(r, l1) <- next l ;;
           if is_alnum r then alnum_loop f l1 else Ok l1
  end.

(* ---------------- lexText ---------------- *)

(* the loop of lexText; [r] is the rune read by the previous iteration (0 before the first) *)
Fixpoint lex_text_loop (fuel : nat) (r0 : Z) (l : lx) : outcome (lstate * lx) :=
  match fuel with
  | O => Diverge
  | S f =>
      let lastChar := r0 in
      '(r, l1) <- next l ;;
      (* comment / soydoc handling: inl = return that state; inr = fall through *)
      res <- (if r =? 47 (* / *) then
                '(r2, l2) <- next l1 ;;
                if r2 =? 47 then
                  let lce := if (lastChar =? 0) && negb (match t_val (l_last l2) with [] => true | _ => false end)
                             then last_byte (t_val (l_last l2)) else lastChar in
                  if (lce =? 0) || gen_isSpaceEOL lce then
                    l3 <- maybe_emit_text l2 3 ;;
                    let l4 := if negb (lastChar =? 0) then set_start l3 (l_start l3 + 1) else l3 in
                    Ok (inl (LLineComment, l4))
                  else Ok (inr (backup l2))
                else if r2 =? 42 (* * *) then
                  l3 <- maybe_emit_text l2 2 ;;
                  '(r3, l4) <- next l3 ;;
                  (* if l.next() == '*' && l.peek() != '/' *)
                  '(doc, l5) <- (if r3 =? 42 then '(r4, l') <- peek l4 ;; Ok (negb (r4 =? 47), l') else Ok (false, l4)) ;;
                  if doc then Ok (inl (LSoyDoc, l5)) else Ok (inl (LBlockComment, backup l5))
                else Ok (inr (backup l2))
              else Ok (inr l1)) ;;
      match res with
      | inl sl => Ok sl
      | inr l2 =>
          if r =? 123 (* { *) then
            l3 <- maybe_emit_text (backup l2) 0 ;; Ok (LLeftDelim, l3)
          else if r =? 125 (* } *) then errorf e_close_brace l2
          else if r =? eof then
            l3 <- maybe_emit_text (backup l2) 0 ;;
            l4 <- emit itemEOF l3 ;;
            Ok (LDone, l4)
          else lex_text_loop f r l2
      end
  end.
Definition lex_text (l : lx) : outcome (lstate * lx) := lex_text_loop (loop_fuel l) 0 l.

(* ---------------- delimiters ---------------- *)

Definition lex_left_delim (l : lx) : outcome (lstate * lx) :=
  '(_, l1) <- next l ;;
  '(r, l2) <- next l1 ;;
  let l3 := if r =? 123 then set_dd l2 true else set_dd (backup l2) false in
  l4 <- emit itemLeftDelim l3 ;;
  Ok (LBeginTag, l4).

(* `if l.doubleDelim && l.next() != '}' { return l.errorf(...) }`; inl = the error return *)
Definition double_close (l : lx) : outcome (lstate * lx + lx) :=
  if l_dd l then
    '(r, l1) <- next l ;;
    if negb (r =? 125) then e <- errorf e_double_close l1 ;; Ok (inl e) else Ok (inr l1)
  else Ok (inr l).

Definition lex_right_delim (l : lx) : outcome (lstate * lx) :=
  c <- double_close l ;;
  match c with
  | inl e => Ok e
  | inr l1 => l2 <- emit itemRightDelim l1 ;; Ok (LText, l2)
  end.

Definition lex_right_delim_end (l : lx) : outcome (lstate * lx) :=
  '(_, l0) <- next l ;;
  c <- double_close l0 ;;
  match c with
  | inl e => Ok e
  | inr l1 => l2 <- emit itemRightDelimEnd l1 ;; Ok (LText, l2)
  end.

Definition lex_begin_tag (l : lx) : outcome (lstate * lx) :=
  '(r, l1) <- peek l ;;
  if (r =? 47) || (r =? 92) then Ok (LIdent, l1) else Ok (LInsideTag, l1).

(* ---------------- lexInsideTag ---------------- *)

Definition lex_negative (l : lx) : outcome (lstate * lx) :=
  let lastType := t_typ (l_last l) in
  if negb (ends_term lastType) then
    (* if l.peek() >= '0' && l.peek() <= '9' *)
    '(p1, l1) <- peek l ;;
    '(num, l2) <- (if 48 <=? p1 then '(p2, l') <- peek l1 ;; Ok (p2 <=? 57, l') else Ok (false, l1)) ;;
    if num then Ok (LNumber, backup l2)
    else l3 <- emit itemNegate l2 ;; Ok (LInsideTag, l3)
  else l1 <- emit itemSub l ;; Ok (LInsideTag, l1).

(* a Go map lookup of a missing key yields the zero value *)
Definition arith_item (sym : bstr) : N := match assoc_s sym arith_items with Some t => t | None => 0%N end.

Definition emit_to (t : N) (st : lstate) (l : lx) : outcome (lstate * lx) := l1 <- emit t l ;; Ok (st, l1).

Definition lex_inside_tag (l : lx) : outcome (lstate * lx) :=
  '(r, l1) <- next l ;;
  if gen_isSpaceEOL r then Ok (LInsideTag, ignore l1)
  else
    (* case r == '/' && l.peek() == '}' *)
    '(c1, l2) <- (if r =? 47 then '(p, l') <- peek l1 ;; Ok (p =? 125, l') else Ok (false, l1)) ;;
    if c1 then Ok (LRightDelimEnd, l2)
    else if (r =? 36) || (r =? 46) (* $ . *) then Ok (LIdent, backup l2)
    else if r =? 91 then emit_to itemLeftBracket LInsideTag l2
    else if r =? 93 then emit_to itemRightBracket LInsideTag l2
    else if r =? 63 (* ? *) then
      '(r2, l3) <- next l2 ;;
      if r2 =? 46 then Ok (LIdent, set_pos l3 (l_pos l3 - 2))
      else if r2 =? 91 then emit_to itemQuestionKey LInsideTag l3
      else if r2 =? 58 then emit_to itemElvis LInsideTag l3
      else emit_to itemTernIf LInsideTag (backup l3)
    else if r =? 45 (* - *) then lex_negative l2
    else if r =? 125 then Ok (LRightDelim, l2)
    else if (48 <=? r) && (r <=? 57) then Ok (LNumber, backup l2)
    else if existsb (Z.eqb r) inside_tag_single_syms then
      emit_to (arith_item [Z.to_N r]) LInsideTag l2
    else
      (* case r == '>', r == '!', r == '<', r == '=' && l.peek() == '=' *)
      '(c2, l3) <- (if existsb (Z.eqb r) inside_tag_cmp_syms then Ok (true, l2)
                    else if r =? 61 then '(p, l') <- peek l2 ;; Ok (p =? 61, l') else Ok (false, l2)) ;;
      if c2 then
        '(_, l4) <- accept inside_tag_cmp_accept l3 ;;
        sym <- slice (l_start l4) (l_pos l4) ;;
        match assoc_s sym arith_items with
        | None => errorf e_symbol l4
        | Some t => emit_to t LInsideTag l4
        end
      else if (r =? 34) || (r =? 39) then Ok (LString r, l3)
      else if r =? 61 then emit_to itemEquals LInsideTag l3
      else if r =? eof then errorf e_unclosed_tag l3
      else if r =? 124 then emit_to itemPipe LInsideTag l3
      else if gen_isLetterOrUnderscore r then Ok (LIdent, backup l3)
      else if r =? 44 then emit_to itemComma LInsideTag l3
      else if r =? 64 then Ok (LHeaderParam, l3)
      else errorf e_bad_char l3.

(* ---------------- soydoc ---------------- *)

(* the "extract the param" loop of lexSoyDocParam (repaired: at end of input the identifier is
   emitted as it stands) *)
Fixpoint soydoc_ident_loop (fuel : nat) (l : lx) : outcome lx :=
  match fuel with
  | O => Diverge
  | S f =>
      '(r, l1) <- next l ;;
      if r =? eof then emit itemIdent l1
      else if gen_isSpaceEOL r then
        l2 <- emit itemIdent (set_pos l1 (l_pos l1 - 1)) ;;
        (* don't skip newlines. the outer routine needs to know about it *)
        let l3 := if gen_isSpace r then set_pos l2 (l_pos l2 + 1) else l2 in
        Ok (ignore l3)
      else soydoc_ident_loop f l1
  end.

(* `for { r = l.next(); if r == eof || !isSpace(r) { break } }` *)
Fixpoint soydoc_space_loop (fuel : nat) (l : lx) : outcome lx :=
  match fuel with
  | O => Diverge
  | S f => '(r, l1) <- next l ;;
           if (r =? eof) || negb (gen_isSpace r) then Ok l1 else soydoc_space_loop f l1
  end.

Definition soydoc_kw_len : Z := Z.of_nat (length soydoc_param_kw).

(* func lexSoyDocParam(l *lexer) *)
Definition lex_soydoc_param (l : lx) : outcome lx :=
  let l0 := set_pos l (l_pos l + soydoc_kw_len) in
  '(ch, l1) <- next l0 ;;
  r <- (if ch =? 63 (* ? *) then
          '(c2, l2) <- next l1 ;;
          if negb (c2 =? 32) then Ok (inl l2)
          else l3 <- emit itemSoyDocOptionalParam (backup l2) ;; Ok (inr l3)
        else if ch =? 32 then
          l3 <- emit itemSoyDocParam (backup l1) ;; Ok (inr l3)
        else Ok (inl l1)) ;;
  match r with
  | inl lret => Ok lret                              (* return: "what a fakeout" *)
  | inr l3 =>
      l4 <- soydoc_space_loop (loop_fuel l3) l3 ;;
      let l5 := ignore (backup l4) in
      soydoc_ident_loop (loop_fuel l5) l5
  end.

Fixpoint soydoc_loop (fuel : nat) (star sol : bool) (l : lx) : outcome (lstate * lx) :=
  match fuel with
  | O => Diverge
  | S f =>
      '(ch, l1) <- next l ;;
      if ch =? eof then errorf e_soydoc_eof l1
      else if star && (ch =? 47) then
        l2 <- maybe_emit_text l1 2 ;;
        l3 <- emit itemSoyDocEnd l2 ;;
        Ok (LText, l3)
      else
        let rest (l2 : lx) (sol2 : bool) : outcome (lstate * lx) :=
          r <- (if gen_isEndOfLine ch then l3 <- maybe_emit_text l2 1 ;; Ok (l3, true) else Ok (l2, sol2)) ;;
          soydoc_loop f (ch =? 42) (snd r) (fst r) in
        if sol then
          if gen_isSpaceEOL ch then soydoc_loop f star sol l1
          else if ch =? 42 then soydoc_loop f true sol l1
          else
            let l2 := ignore (set_pos l1 (l_pos l1 - 1)) in
            tl <- slice (l_pos l2) ilen ;;                         (* l.input[l.pos:] *)
            l3 <- (if is_prefix soydoc_param_kw tl then lex_soydoc_param l2 else Ok l2) ;;
            rest l3 false
        else rest l1 sol
  end.
Definition soydoc_fuel (l : lx) : nat := S (S (2 * Z.to_nat (ilen - l_pos l))).
Definition lex_soydoc (l : lx) : outcome (lstate * lx) :=
  l1 <- emit itemSoyDocStart l ;;
  soydoc_loop (soydoc_fuel l1) false true l1.

(* ---------------- comments, strings ---------------- *)

Fixpoint line_comment_loop (fuel : nat) (l : lx) : outcome (lstate * lx) :=
  match fuel with
  | O => Diverge
  | S f => '(r, l1) <- next l ;;
           if gen_isEndOfLine r || (r =? eof) then emit_to itemComment LText l1
           else line_comment_loop f l1
  end.
Definition lex_line_comment (l : lx) := line_comment_loop (loop_fuel l) l.

Fixpoint block_comment_loop (fuel : nat) (star : bool) (l : lx) : outcome (lstate * lx) :=
  match fuel with
  | O => Diverge
  | S f => '(r, l1) <- next l ;;
           if r =? eof then errorf e_comment_eof l1
           else if r =? 42 then block_comment_loop f true l1
           else if (r =? 47) && star then emit_to itemComment LText l1
           else block_comment_loop f false l1
  end.
Definition lex_block_comment (l : lx) := block_comment_loop (loop_fuel l) false l.

Fixpoint string_loop (fuel : nat) (q : Z) (l : lx) : outcome (lstate * lx) :=
  match fuel with
  | O => Diverge
  | S f => '(r, l1) <- next l ;;
           if r =? eof then errorf e_string_eof l1
           else if r =? 92 then '(_, l2) <- next l1 ;; string_loop f q l2
           else if r =? q then emit_to itemString LInsideTag l1
           else string_loop f q l1
  end.
Definition lex_string (q : Z) (l : lx) := string_loop (loop_fuel l) q l.

(* ---------------- lexIdent ---------------- *)

Definition lex_ident (l : lx) : outcome (lstate * lx) :=
  '(r, l1) <- next l ;;
  (* inl = error return; inr (itemType, l) *)
  pre <- (if r =? 46 (* . *) then
            '(d, l2) <- next l1 ;;
            Ok (inr (if gen_isDigit d then itemDotIndex else itemDotIdent, backup l2))
          else if r =? 36 then Ok (inr (itemDollarIdent, l1))
          else if r =? 47 then Ok (inr (itemCommandEnd, l1))
          else if r =? 92 then Ok (inr (itemSpecialChar, l1))
          else if r =? 63 then
            '(dot, l2) <- next l1 ;;
            if negb (dot =? 46) then e <- errorf e_ident_start l2 ;; Ok (inl e)
            else '(d, l3) <- next l2 ;;
                 Ok (inr (if gen_isDigit d then itemQuestionDotIndex else itemQuestionDotIdent, backup l3))
          else Ok (inr (itemIdent, l1))) ;;
  match pre with
  | inl e => Ok e
  | inr (ity, l2) =>
      l3 <- alnum_loop (loop_fuel l2) l2 ;;
      let l4 := backup l3 in
      word <- slice (l_start l4) (l_pos l4) ;;
      match assoc_s word builtin_idents with
      | Some t =>
          l5 <- emit t l4 ;;
          if (t =? itemLiteral)%N then Ok (LLiteral, l5)
          else if (t =? itemCss)%N then Ok (LCss, l5)
          else Ok (LInsideTag, l5)
      | None =>
          if (ity =? itemCommandEnd)%N || (ity =? itemSpecialChar)%N then
            errorf e_ident (set_pos l4 (l_start l4))
          else emit_to ity LInsideTag l4
      end
  end.

(* ---------------- lexHeaderParam (repaired: end of input inside the type is an error) ---------------- *)

(* `for ch := l.next(); ch != '=' && ch != '}'; ch = l.next()`: inl = the error return, inr = lastNonSpace *)
Fixpoint header_type_loop (fuel : nat) (lns : Z) (l : lx) : outcome (lstate * lx + Z * lx) :=
  match fuel with
  | O => Diverge
  | S f => '(ch, l1) <- next l ;;
           if (ch =? 61) || (ch =? 125) then Ok (inr (lns, l1))
           else if ch =? eof then e <- errorf e_unclosed_tag l1 ;; Ok (inl e)
           else header_type_loop f (if negb (gen_isSpace ch) then l_pos l1 else lns) l1
  end.

Definition header_kw_len : Z := Z.of_nat (length header_param_kw).

Definition lex_header_param (l : lx) : outcome (lstate * lx) :=
  tl <- slice (l_pos l) ilen ;;
  if negb (is_prefix header_param_kw tl) then errorf e_header_kw l
  else
    let l0 := set_pos l (l_pos l + header_kw_len) in
    '(q, l1) <- next l0 ;;
    l2 <- (if q =? 63 then emit itemHeaderOptionalParam l1 else emit itemHeaderParam (backup l1)) ;;
    l3 <- skip_space l2 ;;
    l4 <- alnum_loop (loop_fuel l3) l3 ;;
    l5 <- emit itemIdent (backup l4) ;;
    l6 <- skip_space l5 ;;
    '(c, l7) <- next l6 ;;
    if negb (c =? 58) then errorf e_header_colon l7
    else
      l8 <- emit itemColon l7 ;;
      l9 <- skip_space l8 ;;
      r <- header_type_loop (loop_fuel l9) (l_pos l9) l9 ;;
      match r with
      | inl e => Ok e
      | inr (lns, l9') =>
          l10 <- emit itemHeaderParamType (set_pos l9' lns) ;;
          l11 <- skip_space l10 ;;
          Ok (LInsideTag, l11)
      end.

(* ---------------- lexCss (repaired), lexLiteral ---------------- *)

Fixpoint css_loop (fuel : nat) (l : lx) : outcome (lstate * lx + lx) :=
  match fuel with
  | O => Diverge
  | S f => '(r, l1) <- next l ;;
           if r =? eof then e <- errorf e_unclosed_tag l1 ;; Ok (inl e)
           else if r =? 125 then Ok (inr l1)
           else css_loop f l1
  end.

Definition lex_css (l : lx) : outcome (lstate * lx) :=
  '(_, l1) <- next l ;;
  let l2 := ignore l1 in
  r <- css_loop (loop_fuel l2) l2 ;;
  match r with
  | inl e => Ok e
  | inr l3 =>
      l4 <- emit itemText (backup l3) ;;
      '(_, l5) <- next l4 ;;
      c <- double_close l5 ;;
      match c with
      | inl e => Ok e
      | inr l6 => emit_to itemRightDelim LText l6
      end
  end.

(* `for isSpace(ch) { ch = l.next() }` *)
Fixpoint literal_space_loop (fuel : nat) (ch : Z) (l : lx) : outcome (Z * lx) :=
  match fuel with
  | O => Diverge
  | S f => if gen_isSpace ch then '(c, l1) <- next l ;; literal_space_loop f c l1 else Ok (ch, l)
  end.

Definition lex_literal (l : lx) : outcome (lstate * lx) :=
  '(c0, l0) <- next l ;;
  '(ch, l1) <- literal_space_loop (S (loop_fuel l0)) c0 l0 ;;   (* c0 itself may be a space: one more test than runes left *)
  if negb (ch =? 125) then errorf e_literal_close l1
  else
    c <- double_close l1 ;;
    match c with
    | inl e => Ok e
    | inr l2 =>
        l3 <- emit itemRightDelim l2 ;;
        let expectClose := if l_dd l3 then literal_close2 else literal_close1 in
        let delimLen := if l_dd l3 then 2 else 1 in
        tl <- slice (l_pos l3) ilen ;;
        match index_of expectClose tl 0 with
        | None => errorf e_literal_unclosed (tick l3 (ilen - l_pos l3))
        | Some i =>
            let l4 := tick (set_pos l3 (l_pos l3 + i)) (i + Z.of_nat (length expectClose)) in
            l5 <- emit itemText l4 ;;
            l6 <- emit itemLeftDelim (set_pos l5 (l_pos l5 + delimLen)) ;;
            l7 <- emit itemLiteralEnd (set_pos l6 (l_pos l6 + Z.of_nat (length literal_end_kw))) ;;
            l8 <- emit itemRightDelim (set_pos l7 (l_pos l7 + delimLen)) ;;
            Ok (LText, l8)
        end
    end.

(* ---------------- numbers ---------------- *)

(* func scanNumber(l *lexer) (typ itemType, ok bool), in four pieces: the hexadecimal branch, the
   mantissa and the exponent of the decimal branch (inl = an early `return` with ok = false,
   inr = fall through with the type so far), and the function itself with the common tail
   "next thing must not be alphanumeric". *)
Definition scan_hex (l1 : lx) : outcome (N * lx + N * lx) :=
  let l2 := set_pos l1 (l_pos l1 + num_hex_prefix_len) in        (* l.pos += 2 *)
  '(some, l3) <- accept_run hex_digits_set l2 ;;
  if negb some then Ok (inl (itemInteger, l3))
  else
    '(dot, l4) <- accept num_dot_set l3 ;;
    if dot then Ok (inl (itemInteger, l4)) else Ok (inr (itemInteger, l4)).

Definition scan_mantissa (hasSign : bool) (l1 : lx) : outcome (N * lx + N * lx) :=
  '(some, l2) <- accept_run dec_digits_set l1 ;;
  if negb some then Ok (inl (itemInteger, l2))
  else
    '(dot, l3) <- accept num_dot_set l2 ;;
    if dot then
      '(frac, l4) <- accept_run dec_digits_set l3 ;;
      if negb frac then Ok (inl (itemInteger, l4)) else Ok (inr (itemFloat, l4))
    else
      c0 <- (if negb hasSign then byte_at (l_start l3) else Ok 0) ;;
      c1 <- (if hasSign then byte_at (l_start l3 + 1) else Ok 0) ;;
      if (negb hasSign && (c0 =? 48) && (l_start l3 + 1 <? l_pos l3))
         || (hasSign && (c1 =? 48) && (l_start l3 + 2 <? l_pos l3))
      then Ok (inl (itemInteger, l3)) else Ok (inr (itemInteger, l3)).

Definition scan_exponent (t : N) (l4 : lx) : outcome (N * lx + N * lx) :=
  '(e, l5) <- accept num_exp_set l4 ;;
  if e then
    '(_, l6) <- accept num_sign_set l5 ;;
    '(ds, l7) <- accept_run dec_digits_set l6 ;;
    if negb ds then Ok (inl (t, l7)) else Ok (inr (itemFloat, l7))
  else Ok (inr (t, l5)).

Definition scan_number (l : lx) : outcome (N * bool * lx) :=
  '(hasSign, l1) <- accept num_sign_set l ;;
  hex <- (if l_pos l1 + 2 <=? ilen then pre <- slice (l_pos l1) (l_pos l1 + 2) ;; Ok (bstr_eqb pre num_hex_prefix) else Ok false) ;;
  r <- (if hex then
          if hasSign then Ok (inl (itemInteger, l1)) else scan_hex l1
        else
          m <- scan_mantissa hasSign l1 ;;
          match m with
          | inl e => Ok (inl e)
          | inr (t, l4) => scan_exponent t l4
          end) ;;
  match r with
  | inl (t, l2) => Ok (t, false, l2)
  | inr (t, l2) =>
      (* Next thing must not be alphanumeric. *)
      '(p, l3) <- peek l2 ;;
      if is_alnum p then '(_, l4) <- next l3 ;; Ok (t, false, l4) else Ok (t, true, l3)
  end.

Definition lex_number (l : lx) : outcome (lstate * lx) :=
  '(t, ok, l1) <- scan_number l ;;
  if negb ok then
    _ <- slice (l_start l1) (l_pos l1) ;;          (* the %q argument l.input[l.start:l.pos] *)
    errorf e_number l1
  else emit_to t LInsideTag l1.

(* ---------------- the machine ---------------- *)

Definition step (st : lstate) (l : lx) : outcome (lstate * lx) :=
  match st with
  | LText => lex_text l
  | LLeftDelim => lex_left_delim l
  | LRightDelim => lex_right_delim l
  | LRightDelimEnd => lex_right_delim_end l
  | LBeginTag => lex_begin_tag l
  | LInsideTag => lex_inside_tag l
  | LSoyDoc => lex_soydoc l
  | LLineComment => lex_line_comment l
  | LBlockComment => lex_block_comment l
  | LString q => lex_string q l
  | LIdent => lex_ident l
  | LHeaderParam => lex_header_param l
  | LCss => lex_css l
  | LLiteral => lex_literal l
  | LNumber => lex_number l
  | LDone => Ok (LDone, l)
  end.

(* func (l *lexer) run(): `for l.state != nil { l.state = l.state(l) }; close(l.items)` *)
Fixpoint run (fuel : nat) (st : lstate) (l : lx) : outcome lx :=
  match st with
  | LDone => Ok l
  | _ => match fuel with
         | O => OutOfFuel
         | S f => '(st', l') <- step st l ;; run f st' l'
         end
  end.

End Lexer.

(* the entry points: lex (files: first state lexText), lexExpr and lexExprAt (first state lexInsideTag;
   lexExprAt sends positions shifted by base, the other two have base 0) *)
Definition entry_state (expr_mode : bool) : lstate := if expr_mode then LInsideTag else LText.

Definition lex_run_at (uni_letter uni_digit : Z -> bool) (base : Z) (fuel : nat) (expr_mode : bool) (s : bstr) : outcome lx :=
  run uni_letter uni_digit s (Z.of_nat (length s)) base fuel (entry_state expr_mode) lex_init.

Definition lex_run (uni_letter uni_digit : Z -> bool) (fuel : nat) (expr_mode : bool) (s : bstr) : outcome lx :=
  lex_run_at uni_letter uni_digit 0 fuel expr_mode s.

Definition lex_items (uni_letter uni_digit : Z -> bool) (fuel : nat) (expr_mode : bool) (s : bstr) : outcome (list tok) :=
  l <- lex_run uni_letter uni_digit fuel expr_mode s ;; Ok (rev (l_out l)).

(* lexExprAt(name, s, outer, base) *)
Definition lex_items_at (uni_letter uni_digit : Z -> bool) (base : Z) (fuel : nat) (s : bstr) : outcome (list tok) :=
  l <- lex_run_at uni_letter uni_digit base fuel true s ;; Ok (rev (l_out l)).

(* the budget the totality theorem proves sufficient (Proofs/LexerProofs.v) *)
Definition lex_budget (s : bstr) : nat := 40 + 40 * length s.

(* for the model runner: the tables of the toolchain's unicode classes *)
Definition lex_items_tbl (expr_mode : bool) (s : bstr) : outcome (list tok * Z) :=
  l <- lex_run is_letter_tbl is_digit_tbl (lex_budget s) expr_mode s ;; Ok (rev (l_out l), l_ticks l).
