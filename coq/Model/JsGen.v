(* soyjs: exec.go (Write, state.walk and the visit functions), scope.go,
   formatters.go, funcs.go, directives.go.  The generator produces a list of
   [chunk]s; every emission site says what kind of text it writes:

     CText    the generator's own text (keywords, punctuation, helper names,
              indentation)
     CStrLit  a string that originates in the template (raw text, string
              literal, map key, css suffix, message text, global string value),
              written between quotes through the escaper soyjs/exec.go calls
              (Model/JsEscape.v js_escape_soy: template.JSEscape, or
              internal/jsescape -- Generated/Tables.v jsstr_pair_js says which)
     CName    an identifier that originates in the template, written verbatim
              (namespace / template / parameter / data key names, generated
              variable names)
     CNum     a number formatted by Go (strconv / fmt)
     CFile    the file name inside the header comment

   [render_chunks] turns chunks into the bytes soyjs.Write produces.  Go map
   iterations take an order oracle ([o_order]).  Models the tree AFTER the
   repairs proposed under notes/pending/C14-*.diff and C04-*.diff (see the
   comments marked REPAIR).  Definitions only. *)
From Soy Require Import Model.Bytes Model.Num Model.Values Model.Outcome Model.Ast Model.Utf8 Model.JsEscape
  Generated.Tables.
Open Scope N_scope.

Inductive chunk :=
| CText (t : bstr)
| CStrLit (q : N) (s : bstr)
| CName (s : bstr)
| CNum (s : bstr)
| CFile (s : bstr).

Section Render.
  Variable is_print : N -> bool.
  Definition render_chunk (c : chunk) : bstr :=
    match c with
    | CText t | CName t | CNum t | CFile t => t
    | CStrLit q s => q :: js_escape_soy jsstr_pair_js is_print s ++ [q]
    end.
  Fixpoint render_chunks (cs : list chunk) : bstr :=
    match cs with
    | [] => []
    | c :: r => render_chunk c ++ render_chunks r
    end.
End Render.

(* ------------------------------------------------------------------ *)
(* options *)

Inductive jsfmt := ES5 | ES6.

(* soymsg.Message.Parts *)
Inductive jmpart :=
| JMRaw (t : bstr)
| JMPh (name : bstr)
| JMPlural (var : bstr) (cases : list (list jmpart)).

Record jopts := {
  o_fmt : jsfmt;
  o_msgs : option (list (N * list jmpart));     (* Options.Messages: id -> parts; None = nil bundle *)
  o_order : list bstr -> list bstr;            (* Go map order of [difference] (the import jblock) *)
}.

(* ------------------------------------------------------------------ *)
(* constants *)

Definition t_nl := Eval vm_compute in b (String (ascii_of_N 10) EmptyString).
Definition t_ind := Eval vm_compute in b "  ".
Definition t_output := Eval vm_compute in b "output".
Definition t_pluseq := Eval vm_compute in b " += ".
Definition t_semi_nl := Eval vm_compute in b (String ";" (String (ascii_of_N 10) EmptyString)).
Definition t_var := Eval vm_compute in b "var ".
Definition t_eq_empty := Eval vm_compute in b " = '';".
Definition t_eq := Eval vm_compute in b " = ".
Definition t_semi := Eval vm_compute in b ";".
Definition t_null := Eval vm_compute in b "null".
Definition t_true := Eval vm_compute in b "true".
Definition t_false := Eval vm_compute in b "false".
Definition t_nil := Eval vm_compute in b "<nil>".          (* fmt %v of a nil interface *)
Definition t_comma := Eval vm_compute in b ",".
Definition t_comma_sp := Eval vm_compute in b ", ".
Definition t_colon := Eval vm_compute in b ":".
Definition t_colon_sp := Eval vm_compute in b ": ".
Definition t_lbrack := Eval vm_compute in b "[".
Definition t_rbrack := Eval vm_compute in b "]".
Definition t_lbrace := Eval vm_compute in b "{".
Definition t_rbrace := Eval vm_compute in b "}".
Definition t_lpar := Eval vm_compute in b "(".
Definition t_rpar := Eval vm_compute in b ")".
Definition t_dot := Eval vm_compute in b ".".
Definition t_us := Eval vm_compute in b "_".
Definition t_uus := Eval vm_compute in b "__".
Definition t_neg_open := Eval vm_compute in b "(-(".   (* REPAIR C14-negate: the operand is parenthesised *)
Definition t_not_open := Eval vm_compute in b "!(".
Definition t_op_open := Eval vm_compute in b "((".
Definition t_op_mid1 := Eval vm_compute in b ") ".
Definition t_op_mid2 := Eval vm_compute in b " (".
Definition t_op_close := Eval vm_compute in b "))".
Definition t_elvis1 := Eval vm_compute in b ") != null ? ".
Definition t_elvis2 := Eval vm_compute in b " : ".
Definition t_tern1 := Eval vm_compute in b ") ?".
Definition t_css_tail := Eval vm_compute in b (String " " (String "+" (String " " (String "'" (String "-" (String "'" (String ";" EmptyString))))))).
Definition t_debugger := Eval vm_compute in b "debugger;".
Definition t_console_log := Eval vm_compute in b "console.log(".
Definition t_close_semi := Eval vm_compute in b ");".
Definition t_hdr1 := Eval vm_compute in b "// This file was automatically generated from ".
Definition t_hdr2 := Eval vm_compute in b "// Please don't edit this file by hand.".
Definition t_ns1 := Eval vm_compute in b "if (typeof ".
Definition t_ns2 := Eval vm_compute in b " == 'undefined') { ".
Definition t_ns3 := Eval vm_compute in b " = {}; }".
Definition t_fn_params := Eval vm_compute in b "(opt_data, opt_sb, opt_ijData) {".
Definition t_optdata_init := Eval vm_compute in b "opt_data = opt_data || {};".
Definition t_var_output := Eval vm_compute in b "var output = '';".
Definition t_return_output := Eval vm_compute in b "return output;".
Definition t_fn_end := Eval vm_compute in b "};".
Definition t_truncate_true := Eval vm_compute in b ",true".
Definition t_eq0 := Eval vm_compute in b " == 0)".
Definition t_eqeq := Eval vm_compute in b " == ".
Definition t_minus1 := Eval vm_compute in b " - 1)".
Definition t_opt_ij := Eval vm_compute in b "opt_ijData".
Definition t_opt_data := Eval vm_compute in b "opt_data".
Definition t_opt_data_dot := Eval vm_compute in b "opt_data.".
Definition t_nullsafe := Eval vm_compute in b " == null) ? null : ".
Definition t_empty_obj := Eval vm_compute in b "{}".
Definition t_augment := Eval vm_compute in b "soy.$$augmentMap(".
Definition t_augment_mid := Eval vm_compute in b ", {".
Definition t_augment_end := Eval vm_compute in b "})".
Definition t_call_tail := Eval vm_compute in b ", opt_sb, opt_ijData);".
Definition t_else := Eval vm_compute in b " else ".
Definition t_if_open := Eval vm_compute in b "if (".
Definition t_brace_nl := Eval vm_compute in b (String "{" (String (ascii_of_N 10) EmptyString)).
Definition t_for_open := Eval vm_compute in b "for (var ".
Definition t_semi_sp := Eval vm_compute in b "; ".
Definition t_lt := Eval vm_compute in b " < ".
Definition t_for_close := Eval vm_compute in b ") {".
Definition t_length := Eval vm_compute in b ".length;".
Definition t_gt0 := Eval vm_compute in b " > 0) {".
Definition t_eq0_semi := Eval vm_compute in b " = 0; ".
Definition t_plusplus := Eval vm_compute in b "++) {".
Definition t_else_block := Eval vm_compute in b "} else {".
Definition t_switch_open := Eval vm_compute in b "switch (".
Definition t_case := Eval vm_compute in b "case ".
Definition t_default := Eval vm_compute in b "default:".
Definition t_break := Eval vm_compute in b "break;".
Definition t_plural_open := Eval vm_compute in b "switch (soy.$$pluralIndex(".
Definition t_plural_close := Eval vm_compute in b ")) {".
Definition t_soy_dd := Eval vm_compute in b "soy.$$".
Definition t_param := Eval vm_compute in b "param".
Definition t_limit := Eval vm_compute in b "Limit".
Definition t_index := Eval vm_compute in b "Index".
Definition t_list := Eval vm_compute in b "List".
Definition t_init := Eval vm_compute in b "Init".
Definition t_step := Eval vm_compute in b "Step".
Definition t_count1 := Eval vm_compute in b " = Math.max(0, Math.ceil((".
Definition t_minus := Eval vm_compute in b " - ".
Definition t_count2 := Eval vm_compute in b ") / ".
Definition t_count3 := Eval vm_compute in b "));".
Definition t_plus := Eval vm_compute in b " + ".
Definition t_times := Eval vm_compute in b " * ".
(* REPAIR C04-9: the bookkeeping keys of a loop frame cannot be Soy identifiers *)
Definition jk_var := Eval vm_compute in b ".var".
Definition n_changeNewlineToBr := Eval vm_compute in b "changeNewlineToBr".
Definition n_insertWordBreaks := Eval vm_compute in b "insertWordBreaks".
Definition jk_limit := Eval vm_compute in b ".limit".
Definition jk_index := Eval vm_compute in b ".index".
Definition n_ij := Eval vm_compute in b "ij".
Definition n_id := Eval vm_compute in b "id".
Definition n_noAutoescape := Eval vm_compute in b "noAutoescape".
Definition n_escapeHtml := Eval vm_compute in b "escapeHtml".
Definition n_truncate := Eval vm_compute in b "truncate".
Definition jn_isFirst := Eval vm_compute in b "isFirst".
Definition jn_isLast := Eval vm_compute in b "isLast".
Definition jn_index := Eval vm_compute in b "index".
Definition jn_range := Eval vm_compute in b "range".
Definition n_unused := Eval vm_compute in b "<unused>".

Definition je_unknown_node := Eval vm_compute in b "unknown node".
Definition je_directive := Eval vm_compute in b "print directive not found".
Definition je_function := Eval vm_compute in b "unimplemented function".
Definition je_args := Eval vm_compute in b "index out of range".
Definition je_undefined := Eval vm_compute in b "undefined value can not be converted to node".
Definition je_placeholder := Eval vm_compute in b "failed to find placeholder".
Definition je_range := Eval vm_compute in b "range arity".
Definition je_noloop := Eval vm_compute in b "loop function outside a loop".

Definition binop_sym (o : binop) : bstr :=
  match o with
  | OMul => [42] | ODiv => [47] | OMod => [37] | OAdd => [43] | OSub => [45]
  | OEq => [61; 61] | ONotEq => [33; 61] | OGt => [62] | OGte => [62; 61] | OLt => [60] | OLte => [60; 61]
  | OOr => [124; 124] | OAnd => [38; 38] | OElvis => []
  end.

(* ------------------------------------------------------------------ *)
(* formatters.go *)

(* strings.Replace(s, ".", "__", -1) *)
Fixpoint es6_ident (s : bstr) : bstr :=
  match s with
  | [] => []
  | c :: r => if c =? 46 then 95 :: 95 :: es6_ident r else c :: es6_ident r
  end.

(* a formatter string: inr 0 = the name, inr 1 = ES6Identifier(name) *)
Fixpoint fmt_chunks (ps : list (bstr + nat)) (name : bstr) : list chunk :=
  match ps with
  | [] => []
  | inl t :: r => CText t :: fmt_chunks r name
  | inr O :: r => CName name :: fmt_chunks r name
  | inr (S _) :: r => CName (es6_ident name) :: fmt_chunks r name
  end.
Fixpoint fmt_bytes (ps : list (bstr + nat)) (name : bstr) : bstr :=
  match ps with
  | [] => []
  | inl t :: r => t ++ fmt_bytes r name
  | inr O :: r => name ++ fmt_bytes r name
  | inr (S _) :: r => es6_ident name ++ fmt_bytes r name
  end.

Definition fmt_template_name (f : jsfmt) := match f with ES5 => js_es5_template_name | ES6 => js_es6_template_name end.
Definition fmt_template_text (f : jsfmt) := match f with ES5 => js_es5_template_text | ES6 => js_es6_template_text end.
Definition fmt_call_name (f : jsfmt) := match f with ES5 => js_es5_call_name | ES6 => js_es6_call_name end.
Definition fmt_call_text (f : jsfmt) := match f with ES5 => js_es5_call_text | ES6 => js_es6_call_text end.
Definition fmt_directive (f : jsfmt) := match f with ES5 => js_es5_directive | ES6 => js_es6_directive end.
Definition fmt_function (f : jsfmt) := match f with ES5 => js_es5_function | ES6 => js_es6_function end.

(* ------------------------------------------------------------------ *)
(* state *)

Record jstate := {
  j_out : list chunk;                       (* reversed *)
  j_indent : nat;
  j_buf : bstr;                             (* bufferName *)
  j_scope : list (list (bstr * bstr));      (* scope.stack, head = innermost frame *)
  j_n : N;                                  (* scope.n *)
  j_auto : N;                               (* autoescape: 0 unspecified 1 on 2 off 3 contextual *)
  j_cur : option (list bool);               (* s.node, as far as visitTemplate looks at it: Some flags = a SoyDocNode whose params have these Optional flags *)
  j_called : list (bstr * list chunk);      (* funcsCalled (a Go map): key -> import line *)
  j_infile : list bstr;                     (* funcsInFile *)
}.

Definition J (A : Type) := jstate -> outcome (A * jstate).
Definition jret {A} (x : A) : J A := fun st => Ok (x, st).
Definition jfail {A} (m : bstr) : J A := fun _ => Err m.
Definition jlift {A} (o : outcome A) : J A := fun st => match o with Ok v => Ok (v, st) | Err m => Err m | Crash m => Crash m
                                                              | Diverge => Diverge | OutOfFuel => OutOfFuel | OutOfModel => OutOfModel end.
Definition jbind {A B} (m : J A) (f : A -> J B) : J B :=
  fun st => match m st with
            | Ok (x, st') => f x st'
            | Err e => Err e | Crash e => Crash e | Diverge => Diverge | OutOfFuel => OutOfFuel | OutOfModel => OutOfModel
            end.
Notation "x <~ e ;; f" := (jbind e (fun x => f)) (at level 61, e at next level, right associativity).
Notation "' p <~ e ;; f" := (jbind e (fun p => f)) (at level 61, p pattern, e at next level, right associativity).
Notation "e ;;; f" := (jbind e (fun _ => f)) (at level 61, right associativity).
Definition jget : J jstate := fun st => Ok (st, st).

Definition upd_out (f : list chunk -> list chunk) (st : jstate) : jstate :=
  {| j_out := f (j_out st); j_indent := j_indent st; j_buf := j_buf st; j_scope := j_scope st; j_n := j_n st; j_auto := j_auto st;
     j_cur := j_cur st; j_called := j_called st; j_infile := j_infile st |}.
Definition set_indent (n : nat) (st : jstate) : jstate :=
  {| j_out := j_out st; j_indent := n; j_buf := j_buf st; j_scope := j_scope st; j_n := j_n st; j_auto := j_auto st;
     j_cur := j_cur st; j_called := j_called st; j_infile := j_infile st |}.
Definition set_buf (x : bstr) (st : jstate) : jstate :=
  {| j_out := j_out st; j_indent := j_indent st; j_buf := x; j_scope := j_scope st; j_n := j_n st; j_auto := j_auto st;
     j_cur := j_cur st; j_called := j_called st; j_infile := j_infile st |}.
Definition set_scope (s : list (list (bstr * bstr))) (n : N) (st : jstate) : jstate :=
  {| j_out := j_out st; j_indent := j_indent st; j_buf := j_buf st; j_scope := s; j_n := n; j_auto := j_auto st;
     j_cur := j_cur st; j_called := j_called st; j_infile := j_infile st |}.
Definition set_auto (a : N) (st : jstate) : jstate :=
  {| j_out := j_out st; j_indent := j_indent st; j_buf := j_buf st; j_scope := j_scope st; j_n := j_n st; j_auto := a;
     j_cur := j_cur st; j_called := j_called st; j_infile := j_infile st |}.
Definition jset_cur (c : option (list bool)) (st : jstate) : jstate :=
  {| j_out := j_out st; j_indent := j_indent st; j_buf := j_buf st; j_scope := j_scope st; j_n := j_n st; j_auto := j_auto st;
     j_cur := c; j_called := j_called st; j_infile := j_infile st |}.
Definition set_called (c : list (bstr * list chunk)) (st : jstate) : jstate :=
  {| j_out := j_out st; j_indent := j_indent st; j_buf := j_buf st; j_scope := j_scope st; j_n := j_n st; j_auto := j_auto st;
     j_cur := j_cur st; j_called := c; j_infile := j_infile st |}.
Definition set_infile (l : list bstr) (st : jstate) : jstate :=
  {| j_out := j_out st; j_indent := j_indent st; j_buf := j_buf st; j_scope := j_scope st; j_n := j_n st; j_auto := j_auto st;
     j_cur := j_cur st; j_called := j_called st; j_infile := l |}.
Definition jmod (f : jstate -> jstate) : J unit := fun st => Ok (tt, f st).

(* ---- writing ---- *)
Definition jemit (cs : list chunk) : J unit := jmod (upd_out (fun o => rev_append cs o)).
Definition jtxt (t : bstr) : J unit := jemit [CText t].
Fixpoint indent_text (n : nat) : bstr := match n with O => [] | S k => t_ind ++ indent_text k end.
Definition jindent : J unit := st <~ jget ;; jtxt (indent_text (j_indent st)).
(* jsln(args...) where the args are already chunks *)
Definition jsln (cs : list chunk) : J unit := jindent ;;; jemit cs ;;; jtxt t_nl.
Definition indent_inc : J unit := jmod (fun st => set_indent (S (j_indent st)) st).
Definition indent_dec : J unit := jmod (fun st => set_indent (pred (j_indent st)) st).
Definition bufname : J (list chunk) := st <~ jget ;; jret [CName (j_buf st)].

(* map assignment m[k] = v on an association list *)
Fixpoint aset {A} (l : list (bstr * A)) (k : bstr) (v : A) : list (bstr * A) :=
  match l with
  | [] => [(k, v)]
  | (k', v') :: r => if bstr_eqb k k' then (k, v) :: r else (k', v') :: aset r k v
  end.
Definition note_called (key : bstr) (imp : list chunk) : J unit :=
  match imp with
  | [] => jret tt                              (* impt == "" *)
  | _ => jmod (fun st => set_called (aset (j_called st) key imp) st)
  end.

(* ---- scope.go ---- *)
Definition jsc_push : J unit := jmod (fun st => set_scope ([] :: j_scope st) (j_n st) st).
Definition jsc_pop : J unit := jmod (fun st => set_scope (tl (j_scope st)) (j_n st) st).
(* REPAIR C04-6: makevar = genname (a fresh JS name, not yet visible) + bind *)
Definition jsc_genname (v : bstr) : J bstr :=
  st <~ jget ;;
  let n := j_n st + 1 in
  (* REPAIR C04-7: an underscore between the name and the counter ($x1 as variable 1 and $x as variable 11 were both x11) *)
  jmod (set_scope (j_scope st) n) ;;; jret (v ++ t_us ++ dec_of_N n).
Definition jsc_bind (v g : bstr) : J unit :=
  st <~ jget ;;
  match j_scope st with
  | f :: r => jmod (set_scope (aset f v g :: r) (j_n st))
  | [] => fun _ => Crash je_args                 (* s.stack[len-1] on an empty stack *)
  end.
Definition jsc_makevar (v : bstr) : J bstr :=
  g <~ jsc_genname v ;; jsc_bind v g ;;; jret g.
Fixpoint jsc_lookup (s : list (list (bstr * bstr))) (v : bstr) : bstr :=
  match s with
  | [] => []
  | f :: r => match assoc_s v f with Some g => g | None => jsc_lookup r v end
  end.
Definition lookup_var (v : bstr) : J bstr := st <~ jget ;; jret (jsc_lookup (j_scope st) v).
(* the composite literal's keys are inserted in order: a later equal key wins *)
(* REPAIR C04-1/C04-2: a range loop has its own index variable, and every loop frame records its variable *)
Definition jsc_push_for_range (v : bstr) : J (bstr * bstr * bstr * bstr * bstr) :=
  st <~ jget ;;
  let n := j_n st + 1 in
  let d := t_us ++ dec_of_N n in
  let f := aset (aset (aset (aset [] v (v ++ d)) jk_var v) jk_limit (v ++ t_limit ++ d)) jk_index (v ++ t_index ++ d) in
  jmod (set_scope (f :: j_scope st) n) ;;; jret (v ++ d, v ++ t_init ++ d, v ++ t_step ++ d, v ++ t_limit ++ d, v ++ t_index ++ d).
Definition jsc_push_for_each (v : bstr) : J (bstr * bstr * bstr * bstr) :=
  st <~ jget ;;
  let n := j_n st + 1 in
  let d := t_us ++ dec_of_N n in
  let f := aset (aset (aset (aset [] v (v ++ d)) jk_var v) jk_limit (v ++ t_limit ++ d)) jk_index (v ++ t_index ++ d) in
  jmod (set_scope (f :: j_scope st) n) ;;; jret (v ++ d, v ++ t_list ++ d, v ++ t_limit ++ d, v ++ t_index ++ d).
(* scope.loop: index and limit of the innermost loop whose variable is v *)
Fixpoint jsc_loop (s : list (list (bstr * bstr))) (v : bstr) : bstr * bstr :=
  match s with
  | [] => ([], [])
  | f :: r =>
      let get k := match assoc_s k f with Some x => x | None => [] end in
      if bstr_eqb (get jk_var) v && negb (match get jk_index with [] => true | _ => false end)
      then (get jk_index, get jk_limit) else jsc_loop r v
  end.

(* ---- small helpers ---- *)
Fixpoint sort_items {A} (l : list (bstr * A)) : list (bstr * A) :=     (* sort.Strings(keys) *)
  let fix ins (x : bstr * A) (l : list (bstr * A)) : list (bstr * A) :=
    match l with
    | [] => [x]
    | y :: r => if bstr_leb (fst x) (fst y) then x :: l else y :: ins x r
    end in
  match l with
  | [] => []
  | x :: r => ins x (sort_items r)
  end.

(* nodeFromValue; None = the undefined value *)
Fixpoint node_of_value (p : N) (v : value) : option node :=
  match v with
  | VUndef => None
  | VNull => Some (NNull p)
  | VBool x => Some (NBool p x)
  | VInt z => Some (NInt p z)
  | VFloat f => Some (NFloat p f)
  | VStr s => Some (NString p n_unused s)
  | VList _ l =>
      option_map (NListLit p)
        ((fix go (l : list value) : option (list node) :=
            match l with
            | [] => Some []
            | x :: r => match node_of_value p x, go r with Some n, Some ns => Some (n :: ns) | _, _ => None end
            end) l)
  | VMap _ m =>
      option_map (NMapLit p)
        ((fix go (m : list (bstr * value)) : option (list (bstr * node)) :=
            match m with
            | [] => Some []
            | (k, x) :: r => match node_of_value p x, go r with Some n, Some ns => Some ((k, n) :: ns) | _, _ => None end
            end) m)
  end.

(* ast.FloatNode.String (after 94b42ac): FormatFloat 'g', plus ".0" when the text has neither '.' nor 'e' *)
Definition float_node_string (f : fl) : option bstr :=
  match fl_to_string f with
  | Some s => Some (if existsb (fun c => (c =? 46) || (c =? 101)) s then s else s ++ [46; 48])
  | None => None
  end.

Definition soydoc_flags (n : node) : option (list bool) :=
  match n with
  | NSoyDoc _ ps => Some (map (fun q => match q with NSoyDocParam _ _ o => o | _ => false end) ps)
  | _ => None
  end.

(* REPAIR C14-filename: strings.NewReplacer("\n"," ","\r"," ","\u2028"," ","\u2029"," ") on the
   file name in the header comment (the pinned tree writes the name verbatim) *)
Fixpoint line_comment_safe (s : bstr) : bstr :=
  match s with
  | [] => []
  | c :: r =>
      if (c =? 10) || (c =? 13) then 32 :: line_comment_safe r
      else match r with
           | c1 :: c2 :: r2 =>
               if (c =? 226) && (c1 =? 128) && ((c2 =? 168) || (c2 =? 169)) then 32 :: line_comment_safe r2
               else c :: line_comment_safe r
           | _ => c :: line_comment_safe r
           end
  end.

(* position of the first '.' at index >= from *)
Fixpoint find_dot (s : bstr) (i : nat) : option nat :=
  match s with
  | [] => None
  | c :: r => if c =? 46 then Some i else find_dot r (S i)
  end.
Definition has_dot (s : bstr) : bool := match find_dot s 0 with Some _ => true | None => false end.

(* MsgNode.Placeholder: breadth-first over the children; a placeholder is never descended into *)
Fixpoint jfind_placeholder (fuel : nat) (q : list node) (name : bstr) : outcome (option node) :=
  match fuel with
  | O => OutOfFuel
  | S f =>
      match q with
      | [] => Ok None
      | x :: r =>
          match x with
          | NMsgPlaceholder _ nm body => if bstr_eqb nm name then Ok (Some body) else jfind_placeholder f r name
          | NMsgPlural p _ v cases dflt => jfind_placeholder f (r ++ cases ++ [NList p dflt]) name
          | NMsgPluralCase p _ body => jfind_placeholder f (r ++ [NList p body]) name
          | NList _ l => jfind_placeholder f (r ++ l) name
          | _ => jfind_placeholder f r name
          end
      end
  end.
Fixpoint jfind_plural (body : list node) (var : bstr) : option node :=
  match body with
  | [] => None
  | (NMsgPlural _ vn _ _ _ as x) :: r => if bstr_eqb vn var then Some x else jfind_plural r var
  | _ :: r => jfind_plural r var
  end.
Fixpoint nmsg_size (n : node) : nat :=
  match n with
  | NMsgPlural _ _ _ cases dflt =>
      (4 + (fix go (l : list node) : nat := match l with [] => 0 | x :: r => nmsg_size x + go r end) cases
         + (fix go (l : list node) : nat := match l with [] => 0 | x :: r => nmsg_size x + go r end) dflt)%nat
  | NMsgPluralCase _ _ bd =>
      (3 + (fix go (l : list node) : nat := match l with [] => 0 | x :: r => nmsg_size x + go r end) bd)%nat
  (* MsgNode.Placeholder descends into a ListNode too (the parser puts none among the children of a message; the
     budget must not run out on a tree that has one: Proofs/SafetyJsFuel.v) *)
  | NList _ l =>
      (2 + (fix go (l : list node) : nat := match l with [] => 0 | x :: r => nmsg_size x + go r end) l)%nat
  | _ => 1%nat
  end.
Definition msg_size (l : list node) : nat := S (fold_right (fun x acc => (nmsg_size x + acc)%nat) 0%nat l).

(* ------------------------------------------------------------------ *)
(* the walker *)
Section Gen.
Variable o : jopts.

Section Body.
Variable w : node -> J unit.

Fixpoint jwalk_list (ns : list node) : J unit :=
  match ns with
  | [] => jret tt
  | x :: r => w x ;;; jwalk_list r
  end.

(* state.block: a fresh state sharing the scope (by value) and the two maps *)
Definition jblock (n : node) : J (list chunk) :=
  st <~ jget ;;
  let sub := {| j_out := []; j_indent := 0; j_buf := []; j_scope := j_scope st; j_n := j_n st; j_auto := 0; j_cur := None;
                j_called := j_called st; j_infile := j_infile st |} in
  fun st0 => match w n sub with
             | Ok (_, sub') => Ok (rev (j_out sub'), set_called (j_called sub') st0)
             | Err e => Err e | Crash e => Crash e | Diverge => Diverge | OutOfFuel => OutOfFuel | OutOfModel => OutOfModel
             end.

Definition write_raw_text (t : bstr) : J unit :=
  jindent ;;; bn <~ bufname ;; jemit (bn ++ [CText t_pluseq; CStrLit 39 t; CText t_semi_nl]).

Fixpoint list_items (first : bool) (l : list node) : J unit :=
  match l with
  | [] => jret tt
  | x :: r => (if first then jret tt else jtxt t_comma) ;;; w x ;;; list_items false r
  end.
(* REPAIR C14-mapkeys: the key is written between double quotes through
   template.JSEscape (the pinned tree writes it raw) *)
Fixpoint map_items (first : bool) (l : list (bstr * node)) : J unit :=
  match l with
  | [] => jret tt
  | (k, x) :: r => (if first then jret tt else jtxt t_comma) ;;; jemit [CStrLit 34 k; CText t_colon] ;;; w x ;;; map_items false r
  end.

(* s.op *)
Definition jop (sym : bstr) (a c : node) : J unit :=
  jtxt t_op_open ;;; w a ;;; jemit [CText t_op_mid1; CText sym; CText t_op_mid2] ;;; w c ;;; jtxt t_op_close.

(* Func.Apply on a translated shape *)
Fixpoint apply_pieces (ps : list (bstr + nat)) (args : list node) : J unit :=
  match ps with
  | [] => jret tt
  | inl t :: r => jtxt t ;;; apply_pieces r args
  | inr i :: r => match nth_error args i with
                  | Some a => w a ;;; apply_pieces r args
                  | None => jfail je_args            (* args[i]: index out of range, recovered by errRecover *)
                  end
  end.
Fixpoint pick_alt (alts : list (option nat * list (bstr + nat))) (n : nat) : option (list (bstr + nat)) :=
  match alts with
  | [] => None
  | (None, ps) :: _ => Some ps
  | (Some k, ps) :: r => if Nat.eqb k n then Some ps else pick_alt r n
  end.
Definition builtin_call (name : bstr) (args : list node) : J unit :=
  jemit [CText (t_soy_dd ++ name ++ t_lpar)] ;;; list_items true args ;;; jtxt t_rpar.

(* the loop a loop function talks about: that of its argument, a plain variable *)
Definition loop_var_of (args : list node) : bstr :=
  match args with
  | [NDataRef _ key []] => key
  | _ => []
  end.

Definition visit_function (name : bstr) (args : list node) : J unit :=
  let imp := fmt_chunks (fmt_function (o_fmt o)) name in
  match assoc_s name js_builtin_funcs with
  | Some jn => builtin_call jn args ;;; note_called name imp
  | None =>
      match assoc_s name js_funcs with
      | Some (_, alts) =>
          match pick_alt alts (length args) with
          | Some ps => apply_pieces ps args ;;; note_called name imp
          | None => note_called name imp              (* a switch without a matching case writes nothing *)
          end
      | None =>
          (* REPAIR C14-loopfunc: outside a loop the three loop functions are an error
             (the pinned tree writes an empty variable name) *)
          (* REPAIR C04-2: the loop is the one of the argument (the pinned tree uses the innermost loop) *)
          if bstr_eqb name jn_isFirst || bstr_eqb name jn_isLast || bstr_eqb name jn_index then
            st <~ jget ;;
            let '(ix, lim) := jsc_loop (j_scope st) (loop_var_of args) in
            match ix with
            | [] => jfail je_noloop
            | _ =>
                if bstr_eqb name jn_isFirst then jemit [CText t_lpar; CName ix; CText t_eq0]
                else if bstr_eqb name jn_isLast then jemit [CText t_lpar; CName ix; CText t_eqeq; CName lim; CText t_minus1]
                else jemit [CName ix]
            end
          else jfail je_function
      end
  end.

(* visitDataRef: the null-safe prefixes go straight to the writer, the
   reference itself is accumulated and written last *)
(* REPAIR C04-5: every null-safe prefix opens a parenthesis that is closed after the reference *)
Fixpoint jdataref_access (acc : list node) (expr closers : list chunk) : J (list chunk) :=
  match acc with
  | [] => jret (expr ++ closers)
  | a :: rest =>
      let prefix (ns : bool) : J (list chunk) :=
        if ns then jemit ([CText t_op_open] ++ expr ++ [CText t_nullsafe]) ;;; jret (CText t_rpar :: closers) else jret closers in
      match a with
      | NAccIndex _ ns i =>
          cl <~ prefix ns ;;
          jdataref_access rest (expr ++ [CText t_lbrack; CNum (dec_of_Z i); CText t_rbrack]) cl
      | NAccKey _ ns k =>
          cl <~ prefix ns ;;
          jdataref_access rest (expr ++ [CText t_dot; CName k]) cl
      | NAccExpr _ ns e =>
          cl <~ prefix ns ;;
          bl <~ jblock e ;;
          jdataref_access rest (expr ++ [CText t_lbrack] ++ bl ++ [CText t_rbrack]) cl
      | _ => jdataref_access rest expr closers        (* no case of the type switch applies *)
      end
  end.
Definition visit_dataref (key : bstr) (acc : list node) : J unit :=
  base <~ (if bstr_eqb key n_ij then jret [CText t_opt_ij]
           else g <~ lookup_var key ;;
                match g with
                | [] => jret [CText t_opt_data_dot; CName key]
                | _ => jret [CName g]
                end) ;;
  expr <~ jdataref_access acc base [] ;;
  jemit expr.

(* visitPrint *)
Fixpoint print_scan (dirs : list node) (escape : N) (kept : list (bstr * list node)) : J (N * list (bstr * list node)) :=
  match dirs with
  | [] => jret (escape, kept)
  | NDirective _ name args :: r =>
      match assoc_s name js_directives with
      | None => jfail je_directive
      | Some (jn, cancel) =>
          let escape' := if cancel then 2 else escape in
          if bstr_eqb name n_id || bstr_eqb name n_noAutoescape then print_scan r escape' kept
          else note_called name (fmt_chunks (fmt_directive (o_fmt o)) jn) ;;;
               (* REPAIR C04-4: the two directives that make HTML from text get their input escaped first *)
               let kept1 := if bstr_eqb name n_changeNewlineToBr || bstr_eqb name n_insertWordBreaks
                            then kept ++ [(n_escapeHtml, [])] else kept in
               print_scan r escape' (kept1 ++ [(name, args)])
      end
  | _ :: _ => fun _ => OutOfModel                 (* Directives is a []*PrintDirectiveNode *)
  end.
Definition directive_js (name : bstr) : bstr := match assoc_s name js_directives with Some (jn, _) => jn | None => [] end.
Fixpoint print_opens (rev_dirs : list (bstr * list node)) : J unit :=
  match rev_dirs with
  | [] => jret tt
  | (name, _) :: r => jemit [CText (directive_js name); CText t_lpar] ;;; print_opens r
  end.
Fixpoint print_args (args : list node) : J unit :=
  match args with
  | [] => jret tt
  | a :: r => jtxt t_comma ;;; w a ;;; print_args r
  end.
Fixpoint print_closes (dirs : list (bstr * list node)) : J unit :=
  match dirs with
  | [] => jret tt
  | (name, args) :: r =>
      print_args args ;;;
      (if bstr_eqb name n_truncate && Nat.eqb (length args) 1 then jtxt t_truncate_true else jret tt) ;;;
      jtxt t_rpar ;;; print_closes r
  end.
Definition visit_print (arg : node) (dirs : list node) : J unit :=
  st <~ jget ;;
  '(escape, kept) <~ print_scan dirs (j_auto st) [] ;;
  let kept' := if escape =? 2 then kept else kept ++ [(n_escapeHtml, [])] in
  jindent ;;; bn <~ bufname ;; jemit (bn ++ [CText t_pluseq]) ;;;
  print_opens (rev kept') ;;;
  w arg ;;;
  print_closes kept' ;;;
  jtxt t_semi_nl.

(* visitCall *)
Fixpoint jcall_params (first : bool) (ps : list node) (acc : list chunk) : J (list chunk) :=
  match ps with
  | [] => jret acc
  | p :: r =>
      let acc := if first then acc else acc ++ [CText t_comma_sp] in
      match p with
      | NParamValue _ key v =>
          bl <~ jblock v ;; jcall_params false r (acc ++ [CName key; CText t_colon_sp] ++ bl)
      | NParamContent _ key content =>
          st <~ jget ;;
          let old := j_buf st in
          g <~ jsc_genname t_param ;;
          jmod (set_buf g) ;;;
          jsln [CText t_var; CName g; CText t_eq_empty] ;;;
          w content ;;;
          jmod (set_buf old) ;;;
          jcall_params false r (acc ++ [CName key; CText t_colon_sp; CName g])
      | _ => jcall_params false r acc
      end
  end.
Definition visit_call (name : bstr) (alldata : bool) (data : option node) (params : list node) : J unit :=
  d0 <~ match data with
        | Some d => jblock d
        | None => jret (if alldata then [CText t_opt_data] else [CText t_empty_obj])
        end ;;
  d1 <~ match params with
        | [] => jret d0
        | _ => ps <~ jcall_params true params ([CText t_augment] ++ d0 ++ [CText t_augment_mid]) ;; jret (ps ++ [CText t_augment_end])
        end ;;
  let callname := fmt_bytes (fmt_call_name (o_fmt o)) name in
  bn <~ bufname ;;
  jsln (bn ++ [CText t_pluseq; CName callname; CText t_lpar] ++ d1 ++ [CText t_call_tail]) ;;;
  note_called callname (fmt_chunks (fmt_call_text (o_fmt o)) name).

(* visitIf *)
Fixpoint jif_conds (first : bool) (cs : list node) : J unit :=
  match cs with
  | [] => jret tt
  | NIfCond _ cond body :: r =>
      (if first then jret tt else jtxt t_else) ;;;
      match cond with
      | Some c => jtxt t_if_open ;;; w c ;;; jtxt t_op_mid1
      | None => jret tt
      end ;;;
      jtxt t_brace_nl ;;; indent_inc ;;; w body ;;; indent_dec ;;; jindent ;;; jtxt t_rbrace ;;;
      jif_conds false r
  | _ :: _ => fun _ => OutOfModel                 (* Conds is a []*IfCondNode *)
  end.

(* visitLoop: the loop over index < count whose item is [item_expr]; leaves the
   scope of the loop variable before the ifempty block (REPAIR C04-1 / C04-6) *)
Definition visit_loop (body : node) (ifempty : option node) (vd : bstr) (item_expr : list chunk) (vlen vidx : bstr) : J unit :=
  (match ifempty with
   | Some _ => jsln [CText t_if_open; CName vlen; CText t_gt0] ;;; indent_inc
   | None => jret tt
   end) ;;;
  jsln [CText t_for_open; CName vidx; CText t_eq0_semi; CName vidx; CText t_lt; CName vlen; CText t_semi_sp; CName vidx; CText t_plusplus] ;;;
  indent_inc ;;;
  jsln ([CText t_var; CName vd; CText t_eq] ++ item_expr ++ [CText t_semi]) ;;;
  w body ;;;
  indent_dec ;;;
  jsln [CText t_rbrace] ;;;
  jsc_pop ;;;
  (match ifempty with
   | Some ie => indent_dec ;;; jsln [CText t_else_block] ;;; indent_inc ;;; w ie ;;; indent_dec ;;; jsln [CText t_rbrace]
   | None => jret tt
   end).

(* visitForRange.  REPAIR C14-range-arity: 0 or more than 3 arguments is an error.
   REPAIR C04-1: the loop counts iterations, so that index / isFirst / isLast /
   ifempty mean what they mean for a list.  REPAIR C04-6: the arguments are
   translated before the loop variable is bound. *)
Definition visit_for_range (var : bstr) (args : list node) (body : node) (ifempty : option node) : J unit :=
  match match args with
        | [l] => Some (NInt 0 0, l, NInt 0 1)
        | [i; l] => Some (i, l, NInt 0 1)
        | [i; l; s] => Some (i, l, s)
        | _ => None
        end with
  | None => jfail je_range
  | Some (init, limit, incr) =>
      ie <~ jblock init ;;
      se <~ jblock incr ;;
      le <~ jblock limit ;;
      '(vd, vinit, vstep, vlen, vidx) <~ jsc_push_for_range var ;;
      jsln ([CText t_var; CName vinit; CText t_eq] ++ ie ++ [CText t_semi]) ;;;
      jsln ([CText t_var; CName vstep; CText t_eq] ++ se ++ [CText t_semi]) ;;;
      jsln ([CText t_var; CName vlen; CText t_count1] ++ le ++ [CText t_minus; CName vinit; CText t_count2; CName vstep; CText t_count3]) ;;;
      visit_loop body ifempty vd [CName vinit; CText t_plus; CName vidx; CText t_times; CName vstep] vlen vidx
  end.
Definition visit_foreach (var : bstr) (lst body : node) (ifempty : option node) : J unit :=
  le <~ jblock lst ;;
  '(vd, vlist, vlen, vidx) <~ jsc_push_for_each var ;;
  jsln ([CText t_var; CName vlist; CText t_eq] ++ le ++ [CText t_semi]) ;;;
  jsln [CText t_var; CName vlen; CText t_eq; CName vlist; CText t_length] ;;;
  visit_loop body ifempty vd [CName vlist; CText t_lbrack; CName vidx; CText t_rbrack] vlen vidx.

(* visitSwitch *)
Fixpoint case_values (vs : list node) : J unit :=
  match vs with
  | [] => jret tt
  | v :: r => jindent ;;; jtxt t_case ;;; w v ;;; jemit [CText t_colon; CText t_nl] ;;; case_values r
  end.
Fixpoint jswitch_cases (cs : list node) : J unit :=
  match cs with
  | [] => jret tt
  | NSwitchCase _ vs body :: r =>
      case_values vs ;;;
      (match vs with [] => jsln [CText t_default] | _ => jret tt end) ;;;
      indent_inc ;;; w body ;;; jsln [CText t_break] ;;; indent_dec ;;;
      jswitch_cases r
  | _ :: _ => fun _ => OutOfModel                 (* Cases is a []*SwitchCaseNode *)
  end.

(* visitMsgNode / walkPlural (no bundle, or the message is not in the bundle) *)
Definition plural_case_body (jmsg_children : list node -> J unit) (c : node) : J unit :=
  match c with
  | NMsgPluralCase _ v body =>
      jsln [CText t_case; CNum (dec_of_Z v); CText t_colon] ;;; indent_inc ;;; jmsg_children body ;;;
      jsln [CText t_break] ;;; indent_dec
  | _ => fun _ => OutOfModel                      (* Cases is a []*MsgPluralCaseNode *)
  end.
(* the children lists nest through NMsgPlural: recursion on the fuel *)
Fixpoint jmsg_children (fuel : nat) (l : list node) : J unit :=
  match fuel with
  | O => fun _ => OutOfFuel
  | S f =>
      match l with
      | [] => jret tt
      | x :: r =>
          match x with
          | NRawText _ _ => w x
          | NMsgPlaceholder _ _ body => w body
          | NMsgPlural _ _ v cases dflt =>
              jindent ;;; jtxt t_switch_open ;;; w v ;;; jemit [CText t_for_close; CText t_nl] ;;;
              indent_inc ;;;
              (fix go (cs : list node) : J unit :=
                 match cs with
                 | [] => jret tt
                 | c :: cr => plural_case_body (jmsg_children f) c ;;; go cr
                 end) cases ;;;
              jsln [CText t_default] ;;; indent_inc ;;; jmsg_children f dflt ;;; indent_dec ;;;
              indent_dec ;;; jsln [CText t_rbrace]
          | _ => jret tt
          end ;;;
          jmsg_children f r
      end
  end.

(* evalMsgParts *)
Fixpoint jeval_part (body : list node) (p : jmpart) : J unit :=
  match p with
  | JMRaw t => write_raw_text t
  | JMPh name =>
      ph <~ jlift (jfind_placeholder (msg_size body) body name) ;;
      match ph with
      | Some phbody => w phbody
      | None => jfail je_placeholder
      end
  | JMPlural var cases =>
      match jfind_plural body var with
      | Some (NMsgPlural _ _ v _ _) =>
          jindent ;;; jtxt t_plural_open ;;; w v ;;; jemit [CText t_plural_close; CText t_nl] ;;;
          indent_inc ;;;
          (fix cases_loop (i : N) (cs : list (list jmpart)) : J unit :=
             match cs with
             | [] => jret tt
             | c :: cr =>
                 jsln [CText t_case; CNum (dec_of_N i); CText t_colon] ;;; indent_inc ;;;
                 (fix parts_loop (ps : list jmpart) : J unit :=
                    match ps with
                    | [] => jret tt
                    | q :: qr => jeval_part body q ;;; parts_loop qr
                    end) c ;;;
                 jsln [CText t_break] ;;; indent_dec ;;;
                 cases_loop (i + 1) cr
             end) 0 cases ;;;
          indent_dec ;;; jsln [CText t_rbrace]
      | _ => jfail je_placeholder
      end
  end.
Fixpoint jeval_parts (body : list node) (ps : list jmpart) : J unit :=
  match ps with
  | [] => jret tt
  | p :: r => jeval_part body p ;;; jeval_parts body r
  end.

Fixpoint assoc_n {A} (k : N) (l : list (N * A)) : option A :=
  match l with
  | [] => None
  | (k', v) :: r => if k =? k' then Some v else assoc_n k r
  end.
Definition visit_msg (id : N) (body : list node) : J unit :=
  match o_msgs o with
  | None => jmsg_children (msg_size body) body
  | Some msgs =>
      match assoc_n id msgs with
      | None => jmsg_children (msg_size body) body
      | Some parts => jeval_parts body parts
      end
  end.

(* visitNamespace: one declaration per dot-separated prefix *)
Fixpoint ns_decls (fuel : nat) (name : bstr) (i : nat) : J unit :=
  match fuel with
  | O => fun _ => OutOfFuel
  | S f =>
      if Nat.ltb i (length name) then
        let prev := S i in
        let i' := match find_dot (drop prev name) prev with Some j => j | None => length name end in
        let pre := take i' name in
        jsln ([CText t_ns1; CName pre; CText t_ns2] ++ (if has_dot pre then [] else [CText t_var]) ++ [CName pre; CText t_ns3]) ;;;
        ns_decls f name i'
      else jret tt
  end.

(* visitTemplate, in three parts: up to the blank line, the function header line, the rest *)
Definition template_head (ae : N) : J unit :=
  (if ae =? 0 then jret tt else jmod (set_auto ae)) ;;;
  jsln [].
Definition template_header_line (name : bstr) : list chunk :=
  fmt_chunks (fmt_template_text (o_fmt o)) name ++ [CText t_fn_params].
Definition template_rest (old : N) (all_opt : bool) (name : bstr) (body : node) : J unit :=
  jmod (fun st => set_infile (fmt_bytes (fmt_template_name (o_fmt o)) name :: j_infile st) st) ;;;
  indent_inc ;;;
  (if all_opt then jsln [CText t_optdata_init] else jret tt) ;;;
  jsln [CText t_var_output] ;;;
  jmod (set_buf t_output) ;;;
  jsc_push ;;;
  w body ;;;
  jsln [CText t_return_output] ;;;
  indent_dec ;;;
  jsln [CText t_fn_end] ;;;
  jmod (set_auto old) ;;;
  jsc_pop.
Definition visit_template (prev : option (list bool)) (name : bstr) (body : node) (ae : N) : J unit :=
  st <~ jget ;;
  let old := j_auto st in
  let all_opt := match prev with
                 | Some flags => negb (Nat.eqb (length flags) 0) && forallb (fun x => x) flags
                 | None => false
                 end in
  template_head ae ;;;
  jsln (template_header_line name) ;;;
  template_rest old all_opt name body.

Definition jwalk_node (prev : option (list bool)) (n : node) : J unit :=
  match n with
  | NNamespace _ name ae => jmod (set_auto ae) ;;; ns_decls (S (length name)) name 0
  | NSoyDoc _ _ => jret tt
  | NTemplate _ name body ae _ => visit_template prev name body ae
  | NList _ ns => jsc_push ;;; jwalk_list ns ;;; jsc_pop      (* REPAIR C04-3: a block is a scope *)
  (* output nodes *)
  | NRawText _ t => write_raw_text t
  | NPrint _ arg dirs => visit_print arg dirs
  | NMsg _ id _ _ body => visit_msg id body
  | NMsgHtmlTag _ t => write_raw_text t
  | NCss _ e sfx =>
      (match e with
       | Some x => jindent ;;; bn <~ bufname ;; jemit (bn ++ [CText t_pluseq]) ;;; w x ;;; jemit [CText t_css_tail; CText t_nl]
       | None => jret tt
       end) ;;;
      write_raw_text sfx
  | NDebugger _ => jsln [CText t_debugger]
  | NLog _ body =>
      st <~ jget ;;
      let nb := j_buf st ++ t_us in
      jmod (set_buf nb) ;;;
      jsln [CText t_var; CName nb; CText t_eq_empty] ;;;
      w body ;;;
      st' <~ jget ;;
      jsln [CText t_console_log; CName (j_buf st'); CText t_close_semi] ;;;
      jmod (fun s => set_buf (removelast (j_buf s)) s)
  (* control flow *)
  | NIf _ conds => jindent ;;; jif_conds true conds ;;; jtxt t_nl
  | NFor _ var lst body ifempty =>
      match lst with
      | NFunc _ fname args => if bstr_eqb fname jn_range then visit_for_range var args body ifempty
                              else visit_foreach var lst body ifempty
      | _ => visit_foreach var lst body ifempty
      end
  | NSwitch _ v cases =>
      jindent ;;; jtxt t_switch_open ;;; w v ;;; jemit [CText t_for_close; CText t_nl] ;;;
      indent_inc ;;; jswitch_cases cases ;;; indent_dec ;;; jsln [CText t_rbrace]
  | NCall _ name alldata data params => visit_call name alldata data params
  | NLetValue _ name e =>
      (* REPAIR C04-6: the value is translated before the name is bound *)
      v <~ jblock e ;;
      g <~ jsc_makevar name ;;
      jsln ([CText t_var; CName g; CText t_eq] ++ v ++ [CText t_semi])
  | NLetContent _ name body =>
      st <~ jget ;;
      let old := j_buf st in
      g <~ jsc_genname name ;;                     (* REPAIR C04-6: bound after the body *)
      jmod (set_buf g) ;;;
      jsln [CText t_var; CName g; CText t_eq_empty] ;;;
      w body ;;;
      jsc_bind name g ;;;
      jmod (set_buf old)
  (* values *)
  | NNull _ => jtxt t_null
  | NString _ _ v => jemit [CStrLit 39 v]
  | NInt _ z => jemit [CNum (dec_of_Z z)]
  | NFloat _ f => match float_node_string f with Some s => jemit [CNum s] | None => fun _ => OutOfModel end
  | NBool _ x => jtxt (if x then t_true else t_false)
  | NGlobal p _ v =>
      match node_of_value p v with
      | Some n' => w n'
      | None => jfail je_undefined
      end
  | NListLit _ items => jtxt t_lbrack ;;; list_items true items ;;; jtxt t_rbrack
  | NMapLit _ items => jtxt t_lbrace ;;; map_items true (sort_items items) ;;; jtxt t_rbrace
  | NFunc _ name args => visit_function name args
  | NDataRef _ key acc => visit_dataref key acc
  (* operators *)
  | NNeg _ a => jtxt t_neg_open ;;; w a ;;; jtxt t_op_close
  | NNot _ a => jtxt t_not_open ;;; w a ;;; jtxt t_rpar
  | NBin OElvis _ a c =>
      jtxt t_op_open ;;; w a ;;; jtxt t_elvis1 ;;; w a ;;; jtxt t_elvis2 ;;; w c ;;; jtxt t_rpar
  | NBin op_ _ a c => jop (binop_sym op_) a c
  | NTern _ a c d =>
      jtxt t_op_open ;;; w a ;;; jtxt t_tern1 ;;; w c ;;; jtxt t_colon ;;; w d ;;; jtxt t_rpar
  | _ => jfail je_unknown_node
  end.

(* state.walk: s.at(node) then the case for the node *)
Definition jwalk_body (n : node) : J unit :=
  st <~ jget ;;
  jmod (jset_cur (soydoc_flags n)) ;;;
  jwalk_node (j_cur st) n.
End Body.

Fixpoint jwalk (fuel : nat) (n : node) {struct fuel} : J unit :=
  match fuel with
  | O => fun _ => OutOfFuel
  | S f => jwalk_body (jwalk f) n
  end.

Definition jinit_state : jstate :=
  {| j_out := []; j_indent := 0; j_buf := []; j_scope := [[]]; j_n := 0; j_auto := 0; j_cur := None; j_called := []; j_infile := [] |}.

(* visitSoyFile *)
Definition visit_file (fuel : nat) (name : bstr) (body : list node) : J unit :=
  jsln [CText t_hdr1; CFile (line_comment_safe name); CText t_dot] ;;;
  jsln [CText t_hdr2] ;;;
  jsln [] ;;;
  jwalk_list (jwalk fuel) body.

Fixpoint import_lines (keys : list bstr) (called : list (bstr * list chunk)) : list chunk :=
  match keys with
  | [] => []
  | k :: r => (match assoc_s k called with Some imp => imp | None => [] end) ++ [CText t_nl] ++ import_lines r called
  end.

(* soyjs.Write: the imports, then the walked text *)
Definition gen_file (fuel : nat) (name : bstr) (body : list node) : outcome (list chunk) :=
  match visit_file fuel name body jinit_state with
  | Ok (_, st) =>
      let imports :=
        match j_called st with
        | [] => []
        | called =>
            let missing := filter (fun k => negb (existsb (bstr_eqb k) (j_infile st))) (map fst called) in
            (* difference() ranges over the Go map and (after 3edbe48) sorts the keys *)
            import_lines (sort_strings (o_order o missing)) called ++ [CText t_nl]
        end in
      Ok (imports ++ rev (j_out st))
  | Err e => Err e | Crash e => Crash e | Diverge => Diverge | OutOfFuel => OutOfFuel | OutOfModel => OutOfModel
  end.
End Gen.

(* template names defined by a chunk list: the CName that starts a function
   header (ES5: NAME = function(...) {) *)
