(* C04, the call stage and the template wrapper: programs of the common subset.

   A program is a list of templates whose bodies are blocks of Model/MiniJS.v's statements (calls included).
   [c04_tout] is the Soy meaning of rendering a template for given data, by recursion on a call depth [k]
   (open recursion over MiniJS.sout: the callee of a call is the meaning at depth k - 1);
   [c04_registry] is the registry the Go renderer's model (Model/Interp.v) gets for it;
   [c04_jprog] is the table of JavaScript functions the generator's output defines (one per template: the MiniJS
   block of its body, generated from the counter the generator has reached when it visits the template -- the
   counter of scope.go is never reset inside a file), and [c04_jcall] is the MiniJS meaning of calling one of them:
   opt_data = opt_data || {} when every declared parameter is optional, var output = '', the body, return output.
   Definitions only. *)
From Soy Require Import Model.Bytes Model.Num Model.Values Model.Outcome Model.Ast Model.JsGen Model.MiniJS Model.Escape.
Open Scope N_scope.

Record ctmpl := {
  ct_name : bstr;             (* fully qualified *)
  ct_ns_ae : N;               (* the namespace's autoescape mode *)
  ct_ae : N;                  (* the template's own (0 = inherit) *)
  ct_allopt : bool;           (* the soydoc declares parameters and all are optional: the function starts with opt_data = opt_data || {} *)
  ct_body : cblk;
}.
Definition ct_mode (t : ctmpl) : N := template_mode (call_mode (ct_ns_ae t)) (ct_ae t).

Fixpoint c04_find (p : list ctmpl) (name : bstr) : option ctmpl :=
  match p with
  | [] => None
  | t :: r => if bstr_eqb (ct_name t) name then Some t else c04_find r name
  end.

(* ---- the Soy meaning ---- *)
Section Tout.
  Variable ij : option value.
  Variable print_text : N -> list pdir -> bstr -> bstr.
  Variable p : list ctmpl.
  Fixpoint c04_tout (k : nat) (name : bstr) (data : bstr -> option value) : option bstr :=
    match k with
    | O => None
    | S k' =>
        match c04_find p name with
        | Some t => bout ij (ct_mode t) print_text data (c04_tout k') data (ct_body t)
        | None => None
        end
    end.
End Tout.

(* ---- the Go side: the registry ---- *)
Definition c04_template (t : ctmpl) : template :=
  {| t_name := ct_name t;
     t_node := NTemplate 0 (ct_name t) (NList 0 (bnodes (ct_body t))) (ct_ae t) false;
     t_ns_name := [];
     t_ns_autoescape := ct_ns_ae t;
     t_params := [];
     t_file := [] |}.
Definition c04_templates (p : list ctmpl) : list template := map c04_template p.

(* ---- the JavaScript side: the functions of the generated file ---- *)
(* the scope the generator is in when it translates the statements of a template body: the file's frame, the
   template's, the body block's *)
Definition c04_body_scope : list (list (bstr * bstr)) := [[]; []; []].
Definition c04_jbody (t : ctmpl) (n : N) : jblk := fst (bgen (ct_mode t) t_output c04_body_scope n (ct_body t)).
(* [cnt name] = the generator's counter when it reaches the template *)
Definition c04_jprog (p : list ctmpl) (cnt : bstr -> N) : list (bstr * (bool * jblk)) :=
  map (fun t => (ct_name t, (ct_allopt t, c04_jbody t (cnt (ct_name t))))) p.

(* the templates of one file in order, each with the counter the generator has reached when it visits it (scope.go's
   counter is never reset inside a file): the next template starts where the body of this one stopped *)
Fixpoint c04_chain (p : list ctmpl) (n : N) : list (ctmpl * N) :=
  match p with
  | [] => []
  | t :: r => (t, n) :: c04_chain r (snd (bgen (ct_mode t) t_output c04_body_scope n (ct_body t)))
  end.
Definition c04_jprog_chain (p : list ctmpl) (n : N) : list (bstr * (bool * jblk)) :=
  map (fun tn => (ct_name (fst tn), (ct_allopt (fst tn), c04_jbody (fst tn) (snd tn)))) (c04_chain p n).
(* the nodes of a template in its file: the soydoc comment (whose parameters decide opt_data = opt_data || {}), the template *)
Definition c04_doc_nodes (t : ctmpl) : list node :=
  [NSoyDoc 0 (if ct_allopt t then [NSoyDocParam 0 [] true] else []);
   NTemplate 0 (ct_name t) (NList 0 (bnodes (ct_body t))) (ct_ae t) false].

Fixpoint c04_jcall (jp : list (bstr * (bool * jblk))) (k : nat) (name : bstr) (dv ijv : jval) : outcome bstr :=
  match k with
  | O => OutOfFuel
  | S k' =>
      match assoc_s name jp with
      | None => Err je_ref
      | Some (allopt, body) =>
          let dv' := if allopt then (if js_truthy dv then dv else JObj []) else dv in
          env' <- jb_exec (c04_jcall jp k') {| je_vars := [(t_opt_ij, ijv); (t_output, JStr [])]; je_data := dv' |} body ;;
          match assoc_s t_output (je_vars env') with
          | Some (JStr s) => Ok s
          | _ => OutOfModel
          end
      end
  end.

(* ---- the printer of a template: visitTemplate's lines around the body ---- *)
Definition c04_tprint (header : list chunk) (allopt : bool) (jb : jblk) : list chunk :=
  [CText (indent_text 0); CText t_nl]
  ++ ([CText (indent_text 0)] ++ header ++ [CText t_nl])
  ++ (if allopt then [CText (indent_text 1); CText t_optdata_init; CText t_nl] else [])
  ++ [CText (indent_text 1); CText t_var_output; CText t_nl]
  ++ bprint 1 jb
  ++ [CText (indent_text 1); CText t_return_output; CText t_nl]
  ++ [CText (indent_text 0); CText t_fn_end; CText t_nl].
