(* soyjs.Write (soyjs/exec.go) as far as the writer it is given is concerned -- the JavaScript-side counterpart
   of C12.  Write generates everything into two in-memory buffers (bytes.Buffer never fails) and then hands the
   caller's writer the pieces in order: the import block, the script.  AFTER the repair proposed in
   notes/pending/C12-js-write-errors.diff each of the two Write calls is checked and the first error is returned
   (the tree as pinned ends with  out.Write(..); out.Write(..); return nil  and drops both results).
   The writer is the automaton of Model/Interp.v ([write]: calls_left / bytes_left).  Definitions only. *)
From Soy Require Import Model.Bytes Model.Outcome Model.Interp.
Open Scope N_scope.

Definition js_writer (cl : option nat) (bl : option N) : mstate := init_state [] 0 [] cl bl 0.

(* outcome, and the Write calls the writer accepted, in order *)
Definition js_write (pieces : list bstr) (cl : option nat) (bl : option N) : outcome unit * list bstr :=
  let '(r, st) := write_all pieces (js_writer cl bl) in (r, rev (out st)).

(* the pinned code: both results dropped *)
Fixpoint write_all_dropping (ws : list bstr) : M unit :=
  match ws with
  | [] => ret tt
  | w :: r => fun st => write_all_dropping r (snd (write w st))
  end.
Definition js_write_pinned (pieces : list bstr) (cl : option nat) (bl : option N) : outcome unit * list bstr :=
  let '(r, st) := write_all_dropping pieces (js_writer cl bl) in (r, rev (out st)).
