(* text/template.JSEscapeString (directiveEscapeJsString) and encoding/json's
   string encoder as json.Marshal applies it to a Soy string value
   (directiveJson on data.String), Go 1.23.  Definitions only. *)
From Soy Require Import Model.Bytes Model.Utf8 Model.Directives.
Open Scope N_scope.

(* ---- hexadecimal ---- *)
(* [hexdigit] (upper case, 0123456789ABCDEF) is in Model/Directives.v *)
Definition hexdigit_lc (n : N) : N := if n <? 10 then 48 + n else 87 + n.   (* 0123456789abcdef *)

Definition hex4 (r : N) : bstr :=
  [hexdigit ((r / 4096) mod 16); hexdigit ((r / 256) mod 16); hexdigit ((r / 16) mod 16); hexdigit (r mod 16)].

(* fmt.Fprintf(w, %04X, r): at least four digits, MORE when r >= 0x10000.
   Runes returned by utf8.DecodeRune are <= 0x10FFFF, i.e. at most six digits. *)
Definition fmt_04X (r : N) : bstr :=
  if r <? 65536 then hex4 r
  else if r <? 1048576 then hexdigit ((r / 65536) mod 16) :: hex4 r
  else hexdigit ((r / 1048576) mod 16) :: hexdigit ((r / 65536) mod 16) :: hex4 r.

(* ---- template.JSEscape ---- *)

(* the switch for bytes < utf8.RuneSelf that are jsIsSpecial; None = copied *)
Definition js_ascii_escape (c : N) : option bstr :=
  if c =? 92 then Some [92; 92]                         (* backslash, backslash *)
  else if c =? 39 then Some [92; 39]                    (* backslash, apostrophe *)
  else if c =? 34 then Some [92; 34]                    (* backslash, double quote *)
  else if c =? 60 then Some [92; 117; 48; 48; 51; 67]   (* < *)
  else if c =? 62 then Some [92; 117; 48; 48; 51; 69]   (* > *)
  else if c =? 38 then Some [92; 117; 48; 48; 50; 54]   (* & *)
  else if c =? 61 then Some [92; 117; 48; 48; 51; 68]   (* = *)
  else if c <? 32 then Some [92; 117; 48; 48; hexdigit (c / 16); hexdigit (c mod 16)]  (* jsLowUni + hex[t] + hex[b] *)
  else None.

Section JsEscape.
  (* unicode.IsPrint; a parameter so that the theorems hold for every such
     predicate.  The runner passes Generated.Tables.is_print_tbl. *)
  Variable is_print : N -> bool.

  (* what is written for the rune starting at a byte >= 0x80 *)
  Definition js_rune_piece (s : bstr) : bstr :=
    let '(ru, w) := decode_rune s in
    if is_print ru then take w s else 92 :: 117 :: fmt_04X ru.

  (* the loop of JSEscape; [skip] = remaining bytes of a rune already handled
     (i += size - 1) *)
  Fixpoint js_escape_aux (skip : nat) (s : bstr) : bstr :=
    match s with
    | [] => []
    | c :: r =>
        match skip with
        | S k => js_escape_aux k r
        | O =>
            if c <? 128 then
              match js_ascii_escape c with
              | Some e => e ++ js_escape_aux 0 r
              | None => c :: js_escape_aux 0 r
              end
            else js_rune_piece s ++ js_escape_aux (pred (rune_width s)) r
        end
    end.
  Definition js_escape (s : bstr) : bstr := js_escape_aux 0 s.
End JsEscape.

(* ---- encoding/json appendString(dst, src, escapeHTML = true) ---- *)

(* bytes < utf8.RuneSelf that are not in htmlSafeSet; None = copied *)
Definition json_ascii_escape (c : N) : option bstr :=
  if (c =? 92) || (c =? 34) then Some [92; c]
  else if c =? 8 then Some [92; 98]       (* \b *)
  else if c =? 12 then Some [92; 102]     (* \f *)
  else if c =? 10 then Some [92; 110]     (* \n *)
  else if c =? 13 then Some [92; 114]     (* \r *)
  else if c =? 9 then Some [92; 116]      (* \t *)
  else if (c <? 32) || (c =? 60) || (c =? 62) || (c =? 38)
       then Some [92; 117; 48; 48; hexdigit_lc (c / 16); hexdigit_lc (c mod 16)]
  else None.

Definition json_fffd : bstr := [92; 117; 102; 102; 102; 100].   (* � *)

Fixpoint json_string_aux (skip : nat) (s : bstr) : bstr :=
  match s with
  | [] => []
  | c :: r =>
      match skip with
      | S k => json_string_aux k r
      | O =>
          if c <? 128 then
            match json_ascii_escape c with
            | Some e => e ++ json_string_aux 0 r
            | None => c :: json_string_aux 0 r
            end
          else
            let '(ru, w) := decode_rune s in
            if (ru =? rune_error) && Nat.eqb w 1 then json_fffd ++ json_string_aux 0 r
            else if (ru =? 8232) || (ru =? 8233)
                 then [92; 117; 50; 48; 50; hexdigit_lc (ru mod 16)] ++ json_string_aux (pred w) r
            else take w s ++ json_string_aux (pred w) r
      end
  end.

(* json.Marshal(data.String(s)) *)
Definition json_string (s : bstr) : bstr := 34 :: json_string_aux 0 s ++ [34].

(* ---- the escaper soy itself calls for the inside of a JavaScript string literal ----
   [pair = false]: text/template's JSEscape as it is ([js_escape]: a non-printable rune above
   U+FFFF is written with five or six hex digits, which JavaScript reads as a four-digit
   escape followed by digits).  [pair = true]: internal/jsescape (repair
   notes/pending/C16-jsstr-astral-surrogate-pair.diff): such a rune is written as the two
   four-digit escapes of its UTF-16 surrogate pair (utf16.EncodeRune), everything else goes
   through the library unchanged.  Which of the two the tree under test calls is read from its
   source (Generated/Tables.v jsstr_pair_html, jsstr_pair_js). *)
Definition hi_surrogate (r : N) : N := 55296 + (r - 65536) / 1024.
Definition lo_surrogate (r : N) : N := 56320 + (r - 65536) mod 1024.

Section JsEscapeSoy.
  Variable pair : bool.
  Variable is_print : N -> bool.

  Definition js_rune_piece_soy (s : bstr) : bstr :=
    let '(ru, w) := decode_rune s in
    if is_print ru then take w s
    else if pair && (65536 <=? ru) then (92 :: 117 :: hex4 (hi_surrogate ru)) ++ (92 :: 117 :: hex4 (lo_surrogate ru))
    else 92 :: 117 :: fmt_04X ru.

  Fixpoint js_escape_soy_aux (skip : nat) (s : bstr) : bstr :=
    match s with
    | [] => []
    | c :: r =>
        match skip with
        | S k => js_escape_soy_aux k r
        | O =>
            if c <? 128 then
              match js_ascii_escape c with
              | Some e => e ++ js_escape_soy_aux 0 r
              | None => c :: js_escape_soy_aux 0 r
              end
            else js_rune_piece_soy s ++ js_escape_soy_aux (pred (rune_width s)) r
        end
    end.
  Definition js_escape_soy (s : bstr) : bstr := js_escape_soy_aux 0 s.
End JsEscapeSoy.
