(* C09 — package-level state of robfig/soy: what the review of the source
   concluded, as decidable predicates.  Definitions only.

   Races of real Go programs live in package-level mutable state (caches, pools,
   lazily built tables) and in writes through pointers into shared structures.
   tablegen (go/cmd/tablegen/pkgvars.go) enumerates from the non-test sources,
   into Generated/PkgState.v,

     pkg_vars            every package-level variable with the kind of its initialiser
     pkg_var_writes      every statement of a function body that writes to one (or takes its address)
     pkg_var_methods     every method called directly on one
     shared_type_writes  every statement of soyhtml / soyjs / template that writes through a value of
                         a syntax-tree, registry, template or message-bundle type, or appends to a
                         slice obtained from one

   Proofs/ConcGlobalsProofs.v proves, by computation on the generated lists,
   that they satisfy the predicates below.  The predicates are about KINDS, not
   names, so that a refactoring that renames a regexp, regroups tables or
   moves code between functions does not touch them, while

     a package-level variable of a kind that can hold mutable state (a pool, a
       lock, a Once, an uninitialised variable assigned later, a channel, the
       result of an arbitrary call, a function variable),
     a write to any package-level variable outside an init function,
     a method on a package-level variable that is not one of the read-only
       methods of regexp / strings.Replacer / log.Logger seen at review time,
     a write through a shared type anywhere but in Registry.Add (or the capped
       append of the repaired evalPrint)

   breaks a proof obligation of C09 until it has been reviewed; the race
   harness is then the search for a failing schedule.  (The exact lists of the
   review are bin/c09_pkgstate_reviewed.json: a difference from them is reported
   in the evidence and raises the harness budget, never an alarm.) *)
From Coq Require Import List Bool.
From Soy Require Import Model.Bytes.
Import ListNotations.
Open Scope N_scope.

Fixpoint mem_b (x : bstr) (l : list bstr) : bool :=
  match l with [] => false | y :: r => bstr_eqb x y || mem_b x r end.

Fixpoint ends_with (sfx s : bstr) : bool :=
  if bstr_eqb sfx s then true
  else match s with [] => false | _ :: r => ends_with sfx r end.

(* ---- kinds of initialiser ---- *)

(* values nobody writes through, and objects of the standard library documented safe for concurrent
   use: *regexp.Regexp, *strings.Replacer, *log.Logger *)
Definition safe_kinds : list bstr := Eval vm_compute in
  [b "regexp"; b "replacer"; b "logger"; b "error"; b "reflect-type"; b "flag"; b "literal"; b "bytes-literal"].
(* constant-like tables: built by the initialiser (or by init); safe as long as nothing writes them
   after init, which is what [write_in_init] demands of every write *)
Definition table_kinds : list bstr := Eval vm_compute in
  [b "map-literal"; b "slice-literal"; b "array-literal"; b "struct-literal"; b "make-map"; b "make-slice"].
Definition kind_quiet (k : bstr) : bool := mem_b k safe_kinds || mem_b k table_kinds.

(* the variables whose kind can hold mutable state: tied by name *)
Definition loud_vars (vars : list (bstr * bstr * bstr)) : list (bstr * bstr * bstr) :=
  filter (fun v => let '(_, _, k) := v in negb (kind_quiet k)) vars.
Definition reviewed_loud_vars : list (bstr * bstr * bstr) := Eval vm_compute in [
  (* the verification hooks (build tag verif): assigned by the harness before any render starts *)
  (b "soyhtml", b "VerifCallObserver", b "func");
  (b "soyhtml", b "VerifUnboundObserver", b "func")
].

(* ---- commands: their package-level state is not the library's ---- *)
Definition command_dirs : list bstr := Eval vm_compute in [b "soyweb"; b "soymsg/pomsg/xgettext-soy"].

(* ---- writes to package-level variables ---- *)
Definition k_init : bstr := Eval vm_compute in b ":init".
(* (package of the variable, variable, package:function, kind): in an init function (before main,
   one goroutine), or in a command *)
(* ... or the setter of a verification hook (files under build tag verif only: /repo e78c363's
   (Tofu).VerifSetCallObserver), called by the harness before any render starts *)
Definition hook_vars : list bstr := Eval vm_compute in map (fun v => let '(_, n, _) := v in n) reviewed_loud_vars.
Definition write_in_init (w : bstr * bstr * bstr * bstr) : bool :=
  let '(d, v, f, _) := w in ends_with k_init f || mem_b d command_dirs || mem_b v hook_vars.

(* ---- methods called on package-level variables ---- *)
(* the methods seen at review time: all read-only on their receiver (regexp, replacer) or
   internally locked (logger) *)
Definition reviewed_methods : list bstr := Eval vm_compute in
  [b "FindSubmatchIndex"; b "FindAllStringIndex"; b "ReplaceAllString"; b "Replace"; b "Print"; b "Printf"; b "Println"].
Definition method_reviewed (m : bstr * bstr * bstr * bstr) : bool :=
  let '(d, _, _, name) := m in mem_b name reviewed_methods || mem_b d command_dirs.

(* ---- writes through syntax-tree / registry / bundle typed values ---- *)
Definition k_registry_add : bstr := Eval vm_compute in b "template:(*Registry).Add".
Definition k_capped : bstr := Eval vm_compute in b "append-to-capped".
(* (package, written expression, package:function, kind): Registry.Add building the registry of the
   bundle being compiled (own memory of the compiling goroutine until Compile returns), or an append to
   a slice cut with capacity = length (e[:n:n]: the append copies, the shared array is only read; the
   repaired evalPrint, 25f4246) *)
Definition shared_write_benign (w : bstr * bstr * bstr * bstr) : bool :=
  let '(_, _, f, k) := w in bstr_eqb f k_registry_add || bstr_eqb k k_capped.

Definition in_pkg (p : bstr) (w : bstr * bstr * bstr * bstr) : bool := let '(d, _, _, _) := w in bstr_eqb d p.
Definition k_soyjs : bstr := Eval vm_compute in b "soyjs".
Definition k_soyhtml : bstr := Eval vm_compute in b "soyhtml".
Definition kind_of_write (w : bstr * bstr * bstr * bstr) : bstr := let '(_, _, _, k) := w in k.
