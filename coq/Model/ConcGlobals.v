(* C09 — package-level state of robfig/soy: the REVIEWED lists.  Definitions only.

   Races of real Go programs live in package-level mutable state (caches, pools,
   lazily built tables) and in writes through pointers into shared structures.
   tablegen (go/cmd/tablegen/pkgvars.go) enumerates from the non-test sources

     pkg_vars            every package-level variable with the kind of its initialiser
     pkg_var_writes      every statement of a function body that writes to one (or takes its address)
     pkg_var_methods     every method called directly on one
     shared_type_writes  every statement of soyhtml / soyjs / template that writes through a value of
                         a syntax-tree, registry, template or message-bundle type, or appends to a
                         slice obtained from one

   into Generated/Tables.v.  This file holds the lists as they were when the
   model boundary of C09 was reviewed, with the verdict of the review for every
   entry.  Proofs/ConcGlobalsProofs.v proves that the generated lists EQUAL the
   reviewed ones: a new package-level variable, a new write site, a new method
   on a package-level variable or a new write through a shared type breaks that
   proof (a broken obligation of C09) until it has been looked at; the race
   harness is then the search for a failing schedule. *)
From Coq Require Import List Bool.
From Soy Require Import Model.Bytes.
Import ListNotations.
Open Scope N_scope.

(* the verdict of the review for a package-level variable *)
Inductive vclass :=
| VTable      (* a constant-like table: built by its initialiser (or by init), never written afterwards *)
| VImmutable  (* a value nobody can write through: an error value, a reflect.Type, a []byte constant only read *)
| VSync       (* an object of the standard library that is documented safe for concurrent use:
                 *regexp.Regexp, *strings.Replacer, *log.Logger *)
| VConfig     (* exported configuration the API user may assign BEFORE rendering starts (the registries of
                 functions and directives, the obligatory directives, the loggers, struct options, the
                 verification hook): the library itself never writes it; the property's precondition is
                 that the user does not write it while renders run *)
| VTool.      (* state of a command (soyweb, xgettext-soy), outside the library *)

Definition reviewed_pkg_vars : list (bstr * bstr * bstr * vclass) := Eval vm_compute in [
  (b ".", b "Logger", b "logger", VConfig);
  (b "ast", b "binaryPrecedence", b "map-literal", VTable);
  (b "ast", b "stringEscaper", b "replacer", VSync);
  (b "data", b "DefaultStructOptions", b "struct-literal", VConfig);
  (b "data", b "timeType", b "reflect-type", VImmutable);
  (b "parse", b "arithmeticItemsBySymbol", b "map-literal", VTable);
  (b "parse", b "builtinIdents", b "map-literal", VTable);
  (b "parse", b "escapes", b "make-map", VTable);                    (* filled by parse's init from unescapes *)
  (b "parse", b "htmlTagRegexp", b "regexp", VSync);
  (b "parse", b "phnameAttrRegexp", b "regexp", VSync);
  (b "parse", b "precedence", b "map-literal", VTable);
  (b "parse", b "specialChars", b "map-literal", VTable);
  (b "parse", b "unescapes", b "map-literal", VTable);
  (b "soyhtml", b "ErrTemplateNotFound", b "error", VImmutable);
  (b "soyhtml", b "Funcs", b "map-literal", VConfig);
  (b "soyhtml", b "Logger", b "logger", VConfig);
  (b "soyhtml", b "ObligatoryPrintDirectiveNames", b "slice-literal", VConfig);
  (b "soyhtml", b "PrintDirectives", b "map-literal", VConfig);
  (b "soyhtml", b "VerifUnboundObserver", b "func", VConfig);       (* hook under build tag verif *)
  (b "soyhtml", b "htmlAmp", b "call", VImmutable);
  (b "soyhtml", b "htmlApos", b "call", VImmutable);
  (b "soyhtml", b "htmlGt", b "call", VImmutable);
  (b "soyhtml", b "htmlLt", b "call", VImmutable);
  (b "soyhtml", b "htmlQuot", b "call", VImmutable);
  (b "soyhtml", b "loopFuncs", b "map-literal", VTable);
  (b "soyhtml", b "newlinePattern", b "regexp", VSync);
  (b "soyjs", b "ErrNotFound", b "error", VImmutable);
  (b "soyjs", b "Funcs", b "make-map", VConfig);                     (* filled by soyjs's init from funcs *)
  (b "soyjs", b "PrintDirectives", b "map-literal", VConfig);
  (b "soyjs", b "funcs", b "slice-literal", VTable);
  (b "soyjs", b "lineCommentSafe", b "replacer", VSync);
  (b "soymsg", b "consecutive_", b "regexp", VSync);
  (b "soymsg", b "htmlTagNames", b "map-literal", VTable);
  (b "soymsg", b "leadingOrTrailing_", b "regexp", VSync);
  (b "soymsg", b "phRegex", b "regexp", VSync);
  (b "soymsg", b "wordBoundary1", b "regexp", VSync);
  (b "soymsg", b "wordBoundary2", b "regexp", VSync);
  (b "soymsg", b "wordBoundary3", b "regexp", VSync);
  (b "soymsg/pomsg/xgettext-soy", b "registry", b "struct-literal", VTool);
  (b "soyweb", b "port", b "flag", VTool)
].

Definition var_key (v : bstr * bstr * bstr * vclass) : bstr * bstr * bstr :=
  let '(d, n, k, _) := v in (d, n, k).

(* (package of the variable, variable, package:function, kind) *)
Definition reviewed_pkg_var_writes : list (bstr * bstr * bstr * bstr) := Eval vm_compute in [
  (b "parse", b "escapes", b "parse:init", b "assign-element");
  (b "soyjs", b "Funcs", b "soyjs:init", b "assign-element")
].

Definition reviewed_pkg_var_methods : list (bstr * bstr * bstr * bstr) := Eval vm_compute in [
  (b ".", b "Logger", b ".:(*Bundle).recompiler", b "Printf");      (* the file watcher: excluded from the model boundary *)
  (b ".", b "Logger", b ".:(*Bundle).recompiler", b "Println");
  (b "ast", b "stringEscaper", b "ast:(*MapLiteralNode).String", b "Replace");
  (b "parse", b "htmlTagRegexp", b "parse:(*tree).parseMsgRawText", b "FindSubmatchIndex");
  (b "soyhtml", b "Logger", b "soyhtml:(*state).walk", b "Print");
  (b "soyhtml", b "newlinePattern", b "soyhtml:directiveChangeNewlineToBr", b "ReplaceAllString");
  (b "soyjs", b "lineCommentSafe", b "soyjs:(*state).visitSoyFile", b "Replace");
  (b "soymsg", b "consecutive_", b "soymsg:toUpperUnderscore", b "ReplaceAllString");
  (b "soymsg", b "leadingOrTrailing_", b "soymsg:toUpperUnderscore", b "ReplaceAllString");
  (b "soymsg", b "phRegex", b "soymsg:Parts", b "FindAllStringIndex");
  (b "soymsg", b "wordBoundary1", b "soymsg:toUpperUnderscore", b "ReplaceAllString");
  (b "soymsg", b "wordBoundary2", b "soymsg:toUpperUnderscore", b "ReplaceAllString");
  (b "soymsg", b "wordBoundary3", b "soymsg:toUpperUnderscore", b "ReplaceAllString");
  (b "soymsg/pomsg/xgettext-soy", b "registry", b "soymsg/pomsg/xgettext-soy:walkSource", b "Add")
].

(* (package, written expression, package:function, kind).  All but one are
   Registry.Add building the registry of the bundle being compiled (own memory
   of the compiling goroutine until Compile returns); the remaining one is the
   repaired evalPrint (25f4246): its list is node.Directives[:n:n], capacity =
   length, so the append copies and the node's array is only read. *)
Definition reviewed_shared_type_writes : list (bstr * bstr * bstr * bstr) := Eval vm_compute in [
  (b "soyhtml", b "directives", b "soyhtml:(*state).evalPrint", b "append-to-capped");
  (b "template", b "r.SoyFiles", b "template:(*Registry).Add", b "assign-through");
  (b "template", b "r.Templates", b "template:(*Registry).Add", b "assign-through");
  (b "template", b "r.fileByTemplateName", b "template:(*Registry).Add", b "assign-through");
  (b "template", b "r.fileByTemplateName[tn.Name]", b "template:(*Registry).Add", b "assign-through");
  (b "template", b "r.sourceByTemplateName", b "template:(*Registry).Add", b "assign-through");
  (b "template", b "r.sourceByTemplateName[tn.Name]", b "template:(*Registry).Add", b "assign-through");
  (b "template", b "sdn.Params", b "template:(*Registry).Add", b "assign-through");
  (b "template", b "tn.Body.Nodes", b "template:(*Registry).Add", b "assign-through")
].

(* ---- what the review concluded, as decidable predicates over such lists ---- *)

Fixpoint ends_with (sfx s : bstr) : bool :=
  if bstr_eqb sfx s then true
  else match s with [] => false | _ :: r => ends_with sfx r end.

Definition k_init : bstr := Eval vm_compute in b ":init".
Definition k_registry_add : bstr := Eval vm_compute in b "template:(*Registry).Add".
Definition k_capped : bstr := Eval vm_compute in b "append-to-capped".

(* a write to a package-level variable happens in an init function (before main, single goroutine) *)
Definition write_in_init (w : bstr * bstr * bstr * bstr) : bool :=
  let '(_, _, f, _) := w in ends_with k_init f.

Fixpoint class_of (vars : list (bstr * bstr * bstr * vclass)) (d n : bstr) : option vclass :=
  match vars with
  | [] => None
  | (d', n', _, c) :: r => if bstr_eqb d d' && bstr_eqb n n' then Some c else class_of r d n
  end.

Definition k_logger : bstr := Eval vm_compute in b "Logger".
(* a method is called only on an object that synchronises internally, on a logger, or in a command *)
Definition method_on_safe_object (m : bstr * bstr * bstr * bstr) : bool :=
  let '(d, v, _, _) := m in
  match class_of reviewed_pkg_vars d v with
  | Some VSync | Some VTool => true
  | Some VConfig => bstr_eqb v k_logger        (* a log.Logger: safe for concurrent use *)
  | _ => false
  end.

(* a write through a shared type builds the registry being compiled, or is the capped append *)
Definition shared_write_benign (w : bstr * bstr * bstr * bstr) : bool :=
  let '(_, _, f, k) := w in bstr_eqb f k_registry_add || bstr_eqb k k_capped.

(* the library has no pool, cache or lock at package level *)
Definition k_pool : bstr := Eval vm_compute in b "pool".
Definition k_sync : bstr := Eval vm_compute in b "sync".
Definition no_pool_or_lock (v : bstr * bstr * bstr) : bool :=
  let '(_, _, k) := v in negb (bstr_eqb k k_pool || bstr_eqb k k_sync).
