(* C09 — package-level state of robfig/soy: what the review of the source
   concluded, as decidable predicates.  Definitions only.

   Races of real Go programs live in package-level mutable state (caches, pools,
   lazily built tables) and in writes through pointers into shared structures.
   tablegen (go/cmd/tablegen/pkgvars.go; the sources are type-checked with go/types) enumerates
   from the non-test sources, into Generated/PkgState.v,

     pkg_vars            every package-level variable with the kind of its type / initialiser
     pkg_var_writes      every statement of a function body that writes to one (or takes its address),
                         directly, through a local alias, or by passing it to a function that writes
                         through the corresponding parameter (callee-writes-through)
     pkg_var_methods     every method called directly on one
     shared_type_writes  every statement of soyhtml / soyjs / template that writes through a value of
                         a syntax-tree, registry, template or message-bundle type, or appends to a
                         slice obtained from one; and every call in these packages that passes such a
                         value to a function or method of ANY package of the repository that may write
                         through the corresponding parameter or receiver (callee-writes-through, the
                         written expression is the callee; interface calls are resolved to every
                         implementing type of the repository)

   Proofs/ConcGlobalsProofs.v proves, by computation on the generated lists,
   that they satisfy the predicates below.  The predicates are about KINDS, not
   names, so that a refactoring that renames a regexp, regroups tables or
   moves code between functions does not touch them, while

     a package-level variable of a kind that can hold mutable state (a pool, a
       lock, a Once, an uninitialised variable assigned later, a channel, the
       result of an arbitrary call, a function variable),
     a write to any package-level variable outside an init function,
     a method on a package-level variable that is not one of the read-only
       methods of regexp / strings.Replacer / log.Logger seen at review time,
     a write through a shared type anywhere but in Registry.Add (or the capped
       append of the repaired evalPrint, or the one reviewed latent hazard,
       [reviewed_latent_writes])

   breaks a proof obligation of C09 until it has been reviewed; the race
   harness is then the search for a failing schedule.  (The exact lists of the
   review are bin/c09_pkgstate_reviewed.json: a difference from them is reported
   in the evidence and raises the harness budget, never an alarm.) *)
From Coq Require Import List Bool.
From Soy Require Import Model.Bytes.
Import ListNotations.
Open Scope N_scope.

Fixpoint mem_b (x : bstr) (l : list bstr) : bool :=
  match l with [] => false | y :: r => bstr_eqb x y || mem_b x r end.

Fixpoint ends_with (sfx s : bstr) : bool :=
  if bstr_eqb sfx s then true
  else match s with [] => false | _ :: r => ends_with sfx r end.

(* ---- kinds of initialiser ---- *)

(* values nobody writes through, and objects of the standard library documented safe for concurrent
   use: *regexp.Regexp, *strings.Replacer, *log.Logger *)
Definition safe_kinds : list bstr := Eval vm_compute in
  [b "regexp"; b "replacer"; b "logger"; b "error"; b "reflect-type"; b "flag"; b "literal"; b "bytes-literal"].
(* constant-like tables: built by the initialiser (or by init); safe as long as nothing writes them
   after init, which is what [write_in_init] demands of every write *)
Definition table_kinds : list bstr := Eval vm_compute in
  [b "map-literal"; b "slice-literal"; b "array-literal"; b "struct-literal"; b "make-map"; b "make-slice"].
Definition kind_quiet (k : bstr) : bool := mem_b k safe_kinds || mem_b k table_kinds.

(* the variables whose kind can hold mutable state: tied by name *)
Definition loud_vars (vars : list (bstr * bstr * bstr)) : list (bstr * bstr * bstr) :=
  filter (fun v => let '(_, _, k) := v in negb (kind_quiet k)) vars.
Definition reviewed_loud_vars : list (bstr * bstr * bstr) := Eval vm_compute in [
  (* the verification hooks (build tag verif): assigned by the harness before any render starts *)
  (b "soyhtml", b "VerifCallObserver", b "func");
  (b "soyhtml", b "VerifUnboundObserver", b "func")
].

(* ---- commands: their package-level state is not the library's ---- *)
Definition command_dirs : list bstr := Eval vm_compute in [b "soyweb"; b "soymsg/pomsg/xgettext-soy"].

(* ---- writes to package-level variables ---- *)
Definition k_init : bstr := Eval vm_compute in b ":init".
(* (package of the variable, variable, package:function, kind): in an init function (before main,
   one goroutine), or in a command *)
(* ... or the setter of a verification hook (files under build tag verif only: /repo e78c363's
   (Tofu).VerifSetCallObserver), called by the harness before any render starts *)
Definition hook_vars : list bstr := Eval vm_compute in map (fun v => let '(_, n, _) := v in n) reviewed_loud_vars.
Definition write_in_init (w : bstr * bstr * bstr * bstr) : bool :=
  let '(d, v, f, _) := w in ends_with k_init f || mem_b d command_dirs || mem_b v hook_vars.

(* ---- methods called on package-level variables ---- *)
(* the methods seen at review time: all read-only on their receiver (regexp, replacer) or
   internally locked (logger) *)
Definition reviewed_methods : list bstr := Eval vm_compute in
  [b "FindSubmatchIndex"; b "FindAllStringIndex"; b "ReplaceAllString"; b "Replace"; b "Print"; b "Printf"; b "Println"].
Definition method_reviewed (m : bstr * bstr * bstr * bstr) : bool :=
  let '(d, _, _, name) := m in mem_b name reviewed_methods || mem_b d command_dirs.

(* ---- writes through syntax-tree / registry / bundle typed values ---- *)
Definition k_registry_add : bstr := Eval vm_compute in b "template:(*Registry).Add".
Definition k_capped : bstr := Eval vm_compute in b "append-to-capped".
(* (package, written expression, package:function, kind): Registry.Add building the registry of the
   bundle being compiled (own memory of the compiling goroutine until Compile returns), or an append to
   a slice cut with capacity = length (e[:n:n]: the append copies, the shared array is only read; the
   repaired evalPrint, 25f4246) *)
Definition site_eqb (x y : bstr * bstr * bstr * bstr) : bool :=
  let '(a1, b1, c1, d1) := x in let '(a2, b2, c2, d2) := y in
  bstr_eqb a1 a2 && bstr_eqb b1 b2 && bstr_eqb c1 c2 && bstr_eqb d1 d2.
Fixpoint site_mem (x : bstr * bstr * bstr * bstr) (l : list (bstr * bstr * bstr * bstr)) : bool :=
  match l with [] => false | y :: r => site_eqb x y || site_mem x r end.

(* REVIEWED LATENT HAZARD (found by the callee analysis of pkgvars.go; tolerated, not repaired: no input
   reaches it).  ast.MsgNode.Placeholder, called by evalMsgParts of the renderer and of the JavaScript
   generator, walks the message body with a queue that starts as n.Body.Children() -- for a ListNode that IS
   the node's own Nodes slice, shared by every render -- and appends the children of every parent node that
   is not a placeholder to it: q = append(q, node.Children()...).  Were there spare capacity behind the
   queue, the append would write into the array of the shared slice.  There never is: the only parent node
   that is not a placeholder in a message body is a plural node; the parser rejects a body that has a
   plural node and anything else ("content not allowed outside plural tag", parse.go parseMsg), and
   placeholderize builds that body by ONE append to a nil slice, so its length = its capacity = 1; the queue
   is q[1:] of it (capacity 0) when the append happens, so the append allocates, and the queue is the
   function's own array from then on.  The invariant (capacity = length for the body of every message node
   that has a non-placeholder parent child) is a property of the parser, not of this function: the race
   harness of C09 probes it on every parsed bundle and renders / generates plural messages concurrently
   under the race detector (go/cmd/soyverif c09), so that a parser change that breaks it fails with a real
   input.  Tied by name: package, callee, calling function, kind. *)
Definition reviewed_latent_writes : list (bstr * bstr * bstr * bstr) := Eval vm_compute in [
  (b "soyhtml", b "ast:(*MsgNode).Placeholder", b "soyhtml:(*state).evalMsgParts", b "callee-writes-through");
  (b "soyjs", b "ast:(*MsgNode).Placeholder", b "soyjs:(*state).evalMsgParts", b "callee-writes-through")
].
Definition reviewed_latent (w : bstr * bstr * bstr * bstr) : bool := site_mem w reviewed_latent_writes.

Definition shared_write_benign (w : bstr * bstr * bstr * bstr) : bool :=
  let '(_, _, f, k) := w in bstr_eqb f k_registry_add || bstr_eqb k k_capped || reviewed_latent w.

Definition in_pkg (p : bstr) (w : bstr * bstr * bstr * bstr) : bool := let '(d, _, _, _) := w in bstr_eqb d p.
Definition k_soyjs : bstr := Eval vm_compute in b "soyjs".
Definition k_soyhtml : bstr := Eval vm_compute in b "soyhtml".
Definition kind_of_write (w : bstr * bstr * bstr * bstr) : bstr := let '(_, _, _, k) := w in k.
