(* ast/node.go: the String methods of EVERY node type -- the command and file level nodes
   on top of Model/AstPrint.v (expressions, PrintNode, PrintDirectiveNode).  [print_tree] is
   String() by structural recursion; an expression position is printed by [print_node].

   What is modelled rather than derived
   * fmt.Sprintf(%s, node) / fmt.Fprint(&b, node) call node.String() (fmt's Stringer rule);
   * fmt's %q is strconv.Quote: modelled on ASCII strings ([go_quote]: \a \b \f \n \r \t \v,
     the double quote and the backslash behind a backslash, \xNN for the other control bytes and 0x7f); a string with a byte >= 0x80 is outside
     the model (None) -- Quote decodes runes and asks unicode.IsPrint there;
   * CallNode.Params == nil (prints {call x/}) is the empty list: parseCallParams returns a nil
     slice when it read no parameter, so on parsed trees nil and empty coincide; a hand-built
     tree with an empty non-nil slice prints {call x}{/call} and is outside the model;
   * MsgNode.Body and MsgPluralNode.Default / MsgPluralCaseNode.Body are the children of the
     ListNode the parser puts there (Model/Ast.v keeps the list);
   * SoyFileNode is the list of its Body (print_nodes).
   None = a float outside the printing domain, a %q argument outside ASCII, an expression
   position holding something print_node has no case for, or NOther.
   Definitions only. *)
From Soy Require Import Model.Bytes Model.Num Model.Values Model.Ast Model.AstPrint.
Open Scope N_scope.

(* ---- strconv.Quote on ASCII ---- *)
Definition hex_digit (d : N) : N := if d <? 10 then 48 + d else 87 + d.
Definition quote_byte (c : N) : option bstr :=
  if 128 <=? c then None
  else if c =? 34 then Some [92; 34]
  else if c =? 92 then Some [92; 92]
  else if (32 <=? c) && (c <? 127) then Some [c]
  else if c =? 7 then Some [92; 97]
  else if c =? 8 then Some [92; 98]
  else if c =? 12 then Some [92; 102]
  else if c =? 10 then Some [92; 110]
  else if c =? 13 then Some [92; 114]
  else if c =? 9 then Some [92; 116]
  else if c =? 11 then Some [92; 118]
  else Some [92; 120; hex_digit (c / 16); hex_digit (c mod 16)].
Definition go_quote (s : bstr) : option bstr :=
  match opt_all (map quote_byte s) with
  | Some l => Some ([34] ++ concat_b l ++ [34])
  | None => None
  end.

Definition c_namespace := Eval vm_compute in b "{namespace ".
Definition c_template := Eval vm_compute in b "{template ".
Definition c_template_end := Eval vm_compute in [10] ++ b "{/template}" ++ [10].
Definition c_param := Eval vm_compute in b "{@param ".
Definition c_param_opt := Eval vm_compute in b "{@param? ".
Definition c_soydoc_empty := Eval vm_compute in [10] ++ b "/** */" ++ [10].
Definition c_soydoc_open := Eval vm_compute in [10] ++ b "/**".
Definition c_soydoc_line := Eval vm_compute in [10] ++ b " * ".
Definition c_soydoc_close := Eval vm_compute in [10] ++ b " */" ++ [10].
Definition c_sdparam := Eval vm_compute in b "@param".
Definition c_literal := Eval vm_compute in b "{literal}".
Definition c_literal_end := Eval vm_compute in b "{/literal}".
Definition c_css := Eval vm_compute in b "{css ".
Definition c_log := Eval vm_compute in b "{log}".
Definition c_log_end := Eval vm_compute in b "{/log}".
Definition c_debugger := Eval vm_compute in b "{debugger}".
Definition c_let := Eval vm_compute in b "{let $".
Definition c_let_v_end := Eval vm_compute in b " /}".
Definition c_let_end := Eval vm_compute in b "{/let}".
Definition c_msg := Eval vm_compute in b "{msg".
Definition c_meaning := Eval vm_compute in b " meaning=".
Definition c_desc := Eval vm_compute in b "desc=".
Definition c_msg_end := Eval vm_compute in b "{/msg}".
Definition c_plural := Eval vm_compute in b "{plural ".
Definition c_default := Eval vm_compute in b "{default}".
Definition c_plural_end := Eval vm_compute in b "{/plural}".
Definition c_case := Eval vm_compute in b "{case ".
Definition c_call := Eval vm_compute in b "{call ".
Definition c_data_all := Eval vm_compute in b " data=""all""".
Definition c_data := Eval vm_compute in b " data=""".
Definition c_call_self := Eval vm_compute in b "/}".
Definition c_call_end := Eval vm_compute in b "{/call}".
Definition c_cparam := Eval vm_compute in b "{param ".
Definition c_cparam_end := Eval vm_compute in b "{/param}".
Definition c_if := Eval vm_compute in b "{if ".
Definition c_else := Eval vm_compute in b "{else}".
Definition c_elseif := Eval vm_compute in b "{elseif ".
Definition c_if_end := Eval vm_compute in b "{/if}".
Definition c_switch := Eval vm_compute in b "{switch ".
Definition c_switch_end := Eval vm_compute in b "{/switch}".
Definition c_for := Eval vm_compute in b "{for $".
Definition c_in := Eval vm_compute in b " in ".
Definition c_ifempty := Eval vm_compute in b "{ifempty}".
Definition c_for_end := Eval vm_compute in b "{/for}".

Definition omap {A B} (f : A -> B) (x : option A) : option B :=
  match x with Some a => Some (f a) | None => None end.

(* IfNode.String: the prefix of the i-th condition *)
Definition if_prefix (first : bool) (has_cond : bool) : bstr :=
  if first then c_if else if has_cond then c_elseif else c_else.

Fixpoint print_tree (n : node) : option bstr :=
  let all (l : list node) : option bstr := omap concat_b (opt_all (map print_tree l)) in
  match n with
  (* ---- file level ---- *)
  | NNamespace _ name _ => Some (c_namespace ++ name ++ [125])
  | NTemplate _ name body _ _ =>
      obind (print_tree body) (fun s => Some (c_template ++ name ++ [125; 10] ++ s ++ c_template_end))
  | NHeaderParam _ optional name typ dflt =>
      let head := (if optional then c_param_opt else c_param) ++ name ++ [58] in
      let head := match typ with [] => head | _ => head ++ [32] ++ typ ++ [32] end in
      match dflt with
      | None => Some (head ++ [125; 10])
      | Some d => obind (print_tree d) (fun s => Some (head ++ [61; 32] ++ s ++ [125; 10]))
      end
  | NSoyDoc _ params =>
      match params with
      | [] => Some c_soydoc_empty
      | _ => obind (opt_all (map print_tree params)) (fun l =>
               Some (c_soydoc_open ++ concat_b (map (fun s => c_soydoc_line ++ s) l) ++ c_soydoc_close))
      end
  | NSoyDocParam _ name optional =>
      Some (c_sdparam ++ (if optional then [63] else []) ++ [32] ++ name)
  | NLiteral _ body => Some (c_literal ++ body ++ c_literal_end)
  | NIdent _ ident => Some ident
  (* ---- commands ---- *)
  | NList _ nodes => all nodes
  | NRawText _ text => Some text
  | NCss _ e suffix =>
      match e with
      | None => Some (c_css ++ suffix ++ [125])
      | Some x => obind (print_tree x) (fun s => Some (c_css ++ s ++ [44; 32] ++ suffix ++ [125]))
      end
  | NLog _ body => obind (print_tree body) (fun s => Some (c_log ++ s ++ c_log_end))
  | NDebugger _ => Some c_debugger
  | NLetValue _ name e =>
      obind (print_tree e) (fun s => Some (c_let ++ name ++ [58; 32] ++ s ++ c_let_v_end))
  | NLetContent _ name body =>
      obind (print_tree body) (fun s => Some (c_let ++ name ++ [125] ++ s ++ c_let_end))
  | NMsg _ _ meaning desc body =>
      obind (match meaning with
             | [] => Some [32]
             | _ => omap (fun q => c_meaning ++ q ++ [32]) (go_quote meaning)
             end) (fun m =>
      obind (go_quote desc) (fun d =>
      obind (all body) (fun s => Some (c_msg ++ m ++ c_desc ++ d ++ [125] ++ s ++ c_msg_end))))
  | NMsgPlaceholder _ _ body => print_tree body
  | NMsgHtmlTag _ text => Some text
  | NMsgPlural _ _ v cases dflt =>
      obind (print_tree v) (fun sv =>
      obind (all cases) (fun sc =>
      obind (all dflt) (fun sd =>
        Some (c_plural ++ sv ++ [125] ++ sc ++ c_default ++ sd ++ c_plural_end))))
  | NMsgPluralCase _ v body =>
      obind (all body) (fun s => Some (c_case ++ dec_of_Z v ++ [125] ++ s))
  | NCall _ name alldata data params =>
      obind (if alldata then Some c_data_all
             else match data with
                  | Some d => omap (fun s => c_data ++ s ++ [34]) (print_tree d)
                  | None => Some []
                  end) (fun sd =>
        let head := c_call ++ name ++ sd in
        match params with
        | [] => Some (head ++ c_call_self)
        | _ => obind (all params) (fun sp => Some (head ++ [125] ++ sp ++ c_call_end))
        end)
  | NParamValue _ key v =>
      obind (print_tree v) (fun s => Some (c_cparam ++ key ++ [58; 32] ++ s ++ c_call_self))
  | NParamContent _ key content =>
      obind (print_tree content) (fun s => Some (c_cparam ++ key ++ [125] ++ s ++ c_cparam_end))
  | NIf _ conds =>
      (* the i-th condition: {if for i = 0, {else} for a nil Cond, {elseif otherwise *)
      let fix go (first : bool) (l : list node) : option bstr :=
        match l with
        | [] => Some []
        | c :: r =>
            let has_cond := match c with NIfCond _ (Some _) _ => true | _ => false end in
            obind (print_tree c) (fun s =>
            obind (go false r) (fun sr => Some (if_prefix first has_cond ++ s ++ sr)))
        end in
      obind (go true conds) (fun s => Some (s ++ c_if_end))
  | NIfCond _ cond body =>
      obind (match cond with
             | Some c => omap (fun s => s ++ [125]) (print_tree c)
             | None => Some []
             end) (fun sc =>
      obind (print_tree body) (fun sb => Some (sc ++ sb)))
  | NSwitch _ v cases =>
      obind (print_tree v) (fun sv =>
      obind (all cases) (fun sc => Some (c_switch ++ sv ++ [125] ++ sc ++ c_switch_end)))
  | NSwitchCase _ values body =>
      obind (opt_all (map print_tree values)) (fun l =>
      obind (print_tree body) (fun sb => Some (c_case ++ join s_comma l ++ [125] ++ sb)))
  | NFor _ var lst body ifempty =>
      obind (print_tree lst) (fun sl =>
      obind (print_tree body) (fun sb =>
      obind (match ifempty with
             | Some ie => omap (fun s => c_ifempty ++ s) (print_tree ie)
             | None => Some []
             end) (fun se =>
        Some (c_for ++ var ++ c_in ++ sl ++ [125] ++ sb ++ se ++ c_for_end))))
  | NOther _ _ => None
  (* ---- expressions, print commands, directives: Model/AstPrint.v ---- *)
  | _ => print_node n
  end.

(* SoyFileNode.String, ListNode.String *)
Definition print_nodes (l : list node) : option bstr :=
  omap concat_b (opt_all (map print_tree l)).
