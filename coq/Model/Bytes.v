(* Bytes and byte strings.  A Go string / []byte is a [list N] of byte values
   (each < 256 whenever it comes from the harness); a rune is an [N] too. *)
From Coq Require Export List NArith ZArith Bool Lia String Ascii.
Export ListNotations.
(* Strings.String is exported for the literal syntax only; its list-like names
   must not shadow the List ones. *)
Notation length := List.length (only parsing).
Notation concat := List.concat (only parsing).
Open Scope N_scope.
Open Scope list_scope.
#[global] Arguments N.eqb : simpl never.
#[global] Arguments N.leb : simpl never.
#[global] Arguments N.ltb : simpl never.
#[global] Arguments N.add : simpl never.
#[global] Arguments N.sub : simpl never.
#[global] Arguments N.mul : simpl never.
#[global] Arguments N.div : simpl never.
#[global] Arguments N.modulo : simpl never.

Definition byte := N.
Definition bstr := list N.

(* string constants: [b "&amp;"] *)
Fixpoint bytes_of_string (s : string) : bstr :=
  match s with
  | EmptyString => []
  | String a r => N_of_ascii a :: bytes_of_string r
  end.
Notation b := bytes_of_string.

Fixpoint bstr_eqb (x y : bstr) : bool :=
  match x, y with
  | [], [] => true
  | a :: x', c :: y' => (a =? c) && bstr_eqb x' y'
  | _, _ => false
  end.

Fixpoint is_prefix (p s : bstr) : bool :=
  match p, s with
  | [], _ => true
  | a :: p', c :: s' => (a =? c) && is_prefix p' s'
  | _ :: _, [] => false
  end.

Fixpoint drop (n : nat) (s : bstr) : bstr :=
  match n, s with
  | O, _ => s
  | S n', [] => []
  | S n', _ :: s' => drop n' s'
  end.

Fixpoint take (n : nat) (s : bstr) : bstr :=
  match n, s with
  | O, _ => []
  | S n', [] => []
  | S n', a :: s' => a :: take n' s'
  end.

Definition mem (c : N) (l : list N) : bool := existsb (N.eqb c) l.

Fixpoint concat_b (l : list bstr) : bstr :=
  match l with [] => [] | x :: r => x ++ concat_b r end.

Fixpoint assoc {A} (k : N) (l : list (N * A)) : option A :=
  match l with
  | [] => None
  | (k', v) :: r => if k =? k' then Some v else assoc k r
  end.

Fixpoint assoc_s {A} (k : bstr) (l : list (bstr * A)) : option A :=
  match l with
  | [] => None
  | (k', v) :: r => if bstr_eqb k k' then Some v else assoc_s k r
  end.

(* decimal rendering of integers, as strconv.FormatInt(_, 10) *)
Fixpoint dec_digits (fuel : nat) (n : N) (acc : bstr) : bstr :=
  match fuel with
  | O => acc
  | S f => let acc' := (48 + n mod 10) :: acc in
           if n / 10 =? 0 then acc' else dec_digits f (n / 10) acc'
  end.
Definition dec_of_N (n : N) : bstr := dec_digits (S (N.to_nat (N.log2 n))) n [].
Definition dec_of_Z (z : Z) : bstr :=
  match z with
  | Z0 => [48]
  | Zpos p => dec_of_N (Npos p)
  | Zneg p => 45 :: dec_of_N (Npos p)
  end.
