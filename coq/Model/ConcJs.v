(* C09 — JavaScript generation (Model/JsGen.v) and compilation (Model/Compile.v)
   as THREADS of the interleaving model, next to the renderer (Model/ConcRender.v).
   Definitions only.

   In Model/ConcRender.v JavaScript generation and compilation are ARBITRARY
   functions wrapped in an assumed access pattern.  Here they are the models
   themselves:

   * soyjs.Write is [gen_file] of Model/JsGen.v.  Everything it mutates is the
     record [jstate] (output buffers, indentation, buffer name, scope stack,
     name counter, autoescape mode, current node, funcsCalled / funcsInFile):
     memory that Write allocates for the call (s = &state{..}, the two buffers,
     the two maps; state.block's sub-state shares the scope and the maps of its
     parent -- same goroutine).  The syntax tree, the options (formatter,
     message bundle) and the tables PrintDirectives / Funcs are immutable Coq
     values: reads.  The thread reads the file list of the bundle and the
     message bundle and writes its own location.
     Generated/JsGenTrace.v is the same generator (derived mechanically from
     the text of Model/JsGen.v) over a state that also carries a log: one entry
     per look at a tree node (JRdAst pos), per read of the generator's record
     (JRdOwn), per update of it (JWrOwn).  [gen_file_traced] is that generator
     (its result IS gen_file's: Generated/JsGenSim.v, one simulation lemma per
     definition; the log is kept on failing generations too);
     [cjsgen_fine_prog] replays its log access by access.

   * Bundle.Compile of an independent bundle builds a registry that the
     compiling goroutine allocates and that nobody else can reach until Compile
     returns: [cc_steps] writes to the thread's own location, then the result
     [cc_result], of ANY type.  Proofs/ConcCompileInst.v instantiates it with
     Model/Compile.v ([add_all_files] folds [registry_add] from the EMPTY
     registry: one write per registry the fold passes through; the result is
     [compile]).  That file is compiled on every run but is deliberately NOT
     imported here: Model/Compile.v imports the message-id model, and a
     translator failure in the message-id tables must not be charged to C09. *)
From Coq Require Import List Arith Bool.
From Soy Require Import Model.Bytes Model.Values Model.Outcome Model.Ast Model.Interp Model.JsGen Generated.JsGenTrace
  Model.Conc Model.ConcRender.
Import ListNotations.
Open Scope N_scope.

(* ---------------- the traced generator ---------------- *)

(* the generator's record and the log (latest first), as a lens for Generated/JsGenTrace.v *)
Definition tst := (jstate * list jacc)%type.
Definition c09_tlens : jlens :=
  {| l_St := tst;
     l_get := fun s => fst s;
     l_put := fun x s => (x, snd s);
     l_tick := fun a s => (fst s, a :: snd s) |}.

(* result and access trace of soyjs.Write on one file.  The instrumented generator keeps its state when it
   fails, so a failing generation has its trace too: the accesses up to the failure. *)
Definition gen_file_traced (o : jopts) (fuel : nat) (name : bstr) (body : list node) : outcome (list chunk) * list jacc :=
  let '(r, s) := JT.gen_file c09_tlens o (JsGen.jinit_state, []) fuel name body in (r, rev (snd s)).

(* what the log may contain, as a classification: a write to shared memory is not among the
   generator's accesses *)
Definition jacc_shared_write (a : jacc) : bool :=
  match a with JRdAst _ => false | JRdOwn => false | JWrOwn => false end.
Definition jacc_count (t : list jacc) : nat * nat * nat :=
  fold_right (fun a '(r, o, w) => match a with JRdAst _ => (S r, o, w) | JRdOwn => (r, S o, w) | JWrOwn => (r, o, S w) end)
             (0, 0, 0)%nat t.

(* ---------------- threads ---------------- *)

Section Tasks.
Variable CR : Type.                                          (* what a compilation returns *)

(* results *)
Inductive cres :=
| CRRender (r : option render_result)
| CRJs (j : option (outcome (list chunk)))                 (* None = no such file / the store holds no bundle *)
| CRCompiled (v : CR).

Definition cprog := prog rloc sval cres.

Definition render_res (r : tres unit) : cres :=
  match r with RRender _ x => CRRender x | _ => CRRender None end.

Definition crender_prog (rq : creq) : cprog := prog_map render_res (render_prog unit rq).

(* soyjs.Write of file number [file] of the bundle's SoyFiles, at object granularity *)
Definition js_on (o : jopts) (fuel : nat) (file : nat) (vf : sval) : option (outcome (list chunk)) :=
  match vf with
  | SFiles fs => match nth_error fs file with
                 | Some f => Some (JsGen.gen_file o fuel (jf_name f) (jf_body f))
                 | None => None
                 end
  | _ => None
  end.
Definition cjsgen_prog (i : nat) (o : jopts) (fuel : nat) (file : nat) : cprog :=
  Read LFiles (fun vf => Read LMessages (fun _ =>
    match js_on o fuel file vf with
    | Some r => Write (LOwn i) SClobbered (Done (CRJs (Some r)))          (* the generator's state and buffers *)
    | None => Done (CRJs None)
    end)).

(* the same, access by access, from the traced generator *)
Fixpoint replay (i : nat) (t : list jacc) (k : cprog) : cprog :=
  match t with
  | [] => k
  | JRdAst _ :: r => Read LFiles (fun _ => replay i r k)
  | JRdOwn :: r => Read (LOwn i) (fun _ => replay i r k)
  | JWrOwn :: r => Write (LOwn i) SClobbered (replay i r k)
  end.
Definition cjsgen_fine_prog (i : nat) (o : jopts) (fuel : nat) (file : nat) : cprog :=
  Read LFiles (fun vf => Read LMessages (fun _ =>
    match vf with
    | SFiles fs =>
        match nth_error fs file with
        | Some f =>
            let '(r, tr) := gen_file_traced o fuel (jf_name f) (jf_body f) in
            replay i tr (Done (CRJs (Some r)))
        | None => Done (CRJs None)
        end
    | _ => Done (CRJs None)
    end)).

(* Bundle.Compile of an independent bundle: a private computation *)
Fixpoint write_own (i : nat) (vs : list sval) (k : cprog) : cprog :=
  match vs with
  | [] => k
  | v :: r => Write (LOwn i) v (write_own i r k)
  end.

Record ccompile := {
  cc_steps : nat;        (* how many times it updates the registry it is building *)
  cc_result : CR;
}.

Definition ccompile_prog (i : nat) (c : ccompile) : cprog :=
  write_own i (repeat SClobbered (cc_steps c)) (Done (CRCompiled (cc_result c))).

Inductive ctask :=
| CRender (rq : creq)
| CJsGen (o : jopts) (fuel : nat) (file : nat)
| CJsGenFine (o : jopts) (fuel : nat) (file : nat)
| CCompile (c : ccompile).

Definition ctask_prog (i : nat) (t : ctask) : cprog :=
  match t with
  | CRender rq => crender_prog rq
  | CJsGen o fuel file => cjsgen_prog i o fuel file
  | CJsGenFine o fuel file => cjsgen_fine_prog i o fuel file
  | CCompile c => ccompile_prog i c
  end.

Fixpoint cprogs_from (i0 : nat) (ts : list ctask) : list cprog :=
  match ts with
  | [] => []
  | t :: r => ctask_prog i0 t :: cprogs_from (S i0) r
  end.
Definition ctask_progs (ts : list ctask) : list cprog := cprogs_from 0 ts.

(* what task t returns when it is the only thread *)
Definition js_fine_on (o : jopts) (fuel : nat) (file : nat) (vf : sval) : option (outcome (list chunk)) :=
  match vf with
  | SFiles fs => match nth_error fs file with
                 | Some f => Some (fst (gen_file_traced o fuel (jf_name f) (jf_body f)))
                 | None => None
                 end
  | _ => None
  end.
Definition ctask_alone (t : ctask) (s : store rloc sval) : cres :=
  match t with
  | CRender rq => CRRender (render_alone rq s)
  | CJsGen o fuel file => CRJs (js_on o fuel file (s LFiles))
  | CJsGenFine o fuel file => CRJs (js_fine_on o fuel file (s LFiles))
  | CCompile c => CRCompiled (cc_result c)
  end.
End Tasks.
Arguments CRRender {CR} r.
Arguments CRJs {CR} j.
Arguments CRCompiled {CR} v.
Arguments CRender {CR} rq.
Arguments CJsGen {CR} o fuel file.
Arguments CJsGenFine {CR} o fuel file.
Arguments CCompile {CR} c.
Arguments cc_steps {CR} c.
Arguments cc_result {CR} c.
Arguments Build_ccompile {CR} cc_steps cc_result.
Arguments ctask_prog {CR} i t.
Arguments ctask_progs {CR} ts.
Arguments cprogs_from {CR} i0 ts.
Arguments ctask_alone {CR} t s.
Arguments ccompile_prog {CR} i c.
Arguments replay {CR} i t k.
Arguments write_own {CR} i vs k.


(* a compiled bundle in the store: registry, files, configuration, messages, caller's maps *)
Definition bundle_store_files (reg : registry) (fs : list jfile) (oblig : list bstr) (msgs : option msg_bundle) (h : cheap)
  : store rloc sval :=
  fun l => match l with
           | LFiles => SFiles fs
           | _ => bundle_store reg oblig msgs h l
           end.
