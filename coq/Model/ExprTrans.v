(* C01: the tree the parser builds for a Spec expression (ast/node.go node types), with
   every position 0, and the side conditions under which a Spec expression has a concrete
   syntax.  [to_node] is tied to the real parser by the C01 harness (the AST parse.go builds
   from the generated source text is compared with it, positions and the quoted source of
   string literals erased).  Definitions only. *)
From Soy Require Import Model.Bytes Model.Num Model.Values Model.Outcome Model.Ast Model.AstPrint Model.Interp Spec.Expr.
Open Scope N_scope.

Definition binop_of (op : bop) : binop :=
  match op with
  | BMul => OMul | BDiv => ODiv | BMod => OMod | BAdd => OAdd | BSub => OSub
  | BLt => OLt | BGt => OGt | BLe => OLte | BGe => OGte
  | BEq => OEq | BNe => ONotEq | BAnd => OAnd | BOr => OOr
  end.

Section Trans.
Variable G : list (bstr * value).

Fixpoint to_node (e : expr) : node :=
  match e with
  | ENull => NNull 0
  | EBool x => NBool 0 x
  | EInt z => NInt 0 z
  | EFloat f => NFloat 0 f
  | EStr s => NString 0 (quote_key s) s         (* the quoted source text: the walker never looks at it *)
  | EList es => NListLit 0 (map to_node es)
  | EMap kvs => NMapLit 0 (map (fun kv => (fst kv, to_node (snd kv))) kvs)
  | EGlobal name => NGlobal 0 name (match assoc_s name G with Some v => v | None => VUndef end)
  | ERef key accs => NDataRef 0 key (map acc_node accs)
  | EIj accs => NDataRef 0 s_ij (map acc_node accs)
  | ECall f args => NFunc 0 (fn_name f) (map to_node args)
  | ENeg a => NNeg 0 (to_node a)
  | ENot a => NNot 0 (to_node a)
  | EBin op a c => NBin (binop_of op) 0 (to_node a) (to_node c)
  | EElvis a c => NBin OElvis 0 (to_node a) (to_node c)
  | ETern c a d => NTern 0 (to_node c) (to_node a) (to_node d)
  end
with acc_node (a : access) : node :=
  match a with
  | AKey ns k => NAccKey 0 ns k
  | AIdx ns i => NAccIndex 0 ns i
  | AExpr ns e => NAccExpr 0 ns (to_node e)
  end.
End Trans.

(* parsepasses.SetNodeGlobals on expression nodes: every global node receives its value.
   The parser builds to_node [] e (globals unresolved); the compiled tree is to_node G e. *)
Fixpoint set_globals (G : list (bstr * value)) (n : node) : node :=
  match n with
  | NGlobal p name _ => NGlobal p name (match assoc_s name G with Some v => v | None => VUndef end)
  | NFunc p name args => NFunc p name (map (set_globals G) args)
  | NListLit p items => NListLit p (map (set_globals G) items)
  | NMapLit p items => NMapLit p (map (fun kv => (fst kv, set_globals G (snd kv))) items)
  | NDataRef p key acc => NDataRef p key (map (set_globals G) acc)
  | NAccExpr p ns a => NAccExpr p ns (set_globals G a)
  | NNot p a => NNot p (set_globals G a)
  | NNeg p a => NNeg p (set_globals G a)
  | NBin op p a c => NBin op p (set_globals G a) (set_globals G c)
  | NTern p c a d => NTern p (set_globals G c) (set_globals G a) (set_globals G d)
  | other => other
  end.

(* nesting depth: the recursion budget the tree walker needs *)
Definition max_list (l : list nat) : nat := fold_right Nat.max 0%nat l.

Fixpoint height (e : expr) : nat :=
  match e with
  | EList es => S (max_list (map height es))
  | EMap kvs => S (max_list (map (fun kv => height (snd kv)) kvs))
  | ERef _ accs | EIj accs => S (max_list (map acc_height accs))
  | ECall _ args => S (max_list (map height args))
  | ENeg a | ENot a => S (height a)
  | EBin _ a c | EElvis a c => S (Nat.max (height a) (height c))
  | ETern c a d => S (Nat.max (height c) (Nat.max (height a) (height d)))
  | _ => 1%nat
  end
with acc_height (a : access) : nat :=
  match a with
  | AExpr _ e => height e
  | _ => 0%nat
  end.

(* a Spec expression that has a concrete syntax and compiles: the keys of a map literal are
   distinct, a referenced global is defined, "$ij" is written EIj *)
Section Wf.
Variable G : list (bstr * value).

Fixpoint distinct (ks : list bstr) : bool :=
  match ks with
  | [] => true
  | k :: r => negb (existsb (bstr_eqb k) r) && distinct r
  end.

Fixpoint wf_expr (e : expr) : bool :=
  match e with
  | EList es => forallb wf_expr es
  | EMap kvs => distinct (map fst kvs) && forallb (fun kv => wf_expr (snd kv)) kvs
  | EGlobal name => match assoc_s name G with Some _ => true | None => false end
  | ERef key accs => negb (bstr_eqb key s_ij) && forallb wf_access accs
  | EIj accs => forallb wf_access accs
  | ECall _ args => forallb wf_expr args
  | ENeg a | ENot a => wf_expr a
  | EBin _ a c | EElvis a c => wf_expr a && wf_expr c
  | ETern c a d => wf_expr c && wf_expr a && wf_expr d
  | _ => true
  end
with wf_access (a : access) : bool :=
  match a with
  | AExpr _ e => wf_expr e
  | _ => true
  end.
End Wf.

(* the scope stack of the walker, flattened: bindings from the deepest frame outwards *)
Definition flatten (s : scope) : list (bstr * value) := concat (map f_vars s).

(* evaluate [to_node e] with the tree walker in a state whose scope is one frame holding
   [env]; returns the outcome and the next identity *)
Definition impl_eval (G : list (bstr * value)) (env : list (bstr * value)) (ij : option value) (fuel : nat)
           (e : expr) (n : N) : outcome (value * N) :=
  let cf := {| c_reg := empty_registry; c_ij := ij; c_oblig := []; c_msgs := None |} in
  let st0 := init_state [{| f_vars := env; f_entered := true; f_origin := OFresh |}] 0 [] None None n in
  match walk cf fuel (to_node G e) st0 with
  | (Ok v, st) => Ok (v, next_id st)
  | (Err m, _) => Err m
  | (Crash m, _) => Crash m
  | (Diverge, _) => Diverge
  | (OutOfFuel, _) => OutOfFuel
  | (OutOfModel, _) => OutOfModel
  end.
