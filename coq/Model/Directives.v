(* soyhtml/directives.go on the String() image of the value.  Definitions only. *)
From Soy Require Import Model.Bytes Model.Utf8 Model.Outcome Model.Escape.
Open Scope N_scope.

Definition wbr : bstr := Eval vm_compute in b "<wbr>".
Definition br : bstr := Eval vm_compute in b "<br>".
Definition dots : bstr := Eval vm_compute in b "...".
(* Go function names as byte strings (precomputed so that no Coq [string] is extracted) *)
Definition fn_NoAutoescape := Eval vm_compute in b "directiveNoAutoescape".
Definition fn_EscapeHtml := Eval vm_compute in b "directiveEscapeHtml".
Definition fn_ChangeNewlineToBr := Eval vm_compute in b "directiveChangeNewlineToBr".
Definition fn_EscapeUri := Eval vm_compute in b "directiveEscapeUri".
Definition fn_InsertWordBreaks := Eval vm_compute in b "directiveInsertWordBreaks".
Definition fn_Truncate := Eval vm_compute in b "directiveTruncate".
Definition e_type := Eval vm_compute in b "type assertion".
Definition e_index := Eval vm_compute in b "index".
Definition e_notmodelled := Eval vm_compute in b "not modelled".

Definition esc1 (c : N) : bstr := match tmpl_entity c with Some e => e | None => [c] end.

(* directiveInsertWordBreaks: walk the runes of the input; a space resets the
   count; when [chars >= maxChars] a <wbr> is written before the rune; each
   rune is written HTML-escaped.  [skip] = remaining bytes of the current rune. *)
Fixpoint iwb_aux (maxc chars : Z) (skip : nat) (s : bstr) : bstr :=
  match s with
  | [] => []
  | c :: r =>
      match skip with
      | S k => esc1 c ++ iwb_aux maxc chars k r
      | O =>
          let w := rune_width s in
          if c =? 32 then esc1 c ++ iwb_aux maxc 0%Z (pred w) r
          else if (chars >=? maxc)%Z then wbr ++ esc1 c ++ iwb_aux maxc 1%Z (pred w) r
          else esc1 c ++ iwb_aux maxc (chars + 1)%Z (pred w) r
      end
  end.
Definition insert_word_breaks (s : bstr) (maxc : Z) : bstr := iwb_aux maxc 0%Z 0 s.

(* directiveChangeNewlineToBr: \r\n|\r|\n -> <br> on the escaped text *)
Fixpoint nl2br (s : bstr) : bstr :=
  match s with
  | [] => []
  | c :: r =>
      if c =? 13 then
        match r with
        | c2 :: r2 => if c2 =? 10 then br ++ nl2br r2 else br ++ nl2br r
        | [] => br
        end
      else if c =? 10 then br ++ nl2br r
      else c :: nl2br r
  end.
Definition change_newline_to_br (s : bstr) : bstr := nl2br (tmpl_html_escape s).

(* directiveTruncate *)
Fixpoint back_to_rune_start (fuel : nat) (s : bstr) (n : Z) : outcome Z :=
  (* for !utf8.RuneStart(str[n]) { n-- } ; str[n] with n<0 or n>=len panics *)
  if (n <? 0)%Z then Err e_index else
  match nth_error s (Z.to_nat n) with
  | None => Err e_index
  | Some c =>
      if rune_start c then Ok n else
      match fuel with
      | O => OutOfFuel
      | S f => back_to_rune_start f s (n - 1)%Z
      end
  end.

Definition truncate (s : bstr) (maxLen : Z) (ellipsis : bool) : outcome bstr :=
  if (Z.of_nat (length s) <=? maxLen)%Z then Ok s else
  let '(maxLen, ellipsis) :=
    if ellipsis then (if (maxLen >? 3)%Z then ((maxLen - 3)%Z, true) else (maxLen, false))
    else (maxLen, false) in
  n <- back_to_rune_start (length s) s maxLen ;;
  Ok (take (Z.to_nat n) s ++ (if ellipsis then dots else [])).

(* url.QueryEscape *)
Definition hexdigit (n : N) : N := if n <? 10 then 48 + n else 55 + n.   (* upper case *)
Definition uri_unreserved (c : N) : bool :=
  in_range 65 90 c || in_range 97 122 c || in_range 48 57 c || mem c [45; 95; 46; 126].
Fixpoint escape_uri (s : bstr) : bstr :=
  match s with
  | [] => []
  | c :: r =>
      if uri_unreserved c then c :: escape_uri r
      else if c =? 32 then 43 :: escape_uri r
      else 37 :: hexdigit (c / 16) :: hexdigit (c mod 16) :: escape_uri r
  end.

(* ---- directive application as evalPrint drives it ---- *)
Inductive darg := DInt (z : Z) | DBool (x : bool) | DOther.

Definition fn_is (fn name : bstr) : bool := bstr_eqb fn name.

(* [fn] is the Go function bound in the PrintDirectives table (regenerated);
   the value is represented by its String() image.  Functions without a model here
   (directiveEscapeJsString, directiveJson: Model/JsEscape.v is not wired in) answer
   [OutOfModel]: whatever they do happens inside evalPrint's recover wrapper, so it is
   a value or an [Err], never a panic that reaches the caller ([Crash]). *)
Definition apply_fn (fn : bstr) (args : list darg) (s : bstr) : outcome bstr :=
  if fn_is fn fn_NoAutoescape then Ok s
  else if fn_is fn fn_EscapeHtml then Ok (tmpl_html_escape s)
  else if fn_is fn fn_ChangeNewlineToBr then Ok (change_newline_to_br s)
  else if fn_is fn fn_EscapeUri then Ok (escape_uri s)
  else if fn_is fn fn_InsertWordBreaks then
    match args with
    | DInt n :: _ => Ok (insert_word_breaks s n)
    | _ => Err e_type
    end
  else if fn_is fn fn_Truncate then
    match args with
    | [DInt n] => truncate s n true
    | [DInt n; DBool e] => truncate s n e
    | [DInt n; _] =>           (* the ellipsis argument is type-checked only when the value does not fit *)
        if (Z.of_nat (length s) <=? n)%Z then Ok s else Err e_type
    | _ => Err e_type
    end
  else OutOfModel.
