(* parse/quote.go: unquoteString and quoteString.  The escape table is regenerated from the Go
   source (Generated/Tables.v unescapes_table).  Definitions only. *)
From Soy Require Import Model.Bytes Model.Utf8 Model.NumLit Generated.Tables.
Open Scope N_scope.

Definition unescape_of (r : N) : option N := assoc r unescapes_table.

(* escapes: the inverse map, built by init() *)
Definition escapes_table : list (N * N) := map (fun p => (snd p, fst p)) unescapes_table.
Definition escape_of (r : N) : option N := assoc r escapes_table.

Definition q_quote : N := 39.       (* ' *)
Definition q_backslash : N := 92.

(* string([]rune{...}) *)
Definition string_of_runes (l : list N) : bstr := concat_b (map encode_rune l).

(* func quoteString(s string) string *)
Fixpoint quote_runes (l : list N) : list N :=
  match l with
  | [] => []
  | ch :: r =>
      match escape_of ch with
      | Some seq => q_backslash :: seq :: quote_runes r
      | None => ch :: quote_runes r
      end
  end.
Definition quote_string (s : bstr) : bstr :=
  string_of_runes (q_quote :: quote_runes (runes s) ++ [q_quote]).

(* the decoding loop of unquoteString; [acc] holds the result runes in reverse.
   Each iteration consumes at least one byte, so fuel = length s + 1 suffices. *)
Fixpoint unquote_loop (fuel : nat) (s : bstr) (escaping : bool) (acc : list N) : option (list N) :=
  match fuel with
  | O => None
  | S f =>
      match s with
      | [] => Some (rev acc)
      | _ =>
          let '(r, size) := decode_rune s in
          let s1 := drop size s in
          let step (r : N) (s2 : bstr) : option (list N) :=
            let escaping' := (r =? q_backslash) && negb escaping in
            unquote_loop f s2 escaping' (if escaping' then acc else r :: acc) in
          if escaping then
            if r =? 117 (* u *) then
              if (length s1 <? 4)%nat then None
              else
                match parse_int 16 (take 4 s1) with
                | None => None
                | Some num =>
                    (* rune(num); a negative rune is encoded as U+FFFD by string() *)
                    step (match num with Zneg _ => rune_error | _ => Z.to_N num end) (drop 4 s1)
                end
            else
              match unescape_of r with
              | None => None
              | Some repl => step repl s1
              end
          else step r s1
      end
  end.

Fixpoint last_byte (s : bstr) : option N :=
  match s with
  | [] => None
  | [c] => Some c
  | _ :: r => last_byte r
  end.

(* func unquoteString(s string) (string, error): [None] is err != nil *)
Definition unquote_string (s : bstr) : option bstr :=
  match s with
  | c0 :: (_ :: _) as r =>
      if (c0 =? q_quote) && (match last_byte r with Some c => c =? q_quote | None => false end) then
        let body := removelast r in
        if negb (mem q_backslash body) && negb (mem q_quote body) then Some body
        else
          match unquote_loop (S (length body)) body false [] with
          | Some l => Some (string_of_runes l)
          | None => None
          end
      else None
  | _ => None
  end.
