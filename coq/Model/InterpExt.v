(* soyhtml with the user-extensible registries populated (C08: "for every configuration of the user-extensible
   registries"): soyhtml.Funcs and soyhtml.PrintDirectives are package-level Go maps that a program may add to (or
   overwrite entries of) before rendering.  Model/Interp.v knows the functions and directives of the library
   (tables regenerated from funcs.go / directives.go); here the walker is extended, by open recursion over
   [walk_body], with the entries a program installed:

     [ux_func name = Some (arities, f)]   Funcs[name] = Func{Apply: f, ValidArgLengths: arities}
     [ux_dir name = Some (arities, (cancel, f))]
                                          PrintDirectives[name] = PrintDirective{f, arities, cancel}

   CONTRACT of an installed function or directive (the assumption under which C08 can hold at all -- the Go
   value is arbitrary code): it returns a value (or panics, which evalFunc / evalPrint recover into an error) that
   is a function of its arguments; it may read them; it does not write to them, nor to anything else a render can
   reach.  That is exactly what a Gallina function [list value -> outcome _] is.  A function that allocates its
   result (a list or a map) says so ([FNewList] / [FNewMap]): the walker gives it a fresh identity.

   An installed entry takes precedence over a library entry of the same name (a Go map has one value per key);
   the loop functions index / isFirst / isLast live in the unexported map loopFuncs, which evalFunc consults first.
   Every other node -- and a print without any installed directive -- is [walk_body] itself.

   The MESSAGE BUNDLE (Renderer.WithMessages): Model/Interp.v renders without one.  Here evalMsg with a bundle that
   has a translation of the message goes through evalMsgParts: raw text written, a placeholder looked up in the
   {msg} node by name and its body walked, a plural part: the {plural} node of that variable, its value evaluated,
   PluralCase, the parts of that form.  The bundle is [c_msgs cf] ([msg_bundle]: parts as nodes -- NRawText,
   NIdent name = PlaceholderPart, NMsgPlural var _ forms _ = PluralPart with NMsgPluralCase _ _ parts per form;
   PluralCase as a table on the integers with a default).  A message id 0 is never looked up (the synthetic node
   of the untranslated plural path carries it).  Definitions only. *)
From Soy Require Import Model.Bytes Model.Num Model.Values Model.Outcome Model.Ast
  Model.Escape Model.Directives Model.Print Generated.Tables Model.Interp.
Open Scope N_scope.

Record user_ext := {
  ux_func : bstr -> option (list N * (list value -> outcome fres));
  ux_dir : bstr -> option (list N * (bool * (value -> list value -> outcome value)));
}.

Definition no_ext : user_ext := {| ux_func := fun _ => None; ux_dir := fun _ => None |}.

Section WalkX.
Variable cf : cfg.
Variable ux : user_ext.

(* PrintDirectives[name] with the installed entries: arities, CancelAutoescape, Apply on the VALUE being printed
   (a library directive takes its String() image and returns a string; |id and |noAutoescape return a string
   with the same image) *)
Definition dir_entry_x (name : bstr) : option (list N * (bool * (value -> list value -> outcome value))) :=
  match ux_dir ux name with
  | Some e => Some e
  | None =>
      match lookup_directive name with
      | Some (ar, (cancel, (nilapply, fn))) =>
          Some (ar, (cancel, fun v vs =>
                               if nilapply then Err e_nilapply
                               else s <- value_string v ;; s' <- apply_fn fn (map darg_of vs) s ;; Ok (VStr s')))
      | None => None
      end
  end.

Definition dir_name (d : node) : bstr := match d with NDirective _ name _ => name | _ => [] end.
Definition is_installed_dir (name : bstr) : bool := match ux_dir ux name with Some _ => true | None => false end.
(* does evalPrint on this node meet an installed directive (its own or an obligatory one)? *)
Definition print_uses_installed (dirs : list node) : bool :=
  existsb is_installed_dir (map dir_name dirs ++ c_oblig cf).

Section BodyX.
Variable w : node -> M value.

Fixpoint apply_directives_x (dirs : list (bstr * list value)) (v : value) (esc : bool) : outcome (value * bool) :=
  match dirs with
  | [] => Ok (v, esc)
  | (name, args) :: rest =>
      match dir_entry_x name with
      | None => Err e_nodirective
      | Some (arglens, (cancel, f)) =>
          if negb (check_num_args arglens (length args)) then Err e_arity
          else v' <- f v args ;; apply_directives_x rest v' (esc && negb cancel)
      end
  end.

(* as [print_dirs]: one directive at a time -- name and arity checked, its arguments evaluated, the directive applied
   to the result so far [v] before the next one is looked at; the list returned is applied again (the applications
   are functions of their arguments) by [print_writes_x], which adds the obligatory directives and the escaping *)
Fixpoint print_dirs_x (l : list node) (v : value) : M (list (bstr * list value)) :=
  match l with
  | [] => ret (map (fun nm => (nm, @nil value)) (c_oblig cf))
  | NDirective _ name args :: r =>
      match dir_entry_x name with
      | None => fail e_nodirective
      | Some (arglens, _) =>
          if negb (check_num_args arglens (length args)) then fail e_arity
          else vs <-- eval_list w args ;;;
               v1 <-- lift (apply_directives_x [(name, vs)] v false) ;;;
               rest <-- print_dirs_x r (fst v1) ;;;
               ret ((name, vs) :: rest)
      end
  | _ :: _ => fail e_unknown
  end.

Definition print_writes_x (mode : N) (dirs : list (bstr * list value)) (v : value) : outcome (list bstr) :=
  '(v', esc) <- apply_directives_x dirs v (negb (mode =? 2)) ;;
  s <- value_string v' ;;
  Ok (if esc then esc_writes [] s else [s]).

Definition print_x (arg : node) (dirs : list node) : M value :=
  v <-- w arg ;;;
  match v with
  | VUndef => fail e_undefined
  | _ =>
      ds <-- print_dirs_x dirs v ;;;
      ws <-- (st <-- get ;;; lift (print_writes_x (mode st) ds v)) ;;;
      _ <-- write_all ws ;;; ret VUndef
  end.

(* ---- evalMsg with a translation ---- *)

(* MsgNode.Placeholder(name): the body of the first placeholder node with that name, BREADTH FIRST over Children()
   as the Go code (a queue: a node is popped; a placeholder is compared -- and never descended into; any other
   parent node appends its children).  Children(): of a {plural} its value, its cases, its default (a ListNode);
   of a case its body (a ListNode); of a ListNode its nodes.  So the placeholders of the DEFAULT of a plural (two
   levels below it) are met before those of its cases (three levels).  Same-named placeholders of one message
   have the same content but not the same position: which one is walked shows in the line of an error.  Written
   level by level (a queue visits the nodes of depth d, in order, before those of depth d+1; the order within a
   level is that of the parents): [mx_ph_first] searches one level, [mx_ph_next] is the next level.  Node kinds
   other than those four have no placeholder below them in a message the parser builds; they end the descent. *)
Definition mx_ph_children (n : node) : list node :=
  match n with
  | NMsgPlural _ _ pv cases dflt => pv :: cases ++ [NList 0 dflt]
  | NMsgPluralCase _ _ body => [NList 0 body]
  | NList _ l => l
  | _ => []
  end.
Fixpoint mx_ph_first (name : bstr) (q : list node) : option node :=
  match q with
  | [] => None
  | NMsgPlaceholder _ nm body :: r => if bstr_eqb nm name then Some body else mx_ph_first name r
  | _ :: r => mx_ph_first name r
  end.
Definition mx_ph_next (q : list node) : list node := flat_map mx_ph_children q.
Fixpoint mx_ph_bfs (levels : nat) (name : bstr) (q : list node) : option node :=
  match mx_ph_first name q with
  | Some body => Some body
  | None =>
      match levels, q with
      | S k, _ :: _ => mx_ph_bfs k name (mx_ph_next q)
      | _, _ => None
      end
  end.
(* the number of levels below a node (in the sense of [mx_ph_children]) *)
Fixpoint mx_ph_height (n : node) : nat :=
  match n with
  | NMsgPlural _ _ _ cases dflt => 2 + Nat.max (list_max (map mx_ph_height cases)) (list_max (map mx_ph_height dflt))
  | NMsgPluralCase _ _ body => 2 + list_max (map mx_ph_height body)
  | NList _ l => 1 + list_max (map mx_ph_height l)
  | _ => 1
  end.
Definition msg_placeholder (name : bstr) (body : list node) : option node :=
  mx_ph_bfs (list_max (map mx_ph_height body)) name body.

(* findPluralNode: a top-level {plural} of the message with that variable name; its value expression *)
Fixpoint find_plural_value (varname : bstr) (body : list node) : option node :=
  match body with
  | [] => None
  | NMsgPlural _ vn pv _ _ :: r => if bstr_eqb vn varname then Some pv else find_plural_value varname r
  | _ :: r => find_plural_value varname r
  end.

Fixpoint assoc_zn (k : Z) (l : list (Z * N)) : option N :=
  match l with [] => None | (k', v) :: r => if (k =? k')%Z then Some v else assoc_zn k r end.
Definition plural_case (mb : msg_bundle) (i : Z) : N :=
  match assoc_zn i (mb_plural mb) with Some k => k | None => mb_plural_default mb end.

(* evalMsgParts, one part *)
Fixpoint msg_part (mb : msg_bundle) (body : list node) (part : node) {struct part} : M unit :=
  match part with
  | NRawText _ text => write text
  | NIdent _ name =>
      match msg_placeholder name body with
      | Some ph => _ <-- w ph ;;; ret tt
      | None => fail e_placeholder
      end
  | NMsgPlural _ varname _ forms _ =>
      match find_plural_value varname body with
      | None => fail e_placeholder
      | Some pv =>
          v <-- eval w pv ;;;
          match v with
          | VInt i =>
              let runs := map (fun c => match c with
                                        | NMsgPluralCase _ _ parts =>
                                            Some ((fix go (l : list node) : M unit :=
                                                     match l with
                                                     | [] => ret tt
                                                     | x :: r => _ <-- msg_part mb body x ;;; go r
                                                     end) parts)
                                        | _ => None
                                        end) forms in
              match nth_error runs (N.to_nat (plural_case mb i)) with
              | Some (Some m) => m
              | Some None => fail e_unknown
              | None => fail e_plural          (* plural case index out of bounds *)
              end
          | _ => fail e_plural
          end
      end
  | _ => ret tt                                (* the type switch over parts has no default *)
  end.
Fixpoint msg_parts (mb : msg_bundle) (body : list node) (parts : list node) : M unit :=
  match parts with
  | [] => ret tt
  | x :: r => _ <-- msg_part mb body x ;;; msg_parts mb body r
  end.

(* the translation of a message, if evalMsg takes that path *)
Definition msg_translation (id : N) : option (msg_bundle * list node) :=
  if id =? 0 then None
  else match c_msgs cf with
       | Some mb => match assoc id (mb_msgs mb) with Some parts => Some (mb, parts) | None => None end
       | None => None
       end.

(* evalFunc on an installed function: arity, the arguments in order, Apply; a nil result is Null (the Go code);
   an allocated result gets a fresh identity *)
Definition call_func_x (ar : list N) (f : list value -> outcome fres) (args : list node) : M value :=
  if negb (mem (N.of_nat (length args)) ar) then fail e_arity
  else
    vs <-- eval_list w args ;;;
    r <-- lift (f vs) ;;;
    match r with
    | FVal v => ret v
    | FNewList l => fresh_list_or_nil l
    | FNewMap m => fresh_map m
    end.

Definition walk_body_x (n : node) : M value :=
  match n with
  | NFunc p name args =>
      if fn_is name n_index || fn_is name n_isFirst || fn_is name n_isLast then walk_body cf w n
      else match ux_func ux name with
           | Some (ar, f) => _ <-- modify (fun st => set_cur st p) ;;; call_func_x ar f args
           | None => walk_body cf w n
           end
  | NPrint p arg dirs =>
      if print_uses_installed dirs
      then _ <-- modify (fun st => set_cur st p) ;;; print_x arg dirs
      else walk_body cf w n
  | NMsg p id _ _ body =>
      match msg_translation id with
      | Some (mb, parts) => _ <-- modify (fun st => set_cur st p) ;;; _ <-- msg_parts mb body parts ;;; ret VUndef
      | None => walk_body cf w n
      end
  | _ => walk_body cf w n
  end.
End BodyX.

Fixpoint walk_x (fuel : nat) (n : node) {struct fuel} : M value :=
  match fuel with
  | O => lift OutOfFuel
  | S fuel' => walk_body_x (walk_x fuel') n
  end.
End WalkX.

(* renderer.go Execute over the extended walker: [Interp.render] with [walk_x] for [walk] *)
Definition render_x (cf : cfg) (ux : user_ext) (fuel : nat) (name : bstr) (data_id : N) (data : list (bstr * value))
           (cl : option nat) (bl : option N) (first_id : N) : render_result :=
  match find_template (r_templates (c_reg cf)) name with
  | None => {| rr_outcome := Err e_notemplate; rr_writes := []; rr_file := []; rr_line := 0; rr_unbound := 0; rr_shared_writes := [] |}
  | Some t =>
      let st0 := init_state (sc_enter (new_scope data_id data)) (entry_mode (t_ns_autoescape t)) name cl bl first_id in
      let '(r, st) := walk_x cf ux fuel (t_node t) st0 in
      let mk o file line := {| rr_outcome := o; rr_writes := rev (out st); rr_file := file; rr_line := line;
                               rr_unbound := unbound st; rr_shared_writes := shared_writes st |} in
      match r with
      | Ok _ => mk (Ok tt) [] 0
      | Err m =>
          match assoc_s name (r_sources (c_reg cf)), assoc_s name (r_files (c_reg cf)) with
          | Some src, Some file =>
              match line_number src (cur st) with
              | Some l => mk (Err m) file l
              | None => mk (Crash e_index) [] 0
              end
          | _, _ => mk (Err m) [] 0
          end
      | Crash m => mk (Crash m) [] 0
      | Diverge => mk Diverge [] 0
      | OutOfFuel => mk OutOfFuel [] 0
      | OutOfModel => mk OutOfModel [] 0
      end
  end.

(* ------------------------------------------------------------------ *)
(* the installation the C08 harness makes (go/cmd/soyverif/c08.go c08Install), so that the extended walker is
   compared with the implementation under a populated configuration:
     PrintDirectives["verifBang"] = {Apply: v -> String(v.String() + "!"), ValidArgLengths: {0}}
     Funcs["verifTwice"] = {Apply: args -> n, _ := args[0].(Int); Int(2 * n), {1}}
     Funcs["verifSame"]  = {Apply: args -> args[0], {1}}     (hands back its argument: a map stays the caller's) *)
Definition n_verifBang := Eval vm_compute in b "verifBang".
Definition n_verifTwice := Eval vm_compute in b "verifTwice".
Definition n_verifSame := Eval vm_compute in b "verifSame".

Definition ux_harness (with_dir with_funcs : bool) : user_ext :=
  {| ux_func := fun name =>
       if with_funcs && bstr_eqb name n_verifTwice then
         Some ([1], fun vs => match vs with
                              | VInt n :: _ => Ok (FVal (VInt (wrap64 (2 * n))))
                              | _ :: _ => Ok (FVal (VInt 0))
                              | [] => Err e_index
                              end)
       else if with_funcs && bstr_eqb name n_verifSame then
         Some ([1], fun vs => match vs with v :: _ => Ok (FVal v) | [] => Err e_index end)
       else None;
     ux_dir := fun name =>
       if with_dir && bstr_eqb name n_verifBang then
         Some ([0], (false, fun v _ => s <- value_string v ;; Ok (VStr (s ++ [33]))))
       else None |}.
