(* C04: the JavaScript EXPRESSIONS the generator emits, with a semantics.

   [jexpr] is the abstract syntax of that subset, with one constructor per
   print form of soyjs/exec.go (so that [jprint] gives exactly the chunks of
   Model/JsGen.v); [js_eval] is its meaning on an idealised JavaScript:
   numbers are integers and an arithmetic result beyond 2^53 is OutOfModel,
   objects are association lists without a prototype chain, member / index
   access on null or undefined is a TypeError, == is defined on operands of
   the same primitive kind and on null/undefined only, + on number+number,
   string+string and string/number mixtures (anything else is OutOfModel:
   outside the subset the statement talks about).

   [cexpr] is the Soy side of the common subset, [cnode] embeds it into
   Model/Ast.node, [cgen] is the generator restricted to it, [ceval] the Soy
   meaning restricted to it (proved equal to Model/Interp.v's walker in
   Proofs/MiniJSProofs.v).  Definitions only. *)
From Soy Require Import Model.Bytes Model.Num Model.Values Model.Outcome Model.Ast Model.JsGen Model.Escape.
Open Scope N_scope.

(* ---- values ---- *)
Inductive jval :=
| JUndef | JNull
| JBool (x : bool)
| JNum (z : Z)
| JStr (s : bstr)
| JArr (l : list jval)
| JObj (m : list (bstr * jval)).

Fixpoint to_js (v : value) : jval :=
  match v with
  | VUndef => JUndef
  | VNull => JNull
  | VBool x => JBool x
  | VInt z => JNum z
  | VFloat _ => JUndef            (* floats are outside the subset: [core_value] excludes them *)
  | VStr s => JStr s
  | VList _ l => JArr (map to_js l)
  | VMap _ m => JObj (map (fun kv => (fst kv, to_js (snd kv))) m)
  end.

Definition small (z : Z) : bool := (Z.abs z <=? two53)%Z.

(* data both backends can hold: no floats, integers within 2^53 *)
Fixpoint core_value (v : value) : bool :=
  match v with
  | VFloat _ => false
  | VInt z => small z
  | VList _ l => forallb core_value l
  | VMap _ m => forallb (fun kv => core_value (snd kv)) m
  | _ => true
  end.

(* ---- expressions ---- *)
Inductive jbin := JAdd | JSub | JMul | JDiv | JMod | JLt | JLe | JGt | JGe | JEq | JNe | JAnd | JOr.

Inductive jexpr :=
| JENull | JEBool (x : bool) | JENum (z : Z) | JEStr (s : bstr)
| JEIj                                         (* opt_ijData *)
| JEVar (name : bstr)                          (* a generated variable *)
| JEParam (key : bstr)                         (* opt_data.key *)
| JEMember (e : jexpr) (key : bstr)            (* e.key *)
| JEIndex (e : jexpr) (i : Z)                  (* e[i] *)
| JENullSafe (test rest : jexpr)               (* ((test == null) ? null : rest) *)
| JEBin (op : jbin) (a c : jexpr)              (* ((a) op (c)) *)
| JENeg (a : jexpr)                            (* (-(a)) *)
| JENot (a : jexpr)                            (* !(a) *)
| JECond (c a d : jexpr)                       (* ((c) ?a:d) *)
| JEElvis (a c : jexpr)                        (* ((a) != null ? a : c) *)
| JEEscapeHtml (a : jexpr)                     (* soy.$$escapeHtml(a) *)
| JEIsFirst (ix : bstr)                        (* (ix == 0) *)
| JEIsLast (ix lim : bstr).                    (* (ix == lim - 1) *)

Definition jbin_sym (o : jbin) : bstr :=
  match o with
  | JAdd => [43] | JSub => [45] | JMul => [42] | JDiv => [47] | JMod => [37]
  | JLt => [60] | JLe => [60; 61] | JGt => [62] | JGe => [62; 61]
  | JEq => [61; 61] | JNe => [33; 61] | JAnd => [38; 38] | JOr => [124; 124]
  end.

(* the printer: the chunks exec.go writes for each form.  A null-safe chain
   is printed as exec.go writes it: the tests first, each opening a
   parenthesis, then the reference, then the closing parentheses; [jprint_ref]
   prints a reference without tests. *)
Fixpoint jprint (e : jexpr) : list chunk :=
  match e with
  | JENull => [CText t_null]
  | JEBool x => [CText (if x then t_true else t_false)]
  | JENum z => [CNum (dec_of_Z z)]
  | JEStr s => [CStrLit 39 s]
  | JEIj => [CText t_opt_ij]
  | JEVar name => [CName name]
  | JEParam key => [CText t_opt_data_dot; CName key]
  | JEMember a key => jprint a ++ [CText t_dot; CName key]
  | JEIndex a i => jprint a ++ [CText t_lbrack; CNum (dec_of_Z i); CText t_rbrack]
  | JENullSafe t r => [CText t_op_open] ++ jprint t ++ [CText t_nullsafe] ++ jprint r ++ [CText t_rpar]
  | JEBin o a c => [CText t_op_open] ++ jprint a ++ [CText t_op_mid1; CText (jbin_sym o); CText t_op_mid2] ++ jprint c ++ [CText t_op_close]
  | JENeg a => [CText t_neg_open] ++ jprint a ++ [CText t_op_close]
  | JENot a => [CText t_not_open] ++ jprint a ++ [CText t_rpar]
  | JECond c a d => [CText t_op_open] ++ jprint c ++ [CText t_tern1] ++ jprint a ++ [CText t_colon] ++ jprint d ++ [CText t_rpar]
  | JEElvis a c => [CText t_op_open] ++ jprint a ++ [CText t_elvis1] ++ jprint a ++ [CText t_elvis2] ++ jprint c ++ [CText t_rpar]
  | JEEscapeHtml a => [CText (directive_js n_escapeHtml); CText t_lpar] ++ jprint a ++ [CText t_rpar]
  | JEIsFirst ix => [CText t_lpar; CName ix; CText t_eq0]
  | JEIsLast ix lim => [CText t_lpar; CName ix; CText t_eqeq; CName lim; CText t_minus1]
  end.

(* ---- semantics ---- *)
Record jenv := {
  je_vars : list (bstr * jval);     (* the function's var declarations that have been assigned, and opt_ijData *)
  je_data : jval;                   (* opt_data *)
}.

Definition je_type := Eval vm_compute in b "TypeError".
Definition je_ref := Eval vm_compute in b "ReferenceError".

Definition js_truthy (v : jval) : bool :=
  match v with
  | JUndef | JNull => false
  | JBool x => x
  | JNum z => negb (z =? 0)%Z
  | JStr s => match s with [] => false | _ => true end
  | JArr _ | JObj _ => true
  end.
Definition js_nullish (v : jval) : bool := match v with JUndef | JNull => true | _ => false end.

(* v.key on an object without prototype; "length" and the other built-in
   properties of arrays and strings are not modelled *)
Definition js_member (v : jval) (key : bstr) : outcome jval :=
  match v with
  | JUndef | JNull => Err je_type
  | JObj m => Ok (match assoc_s key m with Some x => x | None => JUndef end)
  | _ => OutOfModel
  end.
Definition js_index (v : jval) (i : Z) : outcome jval :=
  match v with
  | JUndef | JNull => Err je_type
  | JArr l => Ok (if (i <? 0)%Z || (Z.of_nat (length l) <=? i)%Z then JUndef
                  else match nth_error l (Z.to_nat i) with Some x => x | None => JUndef end)
  | _ => OutOfModel
  end.

Definition js_num (z : Z) : outcome jval := if small z then Ok (JNum z) else OutOfModel.

Definition js_binop (o : jbin) (x y : jval) : outcome jval :=
  match o with
  | JAdd =>
      match x, y with
      | JNum a, JNum c => js_num (a + c)
      | JStr s, JStr t => Ok (JStr (s ++ t))
      | JStr s, JNum c => Ok (JStr (s ++ dec_of_Z c))
      | JNum a, JStr t => Ok (JStr (dec_of_Z a ++ t))
      | _, _ => OutOfModel
      end
  | JSub => match x, y with JNum a, JNum c => js_num (a - c) | _, _ => OutOfModel end
  | JMul => match x, y with JNum a, JNum c => js_num (a * c) | _, _ => OutOfModel end
  | JMod => match x, y with JNum a, JNum c => if (c =? 0)%Z then OutOfModel else js_num (Z.rem a c) | _, _ => OutOfModel end
  | JLt => match x, y with JNum a, JNum c => Ok (JBool (a <? c)%Z) | _, _ => OutOfModel end
  | JLe => match x, y with JNum a, JNum c => Ok (JBool (a <=? c)%Z) | _, _ => OutOfModel end
  | JGt => match x, y with JNum a, JNum c => Ok (JBool (c <? a)%Z) | _, _ => OutOfModel end
  | JGe => match x, y with JNum a, JNum c => Ok (JBool (c <=? a)%Z) | _, _ => OutOfModel end
  | JEq | JNe =>
      match (match x, y with
             | JNum a, JNum c => Some (a =? c)%Z
             | JStr s, JStr t => Some (bstr_eqb s t)
             | JBool a, JBool c => Some (Bool.eqb a c)
             | (JNull | JUndef), (JNull | JUndef) => Some true
             | _, _ => None
             end) with
      | Some r => Ok (JBool (match o with JEq => r | _ => negb r end))
      | None => OutOfModel
      end
  | JDiv => OutOfModel             (* floats are outside the subset *)
  | JAnd | JOr => OutOfModel       (* short-circuit: handled by js_eval *)
  end.

(* ToString on the values a print of the subset can have *)
Definition js_tostring (v : jval) : option bstr :=
  match v with
  | JStr s => Some s
  | JNum z => Some (dec_of_Z z)
  | JBool true => Some t_true
  | JBool false => Some t_false
  | JNull => Some t_null
  | _ => None
  end.

(* soy.esc.$$escapeHtmlHelper: String(value).replace(/[\x00\x22\x26\x27\x3c\x3e]/g, table) *)
Definition js_html_entity (c : N) : option bstr :=
  if c =? 0 then Some [38; 35; 48; 59]                       (* &#0; *)
  else if c =? 34 then Some [38; 113; 117; 111; 116; 59]     (* &quot; *)
  else if c =? 38 then Some [38; 97; 109; 112; 59]           (* &amp; *)
  else if c =? 39 then Some [38; 35; 51; 57; 59]             (* &#39; *)
  else if c =? 60 then Some [38; 108; 116; 59]               (* &lt; *)
  else if c =? 62 then Some [38; 103; 116; 59]               (* &gt; *)
  else None.
Fixpoint js_escape_html (s : bstr) : bstr :=
  match s with
  | [] => []
  | c :: r => match js_html_entity c with Some e => e ++ js_escape_html r | None => c :: js_escape_html r end
  end.

Fixpoint js_eval (env : jenv) (e : jexpr) : outcome jval :=
  match e with
  | JENull => Ok JNull
  | JEBool x => Ok (JBool x)
  | JENum z => Ok (JNum z)
  | JEStr s => Ok (JStr s)
  | JEIj => match assoc_s t_opt_ij (je_vars env) with Some v => Ok v | None => Ok JUndef end   (* a parameter of the function: undefined when not passed *)
  | JEVar name => match assoc_s name (je_vars env) with Some v => Ok v | None => Err je_ref end
  | JEParam key => js_member (je_data env) key
  | JEMember a key => v <- js_eval env a ;; js_member v key
  | JEIndex a i => v <- js_eval env a ;; js_index v i
  | JENullSafe t r => v <- js_eval env t ;; if js_nullish v then Ok JNull else js_eval env r
  | JEBin JAnd a c => v <- js_eval env a ;; if js_truthy v then js_eval env c else Ok v
  | JEBin JOr a c => v <- js_eval env a ;; if js_truthy v then Ok v else js_eval env c
  | JEBin o a c => x <- js_eval env a ;; y <- js_eval env c ;; js_binop o x y
  | JENeg a => v <- js_eval env a ;; match v with JNum z => js_num (- z) | _ => OutOfModel end
  | JENot a => v <- js_eval env a ;; Ok (JBool (negb (js_truthy v)))
  | JECond c a d => v <- js_eval env c ;; if js_truthy v then js_eval env a else js_eval env d
  | JEElvis a c => v <- js_eval env a ;; if js_nullish v then js_eval env c else js_eval env a
  | JEEscapeHtml a => v <- js_eval env a ;; match js_tostring v with Some s => Ok (JStr (js_escape_html s)) | None => OutOfModel end
  | JEIsFirst ix =>
      match assoc_s ix (je_vars env) with
      | Some (JNum i) => Ok (JBool (i =? 0)%Z)
      | Some _ => OutOfModel
      | None => Err je_ref
      end
  | JEIsLast ix lim =>
      match assoc_s ix (je_vars env), assoc_s lim (je_vars env) with
      | Some (JNum i), Some (JNum c) => if small (c - 1) then Ok (JBool (i =? c - 1)%Z) else OutOfModel
      | None, _ | _, None => Err je_ref
      | _, _ => OutOfModel
      end
  end.

(* ---- the Soy side of the common subset ---- *)
Inductive cacc := CAKey (ns : bool) (k : bstr) | CAIdx (ns : bool) (i : Z).
(* the loop functions index($x), isFirst($x), isLast($x) *)
Inductive cloopfn := LIndex | LIsFirst | LIsLast.
Definition cloop_name (k : cloopfn) : bstr :=
  match k with LIndex => jn_index | LIsFirst => jn_isFirst | LIsLast => jn_isLast end.
Inductive cexpr :=
| CNull | CBool (x : bool) | CInt (z : Z) | CStr (s : bstr)
| CVar (key : bstr) (accs : list cacc)
| CNeg (a : cexpr) | CNot (a : cexpr)
| CBin (op : binop) (a c : cexpr)
| CTern (c a d : cexpr)
| CLoop (k : cloopfn) (x : bstr).
(* a Soy identifier has no dot: the renderer's hidden loop variables $x.index / $x.lastIndex and the generator's
   frame keys .var / .index / .limit cannot be named by a template *)
Definition is_ident (s : bstr) : bool := negb (existsb (N.eqb 46) s).
Definition c_lastindex := Eval vm_compute in b ".lastIndex".

Definition cacc_node (a : cacc) : node :=
  match a with CAKey ns k => NAccKey 0 ns k | CAIdx ns i => NAccIndex 0 ns i end.
Fixpoint cnode (e : cexpr) : node :=
  match e with
  | CNull => NNull 0
  | CBool x => NBool 0 x
  | CInt z => NInt 0 z
  | CStr s => NString 0 [] s
  | CVar key accs => NDataRef 0 key (map cacc_node accs)
  | CNeg a => NNeg 0 (cnode a)
  | CNot a => NNot 0 (cnode a)
  | CBin op a c => NBin op 0 (cnode a) (cnode c)
  | CTern c a d => NTern 0 (cnode c) (cnode a) (cnode d)
  | CLoop k x => NFunc 0 (cloop_name k) [NDataRef 0 x []]
  end.
Fixpoint cdepth (e : cexpr) : nat :=
  match e with
  | CNeg a | CNot a => S (cdepth a)
  | CBin _ a c => S (Nat.max (cdepth a) (cdepth c))
  | CTern c a d => S (Nat.max (cdepth c) (Nat.max (cdepth a) (cdepth d)))
  | _ => 1%nat
  end.

(* the generator on the subset, for a compile-time scope [sc] (JsGen's
   scope stack): the reference, then the null-safe tests around it *)
Definition cacc_ns (a : cacc) : bool := match a with CAKey ns _ | CAIdx ns _ => ns end.
Definition cacc_apply (r : jexpr) (a : cacc) : jexpr :=
  match a with CAKey _ k => JEMember r k | CAIdx _ i => JEIndex r i end.
Fixpoint cgen_ref (accs : list cacc) (r : jexpr) : jexpr :=
  match accs with
  | [] => r
  | a :: rest =>
      if cacc_ns a then JENullSafe r (cgen_ref rest (cacc_apply r a)) else cgen_ref rest (cacc_apply r a)
  end.
Definition cgen_binop (o : binop) : option jbin :=
  match o with
  | OAdd => Some JAdd | OSub => Some JSub | OMul => Some JMul | ODiv => Some JDiv | OMod => Some JMod
  | OLt => Some JLt | OLte => Some JLe | OGt => Some JGt | OGte => Some JGe
  | OEq => Some JEq | ONotEq => Some JNe | OAnd => Some JAnd | OOr => Some JOr
  | OElvis => None
  end.
Fixpoint cgen (sc : list (list (bstr * bstr))) (e : cexpr) : jexpr :=
  match e with
  | CNull => JENull
  | CBool x => JEBool x
  | CInt z => JENum z
  | CStr s => JEStr s
  | CVar key accs =>
      cgen_ref accs (if bstr_eqb key n_ij then JEIj
                     else match jsc_lookup sc key with [] => JEParam key | g => JEVar g end)
  | CNeg a => JENeg (cgen sc a)
  | CNot a => JENot (cgen sc a)
  | CBin OElvis a c => JEElvis (cgen sc a) (cgen sc c)
  | CBin o a c => match cgen_binop o with
                  | Some jo => JEBin jo (cgen sc a) (cgen sc c)
                  | None => JENull                       (* unreachable: elvis is the case above *)
                  end
  | CTern c a d => JECond (cgen sc c) (cgen sc a) (cgen sc d)
  | CLoop k x =>
      let '(ix, lim) := jsc_loop sc x in
      match k with LIndex => JEVar ix | LIsFirst => JEIsFirst ix | LIsLast => JEIsLast ix lim end
  end.
(* every loop function talks about an enclosing loop (otherwise the generator reports an error): a static condition,
   [lv] = the variables of the enclosing loops *)
Fixpoint cwf (lv : list bstr) (e : cexpr) : bool :=
  match e with
  | CNeg a | CNot a => cwf lv a
  | CBin _ a c => cwf lv a && cwf lv c
  | CTern c a d => cwf lv c && cwf lv a && cwf lv d
  | CLoop _ x => existsb (bstr_eqb x) lv
  | _ => true
  end.

(* the Soy meaning on the subset: [None] = an error or outside the subset *)
Fixpoint cacc_eval (accs : list cacc) (ref : value) : option value :=
  match accs with
  | [] => Some ref
  | a :: rest =>
      match ref with
      | VUndef | VNull => if cacc_ns a then Some VNull else None
      | VList _ l => match a with CAIdx _ i => cacc_eval rest (list_index l i) | CAKey _ _ => None end
      | VMap _ m => match a with CAKey _ k => cacc_eval rest (map_key m k) | CAIdx _ _ => None end
      | _ => None
      end
  end.

Definition c_nullish (v : value) : bool := match v with VNull | VUndef => true | _ => false end.

Section Ceval.
  Variable ij : option value.
  Variable env : bstr -> option value.      (* the Soy scope: sc_lookup (ctx st) *)

  Definition cint (z : Z) : option value := if small z then Some (VInt z) else None.

  Fixpoint ceval (e : cexpr) : option value :=
    match e with
    | CNull => Some VNull
    | CBool x => Some (VBool x)
    | CInt z => cint z
    | CStr s => Some (VStr s)
    | CVar key accs =>
        if is_ident key then
          match (if bstr_eqb key n_ij then ij else Some (match env key with Some v => v | None => VUndef end)) with
          | Some r => cacc_eval accs r
          | None => None
          end
        else None
    | CNeg a => match ceval a with Some (VInt z) => cint (- z) | _ => None end
    | CNot a => match ceval a with Some v => Some (VBool (negb (truthy v))) | None => None end
    | CBin op a c =>
        match op with
        | OAnd => match ceval a with
                  | Some (VBool true) => match ceval c with Some (VBool y) => Some (VBool y) | _ => None end
                  | Some (VBool false) => Some (VBool false)
                  | _ => None
                  end
        | OOr => match ceval a with
                 | Some (VBool true) => Some (VBool true)
                 | Some (VBool false) => match ceval c with Some (VBool y) => Some (VBool y) | _ => None end
                 | _ => None
                 end
        | OElvis => match ceval a with
                    | Some x => if c_nullish x then ceval c else Some x
                    | None => None
                    end
        | _ =>
            match ceval a, ceval c with
            | Some x, Some y =>
                match op, x, y with
                | OAdd, VInt p, VInt q => cint (p + q)
                | OAdd, VStr s, VStr t => Some (VStr (s ++ t))
                | OAdd, VStr s, VInt q => Some (VStr (s ++ dec_of_Z q))
                | OAdd, VInt p, VStr t => Some (VStr (dec_of_Z p ++ t))
                | OSub, VInt p, VInt q => cint (p - q)
                | OMul, VInt p, VInt q => cint (p * q)
                | OMod, VInt p, VInt q => if (q =? 0)%Z then None else cint (Z.rem p q)
                | OLt, VInt p, VInt q => Some (VBool (p <? q)%Z)
                | OLte, VInt p, VInt q => Some (VBool (p <=? q)%Z)
                | OGt, VInt p, VInt q => Some (VBool (q <? p)%Z)
                | OGte, VInt p, VInt q => Some (VBool (q <=? p)%Z)
                | OEq, VInt p, VInt q => Some (VBool (p =? q)%Z)
                | OEq, VStr s, VStr t => Some (VBool (bstr_eqb s t))
                | OEq, VBool p, VBool q => Some (VBool (Bool.eqb p q))
                | OEq, VNull, VNull => Some (VBool true)
                | ONotEq, VInt p, VInt q => Some (VBool (negb (p =? q)%Z))
                | ONotEq, VStr s, VStr t => Some (VBool (negb (bstr_eqb s t)))
                | ONotEq, VBool p, VBool q => Some (VBool (negb (Bool.eqb p q)))
                | ONotEq, VNull, VNull => Some (VBool false)
                | _, _, _ => None
                end
            | _, _ => None
            end
        end
    | CTern c a d => match ceval c with Some v => if truthy v then ceval a else ceval d | None => None end
    | CLoop k x =>
        (* the renderer keeps the position in the hidden variables $x.index and $x.lastIndex *)
        match env (x ++ jk_index) with
        | Some (VInt i) =>
            match k with
            | LIndex => Some (VInt i)
            | LIsFirst => Some (VBool (i =? 0)%Z)
            | LIsLast => match env (x ++ c_lastindex) with Some (VInt l) => Some (VBool (i =? l)%Z) | _ => None end
            end
        | _ => None
        end
    end.
End Ceval.

(* ---- one statement: buf += e; ---- *)
(* the text the statement appends to the buffer variable (which must hold a string) *)
Definition js_append (env : jenv) (buf : bstr) (e : jexpr) : outcome (bstr * jenv) :=
  v <- js_eval env e ;;
  match js_tostring v, assoc_s buf (je_vars env) with
  | Some s, Some (JStr old) => Ok (s, {| je_vars := aset (je_vars env) buf (JStr (old ++ s)); je_data := je_data env |})
  | _, _ => OutOfModel
  end.
(* a value whose printed form both backends define the same way *)
Definition printable_scalar (v : value) : bool :=
  match v with VStr _ | VInt _ | VBool _ | VNull => true | _ => false end.

(* ---- {print e|d1|d2...} with the directives id, noAutoescape, escapeHtml ---- *)
Inductive pdir := PId | PNoAutoescape | PEscapeHtml.
Definition pdir_name (d : pdir) : bstr :=
  match d with PId => n_id | PNoAutoescape => n_noAutoescape | PEscapeHtml => n_escapeHtml end.
Definition pdir_node (d : pdir) : node := NDirective 0 (pdir_name d) [].
(* the JavaScript expression printed: one soy.$$escapeHtml per explicit |escapeHtml (the first
   directive innermost), and one more when autoescaping is on and no directive cancels it
   (all three directives of the subset cancel it) *)
Fixpoint wrap_escapes (ds : list pdir) (e : jexpr) : jexpr :=
  match ds with
  | [] => e
  | PEscapeHtml :: r => wrap_escapes r (JEEscapeHtml e)
  | _ :: r => wrap_escapes r e
  end.
Definition cgen_print_expr (mode : N) (ds : list pdir) (e : jexpr) : jexpr :=
  let x := wrap_escapes ds e in
  match ds with [] => if mode =? 2 then x else JEEscapeHtml x | _ => x end.

(* what the Go renderer writes for {print e|ds} when String() of the value is s: the text of each directive
   (escapeHtml is template.HTMLEscapeString), or the autoescaper's htmlEscapeString when there is none *)
Definition go_dir_text (d : pdir) (s : bstr) : bstr := match d with PEscapeHtml => tmpl_html_escape s | _ => s end.
Fixpoint go_dirs_text (ds : list pdir) (s : bstr) : bstr :=
  match ds with [] => s | d :: r => go_dirs_text r (go_dir_text d s) end.
Definition go_print_text (mode : N) (ds : list pdir) (s : bstr) : bstr :=
  match ds with [] => if mode =? 2 then s else html_escape s | _ => go_dirs_text ds s end.

(* ---- statements: raw text, print, let (both forms), if / elseif / else, switch ---- *)
(* blocks, else-chains and case lists are types of their own (mutual with statements);
   by construction {else} is the last arm of an if and {default} the last case of a switch
   (the parser's shape after REPAIR C04-8), and a case has at least one value *)
(* the data attribute of a call: none, data="all", data="$e" *)
Inductive cdata := DNone | DAll | DExpr (e : cexpr).
Inductive cstmt :=
| SRaw (t : bstr)
| SPrint (e : cexpr) (ds : list pdir)
| SLet (name : bstr) (e : cexpr)                       (* {let $name: e /} *)
| SLetC (name : bstr) (body : cblk)                    (* {let $name}...{/let} *)
| SIf (c : cexpr) (th : cblk) (rest : celse)
| SSwitch (v : cexpr) (cs : ccases)
| SFor (x : bstr) (e : cexpr) (body : cblk) (hasie : bool) (ie : cblk)   (* {foreach $x in e}body[{ifempty}ie]{/foreach}; ie is BNil without {ifempty} *)
| SForRange (x : bstr) (a1 : cexpr) (rest : list cexpr) (body : cblk) (hasie : bool) (ie : cblk)
    (* {for $x in range(a1, rest..)}body[{ifempty}ie]{/for}: one to three arguments *)
| SCss (e : option cexpr) (sfx : bstr)                   (* {css sfx} / {css e, sfx} *)
| SCall (name : bstr) (d : cdata) (ps : cparams)
    (* {call name [data="all" | data="$e"]}{param k: e /}..{param k}..{/param}..{/call} *)
| SMsg (body : cblk)
    (* {msg desc=".."}text{$x}{call ..}..{/msg} without plural, rendered without a bundle: raw text and placeholders
       (print, call) in the scope of the message; [msg_ok body] restricts the block to these *)
| SMsgPl (pname : bstr) (v : cexpr) (q : cplur)
    (* {msg desc=".."}{plural v}{case z1}b1 .. {case zk}bk{default}d{/plural}{/msg}, rendered without a bundle; the bodies
       are message bodies ([qwf] demands msg_ok of each); pname is the plural's variable name (not used by either backend) *)
with cblk := BNil | BCons (s : cstmt) (r : cblk)
with celse := ENone | EElse (b : cblk) | EElif (c : cexpr) (th : cblk) (rest : celse)
with ccases := KNone | KDefault (b : cblk) | KCase (v : cexpr) (vs : list cexpr) (b : cblk) (rest : ccases)
with cparams := PNil | PVal (k : bstr) (e : cexpr) (r : cparams) | PCont (k : bstr) (body : cblk) (r : cparams)
with cplur := QDflt (b : cblk) | QCase (z : Z) (b : cblk) (rest : cplur).

Definition cdata_all (d : cdata) : bool := match d with DAll => true | _ => false end.
Definition cdata_node (d : cdata) : option node := match d with DExpr e => Some (cnode e) | _ => None end.
Fixpoint snode (s : cstmt) : node :=
  match s with
  | SRaw t => NRawText 0 t
  | SPrint e ds => NPrint 0 (cnode e) (map pdir_node ds)
  | SLet name e => NLetValue 0 name (cnode e)
  | SLetC name body => NLetContent 0 name (NList 0 (bnodes body))
  | SIf c th rest => NIf 0 (NIfCond 0 (Some (cnode c)) (NList 0 (bnodes th)) :: enodes rest)
  | SSwitch v cs => NSwitch 0 (cnode v) (knodes cs)
  | SFor x e body hasie ie =>
      NFor 0 x (cnode e) (NList 0 (bnodes body)) (if hasie then Some (NList 0 (bnodes ie)) else None)
  | SForRange x a1 rest body hasie ie =>
      NFor 0 x (NFunc 0 jn_range (cnode a1 :: map cnode rest)) (NList 0 (bnodes body)) (if hasie then Some (NList 0 (bnodes ie)) else None)
  | SCss e sfx => NCss 0 (match e with Some x => Some (cnode x) | None => None end) sfx
  | SCall name d ps => NCall 0 name (cdata_all d) (cdata_node d) (pnodes ps)
  | SMsg body => NMsg 0 0 [] [] (mnodes body)
  | SMsgPl pname v q => NMsg 0 0 [] [] [NMsgPlural 0 pname (cnode v) (qcnodes q) (qdnodes q)]
  end
with bnodes (b : cblk) : list node :=
  match b with BNil => [] | BCons s r => snode s :: bnodes r end
with enodes (e : celse) : list node :=
  match e with
  | ENone => []
  | EElse b => [NIfCond 0 None (NList 0 (bnodes b))]
  | EElif c th rest => NIfCond 0 (Some (cnode c)) (NList 0 (bnodes th)) :: enodes rest
  end
with knodes (k : ccases) : list node :=
  match k with
  | KNone => []
  | KDefault b => [NSwitchCase 0 [] (NList 0 (bnodes b))]
  | KCase v vs b rest => NSwitchCase 0 (cnode v :: map cnode vs) (NList 0 (bnodes b)) :: knodes rest
  end
(* the children of a message node: raw text as it is, everything else as the body of a placeholder *)
with mnodes (b : cblk) : list node :=
  match b with
  | BNil => []
  | BCons s r => (match s with SRaw t => NRawText 0 t | _ => NMsgPlaceholder 0 [] (snode s) end) :: mnodes r
  end
with pnodes (ps : cparams) : list node :=
  match ps with
  | PNil => []
  | PVal k e r => NParamValue 0 k (cnode e) :: pnodes r
  | PCont k body r => NParamContent 0 k (NList 0 (bnodes body)) :: pnodes r
  end
(* the case nodes of a plural, and the children of its default *)
with qcnodes (q : cplur) : list node :=
  match q with QDflt _ => [] | QCase z b r => NMsgPluralCase 0 z (mnodes b) :: qcnodes r end
with qdnodes (q : cplur) : list node :=
  match q with QDflt b => mnodes b | QCase _ _ r => qdnodes r end.

(* fuel that suffices for both walkers *)
Definition cdepths (l : list cexpr) : nat := fold_right (fun x acc => Nat.max (cdepth x) acc) 0%nat l.
Definition ddepth (d : cdata) : nat := match d with DExpr e => cdepth e | _ => 0%nat end.
Fixpoint sdepth (s : cstmt) : nat :=
  match s with
  | SRaw _ => 1%nat
  | SPrint e _ => S (S (cdepth e))
  | SLet _ e => S (S (cdepth e))
  | SLetC _ body => S (S (bdepth body))
  | SIf c th rest => S (S (Nat.max (cdepth c) (Nat.max (bdepth th) (edepth rest))))
  | SSwitch v cs => S (S (Nat.max (cdepth v) (kdepth cs)))
  | SFor _ e body _ ie => S (S (Nat.max (cdepth e) (Nat.max (bdepth body) (bdepth ie))))
  | SForRange _ a1 rest body _ ie => S (S (S (Nat.max (Nat.max (cdepth a1) (cdepths rest)) (Nat.max (bdepth body) (bdepth ie)))))
  | SCss e _ => S (S (match e with Some x => cdepth x | None => 0%nat end))
  | SCall _ d ps => S (S (Nat.max (ddepth d) (pdepth ps)))
  | SMsg body => S (bdepth body)
  | SMsgPl _ v q => S (S (S (S (Nat.max (cdepth v) (qdepth q)))))
  end
with bdepth (b : cblk) : nat :=
  match b with BNil => 0%nat | BCons s r => Nat.max (S (sdepth s)) (bdepth r) end
with edepth (e : celse) : nat :=
  match e with
  | ENone => 0%nat
  | EElse b => bdepth b
  | EElif c th rest => Nat.max (cdepth c) (Nat.max (bdepth th) (edepth rest))
  end
with kdepth (k : ccases) : nat :=
  match k with
  | KNone => 0%nat
  | KDefault b => bdepth b
  | KCase v vs b rest => Nat.max (Nat.max (cdepth v) (cdepths vs)) (Nat.max (bdepth b) (kdepth rest))
  end
with pdepth (ps : cparams) : nat :=
  match ps with
  | PNil => 0%nat
  | PVal _ e r => Nat.max (cdepth e) (pdepth r)
  | PCont _ body r => Nat.max (bdepth body) (pdepth r)
  end
with qdepth (q : cplur) : nat :=
  match q with QDflt b => bdepth b | QCase _ b r => Nat.max (bdepth b) (qdepth r) end.

(* the data argument of a generated call: {} , opt_data, or an expression *)
Inductive jdata := JDEmpty | JDOpt | JDExpr (e : jexpr).
(* the statements a message can hold: raw text, print, call (they bind nothing) *)
Fixpoint msg_ok (b : cblk) : bool :=
  match b with
  | BNil => true
  | BCons s r => (match s with SRaw _ | SPrint _ _ | SCall _ _ _ => true | _ => false end) && msg_ok r
  end.
Inductive jstmt :=
| JSAppendLit (buf t : bstr)                                   (* buf += 'text'; *)
| JSAppend (buf : bstr) (e : jexpr)                            (* buf += e; *)
| JSVar (g : bstr) (e : jexpr)                                 (* var g = e; *)
| JSVarBlock (g : bstr) (body : jblk)                          (* var g = ''; followed by statements that append to g (no braces) *)
| JSIf (c : jexpr) (th : jblk) (rest : jelse)                  (* if (c) {..} [else if (c) {..}]* [else {..}] *)
| JSSwitch (v : jexpr) (cs : jcases)                           (* switch (v) { [case x:]+ .. break; ... [default: .. break;] } *)
| JSForeach (vd vlist vlen vidx : bstr) (e : jexpr) (body : jblk) (hasie : bool) (ie : jblk)
    (* var vlist = e; var vlen = vlist.length; [if (vlen > 0) {] for (var vidx = 0; vidx < vlen; vidx++) { var vd = vlist[vidx]; body } [} else { ie }] *)
| JSForRange (vd vinit vstep vlen vidx : bstr) (ei es el : jexpr) (body : jblk) (hasie : bool) (ie : jblk)
    (* var vinit = ei; var vstep = es; var vlen = Math.max(0, Math.ceil((el - vinit) / vstep));
       [if (vlen > 0) {] for (var vidx = 0; vidx < vlen; vidx++) { var vd = vinit + vidx * vstep; body } [} else { ie }] *)
| JSCss (buf : bstr) (e : option jexpr) (sfx : bstr)            (* [buf += e + '-';] buf += 'sfx'; *)
| JSCall (buf name : bstr) (d : jdata) (ps : jparams)
    (* [var param_n = ''; statements that append to param_n]*  (one group per content parameter, in order), then
       buf += name(d, opt_sb, opt_ijData);   or   buf += name(soy.$$augmentMap(d, {k: e, k2: param_n, ..}), opt_sb, opt_ijData); *)
| JSSeq (b : jblk)                                              (* the statements of b, one after the other (no braces) *)
| JSPlural (v : jexpr) (cs : jcases)
    (* the switch soyjs writes for a plural: as JSSwitch, printed without "break;" after the default clause *)
with jblk := JBNil | JBCons (s : jstmt) (r : jblk)
with jelse := JLNone | JLElse (b : jblk) | JLElif (c : jexpr) (th : jblk) (rest : jelse)
with jcases := JKNone | JKDefault (b : jblk) | JKCase (v : jexpr) (vs : list jexpr) (b : jblk) (rest : jcases)
with jparams := JPNil | JPVal (k : bstr) (e : jexpr) (r : jparams) | JPCont (k g : bstr) (body : jblk) (r : jparams).
(* the properties of the object literal: a content parameter is the variable its block appended to *)
Fixpoint jp_args (ps : jparams) : list (bstr * jexpr) :=
  match ps with
  | JPNil => []
  | JPVal k e r => (k, e) :: jp_args r
  | JPCont k g _ r => (k, JEVar g) :: jp_args r
  end.

(* scope.go bind on the innermost frame (the generator crashes on an empty stack; never reached: a template
   body and every block push a frame) *)
Definition jsc_bind_pure (sc : list (list (bstr * bstr))) (v g : bstr) : list (list (bstr * bstr)) :=
  match sc with f :: r => aset f v g :: r | [] => [] end.
Definition jsc_name (v : bstr) (n : N) : bstr := v ++ t_us ++ dec_of_N n.
(* scope.go pushForEach / pushForRange: the frame of a loop over $x whose names carry the counter n *)
Definition loop_frame (x : bstr) (n : N) : list (bstr * bstr) :=
  aset (aset (aset (aset [] x (jsc_name x n)) jk_var x) jk_limit (jsc_name (x ++ t_limit) n)) jk_index (jsc_name (x ++ t_index) n).

(* visitForRange: init, limit, increment from one to three arguments (None: an arity the generator rejects) *)
Definition range_args {A} (zero one : A) (args : list A) : option (A * A * A) :=
  match args with
  | [l] => Some (zero, l, one)
  | [i; l] => Some (i, l, one)
  | [i; l; s] => Some (i, l, s)
  | _ => None
  end.

(* the generator on statements: for an autoescape mode and a buffer variable, from a scope and a variable counter
   to the statement, the scope after it (a let binds) and the counter (never reset: var is function-scoped).
   A block is translated under a new empty frame that is dropped at its end. *)
Definition dgen (sc : list (list (bstr * bstr))) (d : cdata) : jdata :=
  match d with DNone => JDEmpty | DAll => JDOpt | DExpr e => JDExpr (cgen sc e) end.
Fixpoint sgen (mode : N) (buf : bstr) (sc : list (list (bstr * bstr))) (n : N) (s : cstmt)
  : jstmt * (list (list (bstr * bstr)) * N) :=
  match s with
  | SRaw t => (JSAppendLit buf t, (sc, n))
  | SPrint e ds => (JSAppend buf (cgen_print_expr mode ds (cgen sc e)), (sc, n))
  | SLet name e => let g := jsc_name name (n + 1) in (JSVar g (cgen sc e), (jsc_bind_pure sc name g, n + 1))
  | SLetC name body =>
      (* the new name is the buffer of the body and becomes visible after it *)
      let g := jsc_name name (n + 1) in
      let '(jb, n1) := bgen mode g ([] :: sc) (n + 1) body in
      (JSVarBlock g jb, (jsc_bind_pure sc name g, n1))
  | SIf c th rest =>
      let '(jt, n1) := bgen mode buf ([] :: sc) n th in
      let '(jr, n2) := egen mode buf sc n1 rest in
      (JSIf (cgen sc c) jt jr, (sc, n2))
  | SSwitch v cs => let '(jc, n1) := kgen mode buf sc n cs in (JSSwitch (cgen sc v) jc, (sc, n1))
  | SFor x e body hasie ie =>
      (* the list is translated outside the loop's scope; the body is a block under the loop's frame; the
         ifempty block is translated after that frame is dropped *)
      let '(jb, n1) := bgen mode buf ([] :: loop_frame x (n + 1) :: sc) (n + 1) body in
      let '(ji, n2) := if hasie then bgen mode buf ([] :: sc) n1 ie else (JBNil, n1) in
      (JSForeach (jsc_name x (n + 1)) (jsc_name (x ++ t_list) (n + 1)) (jsc_name (x ++ t_limit) (n + 1)) (jsc_name (x ++ t_index) (n + 1))
                 (cgen sc e) jb hasie ji, (sc, n2))
  | SForRange x a1 rest body hasie ie =>
      let '(jb, n1) := bgen mode buf ([] :: loop_frame x (n + 1) :: sc) (n + 1) body in
      let '(ji, n2) := if hasie then bgen mode buf ([] :: sc) n1 ie else (JBNil, n1) in
      let '(ei, el, es) := match range_args (JENum 0) (JENum 1) (map (cgen sc) (a1 :: rest)) with
                           | Some t => t
                           | None => (JENull, JENull, JENull)       (* the generator reports an error: excluded by swf *)
                           end in
      (JSForRange (jsc_name x (n + 1)) (jsc_name (x ++ t_init) (n + 1)) (jsc_name (x ++ t_step) (n + 1)) (jsc_name (x ++ t_limit) (n + 1))
                  (jsc_name (x ++ t_index) (n + 1)) ei es el jb hasie ji, (sc, n2))
  | SCss e sfx => (JSCss buf (match e with Some x => Some (cgen sc x) | None => None end) sfx, (sc, n))
  | SCall name d ps => let '(jps, n1) := pgen mode sc n ps in (JSCall buf name (dgen sc d) jps, (sc, n1))
  | SMsg body => let '(jb, n1) := bgen mode buf sc n body in (JSSeq jb, (sc, n1))     (* no new frame; the statements of a message bind nothing *)
  | SMsgPl _ v q => let '(jk, n1) := qgen mode buf sc n q in (JSPlural (cgen sc v) jk, (sc, n1))
  end
with bgen (mode : N) (buf : bstr) (sc : list (list (bstr * bstr))) (n : N) (b : cblk) : jblk * N :=
  match b with
  | BNil => (JBNil, n)
  | BCons s r =>
      let '(j, (sc1, n1)) := sgen mode buf sc n s in
      let '(jr, n2) := bgen mode buf sc1 n1 r in
      (JBCons j jr, n2)
  end
with egen (mode : N) (buf : bstr) (sc : list (list (bstr * bstr))) (n : N) (e : celse) : jelse * N :=
  match e with
  | ENone => (JLNone, n)
  | EElse b => let '(jb, n1) := bgen mode buf ([] :: sc) n b in (JLElse jb, n1)
  | EElif c th rest =>
      let '(jt, n1) := bgen mode buf ([] :: sc) n th in
      let '(jr, n2) := egen mode buf sc n1 rest in
      (JLElif (cgen sc c) jt jr, n2)
  end
with kgen (mode : N) (buf : bstr) (sc : list (list (bstr * bstr))) (n : N) (k : ccases) : jcases * N :=
  match k with
  | KNone => (JKNone, n)
  | KDefault b => let '(jb, n1) := bgen mode buf ([] :: sc) n b in (JKDefault jb, n1)
  | KCase v vs b rest =>
      let '(jb, n1) := bgen mode buf ([] :: sc) n b in
      let '(jr, n2) := kgen mode buf sc n1 rest in
      (JKCase (cgen sc v) (map (cgen sc) vs) jb jr, n2)
  end
with pgen (mode : N) (sc : list (list (bstr * bstr))) (n : N) (ps : cparams) : jparams * N :=
  match ps with
  | PNil => (JPNil, n)
  | PVal k e r => let '(jr, n1) := pgen mode sc n r in (JPVal k (cgen sc e) jr, n1)
  | PCont k body r =>
      (* a generated, unbound name param_<n+1> is the buffer of the block *)
      let g := jsc_name t_param (n + 1) in
      let '(jb, n1) := bgen mode g ([] :: sc) (n + 1) body in
      let '(jr, n2) := pgen mode sc n1 r in
      (JPCont k g jb jr, n2)
  end
(* the bodies of a plural, one after the other, each as the statements of a message (no new frame) *)
with qgen (mode : N) (buf : bstr) (sc : list (list (bstr * bstr))) (n : N) (q : cplur) : jcases * N :=
  match q with
  | QDflt b => let '(jb, n1) := bgen mode buf sc n b in (JKDefault jb, n1)
  | QCase z b r =>
      let '(jb, n1) := bgen mode buf sc n b in
      let '(jr, n2) := qgen mode buf sc n1 r in
      (JKCase (JENum z) [] jb jr, n2)
  end.

(* ---- the JavaScript meaning ---- *)
Definition js_append_text (env : jenv) (buf t : bstr) : outcome jenv :=
  match assoc_s buf (je_vars env) with
  | Some (JStr old) => Ok {| je_vars := aset (je_vars env) buf (JStr (old ++ t)); je_data := je_data env |}
  | _ => OutOfModel
  end.

(* === on primitives (objects and arrays compare by identity, which MiniJS does not have) *)
Definition js_strict_eq (a c : jval) : option bool :=
  match a, c with
  | JArr _, _ | JObj _, _ | _, JArr _ | _, JObj _ => None
  | JUndef, JUndef => Some true
  | JNull, JNull => Some true
  | JBool x, JBool y => Some (Bool.eqb x y)
  | JNum x, JNum y => Some (x =? y)%Z
  | JStr s, JStr t => Some (bstr_eqb s t)
  | _, _ => Some false
  end.
(* the case expressions of one clause group are evaluated in order until one is === the switch value *)
Fixpoint jk_hit (env : jenv) (sv : jval) (vs : list jexpr) : outcome bool :=
  match vs with
  | [] => Ok false
  | x :: r => cv <- js_eval env x ;;
              match js_strict_eq sv cv with
              | Some true => Ok true
              | Some false => jk_hit env sv r
              | None => OutOfModel
              end
  end.

Definition jvset (env : jenv) (g : bstr) (v : jval) : jenv := {| je_vars := aset (je_vars env) g v; je_data := je_data env |}.
Definition jvget (env : jenv) (g : bstr) : option jval := assoc_s g (je_vars env).

(* for (var vidx = 0; vidx < vlen; vidx++) { var vd = <item>; body }  after vidx = 0: the condition, the item and the
   increment read the variables each time round, as the engine does; [k] bounds the number of rounds (the caller
   passes the count at entry: a body that changes vidx or vlen so that more rounds are needed is OutOfModel) *)
Fixpoint js_for (run : jenv -> outcome jenv) (item : jenv -> Z -> outcome jval) (vd vlen vidx : bstr) (k : nat) (env : jenv)
  : outcome jenv :=
  match jvget env vidx, jvget env vlen with
  | Some (JNum i), Some (JNum c) =>
      if (i <? c)%Z then
        match k with
        | O => OutOfModel
        | S k' =>
            x <- item env i ;;
            env2 <- run (jvset env vd x) ;;
            match jvget env2 vidx with
            | Some (JNum i2) => nx <- js_num (i2 + 1) ;; js_for run item vd vlen vidx k' (jvset env2 vidx nx)
            | _ => OutOfModel
            end
        end
      else Ok env
  | _, _ => OutOfModel
  end.
(* vlist[i] *)
Definition js_item_elem (vlist : bstr) (env : jenv) (i : Z) : outcome jval :=
  match jvget env vlist with Some l => js_index l i | None => Err je_ref end.

(* vinit + i * vstep *)
Definition js_item_lin (vinit vstep : bstr) (env : jenv) (i : Z) : outcome jval :=
  match jvget env vinit, jvget env vstep with
  | Some (JNum a), Some (JNum s) => m <- js_num (i * s) ;; match m with JNum mz => js_num (a + mz) | _ => OutOfModel end
  | None, _ | _, None => Err je_ref
  | _, _ => OutOfModel
  end.
(* Math.max(0, Math.ceil((l - a) / s)) on integers: the quotient is exact in the reals; ceil(d / s) = -floor(-d / s) *)
Definition js_range_count (l a s : Z) : outcome jval :=
  if (s =? 0)%Z then OutOfModel
  else if small (l - a) then js_num (Z.max 0 (- ((- (l - a)) / s))) else OutOfModel.

(* soy.$$augmentMap(base, {k: v, ..}): an object whose own properties are the additional ones and whose prototype is
   base; reading a property gives the additional value, else base's: on association lists, an update of base *)
Definition js_augment (base : jval) (kvs : list (bstr * jval)) : outcome jval :=
  match base with
  | JObj m => Ok (JObj (fold_left (fun acc kv => aset acc (fst kv) (snd kv)) kvs m))
  | _ => OutOfModel
  end.
Fixpoint js_eval_params (env : jenv) (ps : list (bstr * jexpr)) : outcome (list (bstr * jval)) :=
  match ps with
  | [] => Ok []
  | (k, e) :: r => v <- js_eval env e ;; vs <- js_eval_params env r ;; Ok ((k, v) :: vs)
  end.
(* the data argument of a call *)
Definition js_call_data (env : jenv) (d : jdata) (ps : list (bstr * jexpr)) : outcome jval :=
  base <- match d with
          | JDEmpty => Ok (JObj [])
          | JDOpt => Ok (je_data env)
          | JDExpr e => js_eval env e
          end ;;
  match ps with
  | [] => Ok base
  | _ => vs <- js_eval_params env ps ;; js_augment base vs
  end.
Definition js_ij_arg (env : jenv) : jval := match assoc_s t_opt_ij (je_vars env) with Some v => v | None => JUndef end.

Section JsExec.
(* calling the global function [name] with (data, opt_sb, ijData): the string it returns *)
Variable jcall : bstr -> jval -> jval -> outcome bstr.

(* var is function-scoped: a block does not restore anything *)
Fixpoint js_exec (env : jenv) (s : jstmt) : outcome jenv :=
  match s with
  | JSAppendLit buf t => js_append_text env buf t
  | JSAppend buf e => r <- js_append env buf e ;; Ok (snd r)
  | JSVar g e => v <- js_eval env e ;; Ok {| je_vars := aset (je_vars env) g v; je_data := je_data env |}
  | JSVarBlock g body => jb_exec {| je_vars := aset (je_vars env) g (JStr []); je_data := je_data env |} body
  | JSIf c th rest => v <- js_eval env c ;; if js_truthy v then jb_exec env th else jl_exec env rest
  | JSSwitch v cs => sv <- js_eval env v ;; jk_exec env sv cs
  | JSForeach vd vlist vlen vidx e body hasie ie =>
      v <- js_eval env e ;;
      match v with
      | JArr l =>
          let c := Z.of_nat (length l) in
          let env2 := jvset (jvset env vlist v) vlen (JNum c) in
          if hasie && (c <=? 0)%Z then jb_exec env2 ie
          else js_for (fun en => jb_exec en body) (js_item_elem vlist) vd vlen vidx (length l) (jvset env2 vidx (JNum 0))
      | JUndef | JNull => Err je_type        (* .length of undefined / null *)
      | _ => OutOfModel                      (* the length of a string counts UTF-16 units; other values have none *)
      end
  | JSForRange vd vinit vstep vlen vidx ei es el body hasie ie =>
      vi <- js_eval env ei ;;
      let env1 := jvset env vinit vi in
      vs <- js_eval env1 es ;;
      let env2 := jvset env1 vstep vs in
      vl <- js_eval env2 el ;;
      match vl, jvget env2 vinit, jvget env2 vstep with
      | JNum l, Some (JNum a), Some (JNum s) =>
          cv <- js_range_count l a s ;;
          match cv with
          | JNum c =>
              let env3 := jvset env2 vlen cv in
              if hasie && (c <=? 0)%Z then jb_exec env3 ie
              else js_for (fun en => jb_exec en body) (js_item_lin vinit vstep) vd vlen vidx (Z.to_nat c) (jvset env3 vidx (JNum 0))
          | _ => OutOfModel
          end
      | _, _, _ => OutOfModel
      end
  | JSCss buf e sfx =>
      env1 <- match e with
              | Some x => v <- js_eval env x ;;
                          match js_tostring v with Some s => js_append_text env buf (s ++ [45]) | None => OutOfModel end
              | None => Ok env
              end ;;
      js_append_text env1 buf sfx
  | JSCall buf name d ps =>
      env1 <- jp_exec env ps ;;
      dv <- js_call_data env1 d (jp_args ps) ;;
      r <- jcall name dv (js_ij_arg env1) ;;
      js_append_text env1 buf r
  | JSSeq b => jb_exec env b
  | JSPlural v cs => sv <- js_eval env v ;; jk_exec env sv cs
  end
with jb_exec (env : jenv) (b : jblk) : outcome jenv :=
  match b with JBNil => Ok env | JBCons s r => env' <- js_exec env s ;; jb_exec env' r end
with jl_exec (env : jenv) (e : jelse) : outcome jenv :=
  match e with
  | JLNone => Ok env
  | JLElse b => jb_exec env b
  | JLElif c th rest => v <- js_eval env c ;; if js_truthy v then jb_exec env th else jl_exec env rest
  end
with jk_exec (env : jenv) (sv : jval) (k : jcases) : outcome jenv :=
  match k with
  | JKNone => Ok env
  | JKDefault b => jb_exec env b
  | JKCase v vs b rest => h <- jk_hit env sv (v :: vs) ;; if h then jb_exec env b else jk_exec env sv rest
  end
with jp_exec (env : jenv) (ps : jparams) : outcome jenv :=
  match ps with
  | JPNil => Ok env
  | JPVal _ _ r => jp_exec env r
  | JPCont _ g body r => env1 <- jb_exec (jvset env g (JStr [])) body ;; jp_exec env1 r
  end.
End JsExec.

(* ---- the Soy meaning: the bytes written and the environment afterwards (None = an error, or outside the subset) ---- *)
Definition scalar_string (v : value) : option bstr :=
  match v with
  | VStr s => Some s
  | VInt z => Some (dec_of_Z z)
  | VBool true => Some s_true
  | VBool false => Some s_false
  | VNull => Some s_null
  | _ => None
  end.
(* the list range() returns: a, a + st, ... below l (st > 0); the fuel l - a suffices *)
Fixpoint range_items (fuel : nat) (i limit step : Z) : list value :=
  match fuel with
  | O => []
  | S f => if (i <? limit)%Z then VInt i :: range_items f (i + step)%Z limit step else []
  end.
Definition cleanb (s : bstr) : bool := forallb (fun c => negb (c =? 0) && negb (c =? 34)) s.
Definition prim_value (v : value) : bool :=
  match v with VUndef | VNull | VBool _ | VInt _ | VStr _ => true | _ => false end.
Definition env_set (env : bstr -> option value) (k : bstr) (v : value) : bstr -> option value :=
  fun x => if bstr_eqb x k then Some v else env x.

Section Sout.
  Variable ij : option value.
  Variable mode : N.
  Variable print_text : N -> list pdir -> bstr -> bstr.      (* go_print_text of Proofs/MiniJSStmt.v *)
  Variable denv : bstr -> option value.                      (* the data of the template being rendered (what data="all" passes on) *)
  Variable callee : bstr -> (bstr -> option value) -> option bstr.   (* the text a template writes for given data *)

  Definition cdata_env (env : bstr -> option value) (d : cdata) : option (bstr -> option value) :=
    match d with
    | DNone => Some (fun _ => None)
    | DAll => Some denv
    | DExpr e =>
        (* the keys of the map are identifiers (a key such as x.index would shadow the renderer's hidden loop variables) *)
        match ceval ij env e with
        | Some (VMap _ m) => if forallb (fun kv => is_ident (fst kv)) m then Some (fun k => assoc_s k m) else None
        | _ => None
        end
    end.

  (* does one of the case values equal the switch value (all of them primitive) *)
  Fixpoint khit (env : bstr -> option value) (sv : value) (vs : list cexpr) : option bool :=
    match vs with
    | [] => Some false
    | x :: r => match ceval ij env x with
                | Some cv => if prim_value cv then (if equals sv cv then Some true else khit env sv r) else None
                | None => None
                end
    end.

  (* the rounds of a loop: each binds $x and the hidden $x.index in the loop's frame, over what the last round left *)
  Fixpoint for_out (run : (bstr -> option value) -> option bstr) (x : bstr) (env : bstr -> option value) (i : Z) (items : list value)
    : option bstr :=
    match items with
    | [] => Some []
    | v :: r =>
        let env1 := env_set (env_set env x v) (x ++ jk_index) (VInt i) in
        match run env1 with
        | Some t => match for_out run x env1 (i + 1)%Z r with Some t' => Some (t ++ t') | None => None end
        | None => None
        end
    end.

  (* the arguments of range(): integers; a step must be positive *)
  Fixpoint cints (env : bstr -> option value) (es : list cexpr) : option (list Z) :=
    match es with
    | [] => Some []
    | e :: r => match ceval ij env e, cints env r with Some (VInt z), Some zs => Some (z :: zs) | _, _ => None end
    end.

  Fixpoint sout (env : bstr -> option value) (s : cstmt) : option (bstr * (bstr -> option value)) :=
    match s with
    | SRaw t => Some (t, env)
    | SPrint e ds =>
        match ceval ij env e with
        | Some v => match scalar_string v with
                    | Some str => if cleanb str then Some (print_text mode ds str, env) else None
                    | None => None
                    end
        | None => None
        end
    | SLet name e =>
        if bstr_eqb name n_ij then None
        else if is_ident name then match ceval ij env e with Some v => Some ([], env_set env name v) | None => None end
        else None
    | SLetC name body =>
        if bstr_eqb name n_ij then None
        else if is_ident name then match bout env body with Some t => Some ([], env_set env name (VStr t)) | None => None end
        else None
    | SIf c th rest =>
        match ceval ij env c with
        | Some v => match (if truthy v then bout env th else eout env rest) with Some t => Some (t, env) | None => None end
        | None => None
        end
    | SSwitch v cs =>
        match ceval ij env v with
        | Some sv => if prim_value sv
                     then match kout env sv cs with Some t => Some (t, env) | None => None end
                     else None
        | None => None
        end
    | SFor x e body hasie ie =>
        if is_ident x && negb (bstr_eqb x n_ij) then
          match ceval ij env e with
          | Some (VList _ l) =>
              if small (Z.of_nat (length l)) then
                match l with
                | [] => if hasie then match bout env ie with Some t => Some (t, env) | None => None end else Some ([], env)
                | _ :: _ =>
                    match for_out (fun en => bout en body) x
                                  (env_set env (x ++ c_lastindex) (VInt (Z.of_nat (length l) - 1))) 0%Z l with
                    | Some t => Some (t, env)
                    | None => None
                    end
                end
              else None
          | _ => None
          end
        else None
    | SForRange x a1 rest body hasie ie =>
        if is_ident x && negb (bstr_eqb x n_ij) then
          match cints env (a1 :: rest) with
          | Some zs =>
              match range_args 0%Z 1%Z zs with
              | Some (a, l, st) =>
                  if (0 <? st)%Z && small (l - a) then
                    let items := range_items (Z.to_nat (Z.max 0 (l - a))) a l st in
                    match items with
                    | [] => if hasie then match bout env ie with Some t => Some (t, env) | None => None end else Some ([], env)
                    | _ :: _ =>
                        match for_out (fun en => bout en body) x
                                      (env_set env (x ++ c_lastindex) (VInt (Z.of_nat (length items) - 1))) 0%Z items with
                        | Some t => Some (t, env)
                        | None => None
                        end
                    end
                  else None
              | None => None
              end
          | None => None
          end
        else None
    | SCss e sfx =>
        match e with
        | None => Some (sfx, env)
        | Some x =>
            match ceval ij env x with
            | Some v => match scalar_string v with Some str => Some ((str ++ [45]) ++ sfx, env) | None => None end
            | None => None
            end
        end
    | SCall name d ps =>
        match cdata_env env d with
        | Some base =>
            match pout env ps base with
            | Some cenv => match callee name cenv with Some t => Some (t, env) | None => None end
            | None => None
            end
        | None => None
        end
    | SMsg body => if msg_ok body then match bout env body with Some t => Some (t, env) | None => None end else None
    | SMsgPl _ v q =>
        (* walkPlural: the value must be an integer; the first case with that number, else the default *)
        match ceval ij env v with
        | Some (VInt i) => match qout env i q with Some t => Some (t, env) | None => None end
        | _ => None
        end
    end
  with bout (env : bstr -> option value) (b : cblk) : option bstr :=
    match b with
    | BNil => Some []
    | BCons s r => match sout env s with
                   | Some (a, env1) => match bout env1 r with Some c => Some (a ++ c) | None => None end
                   | None => None
                   end
    end
  with eout (env : bstr -> option value) (e : celse) : option bstr :=
    match e with
    | ENone => Some []
    | EElse b => bout env b
    | EElif c th rest =>
        match ceval ij env c with
        | Some v => if truthy v then bout env th else eout env rest
        | None => None
        end
    end
  with kout (env : bstr -> option value) (sv : value) (k : ccases) : option bstr :=
    match k with
    | KNone => Some []
    | KDefault b => bout env b
    | KCase v vs b rest =>
        match khit env sv (v :: vs) with
        | Some true => bout env b
        | Some false => kout env sv rest
        | None => None
        end
    end
  (* the parameters of a call, evaluated / rendered in the caller's environment, over the data passed *)
  with pout (env : bstr -> option value) (ps : cparams) (acc : bstr -> option value) : option (bstr -> option value) :=
    match ps with
    | PNil => Some acc
    | PVal k e r =>
        if is_ident k then match ceval ij env e with Some v => pout env r (env_set acc k v) | None => None end
        else None
    | PCont k body r =>
        if is_ident k then match bout env body with Some t => pout env r (env_set acc k (VStr t)) | None => None end
        else None
    end
  with qout (env : bstr -> option value) (i : Z) (q : cplur) : option bstr :=
    match q with
    | QDflt b => if msg_ok b then bout env b else None
    | QCase z b r => if (i =? z)%Z then (if msg_ok b then bout env b else None) else qout env i r
    end.
End Sout.

(* ---- the printer of statements at an indentation level: the chunks of JsGen ---- *)
Definition sp_ind (ind : nat) : list chunk := [CText (indent_text ind)].
Fixpoint jk_values (ind : nat) (vs : list jexpr) : list chunk :=
  match vs with
  | [] => []
  | v :: r => sp_ind ind ++ [CText t_case] ++ jprint v ++ [CText t_colon; CText t_nl] ++ jk_values ind r
  end.
Definition jd_print (d : jdata) : list chunk :=
  match d with JDEmpty => [CText t_empty_obj] | JDOpt => [CText t_opt_data] | JDExpr e => jprint e end.
Fixpoint jps_print (first : bool) (ps : list (bstr * jexpr)) : list chunk :=
  match ps with
  | [] => []
  | (k, e) :: r => (if first then [] else [CText t_comma_sp]) ++ [CName k; CText t_colon_sp] ++ jprint e ++ jps_print false r
  end.
Definition jcall_arg (d : jdata) (ps : list (bstr * jexpr)) : list chunk :=
  match ps with
  | [] => jd_print d
  | _ => [CText t_augment] ++ jd_print d ++ [CText t_augment_mid] ++ jps_print true ps ++ [CText t_augment_end]
  end.
Fixpoint sprint (ind : nat) (s : jstmt) : list chunk :=
  match s with
  | JSAppendLit buf t => [CText (indent_text ind); CName buf; CText t_pluseq; CStrLit 39 t; CText t_semi_nl]
  | JSAppend buf e => [CText (indent_text ind); CName buf; CText t_pluseq] ++ jprint e ++ [CText t_semi_nl]
  | JSVar g e => sp_ind ind ++ ([CText t_var; CName g; CText t_eq] ++ jprint e ++ [CText t_semi]) ++ [CText t_nl]
  | JSVarBlock g body => sp_ind ind ++ [CText t_var; CName g; CText t_eq_empty] ++ [CText t_nl] ++ bprint ind body
  | JSIf c th rest =>
      sp_ind ind ++ [CText t_if_open] ++ jprint c ++ [CText t_op_mid1; CText t_brace_nl] ++ bprint (S ind) th
      ++ sp_ind ind ++ [CText t_rbrace] ++ lprint ind rest ++ [CText t_nl]
  | JSSwitch v cs =>
      sp_ind ind ++ [CText t_switch_open] ++ jprint v ++ [CText t_for_close; CText t_nl] ++ kprint (S ind) cs
      ++ sp_ind ind ++ [CText t_rbrace; CText t_nl]
  | JSForeach vd vlist vlen vidx e body hasie ie =>
      let ind1 := if hasie then S ind else ind in
      (sp_ind ind ++ ([CText t_var; CName vlist; CText t_eq] ++ jprint e ++ [CText t_semi]) ++ [CText t_nl])
      ++ (sp_ind ind ++ [CText t_var; CName vlen; CText t_eq; CName vlist; CText t_length] ++ [CText t_nl])
      ++ (if hasie then sp_ind ind ++ [CText t_if_open; CName vlen; CText t_gt0] ++ [CText t_nl] else [])
      ++ (sp_ind ind1 ++ [CText t_for_open; CName vidx; CText t_eq0_semi; CName vidx; CText t_lt; CName vlen; CText t_semi_sp; CName vidx; CText t_plusplus] ++ [CText t_nl])
      ++ (sp_ind (S ind1) ++ ([CText t_var; CName vd; CText t_eq] ++ [CName vlist; CText t_lbrack; CName vidx; CText t_rbrack] ++ [CText t_semi]) ++ [CText t_nl])
      ++ bprint (S ind1) body
      ++ (sp_ind ind1 ++ [CText t_rbrace] ++ [CText t_nl])
      ++ (if hasie then (sp_ind ind ++ [CText t_else_block] ++ [CText t_nl]) ++ bprint (S ind) ie ++ (sp_ind ind ++ [CText t_rbrace] ++ [CText t_nl]) else [])
  | JSForRange vd vinit vstep vlen vidx ei es el body hasie ie =>
      let ind1 := if hasie then S ind else ind in
      (sp_ind ind ++ ([CText t_var; CName vinit; CText t_eq] ++ jprint ei ++ [CText t_semi]) ++ [CText t_nl])
      ++ (sp_ind ind ++ ([CText t_var; CName vstep; CText t_eq] ++ jprint es ++ [CText t_semi]) ++ [CText t_nl])
      ++ (sp_ind ind ++ ([CText t_var; CName vlen; CText t_count1] ++ jprint el ++ [CText t_minus; CName vinit; CText t_count2; CName vstep; CText t_count3]) ++ [CText t_nl])
      ++ (if hasie then sp_ind ind ++ [CText t_if_open; CName vlen; CText t_gt0] ++ [CText t_nl] else [])
      ++ (sp_ind ind1 ++ [CText t_for_open; CName vidx; CText t_eq0_semi; CName vidx; CText t_lt; CName vlen; CText t_semi_sp; CName vidx; CText t_plusplus] ++ [CText t_nl])
      ++ (sp_ind (S ind1) ++ ([CText t_var; CName vd; CText t_eq] ++ [CName vinit; CText t_plus; CName vidx; CText t_times; CName vstep] ++ [CText t_semi]) ++ [CText t_nl])
      ++ bprint (S ind1) body
      ++ (sp_ind ind1 ++ [CText t_rbrace] ++ [CText t_nl])
      ++ (if hasie then (sp_ind ind ++ [CText t_else_block] ++ [CText t_nl]) ++ bprint (S ind) ie ++ (sp_ind ind ++ [CText t_rbrace] ++ [CText t_nl]) else [])
  | JSCss buf e sfx =>
      (match e with
       | Some x => [CText (indent_text ind); CName buf; CText t_pluseq] ++ jprint x ++ [CText t_css_tail; CText t_nl]
       | None => []
       end)
      ++ [CText (indent_text ind); CName buf; CText t_pluseq; CStrLit 39 sfx; CText t_semi_nl]
  | JSCall buf name d ps =>
      pprint ind ps
      ++ sp_ind ind ++ ([CName buf; CText t_pluseq; CName name; CText t_lpar] ++ jcall_arg d (jp_args ps) ++ [CText t_call_tail]) ++ [CText t_nl]
  | JSSeq b => bprint ind b
  | JSPlural v cs =>
      sp_ind ind ++ [CText t_switch_open] ++ jprint v ++ [CText t_for_close; CText t_nl] ++ kprint_nb (S ind) cs
      ++ sp_ind ind ++ [CText t_rbrace; CText t_nl]
  end
with bprint (ind : nat) (b : jblk) : list chunk :=
  match b with JBNil => [] | JBCons s r => sprint ind s ++ bprint ind r end
with lprint (ind : nat) (e : jelse) : list chunk :=
  match e with
  | JLNone => []
  | JLElse b => [CText t_else; CText t_brace_nl] ++ bprint (S ind) b ++ sp_ind ind ++ [CText t_rbrace]
  | JLElif c th rest =>
      [CText t_else; CText t_if_open] ++ jprint c ++ [CText t_op_mid1; CText t_brace_nl] ++ bprint (S ind) th
      ++ sp_ind ind ++ [CText t_rbrace] ++ lprint ind rest
  end
with kprint (ind : nat) (k : jcases) : list chunk :=
  match k with
  | JKNone => []
  | JKDefault b =>
      sp_ind ind ++ [CText t_default; CText t_nl] ++ bprint (S ind) b ++ sp_ind (S ind) ++ [CText t_break; CText t_nl]
  | JKCase v vs b rest =>
      jk_values ind (v :: vs) ++ bprint (S ind) b ++ sp_ind (S ind) ++ [CText t_break; CText t_nl] ++ kprint ind rest
  end
(* the statements of the content parameters, before the call *)
with pprint (ind : nat) (ps : jparams) : list chunk :=
  match ps with
  | JPNil => []
  | JPVal _ _ r => pprint ind r
  | JPCont _ g body r => (sp_ind ind ++ [CText t_var; CName g; CText t_eq_empty] ++ [CText t_nl]) ++ bprint ind body ++ pprint ind r
  end
(* the clauses of a plural's switch: as kprint, without "break;" after the default clause *)
with kprint_nb (ind : nat) (k : jcases) : list chunk :=
  match k with
  | JKNone => []
  | JKDefault b => sp_ind ind ++ [CText t_default; CText t_nl] ++ bprint (S ind) b
  | JKCase v vs b rest =>
      jk_values ind (v :: vs) ++ bprint (S ind) b ++ sp_ind (S ind) ++ [CText t_break; CText t_nl] ++ kprint_nb ind rest
  end.

(* ---- static condition for the generator: loop functions talk about enclosing loops, binders are identifiers ---- *)
Fixpoint swf (lv : list bstr) (s : cstmt) : bool :=
  match s with
  | SRaw _ => true
  | SPrint e _ => cwf lv e
  | SLet name e => is_ident name && cwf lv e
  | SLetC name body => is_ident name && bwf lv body
  | SIf c th rest => cwf lv c && bwf lv th && ewf lv rest
  | SSwitch v cs => cwf lv v && kwf lv cs
  | SFor x e body _ ie => is_ident x && cwf lv e && bwf (x :: lv) body && bwf lv ie
  | SForRange x a1 rest body _ ie =>
      is_ident x && (Nat.leb (length rest) 2) && cwf lv a1 && forallb (cwf lv) rest && bwf (x :: lv) body && bwf lv ie
  | SCss e _ => match e with Some x => cwf lv x | None => true end
  | SCall _ d ps => (match d with DExpr e => cwf lv e | _ => true end) && pwf lv ps
  | SMsg body => msg_ok body && bwf lv body
  | SMsgPl _ v q => cwf lv v && qwf lv q
  end
with bwf (lv : list bstr) (b : cblk) : bool :=
  match b with BNil => true | BCons s r => swf lv s && bwf lv r end
with ewf (lv : list bstr) (e : celse) : bool :=
  match e with
  | ENone => true
  | EElse b => bwf lv b
  | EElif c th rest => cwf lv c && bwf lv th && ewf lv rest
  end
with kwf (lv : list bstr) (k : ccases) : bool :=
  match k with
  | KNone => true
  | KDefault b => bwf lv b
  | KCase v vs b rest => cwf lv v && forallb (cwf lv) vs && bwf lv b && kwf lv rest
  end
with pwf (lv : list bstr) (ps : cparams) : bool :=
  match ps with
  | PNil => true
  | PVal _ e r => cwf lv e && pwf lv r
  | PCont _ body r => bwf lv body && pwf lv r
  end
with qwf (lv : list bstr) (q : cplur) : bool :=
  match q with
  | QDflt b => msg_ok b && bwf lv b
  | QCase _ b r => msg_ok b && bwf lv b && qwf lv r
  end.
