(* directiveJson: json.Marshal(value) for every Soy value, as encoding/json
   (Go 1.23) encodes the types of data/value.go:
     Undefined, Null   MarshalJSON -> null
     Bool              true / false
     Int (int64)       strconv.AppendInt(_, 10)
     Float (float64)   floatEncoder: NaN / +-Inf -> UnsupportedValueError (the directive panics, evalPrint
                       recovers: [Err]); otherwise strconv 'f' format, shortest digits, when
                       1e-6 <= |x| < 1e21 or x = 0 ('e' format otherwise: outside the exact printing
                       domain of Model/Num.v, [OutOfModel])
     String            appendString with escapeHTML (Model/JsEscape.v json_string)
     List ([]Value)    [ e1,e2,... ]   (but see [nil_null])
     Map               { "k1":v1,... } keys in sorted (byte) order, each written like a string (but see [nil_null])
   No whitespace is written.  Definitions only. *)
From Soy Require Import Model.Bytes Model.Utf8 Model.Num Model.Outcome Model.Values Model.Directives Model.JsEscape.
Open Scope N_scope.

Definition e_json_unsupported := Eval vm_compute in b "json: unsupported value".

Definition json_float (x : fl) : outcome bstr :=
  match x with
  | FNaN | FInf _ => Err e_json_unsupported
  | _ => match fl_to_string_dom x with Some s => Ok s | None => OutOfModel end
  end.

(* sort.Strings order of the keys (mapEncoder sorts the reflected keys); stable insertion *)
Fixpoint json_insert_kv {A} (k : bstr) (x : A) (l : list (bstr * A)) : list (bstr * A) :=
  match l with
  | [] => [(k, x)]
  | (k', x') :: r => if bstr_leb k k' then (k, x) :: l else (k', x') :: json_insert_kv k x r
  end.
Definition json_sort_kv {A} (l : list (bstr * A)) : list (bstr * A) :=
  fold_right (fun kx acc => json_insert_kv (fst kx) (snd kx) acc) [] l.

Definition json_member (kx : bstr * bstr) : bstr := json_string (fst kx) ++ [58] ++ snd kx.

(* [nil_null]: on the pinned tree data.List and data.Map have no MarshalJSON, so a nil []Value -- what keys()
   of an empty map and range() without elements return, and what data.New makes of a nil slice -- is
   written by encoding/json as null, not [] (finding json-empty-list-null); likewise a nil map.  The repair
   notes/pending/C16-json-nil-list.diff gives both types a MarshalJSON that writes [] and {}.  Which of the
   two holds for the tree under test is read from its source (Generated/Tables.v json_nil_null).
   Identity 0 is the nil collection (Model/Values.v). *)
Definition is_nil_coll {A} (nil_null : bool) (id : N) (l : list A) : bool :=
  nil_null && (id =? 0) && (match l with [] => true | _ => false end).

Section JsonEncode.
Variable nil_null : bool.

Fixpoint json_encode (v : value) : outcome bstr :=
  match v with
  | VUndef | VNull => Ok s_null
  | VBool true => Ok s_true
  | VBool false => Ok s_false
  | VInt z => Ok (dec_of_Z z)
  | VFloat x => json_float x
  | VStr s => Ok (json_string s)
  | VList id l =>
      if is_nil_coll nil_null id l then Ok s_null else
      items <- (fix go (l : list value) : outcome (list bstr) :=
                  match l with
                  | [] => Ok []
                  | x :: r => s <- json_encode x ;; rs <- go r ;; Ok (s :: rs)
                  end) l ;;
      Ok ([91] ++ join [44] items ++ [93])
  | VMap id m =>
      if is_nil_coll nil_null id m then Ok s_null else
      (* every member's value is encoded, then the members are written in key order *)
      items <- (fix go (m : list (bstr * value)) : outcome (list (bstr * bstr)) :=
                  match m with
                  | [] => Ok []
                  | (k, x) :: r => s <- json_encode x ;; rs <- go r ;; Ok ((k, s) :: rs)
                  end) m ;;
      Ok ([123] ++ join [44] (map json_member (json_sort_kv items)) ++ [125])
  end.
End JsonEncode.
