(* C06: the library calls Model/Interp.v leaves outside the model ([OutOfModel]), brought inside
   through the hooks of Model/InterpSafety.v section 5:
     - the directive escapeJsString (the escaper directiveEscapeJsString calls on value.String(): Model/JsEscape.v js_escape_soy,
       text/template.JSEscapeString or internal/jsescape -- Generated/Tables.v jsstr_pair_html says which),
     - the directive json (encoding/json.Marshal on the VALUE: null, booleans, integers, floats of the
       printing domain, strings with the HTML-safe escaping of Model/JsEscape.v, lists, maps with sorted
       keys; NaN and the infinities are json's UnsupportedValueError, i.e. directiveJson's panic),
     - round(x, d) with d > 0 on floats where every step is exact in the dyadic domain.
   [walk_xj] / [render_xj] are the walker / Renderer.Execute with these entries.  Definitions only. *)
From Soy Require Import Model.Bytes Model.Utf8 Model.Num Model.NumJson Model.Values Model.Outcome Model.Ast
  Model.Escape Model.Directives Model.JsEscape Model.Print Generated.Tables Model.Interp Model.InterpSafety.
Open Scope N_scope.

Definition e_json := Eval vm_compute in b "json: unsupported value".
Definition n_json := Eval vm_compute in b "json".
Definition n_escapeJsString := Eval vm_compute in b "escapeJsString".

(* ---- encoding/json on a data.Value ---- *)

(* floatEncoder: NaN and +-Inf are an UnsupportedValueError; otherwise Model/NumJson.v [fl_to_json]: the shortest
   digits in 'f' layout when 1e-6 <= |x| < 1e21, else in 'e' layout with the exponent cleaned up (until wave 3 this
   was the restricted printer [Num.fl_to_string_dom]: |x| < 1e6, at most nine binary fraction digits) *)
Definition json_float (x : fl) : outcome bstr :=
  match x with
  | FNaN | FInf _ => Err e_json
  | _ => match fl_to_json x with Some s => Ok s | None => OutOfModel end
  end.

Fixpoint json_items (rec : value -> outcome bstr) (l : list value) : outcome (list bstr) :=
  match l with
  | [] => Ok []
  | x :: r => s <- rec x ;; rs <- json_items rec r ;; Ok (s :: rs)
  end.
Fixpoint json_fields (rec : value -> outcome bstr) (m : list (bstr * value)) : outcome (list bstr) :=
  match m with
  | [] => Ok []
  | (k, x) :: r => s <- rec x ;; rs <- json_fields rec r ;; Ok ((json_string k ++ [58] ++ s) :: rs)
  end.

(* map keys are emitted in sorted order (sort.Strings: byte order); [map_set] keeps a list sorted *)
Definition sorted_fields (m : list (bstr * value)) : list (bstr * value) :=
  fold_left (fun acc kv => map_set acc (fst kv) (snd kv)) m [].

Fixpoint json_value (fuel : nat) (v : value) : outcome bstr :=
  match fuel with
  | O => OutOfFuel
  | S f =>
      match v with
      | VUndef | VNull => Ok s_null                    (* MarshalJSON of Undefined and Null *)
      | VBool true => Ok s_true
      | VBool false => Ok s_false
      | VInt z => Ok (dec_of_Z z)
      | VFloat x => json_float x
      | VStr s => Ok (json_string s)
      | VList id l =>
          match l with
          | [] => Ok (if (id =? 0) && json_nil_null then s_null else [91; 93])   (* a nil slice was null before /repo 234aef6; which of the two holds is read from the source (Tables.json_nil_null) *)
          | _ => items <- json_items (json_value f) l ;; Ok ([91] ++ join [44] items ++ [93])
          end
      | VMap id m =>
          match m with
          | [] => Ok (if (id =? 0) && json_nil_null then s_null else [123; 125])
          | _ => items <- json_fields (json_value f) (sorted_fields m) ;; Ok ([123] ++ join [44] items ++ [125])
          end
      end
  end.

(* sorting does not change the depth; the budget is the value's own depth *)
Definition json_of (v : value) : outcome bstr := json_value (S (depth v)) v.

(* directiveJson / directiveEscapeJsString under evalPrint's wrapper (the panic of directiveJson on a
   Marshal error is the [Err]); both ignore their arguments *)
Definition dir_json (v : option value) (_ : list value) : outcome (option value) :=
  match v with
  | None => Ok (Some (VStr s_null))               (* json.Marshal(nil) *)
  | Some x => s <- json_of x ;; Ok (Some (VStr s))
  end.
Definition dir_escape_js (v : option value) (_ : list value) : outcome (option value) :=
  match v with
  | None => Err e_nilresult
  | Some x => s <- value_string x ;; Ok (Some (VStr (js_escape_soy jsstr_pair_html is_print_tbl s)))
  end.

Definition x_dirs (name : bstr) : option dir_entry :=
  match lookup_directive name with
  | Some (arglens, (cancel, (nilapply, fn))) =>
      if bstr_eqb name n_json then Some {| de_arities := arglens; de_cancel := cancel; de_impl := DHook dir_json |}
      else if bstr_eqb name n_escapeJsString then Some {| de_arities := arglens; de_cancel := cancel; de_impl := DHook dir_escape_js |}
      else Some {| de_arities := arglens; de_cancel := cancel; de_impl := DBuiltin fn nilapply |}
  | None => None
  end.

(* ---- funcRound with digitsAfterPt > 0 ---- *)

(* round(x, prec): pow := math.Pow(10, prec); intermed := x*pow -+ 0.5; float64(int64(intermed)) / pow.
   10^prec is an exact float64 for prec <= 15 at least; every step must be exact in the dyadic domain,
   otherwise the result is outside the model *)
Definition round_digits (x : fl) (d : Z) : outcome value :=
  if ((0 <? d) && (d <=? 15))%Z then
    match fl_of_int (10 ^ d) with
    | Some pow =>
        match fl_mul x pow with
        | Some im =>
            match fl_add im (if fl_isneg im && negb (fl_is_zero im) then fl_neg half else half) with
            | Some y =>
                match fl_trunc_Z y with
                | Some z =>
                    match fl_of_int (wrap64 z) with
                    | Some zi => of_fl (fl_div zi pow)
                    | None => OutOfModel
                    end
                | None => OutOfModel
                end
            | None => OutOfModel
            end
        | None => OutOfModel
        end
    | None => OutOfModel
    end
  else OutOfModel.

(* funcRound with one argument (or digits = 0): as Interp.apply_func *)
Definition round1 (x : fl) : outcome value :=
  match fl_add x (if fl_isneg x && negb (fl_is_zero x) then fl_neg half else half) with
  | Some y => match fl_trunc_Z y with Some z => Ok (VInt (wrap64 z)) | None => OutOfModel end
  | None => OutOfModel
  end.

(* the entry "round" of soyhtml.Funcs: as Interp.apply_func, plus the two-argument case with digits *)
Definition round_x (args : list value) : outcome value :=
  match args with
  | [v] => x <- to_float v ;; round1 x
  | [v; VInt d] => x <- to_float v ;; if (d =? 0)%Z then round1 x else round_digits x d
  | [_; _] => Err e_type
  | _ => Err e_func
  end.

Definition x_funcs (name : bstr) : option func_hook :=
  if bstr_eqb name n_round then Some {| fh_arities := [1; 2]; fh_apply := round_x |} else None.

Definition walk_xj (cf : cfg) : nat -> node -> M value := walk_hook cf x_funcs x_dirs.
Definition render_xj (cf : cfg) := render_hook cf x_funcs x_dirs.
