(* parse/parse.go, the expression parser: parseExpr (precedence climbing), parseExprFirstTerm,
   parseDataRef, parseListOrMap / parseListLiteral / parseMapLiteral, parseTernary,
   newValueNode (number and string literal conversion), newGlobalNode, newFunctionNode, and
   parsePrint (print command with directives), over the token plumbing of Model/Token.v.
   Every t.next / t.backup / t.peek of the Go code appears as p_next / p_backup / p_peek_tok
   in the same order, because error positions and the number of channel receives are
   observable.

   Open recursion: every procedure is parametrised by [w], the recursive call t.parseExpr,
   and every Go `for` loop is a top-level fixpoint on a loop budget [lf].
       parse_expr (S f) prec st = parse_expr_body (parse_expr f) f prec st      (reflexivity)
   Prove facts about [parse_expr_body w lf] under a hypothesis on [w], then close by
   induction on the fuel.  [PFuel] is returned when either budget runs out.

   Tables (item codes pk_*, prec_of, is_binary_op, is_unary_op, is_value, binop_node_table,
   unop_node_table) are regenerated from the Go source by go/cmd/tablegen/parser.go.

   Float literals: a literal whose decimal value is exactly a float64 of Model/Num.v's window
   goes through NumLit.parse_float (the exact path the round-trip proofs of C17 use); every other
   literal of the scanner's float syntax goes through NumLit.parse_float_round, the correctly
   rounded conversion of strconv.ParseFloat (a value, or ErrRange -> t.error).  So the model is
   total on every float item the scanner can send.  A float item whose text is NOT of the scanner's
   float syntax (FRSyntax: no scanner sends one; tied by the token correspondence, not proved) is
   taken to make ParseFloat fail; either outcome of the conversion leaves the parser state
   unchanged, and no theorem about termination or consumption inspects the conversion.
   Definitions only. *)
From Soy Require Import Model.Bytes Model.Num Model.Values Model.Ast Model.Token Model.NumLit Model.Quote Generated.Tables.
Open Scope N_scope.

(* error classes (never compared with Go's error texts) *)
Definition c_unexpected := Eval vm_compute in b "unexpected".
Definition c_lexical := Eval vm_compute in b "lexical error".
Definition c_number := Eval vm_compute in b "number syntax".          (* t.error(err) of strconv *)
Definition c_unquote := Eval vm_compute in b "unquote".
Definition c_mapkey := Eval vm_compute in b "map key is not a string".
Definition c_unimplemented := Eval vm_compute in b "panic(string)".   (* panic("unimplemented"/"unreachable"): recovered into an error *)
Definition m_slice := Eval vm_compute in b "slice bounds out of range".
(* no longer returned (float literals are total since parse_float_round); kept for the harnesses that test for it *)
Definition oom_float := Eval vm_compute in b "OUT-OF-MODEL: float literal outside the dyadic domain".

(* t.errorf: the position is taken from the current token, taking account of backups *)
Definition p_errorf {A} (class : bstr) (st : pst) : presult A := PErr (err_tok st) class st.

(* t.unexpected: reported at the token it is given (errorAt, /repo bb87cc7), not at err_tok *)
Definition p_unexpected {A} (t : tok) (st : pst) : presult A :=
  if t_typ t =? pk_itemError then PErr t c_lexical st else PErr t c_unexpected st.

(* t.expect *)
Definition p_expect (typ : N) (st : pst) : presult tok :=
  let '(t, st1) := p_next st in
  if t_typ t =? typ then POk t st1 else p_unexpected t st1.

(* s[k:] : a Go slice expression panics (runtime error) when k > len(s) *)
Definition slice_from (k : nat) (s : bstr) : option bstr :=
  if (length s <? k)%nat then None else Some (drop k s).

Definition binop_of_index (i : N) : option binop :=
  nth_error [OMul; ODiv; OMod; OAdd; OSub; OEq; ONotEq; OGt; OGte; OLt; OLte; OOr; OAnd; OElvis] (N.to_nat i).

(* newBinaryOpNode(t, n1, n2) *)
Definition new_binary_op (t : tok) (n1 n2 : node) : option node :=
  match assoc (t_typ t) binop_node_table with
  | Some (i, _) => match binop_of_index i with Some op => Some (NBin op (t_pos t) n1 n2) | None => None end
  | None => None
  end.

(* newUnaryOpNode(t, n1) *)
Definition new_unary_op (t : tok) (n1 : node) : option node :=
  match assoc (t_typ t) unop_node_table with
  | Some 0 => Some (NNot (t_pos t) n1)
  | Some 1 => Some (NNeg (t_pos t) n1)
  | _ => None
  end.

(* Go map assignment items[key] = v on the association list: replace, or append *)
Fixpoint items_set (l : list (bstr * node)) (k : bstr) (v : node) : list (bstr * node) :=
  match l with
  | [] => [(k, v)]
  | (k', v') :: r => if bstr_eqb k k' then (k, v) :: r else (k', v') :: items_set r k v
  end.

Definition s_true_lit := Eval vm_compute in b "true".
Definition s_0x := Eval vm_compute in b "0x".

Section Body.
Variable w : N -> pst -> presult node.      (* t.parseExpr *)

(* parseTernary(cond): itemTernIf has been read *)
Definition parse_ternary (cond : node) (st : pst) : presult node :=
  pbind (w 0 st) (fun n1 st1 =>
  pbind (p_expect pk_itemColon st1) (fun _ st2 =>
  pbind (w 0 st2) (fun n2 st3 =>
  POk (NTern (pos_of cond) cond n1 n2) st3))).

(* the loop of parseExpr, and what follows it *)
Fixpoint expr_loop (lf : nat) (prec : N) (n : node) (st : pst) : presult node :=
  match lf with
  | O => PFuel
  | S lf' =>
      let '(t, st1) := p_next st in
      let q := prec_of (t_typ t) in
      if negb (is_binary_op (t_typ t)) || (q <? prec) then
        if (prec =? 0) && (t_typ t =? pk_itemTernIf) then parse_ternary n st1
        else POk n (p_backup st1)
      else
        pbind (w (q + 1) st1) (fun n2 st2 =>
          match new_binary_op t n n2 with
          | Some bn => expr_loop lf' prec bn st2
          | None => p_errorf c_unimplemented st2
          end)
  end.

(* the loop of parseDataRef *)
Fixpoint data_ref_loop (lf : nat) (p : N) (key : bstr) (acc : list node) (st : pst) : presult node :=
  match lf with
  | O => PFuel
  | S lf' =>
      let '(t, st1) := p_next st in
      let ty := t_typ t in
      if (ty =? pk_itemQuestionDotIdent) || (ty =? pk_itemDotIdent) then
        let ns := ty =? pk_itemQuestionDotIdent in
        match slice_from (if ns then 2 else 1) (t_val t) with
        | None => PCrash m_slice
        | Some k => data_ref_loop lf' p key (acc ++ [NAccKey (t_pos t) ns k]) st1
        end
      else if (ty =? pk_itemQuestionDotIndex) || (ty =? pk_itemDotIndex) then
        let ns := ty =? pk_itemQuestionDotIndex in
        match slice_from (if ns then 2 else 1) (t_val t) with
        | None => PCrash m_slice
        | Some ds =>
            match parse_int 10 ds with
            | None => p_errorf c_number st1
            | Some i => data_ref_loop lf' p key (acc ++ [NAccIndex (t_pos t) ns i]) st1
            end
        end
      else if (ty =? pk_itemQuestionKey) || (ty =? pk_itemLeftBracket) then
        let ns := ty =? pk_itemQuestionKey in
        pbind (w 0 st1) (fun e st2 =>
        pbind (p_expect pk_itemRightBracket st2) (fun _ st3 =>
        data_ref_loop lf' p key (acc ++ [NAccExpr (t_pos t) ns e]) st3))
      else POk (NDataRef p key acc) (p_backup st1)
  end.

(* parseDataRef(tok) *)
Definition parse_data_ref (lf : nat) (t : tok) (st : pst) : presult node :=
  match slice_from 1 (t_val t) with
  | None => PCrash m_slice
  | Some key => data_ref_loop lf (t_pos t) key [] st
  end.

(* parseListLiteral: "," has just been read; [items] are the items so far *)
Fixpoint list_loop (lf : nat) (p : N) (items : list node) (st : pst) : presult node :=
  match lf with
  | O => PFuel
  | S lf' =>
      pbind (w 0 st) (fun e st1 =>
        let items' := items ++ [e] in
        let '(nx, st2) := p_next st1 in
        if t_typ nx =? pk_itemRightBracket then POk (NListLit p items') st2
        else if negb (t_typ nx =? pk_itemComma) then p_unexpected nx st2
        else list_loop lf' p items' st2)
  end.

(* parseMapLiteral: ":" has just been read; [key] is the pending key *)
Fixpoint map_loop (lf : nat) (p : N) (items : list (bstr * node)) (key : bstr) (st : pst) : presult node :=
  match lf with
  | O => PFuel
  | S lf' =>
      pbind (w 0 st) (fun e st1 =>
        let items' := items_set items key e in
        let '(nx, st2) := p_next st1 in
        if t_typ nx =? pk_itemRightBracket then POk (NMapLit p items') st2
        else if negb (t_typ nx =? pk_itemComma) then p_unexpected nx st2
        else
          pbind (p_expect pk_itemString st2) (fun kt st3 =>
            match unquote_string (t_val kt) with
            | None => p_errorf c_unquote st3
            | Some key' =>
                pbind (p_expect pk_itemColon st3) (fun _ st4 => map_loop lf' p items' key' st4)
            end))
  end.

Definition parse_map_literal (lf : nat) (p : N) (first : node) (st : pst) : presult node :=
  match first with
  | NString _ _ v => map_loop lf p [] v st
  | _ => p_errorf c_mapkey st
  end.

(* parseListOrMap(token): "[" has just been read *)
Definition parse_list_or_map (lf : nat) (t : tok) (st : pst) : presult node :=
  let '(nx, st1) := p_next st in
  if t_typ nx =? pk_itemColon then
    pbind (p_expect pk_itemRightBracket st1) (fun _ st2 => POk (NMapLit (t_pos t) []) st2)
  else if t_typ nx =? pk_itemRightBracket then POk (NListLit (t_pos t) []) st1
  else
    pbind (w 0 (p_backup st1)) (fun first st2 =>
      let '(d, st3) := p_next st2 in
      if t_typ d =? pk_itemColon then parse_map_literal lf (t_pos t) first st3
      else if t_typ d =? pk_itemComma then list_loop lf (t_pos t) [first] st3
      else if t_typ d =? pk_itemRightBracket then POk (NListLit (t_pos t) [first]) st3
      else p_unexpected d st3).

(* newGlobalNode(tok, next) *)
Fixpoint global_loop (lf : nat) (p : N) (name : bstr) (nx : tok) (st : pst) : presult node :=
  match lf with
  | O => PFuel
  | S lf' =>
      if t_typ nx =? pk_itemDotIdent then
        let '(nx', st1) := p_next st in global_loop lf' p (name ++ t_val nx) nx' st1
      else POk (NGlobal p name VUndef) (p_backup st)
  end.

(* the argument loop of newFunctionNode *)
Fixpoint func_loop (lf : nat) (p : N) (name : bstr) (args : list node) (st : pst) : presult node :=
  match lf with
  | O => PFuel
  | S lf' =>
      pbind (w 0 st) (fun e st1 =>
        let args' := args ++ [e] in
        let '(nx, st2) := p_next st1 in
        if t_typ nx =? pk_itemComma then func_loop lf' p name args' st2
        else if t_typ nx =? pk_itemRightParen then POk (NFunc p name args') st2
        else p_unexpected nx st2)
  end.

(* newFunctionNode(tok): "(" has just been read *)
Definition new_function_node (lf : nat) (t : tok) (st : pst) : presult node :=
  let '(pk, st1) := p_peek_tok st in
  if t_typ pk =? pk_itemRightParen then
    let '(_, st2) := p_next st1 in POk (NFunc (t_pos t) (t_val t) []) st2
  else func_loop lf (t_pos t) (t_val t) [] st1.

(* newValueNode(tok) *)
Definition new_value_node (lf : nat) (t : tok) (st : pst) : presult node :=
  let ty := t_typ t in
  if ty =? pk_itemNull then POk (NNull (t_pos t)) st
  else if ty =? pk_itemBool then POk (NBool (t_pos t) (bstr_eqb (t_val t) s_true_lit)) st
  else if ty =? pk_itemInteger then
    let r := if is_prefix s_0x (t_val t) then parse_int 16 (drop 2 (t_val t)) else parse_int 10 (t_val t) in
    match r with
    | Some z => POk (NInt (t_pos t) z) st
    | None => p_errorf c_number st
    end
  else if ty =? pk_itemFloat then
    match parse_float (t_val t) with
    | Some f => POk (NFloat (t_pos t) f) st
    | None =>
        match parse_float_round (t_val t) with
        | FRVal f => POk (NFloat (t_pos t) f) st
        | FRRange => p_errorf c_number st
        | FRSyntax => p_errorf c_number st
        end
    end
  else if ty =? pk_itemString then
    match unquote_string (t_val t) with
    | Some s => POk (NString (t_pos t) (t_val t) s) st
    | None => p_errorf c_unquote st
    end
  else if ty =? pk_itemLeftBracket then parse_list_or_map lf t st
  else if ty =? pk_itemDollarIdent then parse_data_ref lf t st
  else if ty =? pk_itemIdent then
    let '(nx, st1) := p_next st in
    if negb (t_typ nx =? pk_itemLeftParen) then global_loop lf (t_pos t) (t_val t) nx st1
    else new_function_node lf t st1
  else p_errorf c_unimplemented st.

(* parseExprFirstTerm *)
Definition parse_first_term (lf : nat) (st : pst) : presult node :=
  let '(t, st1) := p_next st in
  if is_unary_op (t_typ t) then
    pbind (w (prec_of (t_typ t)) st1) (fun n st2 =>
      match new_unary_op t n with
      | Some u => POk u st2
      | None => p_errorf c_unimplemented st2
      end)
  else if t_typ t =? pk_itemLeftParen then
    pbind (w 0 st1) (fun n st2 =>
    pbind (p_expect pk_itemRightParen st2) (fun _ st3 => POk n st3))
  else if is_value (t_typ t) then new_value_node lf t st1
  else p_unexpected t st1.

(* parseExpr(prec) *)
Definition parse_expr_body (lf : nat) (prec : N) (st : pst) : presult node :=
  pbind (parse_first_term lf st) (fun n st1 => expr_loop lf prec n st1).

(* ---- parsePrint(token): print has just been read (or inferred) ---- *)

(* the argument loop of one directive *)
Fixpoint directive_args_loop (lf : nat) (args : list node) (st : pst) : presult (list node) :=
  match lf with
  | O => PFuel
  | S lf' =>
      let '(nx, st1) := p_next st in
      if (t_typ nx =? pk_itemColon) || (t_typ nx =? pk_itemComma) then
        pbind (w 0 st1) (fun e st2 => directive_args_loop lf' (args ++ [e]) st2)
      else POk args (p_backup st1)
  end.

Fixpoint print_loop (lf : nat) (p : N) (e : node) (dirs : list node) (st : pst) : presult node :=
  match lf with
  | O => PFuel
  | S lf' =>
      let '(t, st1) := p_next st in
      if t_typ t =? pk_itemRightDelim then POk (NPrint p e dirs) st1
      else if t_typ t =? pk_itemPipe then
        pbind (p_expect pk_itemIdent st1) (fun id st2 =>
        pbind (directive_args_loop lf [] st2) (fun args st3 =>
        print_loop lf' p e (dirs ++ [NDirective (t_pos t) (t_val id) args]) st3))
      else p_unexpected t st1
  end.

Definition parse_print_body (lf : nat) (p : N) (st : pst) : presult node :=
  pbind (w 0 st) (fun e st1 => print_loop lf p e [] st1).

End Body.

(* func (t *tree) parseExpr(prec int) ast.Node *)
Fixpoint parse_expr (fuel : nat) (prec : N) (st : pst) {struct fuel} : presult node :=
  match fuel with
  | O => PFuel
  | S f => parse_expr_body (parse_expr f) f prec st
  end.

(* func (t *tree) parsePrint(token item) ast.Node, [p] = token.pos *)
Definition parse_print (fuel : nat) (p : N) (st : pst) : presult node :=
  parse_print_body (parse_expr fuel) fuel p st.

(* func Expr(str string): parseExpr(0) on the items of lexExpr; whatever follows the
   expression is not looked at (beyond the one item of look-ahead) *)
Definition parse_expr_top (fuel : nat) (ts : list tok) : presult node :=
  parse_expr fuel 0 (pst_init ts).
