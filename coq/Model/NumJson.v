(* encoding/json's layout of a float64 (encode.go floatEncoder.encode), on top of the shortest-decimal printer of
   Model/Num.v:

     fmt := 'f';  if abs != 0 && (abs < 1e-6 || abs >= 1e21) { fmt = 'e' }
     b = strconv.AppendFloat(b, f, fmt, -1, 64)
     if fmt == 'e' { clean up e-09 to e-9 }

   With the shortest digits d1 d2 ... dn (d1 <> 0) and the decimal point position dp (value 0.d1..dn * 10^dp) the
   decimal exponent is dp - 1, and abs < 1e-6 <-> dp - 1 < -6, abs >= 1e21 <-> 21 <= dp - 1 (the constants are the
   floats nearest to those decimals; a float below them has shortest digits below them because the digits
   round back to the float).  'e' with precision -1: d1[.d2..dn]e(+|-)XX with at least two exponent digits; the
   clean-up removes the leading zero of a two-digit exponent -- so the exponent is written without padding.
   'f' with precision -1: as the non-exponent branches of [Num.fmt_g].  Definitions only. *)
From Soy Require Import Model.Bytes Model.Num.
Open Scope N_scope.

Definition fmt_json (sign ds : bstr) (dp : Z) : bstr :=
  let nd := Z.of_nat (length ds) in
  let ex := (dp - 1)%Z in
  if (ex <? -6)%Z || (21 <=? ex)%Z then
    let mant := match ds with
                | [] => []
                | d :: rest => d :: match rest with [] => [] | _ => 46%N :: rest end
                end in
    sign ++ mant ++ [101%N; if (ex <? 0)%Z then 45%N else 43%N] ++ dec_of_Z (Z.abs ex)
  else if (dp <=? 0)%Z then sign ++ [48; 46]%N ++ zeros (- dp) ++ ds
  else if (nd <=? dp)%Z then sign ++ ds ++ zeros (dp - nd)
  else sign ++ firstn (Z.to_nat dp) ds ++ [46%N] ++ skipn (Z.to_nat dp) ds.

(* json.Marshal(float64): [None] for NaN and the infinities (an UnsupportedValueError) and outside the range of
   [Num.fl_to_string] (mantissa of 53 bits, binary exponent of the normal range) *)
Definition fl_to_json (x : fl) : option bstr :=
  match x with
  | FNaN | FInf _ => None
  | FZero false => Some [48]%N
  | FZero true => Some [45; 48]%N
  | FFin m e =>
      let sign : bstr := if (m <? 0)%Z then [45]%N else [] in
      match Z.abs m with
      | Zpos p =>
          let '(q, e') := strip2 p e in
          if (Zpos q <? two53)%Z && (-1000 <? e')%Z && (e' <? 900)%Z then
            match shortest_decimal (Zpos q) e' with
            | Some (ds, dp) => Some (fmt_json sign ds dp)
            | None => None
            end
          else None
      | _ => None
      end
  end.
