(* The PO file syntax as the extractor writes it and pomsg reads it back: library code outside
   /repo, modelled by hand from its source --
     strconv.Quote / Unquote / UnquoteChar            (Go 1.23.5, strconv/quote.go)
     github.com/robfig/gettext/po writer.quo / msgstr / plural, Message.WriteTo   (writer.go, po.go)
     github.com/robfig/gettext/po scanner.quo / msgstr / txt / prefix             (scanner.go)
     bufio.ScanLines                                   (lines end at \n, one trailing \r dropped)
   Definitions only; the round-trip theorems are in Proofs/PoFileProofs.v, the tie is
   go/cmd/soyverif/c11po.go (the real functions against these on generated strings) and the
   end-to-end run of C11.

   strconv.IsPrint on runes >= 0x80 is a table of the Unicode version of the toolchain: it is a
   Section variable, and everything proved holds for every such predicate.  Strings are byte
   strings (every element < 256 is a hypothesis of the theorems, not of the definitions).
   strings.TrimSpace is modelled on ASCII white space only (the lines the writer produces begin
   and end with a double quote after the prefix, so nothing else can be trimmed there). *)
From Soy Require Import Model.Bytes Model.Outcome Model.Utf8.
Open Scope N_scope.

Definition e_syntax := Eval vm_compute in b "invalid syntax".          (* strconv.ErrSyntax *)

Section Po.
Variable is_print : N -> bool.

(* ------------------------------------------------------------------ *)
(* strconv.Quote                                                       *)
(* ------------------------------------------------------------------ *)

Definition hexdig (n : N) : N := if n <? 10 then 48 + n else 87 + n.     (* lowerhex[n] *)
Definition hex2 (c : N) : bstr := [hexdig (c / 16 mod 16); hexdig (c mod 16)].
Definition hex4 (r : N) : bstr :=
  [hexdig (r / 4096 mod 16); hexdig (r / 256 mod 16); hexdig (r / 16 mod 16); hexdig (r mod 16)].
Definition hex8 (r : N) : bstr :=
  [hexdig (r / 268435456 mod 16); hexdig (r / 16777216 mod 16); hexdig (r / 1048576 mod 16); hexdig (r / 65536 mod 16)]
  ++ hex4 r.

(* IsPrint: ASCII by range, the rest by the table *)
Definition printable (r : N) : bool := if r <? 128 then (32 <=? r) && (r <=? 126) else is_print r.

(* appendEscapedRune(buf, r, the double quote, false, false) for a rune r that DecodeRune produced *)
Definition esc_rune (r : N) : bstr :=
  if (r =? 34) || (r =? 92) then [92; r]
  else if printable r then encode_rune r
  else if r =? 7 then [92; 97]
  else if r =? 8 then [92; 98]
  else if r =? 12 then [92; 102]
  else if r =? 10 then [92; 110]
  else if r =? 13 then [92; 114]
  else if r =? 9 then [92; 116]
  else if r =? 11 then [92; 118]
  else if (r <? 32) || (r =? 127) then 92 :: 120 :: hex2 r
  else if r <? 65536 then 92 :: 117 :: hex4 r
  else 92 :: 85 :: hex8 r.

(* the loop of appendQuotedWith; every iteration consumes at least one byte *)
Fixpoint quote_go (fuel : nat) (s : bstr) : bstr :=
  match fuel with
  | O => []
  | S f =>
      match s with
      | [] => []
      | c :: _ =>
          let '(r, w) := if c <? 128 then (c, 1%nat) else decode_rune s in
          if Nat.eqb w 1 && (r =? rune_error) then 92 :: 120 :: hex2 c ++ quote_go f (drop 1 s)
          else esc_rune r ++ quote_go f (drop w s)
      end
  end.
Definition quote_body (s : bstr) : bstr := quote_go (length s) s.
Definition po_go_quote (s : bstr) : bstr := 34 :: quote_body s ++ [34].

(* ------------------------------------------------------------------ *)
(* strconv.UnquoteChar(s, double quote) and Unquote                             *)
(* ------------------------------------------------------------------ *)

Definition unhex (c : N) : option N :=
  if in_range 48 57 c then Some (c - 48)
  else if in_range 97 102 c then Some (c - 87)
  else if in_range 65 70 c then Some (c - 55)
  else None.

Fixpoint unhex_n (n : nat) (acc : N) (s : bstr) : option (N * bstr) :=
  match n with
  | O => Some (acc, s)
  | S k => match s with
           | [] => None
           | c :: r => match unhex c with Some x => unhex_n k (acc * 16 + x) r | None => None end
           end
  end.

Definition valid_rune (r : N) : bool := (r <? 55296) || ((57343 <? r) && (r <=? 1114111)).

(* (value, multibyte, tail); None = ErrSyntax *)
Definition unquote_char (s : bstr) : option (N * bool * bstr) :=
  match s with
  | [] => None
  | c :: r =>
      if c =? 34 then None
      else if 128 <=? c then let '(ru, w) := decode_rune s in Some (ru, true, drop w s)
      else if negb (c =? 92) then Some (c, false, r)
      else
        match r with
        | [] => None
        | e :: t =>
            if e =? 97 then Some (7, false, t)
            else if e =? 98 then Some (8, false, t)
            else if e =? 102 then Some (12, false, t)
            else if e =? 110 then Some (10, false, t)
            else if e =? 114 then Some (13, false, t)
            else if e =? 116 then Some (9, false, t)
            else if e =? 118 then Some (11, false, t)
            else if e =? 120 then
              match unhex_n 2 0 t with Some (v, t') => Some (v, false, t') | None => None end
            else if e =? 117 then
              match unhex_n 4 0 t with Some (v, t') => if valid_rune v then Some (v, true, t') else None | None => None end
            else if e =? 85 then
              match unhex_n 8 0 t with Some (v, t') => if valid_rune v then Some (v, true, t') else None | None => None end
            else if in_range 48 55 e then
              match t with
              | d1 :: d2 :: t' =>
                  if in_range 48 55 d1 && in_range 48 55 d2
                  then let v := ((e - 48) * 8 + (d1 - 48)) * 8 + (d2 - 48) in
                       if 255 <? v then None else Some (v, false, t')
                  else None
              | _ => None
              end
            else if e =? 92 then Some (92, false, t)
            else if e =? 34 then Some (34, false, t)
            else None
        end
  end.

(* the loop of unquote after the opening quote: (unescaped bytes, what follows the closing quote) *)
Fixpoint unq_loop (fuel : nat) (inp acc : bstr) : option (bstr * bstr) :=
  match fuel with
  | O => None
  | S f =>
      match inp with
      | [] => None                                   (* no terminating quote *)
      | c :: r =>
          if c =? 34 then Some (acc, r)
          else match unquote_char inp with
               | None => None
               | Some (v, mb, rem) =>
                   if c =? 10 then None
                   else unq_loop f rem (acc ++ (if (v <? 128) || negb mb then [v] else encode_rune v))
               end
      end
  end.

Fixpoint index_byte (c : N) (s : bstr) : option nat :=
  match s with
  | [] => None
  | x :: r => if x =? c then Some O else match index_byte c r with Some i => Some (S i) | None => None end
  end.
Definition contains (s : bstr) (c : N) : bool := existsb (N.eqb c) s.

(* strconv.Unquote on a double-quoted literal; other quote characters are outside the model *)
Definition go_unquote (inp : bstr) : outcome bstr :=
  match inp with
  | q :: rest1 =>
      if Nat.ltb (length inp) 2 then Err e_syntax
      else if q =? 34 then
        match index_byte 34 rest1 with
        | None => Err e_syntax
        | Some e =>
            let body := take e rest1 in
            if negb (contains body 92) && negb (contains body 10) && utf8_valid body then
              (* no escape sequences: the literal's contents as they stand *)
              match drop (S e) rest1 with [] => Ok body | _ => Err e_syntax end
            else
              match unq_loop (S (length rest1)) rest1 [] with
              | Some (buf, []) => Ok buf
              | _ => Err e_syntax
              end
        end
      else if (q =? 96) || (q =? 39) then OutOfModel
      else Err e_syntax
  | [] => Err e_syntax
  end.

(* ------------------------------------------------------------------ *)
(* po.writer: a quoted field as lines (without their "\n")             *)
(* ------------------------------------------------------------------ *)

(* val cut after every "\n"; a last piece without one is kept when it is not empty *)
Fixpoint split_nl (cur s : bstr) : list bstr :=
  match s with
  | [] => match cur with [] => [] | _ => [cur] end
  | c :: r => if c =? 10 then (cur ++ [10]) :: split_nl [] r else split_nl (cur ++ [c]) r
  end.

(* writer.quo(prefix, val) *)
Definition po_quo (prefix val : bstr) : list bstr :=
  if negb (contains val 10) then [prefix ++ po_go_quote val]
  else (prefix ++ [34; 34]) :: map po_go_quote (split_nl [] val).

(* writer.opt *)
Definition po_opt (prefix val : bstr) : list bstr := match val with [] => [] | _ => po_quo prefix val end.

Definition p_msgctxt := Eval vm_compute in b "msgctxt ".
Definition p_msgid := Eval vm_compute in b "msgid ".
Definition p_msgid_plural := Eval vm_compute in b "msgid_plural ".
Definition p_msgstr := Eval vm_compute in b "msgstr ".
Definition p_msgstr_open := Eval vm_compute in b "msgstr[".
Definition p_close_sp := Eval vm_compute in b "] ".
Definition msgstr_n (i : nat) : bstr := p_msgstr_open ++ dec_of_N (N.of_nat i) ++ p_close_sp.

(* writer.msgstr / writer.plural *)
Definition po_msgstr (vals : list bstr) : list bstr :=
  match vals with [] => po_quo p_msgstr [] | v :: _ => po_quo p_msgstr v end.
Fixpoint po_plural_from (i : nat) (vals : list bstr) : list bstr :=
  match vals with [] => [] | v :: r => po_quo (msgstr_n i) v ++ po_plural_from (S i) r end.
Definition po_plural (vals : list bstr) : list bstr :=
  match vals with [] => po_quo (msgstr_n 0) [] | _ => po_plural_from 0 vals end.

(* the quoted fields of po.Message *)
Record po_fields := { pf_ctxt : bstr; pf_id : bstr; pf_id_plural : bstr; pf_str : list bstr }.

(* Message.WriteTo after the comment lines *)
Definition po_write_fields (m : po_fields) : list bstr :=
  po_opt p_msgctxt (pf_ctxt m) ++ po_quo p_msgid (pf_id m) ++ po_opt p_msgid_plural (pf_id_plural m)
  ++ (match pf_id_plural m with [] => po_msgstr (pf_str m) | _ => po_plural (pf_str m) end).

(* ------------------------------------------------------------------ *)
(* bytes <-> lines                                                     *)
(* ------------------------------------------------------------------ *)

Definition join_lines (ls : list bstr) : bstr := flat_map (fun l => l ++ [10]) ls.

(* bufio.ScanLines over the whole input: dropCR on every line; a last line without "\n" counts *)
Definition drop_cr (l : bstr) : bstr :=
  match rev l with 13 :: r => rev r | _ => l end.
Fixpoint scan_lines (cur s : bstr) : list bstr :=
  match s with
  | [] => match cur with [] => [] | _ => [drop_cr cur] end
  | c :: r => if c =? 10 then drop_cr cur :: scan_lines [] r else scan_lines (cur ++ [c]) r
  end.

(* ------------------------------------------------------------------ *)
(* po.scanner over the lines: state = (current line, lines not yet scanned, s.err) *)
(* ------------------------------------------------------------------ *)

Record scan := { sc_cur : bstr; sc_rest : list bstr; sc_err : bool }.

(* s.Scan(): false at the end of the input, and then the token is empty *)
Definition sc_scan (s : scan) : bool * scan :=
  match sc_rest s with
  | [] => (false, {| sc_cur := []; sc_rest := []; sc_err := sc_err s |})
  | l :: r => (true, {| sc_cur := l; sc_rest := r; sc_err := sc_err s |})
  end.

Definition is_space (c : N) : bool := in_range 9 13 c || (c =? 32).
Fixpoint trim_left (s : bstr) : bstr :=
  match s with c :: r => if is_space c then trim_left r else s | [] => [] end.
Definition trim_space (s : bstr) : bstr := rev (trim_left (rev (trim_left s))).

(* s.txt(prefix) and s.prefix(prefix) *)
Definition sc_txt (prefix : bstr) (s : scan) : bstr := trim_space (drop (length prefix) (sc_cur s)).
Definition sc_prefix (prefix : bstr) (s : scan) : bool := is_prefix prefix (sc_cur s).

(* s.unquote: the value ("" on error) and the error flag *)
Definition sc_unquote (str : bstr) (s : scan) : outcome (bstr * scan) :=
  match go_unquote str with
  | Ok r => Ok (r, s)
  | Err _ => Ok ([], {| sc_cur := sc_cur s; sc_rest := sc_rest s; sc_err := true |})
  | Crash e => Crash e | Diverge => Diverge | OutOfFuel => OutOfFuel | OutOfModel => OutOfModel
  end.

(* the continuation lines of scanner.quo: every line that starts with a double quote *)
Fixpoint sc_quo_more (fuel : nat) (r : bstr) (s : scan) : outcome (bstr * scan) :=
  match fuel with
  | O => OutOfFuel
  | S f =>
      let '(more, s1) := sc_scan s in
      if negb more then Ok (r, s1)
      else match sc_cur s1 with
           | 34 :: _ => '(x, s2) <- sc_unquote (sc_cur s1) s1 ;; sc_quo_more f (r ++ x) s2
           | _ => Ok (r, s1)
           end
  end.

(* scanner.quo(prefix) *)
Definition sc_quo (prefix : bstr) (s : scan) : outcome (bstr * scan) :=
  if sc_prefix prefix s then
    '(r, s1) <- sc_unquote (sc_txt prefix s) s ;; sc_quo_more (S (length (sc_rest s1))) r s1
  else Ok ([], s).

(* scanner.msgstr() *)
Fixpoint sc_msgstr_n (fuel : nat) (acc : list bstr) (s : scan) : outcome (list bstr * scan) :=
  match fuel with
  | O => OutOfFuel
  | S f =>
      let prefix := msgstr_n (length acc) in
      if sc_prefix prefix s then '(x, s1) <- sc_quo prefix s ;; sc_msgstr_n f (acc ++ [x]) s1
      else Ok (acc, s)
  end.
Definition sc_msgstr (s : scan) : outcome (list bstr * scan) :=
  if sc_prefix p_msgstr s then '(x, s1) <- sc_quo p_msgstr s ;; Ok ([x], s1)
  else sc_msgstr_n (S (S (length (sc_rest s)))) [] s.

Definition r_msgctxt := Eval vm_compute in b "msgctxt".
Definition r_msgid := Eval vm_compute in b "msgid".
Definition r_msgid_plural := Eval vm_compute in b "msgid_plural".

(* the quoted fields of Parse's message literal, in source order *)
Definition po_read_fields (s : scan) : outcome (po_fields * scan) :=
  '(c, s1) <- sc_quo r_msgctxt s ;;
  '(i, s2) <- sc_quo r_msgid s1 ;;
  '(ip, s3) <- sc_quo r_msgid_plural s2 ;;
  '(strs, s4) <- sc_msgstr s3 ;;
  Ok ({| pf_ctxt := c; pf_id := i; pf_id_plural := ip; pf_str := strs |}, s4).

End Po.
