(* ast/node.go: one inductive for every node type.  [p] is the byte position
   (ast.Pos).  Go maps inside nodes (MapLiteralNode.Items) are association lists
   in source order with unique keys.  Definitions only. *)
From Soy Require Import Model.Bytes Model.Num Model.Values.
Open Scope N_scope.

Inductive binop :=
| OMul | ODiv | OMod | OAdd | OSub | OEq | ONotEq | OGt | OGte | OLt | OLte | OOr | OAnd | OElvis.

Inductive node :=
(* ---- expressions ---- *)
| NNull (p : N)
| NBool (p : N) (x : bool)
| NInt (p : N) (z : Z)
| NFloat (p : N) (f : fl)
| NString (p : N) (quoted value : bstr)
| NGlobal (p : N) (name : bstr) (v : value)
| NFunc (p : N) (name : bstr) (args : list node)
| NListLit (p : N) (items : list node)
| NMapLit (p : N) (items : list (bstr * node))
| NDataRef (p : N) (key : bstr) (access : list node)
| NAccIndex (p : N) (nullsafe : bool) (i : Z)
| NAccKey (p : N) (nullsafe : bool) (k : bstr)
| NAccExpr (p : N) (nullsafe : bool) (arg : node)
| NNot (p : N) (a : node)
| NNeg (p : N) (a : node)
| NBin (op : binop) (p : N) (a1 a2 : node)
| NTern (p : N) (a1 a2 a3 : node)
(* ---- commands ---- *)
| NList (p : N) (nodes : list node)                    (* ListNode *)
| NRawText (p : N) (text : bstr)
| NPrint (p : N) (arg : node) (dirs : list node)
| NDirective (p : N) (name : bstr) (args : list node)  (* PrintDirectiveNode *)
| NCss (p : N) (expr : option node) (suffix : bstr)
| NLog (p : N) (body : node)
| NDebugger (p : N)
| NIf (p : N) (conds : list node)
| NIfCond (p : N) (cond : option node) (body : node)
| NFor (p : N) (var : bstr) (lst body : node) (ifempty : option node)
| NSwitch (p : N) (v : node) (cases : list node)
| NSwitchCase (p : N) (values : list node) (body : node)
| NCall (p : N) (name : bstr) (alldata : bool) (data : option node) (params : list node)
| NParamValue (p : N) (key : bstr) (v : node)
| NParamContent (p : N) (key : bstr) (content : node)
| NLetValue (p : N) (name : bstr) (e : node)
| NLetContent (p : N) (name : bstr) (body : node)
| NMsg (p : N) (id : N) (meaning desc : bstr) (body : list node)
| NMsgPlaceholder (p : N) (name : bstr) (body : node)
| NMsgHtmlTag (p : N) (text : bstr)
| NMsgPlural (p : N) (varname : bstr) (v : node) (cases : list node) (default : list node)
| NMsgPluralCase (p : N) (v : Z) (body : list node)
(* ---- file level ---- *)
| NTemplate (p : N) (name : bstr) (body : node) (autoescape : N) (private : bool)
| NNamespace (p : N) (name : bstr) (autoescape : N)
| NSoyDoc (p : N) (params : list node)
| NSoyDocParam (p : N) (name : bstr) (optional : bool)
| NHeaderParam (p : N) (optional : bool) (name : bstr) (typ : bstr) (default : option node)
| NLiteral (p : N) (body : bstr)
| NIdent (p : N) (ident : bstr)
| NOther (p : N) (what : bstr).       (* anything the model has no constructor for *)

Definition pos_of (n : node) : N :=
  match n with
  | NNull p | NBool p _ | NInt p _ | NFloat p _ | NString p _ _ | NGlobal p _ _ | NFunc p _ _
  | NListLit p _ | NMapLit p _ | NDataRef p _ _ | NAccIndex p _ _ | NAccKey p _ _ | NAccExpr p _ _
  | NNot p _ | NNeg p _ | NBin _ p _ _ | NTern p _ _ _ | NList p _ | NRawText p _ | NPrint p _ _
  | NDirective p _ _ | NCss p _ _ | NLog p _ | NDebugger p | NIf p _ | NIfCond p _ _ | NFor p _ _ _ _
  | NSwitch p _ _ | NSwitchCase p _ _ | NCall p _ _ _ _ | NParamValue p _ _ | NParamContent p _ _
  | NLetValue p _ _ | NLetContent p _ _ | NMsg p _ _ _ _ | NMsgPlaceholder p _ _ | NMsgHtmlTag p _
  | NMsgPlural p _ _ _ _ | NMsgPluralCase p _ _ | NTemplate p _ _ _ _ | NNamespace p _ _ | NSoyDoc p _
  | NSoyDocParam p _ _ | NHeaderParam p _ _ _ _ | NLiteral p _ | NIdent p _ | NOther p _ => p
  end.

(* a compiled template as template.Registry holds it *)
Record template := {
  t_name : bstr;                 (* fully qualified *)
  t_node : node;                 (* NTemplate *)
  t_ns_name : bstr;
  t_ns_autoescape : N;
  t_params : list (bstr * bool); (* soydoc/header params: name, optional *)
  t_file : bstr;
}.

Record registry := {
  r_templates : list template;
  r_sources : list (bstr * bstr);   (* sourceByTemplateName: last Add wins *)
  r_files : list (bstr * bstr);     (* fileByTemplateName *)
}.

Fixpoint find_template (ts : list template) (name : bstr) : option template :=
  match ts with
  | [] => None
  | t :: r => if bstr_eqb (t_name t) name then Some t else find_template r name
  end.
