(* Translated messages: soymsg/soymsg.go (Parts, Message), soymsg/pomsg/msgid.go
   (Validate, Msgid, MsgidPlural), soymsg/pomsg/xgettext-soy/main.go (extract),
   soymsg/pomsg/pomsg.go (newBundle, newMessage, Message, PluralCase), and the
   render-time substitution of soyhtml/exec.go (evalMsg, evalMsgParts,
   findPluralNode) with ast.MsgNode.Placeholder (ast/node.go).  Definitions
   only; proofs are in Proofs/MsgPartsProofs.v.

   Outside the model (library code): the PO file syntax (robfig/gettext/po) --
   a catalogue file is the list of its entries (id, plural var name, msgstr
   list) -- and golang.org/x/text/language: the locale fall-back list is an
   input of [provider_bundle].  PluralCase is a Section variable.

   The model describes the tree with the three C11 repairs (commits b7ce862,
   1664d1a, b24e43c; notes/applied/C11-*.diff): the extractor skips an empty
   message, Validate checks that the msgid reads back as the message, newBundle
   skips entries whose msgstr are all empty.  The pinned variants are kept at the end for the
   refutations in Properties/C11.v.

   The with-bundle walker is written in the open-recursion style of
   Model/Interp.v: [walk_body_b w n] is one unfolding in which every recursive
   call is [w]; a message that is not in the bundle is rendered by Interp's own
   [msg_body]. *)
From Soy Require Import Model.Bytes Model.Outcome Model.Num Model.Values Model.Ast Model.MsgId
  Model.Escape Model.Interp Generated.Tables.
Open Scope N_scope.

(* ------------------------------------------------------------------ *)
(* soymsg.Parts: the splitter for  {[A-Z0-9_]+}                        *)
(* ------------------------------------------------------------------ *)

Inductive part :=
| PText (t : bstr)       (* RawTextPart *)
| PPh (name : bstr).     (* PlaceholderPart *)

Definition ph_char (c : N) : bool := c_upper c || c_digit c || (c =? 95).

(* what follows a '{' : [A-Z0-9_]+ and then '}'.  [seen]: at least one
   character of the class has been read.  Returns the name. *)
Fixpoint scan_name (seen : bool) (s : bstr) : option bstr :=
  match s with
  | c :: r =>
      if ph_char c then match scan_name true r with Some nm => Some (c :: nm) | None => None end
      else if (c =? 125) && seen then Some []
      else None
  | [] => None
  end.

(* if start > pos { parts = append(parts, RawTextPart{str[pos:start]}) } *)
Definition flush (raw : bstr) (k : list part) : list part :=
  match raw with [] => k | _ => PText raw :: k end.

(* regexp.FindAllStringIndex returns the leftmost non-overlapping matches.
   Every match starts with '{' and at a '{' the attempt is deterministic (the
   class contains neither brace), so the leftmost match is the first '{' at
   which [scan_name] succeeds.  One pass over the string: [skip] bytes of a
   match that has been recognised remain to be passed over; [raw] is
   str[pos:i], the text since the last match. *)
Fixpoint parts_go (s : bstr) (skip : nat) (raw : bstr) : list part :=
  match s with
  | [] => flush raw []
  | c :: r =>
      match skip with
      | S k => parts_go r k raw
      | O =>
          if c =? 123 then
            match scan_name false r with
            | Some nm => flush raw (PPh nm :: parts_go r (S (length nm)) [])
            | None => parts_go r 0 (raw ++ [c])
            end
          else parts_go r 0 (raw ++ [c])
      end
  end.

Definition parts (s : bstr) : list part := parts_go s 0 [].

(* the printer that Parts inverts (writeph / writeFingerprint with braces) *)
Definition print_part (p : part) : bstr :=
  match p with PText t => t | PPh n => 123 :: n ++ [125] end.
Definition print_parts (l : list part) : bstr := flat_map print_part l.

(* ------------------------------------------------------------------ *)
(* pomsg: Msgid, MsgidPlural, Validate                                 *)
(* ------------------------------------------------------------------ *)

Definition e_index_range := Eval vm_compute in b "index out of range".
Definition e_validate := Eval vm_compute in b "not representable in a PO file".
Definition e_noid := Eval vm_compute in b "no id found in message".
Definition e_plural_index := Eval vm_compute in b "plural case index out of bounds".

(* writeph *)
Definition writeph (n : node) : bstr :=
  match n with
  | NRawText _ t => t
  | NMsgPlaceholder _ name _ => 123 :: name ++ [125]
  | _ => []
  end.
Definition write_body (body : list node) : bstr := flat_map writeph body.

(* msgidn: [body] is n.Body.Children() *)
Definition msgidn (body : list node) (singular : bool) : outcome bstr :=
  match body with
  | [] => Ok []
  | NMsgPlural _ _ _ cases dflt :: _ =>
      if singular then
        match cases with
        | NMsgPluralCase _ _ cb :: _ => Ok (write_body cb)
        | _ => Crash e_index_range              (* n.Cases[0] of a plural without explicit case *)
        end
      else Ok (write_body dflt)
  | _ => if singular then Ok (write_body body) else Ok []
  end.
Definition msgid (body : list node) : outcome bstr := msgidn body true.
Definition msgid_plural (body : list node) : outcome bstr := msgidn body false.

(* the part list of a flat body *)
Definition part_of_node (n : node) : list part :=
  match n with
  | NRawText _ t => [PText t]
  | NMsgPlaceholder _ name _ => [PPh name]
  | _ => []
  end.
Definition body_parts (body : list node) : list part := flat_map part_of_node body.

Definition part_names (ps : list part) : list bstr :=
  flat_map (fun p => match p with PPh n => [n] | PText _ => [] end) ps.

Fixpoint list_eqb (x y : list bstr) : bool :=
  match x, y with
  | [], [] => true
  | a :: x', c :: y' => bstr_eqb a c && list_eqb x' y'
  | _, _ => false
  end.

(* every child is text or a placeholder *)
Definition flat_node (n : node) : bool :=
  match n with NRawText _ _ | NMsgPlaceholder _ _ _ => true | _ => false end.

(* readsBack (repair 1664d1a): every child is text or a placeholder, and the
   placeholder parts that soymsg.Parts finds in the string written for the body
   are the body's own placeholders, name by name.  (Proofs: reads_back_sound --
   then the text parts are the body's own text, too.) *)
Definition reads_back (body : list node) : bool :=
  forallb flat_node body &&
  list_eqb (part_names (parts (write_body body))) (part_names (body_parts body)).

(* the loop of Validate over n.Body.Children(): the bodies to check, or an error *)
Fixpoint validate_loop (i : nat) (children : list node) (bodies : list (list node)) : outcome (list (list node)) :=
  match children with
  | [] => Ok bodies
  | NMsgPlural _ _ _ cases dflt :: r =>
      match i with
      | S _ => Err e_validate                   (* plural node must be the sole child *)
      | O =>
          match cases with
          | [NMsgPluralCase _ 1%Z cb] => validate_loop (S i) r [cb; dflt]
          | _ => Err e_validate                 (* PO requires two plural cases [1, default] *)
          end
      end
  | _ :: r => validate_loop (S i) r bodies
  end.

(* repair 56dc5cf: a plural whose msgid or msgid_plural would be
   empty cannot be written to a PO file (the library omits an empty
   msgid_plural, and an empty msgid is the header entry) *)
Definition empty_plural_case (bodies : list (list node)) : bool :=
  match bodies with
  | [cb; dflt] =>
      match write_body cb, write_body dflt with
      | [], _ | _, [] => true
      | _, _ => false
      end
  | _ => false
  end.

Definition validate (body : list node) : outcome unit :=
  bodies <- validate_loop 0 body [body] ;;
  if empty_plural_case bodies then Err e_validate
  else if forallb reads_back bodies then Ok tt else Err e_validate.

(* ------------------------------------------------------------------ *)
(* xgettext-soy: one PO entry per message                              *)
(* ------------------------------------------------------------------ *)

Record pot_entry := {
  pe_id : N;
  pe_var : bstr;            (* "" = no var= reference *)
  pe_ctxt : bstr;           (* msgctxt = meaning *)
  pe_desc : bstr;           (* extracted comment *)
  pe_msgid : bstr;
  pe_msgid_plural : bstr;
}.

(* extractor.extract on a MsgNode.  Err = the tool exits with an error. *)
Definition extract_msg (id : N) (meaning desc : bstr) (body : list node) : outcome (option pot_entry) :=
  _ <- validate body ;;
  match body with
  | [] => Ok None                               (* repair b7ce862 *)
  | first :: _ =>
      let v := match first with NMsgPlural _ vn _ _ _ => vn | _ => [] end in
      i <- msgid body ;; ip <- msgid_plural body ;;
      Ok (Some {| pe_id := id; pe_var := v; pe_ctxt := meaning; pe_desc := desc; pe_msgid := i; pe_msgid_plural := ip |})
  end.

(* ------------------------------------------------------------------ *)
(* pomsg: newMessage, newBundle, provider                              *)
(* ------------------------------------------------------------------ *)

(* soymsg.Message.Parts as newMessage builds it: a flat part list, or one
   PluralPart holding one part list per msgstr *)
Inductive cmsg :=
| CSimple (ps : list part)
| CPlural (varname : bstr) (cases : list (list part)).

Definition new_message (varname : bstr) (msgstrs : list bstr) : cmsg :=
  match varname, msgstrs with
  | [], [s] => CSimple (parts s)
  | _, _ => CPlural varname (map parts msgstrs)
  end.

(* one entry of a PO file as newBundle sees it: the id= and var= references and msg.Str *)
Record po_entry := { po_id : N; po_var : bstr; po_strs : list bstr }.

Definition bundle := list (N * cmsg).           (* the Go map messages: unique keys *)

Fixpoint bundle_put (bd : bundle) (id : N) (m : cmsg) : bundle :=
  match bd with
  | [] => [(id, m)]
  | (i, x) :: r => if i =? id then (i, m) :: r else (i, x) :: bundle_put r id m
  end.

(* repair b24e43c *)
Definition is_translated (strs : list bstr) : bool :=
  existsb (fun s => match s with [] => false | _ => true end) strs.

Fixpoint new_bundle_loop (es : list po_entry) (bd : bundle) : outcome bundle :=
  match es with
  | [] => Ok bd
  | e :: r =>
      if po_id e =? 0 then Err e_noid
      else if negb (is_translated (po_strs e)) then new_bundle_loop r bd
      else new_bundle_loop r (bundle_put bd (po_id e) (new_message (po_var e) (po_strs e)))
  end.
Definition new_bundle (es : list po_entry) : outcome bundle := new_bundle_loop es [].

(* bundle.Message.  newBundle refuses id 0, so no bundle maps 0; this also keeps
   the synthetic nodes [NMsg _ 0 [] [] body] that Interp.plural_pick uses for
   plural case bodies from being looked up (the Go code walks them directly). *)
Definition bundle_message (bd : bundle) (id : N) : option cmsg :=
  if id =? 0 then None else assoc id bd.

(* provider.Bundle: the locale itself, else the first of its fall-backs (computed
   by golang.org/x/text/language, an input here) that has a bundle *)
Fixpoint provider_bundle (bundles : list (bstr * bundle)) (candidates : list bstr) : option bundle :=
  match candidates with
  | [] => None
  | l :: r => match assoc_s l bundles with Some bd => Some bd | None => provider_bundle bundles r end
  end.

(* ------------------------------------------------------------------ *)
(* ast.MsgNode.Placeholder: breadth-first search by name               *)
(* ------------------------------------------------------------------ *)

(* The queue starts as n.Body.Children().  A placeholder with another name is
   dropped without its children; a plural appends Value, the case nodes and the
   Default list node; a case node appends its Body list node; a list node its
   children.  Nodes that cannot have a placeholder below them (raw text;
   expression nodes, whose children Go does append) are dropped: that does not
   change the order in which placeholders are met. *)
Fixpoint ph_lookup (fuel : nat) (q : list node) (name : bstr) : outcome (option node) :=
  match q with
  | [] => Ok None
  | n :: rest =>
      match fuel with
      | O => OutOfFuel
      | S f =>
          match n with
          | NMsgPlaceholder _ nm body =>
              if bstr_eqb nm name then Ok (Some body) else ph_lookup f rest name
          | NMsgPlural p _ _ cases dflt => ph_lookup f (rest ++ cases ++ [NList p dflt]) name
          | NMsgPluralCase p _ body => ph_lookup f (rest ++ [NList p body]) name
          | NList _ ns => ph_lookup f (rest ++ ns) name
          | _ => ph_lookup f rest name
          end
      end
  end.

(* number of queue pops a subtree can cause *)
Fixpoint lookup_size (n : node) : nat :=
  match n with
  | NMsgPlural _ _ _ cases dflt =>
      S (fold_right (fun x a => lookup_size x + a) 0 cases + S (fold_right (fun x a => lookup_size x + a) 0 dflt))%nat
  | NMsgPluralCase _ _ body => S (S (fold_right (fun x a => lookup_size x + a) 0 body))%nat
  | NList _ ns => S (fold_right (fun x a => lookup_size x + a) 0 ns)%nat
  | _ => 1%nat
  end.
Definition lookup_fuel (body : list node) : nat := S (fold_right (fun x a => lookup_size x + a) 0 body)%nat.

Definition placeholder (body : list node) (name : bstr) : outcome (option node) :=
  ph_lookup (lookup_fuel body) body name.

(* findPluralNode: among the children of the message *)
Fixpoint find_plural (children : list node) (varname : bstr) : option node :=
  match children with
  | [] => None
  | NMsgPlural p vn v cases dflt :: r =>
      if bstr_eqb vn varname then Some (NMsgPlural p vn v cases dflt) else find_plural r varname
  | _ :: r => find_plural r varname
  end.

(* ------------------------------------------------------------------ *)
(* rendering with a bundle                                             *)
(* ------------------------------------------------------------------ *)

Section WithBundle.
Variable cf : cfg.
Variable plural_index : Z -> nat.        (* Bundle.PluralCase *)
Variable bd : bundle.                    (* s.msgs *)

Section Body.
Variable w : node -> M value.

(* evalMsgParts on raw text and placeholder parts *)
Fixpoint eval_parts (body : list node) (ps : list part) : M unit :=
  match ps with
  | [] => ret tt
  | PText t :: r => _ <-- write t ;;; eval_parts body r
  | PPh name :: r =>
      o <-- lift (placeholder body name) ;;;
      match o with
      | Some phbody => _ <-- w phbody ;;; eval_parts body r
      | None => fail e_placeholder             (* failed to find placeholder *)
      end
  end.

(* evalMsgParts on msg.Parts as newMessage builds them *)
Definition eval_cmsg (body : list node) (m : cmsg) : M unit :=
  match m with
  | CSimple ps => eval_parts body ps
  | CPlural varname cases =>
      match find_plural body varname with
      | Some (NMsgPlural _ _ pv _ _) =>
          v <-- eval w pv ;;;
          match v with
          | VInt i =>
              match nth_error cases (plural_index i) with
              | Some ps => eval_parts body ps
              | None => fail e_plural_index
              end
          | _ => fail e_plural
          end
      | _ => fail e_placeholder                (* failed to find placeholder (plural var) *)
      end
  end.

(* evalMsg *)
Definition eval_msg (mp id : N) (body : list node) : M unit :=
  match bundle_message bd id with
  | None => msg_body w mp body
  | Some m => eval_cmsg body m
  end.

(* state.walk with s.msgs = bd *)
Definition walk_body_b (n : node) : M value :=
  match n with
  | NMsg mp id _ _ body =>
      _ <-- modify (fun st => set_cur st mp) ;;; _ <-- eval_msg mp id body ;;; ret VUndef
  | _ => walk_body cf w n
  end.
End Body.

Fixpoint walk_b (fuel : nat) (n : node) {struct fuel} : M value :=
  match fuel with
  | O => lift OutOfFuel
  | S fuel' => walk_body_b (walk_b fuel') n
  end.

(* Renderer.WithMessages(bd).Execute: Interp.render with walk_b for walk *)
Definition render_b (fuel : nat) (name : bstr) (data_id : N) (data : list (bstr * value))
           (cl : option nat) (bl : option N) (first_id : N) : render_result :=
  match find_template (r_templates (c_reg cf)) name with
  | None => {| rr_outcome := Err e_notemplate; rr_writes := []; rr_file := []; rr_line := 0; rr_unbound := 0; rr_shared_writes := [] |}
  | Some t =>
      let st0 := init_state (sc_enter (new_scope data_id data)) (entry_mode (t_ns_autoescape t)) name cl bl first_id in
      let '(r, st) := walk_b fuel (t_node t) st0 in
      let mk o file line := {| rr_outcome := o; rr_writes := rev (out st); rr_file := file; rr_line := line;
                               rr_unbound := unbound st; rr_shared_writes := shared_writes st |} in
      match r with
      | Ok _ => mk (Ok tt) [] 0
      | Err m =>
          match assoc_s name (r_sources (c_reg cf)), assoc_s name (r_files (c_reg cf)) with
          | Some src, Some file =>
              match line_number src (cur st) with
              | Some l => mk (Err m) file l
              | None => mk (Crash e_index) [] 0
              end
          | _, _ => mk (Err m) [] 0
          end
      | Crash m => mk (Crash m) [] 0
      | Diverge => mk Diverge [] 0
      | OutOfFuel => mk OutOfFuel [] 0
      | OutOfModel => mk OutOfModel [] 0
      end
  end.
End WithBundle.

(* ------------------------------------------------------------------ *)
(* plural selectors of robfig/gettext/po used by the runner (library   *)
(* code; the theorems hold for every selector)                         *)
(* ------------------------------------------------------------------ *)

Definition plural0 (n : Z) : nat := 0.
Definition plural_neq1 (n : Z) : nat := if (n =? 1)%Z then 0 else 1.
Definition plural_gt1 (n : Z) : nat := if (n >? 1)%Z then 1 else 0.
Definition plural_russian (n : Z) : nat :=
  let r10 := Z.rem n 10 in let r100 := Z.rem n 100 in
  if (r10 =? 1)%Z && negb (r100 =? 11)%Z then 0
  else if (2 <=? r10)%Z && (r10 <=? 4)%Z && ((r100 <? 10)%Z || (20 <=? r100)%Z) then 1
  else 2.
Definition plural_czech (n : Z) : nat :=
  if (n =? 1)%Z then 0 else if (2 <=? n)%Z && (n <=? 4)%Z then 1 else 2.

Definition plural_rule (code : N) : Z -> nat :=
  if code =? 0 then plural0
  else if code =? 1 then plural_neq1
  else if code =? 2 then plural_russian
  else if code =? 3 then plural_gt1
  else plural_czech.

(* ------------------------------------------------------------------ *)
(* the pinned code (before the repairs), for the refutations           *)
(* ------------------------------------------------------------------ *)

(* Validate as pinned: no read-back check *)
Definition validate_pinned (body : list node) : outcome unit :=
  _ <- validate_loop 0 body [body] ;; Ok tt.

(* extract as pinned: Children()[0] of an empty message *)
Definition extract_msg_pinned (id : N) (meaning desc : bstr) (body : list node) : outcome (option pot_entry) :=
  _ <- validate_pinned body ;;
  match body with
  | [] => Crash e_index_range
  | first :: _ =>
      let v := match first with NMsgPlural _ vn _ _ _ => vn | _ => [] end in
      i <- msgid body ;; ip <- msgid_plural body ;;
      Ok (Some {| pe_id := id; pe_var := v; pe_ctxt := meaning; pe_desc := desc; pe_msgid := i; pe_msgid_plural := ip |})
  end.

(* newBundle as pinned: an empty msgstr is a translation *)
Fixpoint new_bundle_loop_pinned (es : list po_entry) (bd : bundle) : outcome bundle :=
  match es with
  | [] => Ok bd
  | e :: r =>
      if po_id e =? 0 then Err e_noid
      else new_bundle_loop_pinned r (bundle_put bd (po_id e) (new_message (po_var e) (po_strs e)))
  end.
Definition new_bundle_pinned (es : list po_entry) : outcome bundle := new_bundle_loop_pinned es [].
