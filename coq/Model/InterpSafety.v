(* C06: the runtime-panic sites and loops of soyhtml that Model/Interp.v does not
   spell out, as separate definitions next to the walker (Interp.v is shared and
   frozen).  Each definition says which Go lines it mirrors and how it relates
   to the corresponding definition of Interp.v (the relation is a lemma of
   Proofs/SafetyProofs.v).  Definitions only.

   1. funcRange's loop with its own fuel and an explicit [Diverge], in two
      versions: as the code stands after the two range repairs
      (notes/pending/C06-range-step.diff, C06-range-overflow.diff) and as it is
      pinned (int64 wrap-around, no step check).
   2. errRecover / errFromNode / callAnnotation: what runs INSIDE the deferred
      recover handler, with the nil-template dereference (pinned) or the
      position-less fallback (notes/pending/C06-evalexpr-nil-template.diff).
   3. soyhtml.EvalExpr through that handler. *)
From Soy Require Import Model.Bytes Model.Num Model.Values Model.Outcome Model.Ast Model.Interp.
Open Scope N_scope.

(* ------------------------------------------------------------------ *)
(* 1. funcs.go funcRange:  for index := init; index < limit; index += increment *)

(* repaired code: step <= 0 is rejected before the loop; the loop leaves when
   index+increment would wrap.  [fuel] is the loop's own budget: running out of
   it while the condition still holds is [Diverge]. *)
Fixpoint range_loop (fuel : nat) (i limit step : Z) : outcome (list value) :=
  if (i <? limit)%Z then
    match fuel with
    | O => Diverge
    | S f =>
        if (two63 <=? i + step)%Z then Ok [VInt i]            (* the overflow guard: break *)
        else r <- range_loop f (i + step)%Z limit step ;; Ok (VInt i :: r)
    end
  else Ok [].

Definition func_range_repaired (i limit step : Z) : outcome (list value) :=
  if (step <=? 0)%Z then Err e_range else range_loop (Z.to_nat ((limit - i) / step + 1)) i limit step.

(* pinned code: no step check, index wraps like a Go int *)
Fixpoint range_loop_pinned (fuel : nat) (i limit step : Z) : outcome (list value) :=
  if (i <? limit)%Z then
    match fuel with
    | O => Diverge
    | S f => r <- range_loop_pinned f (wrap64 (i + step)) limit step ;; Ok (VInt i :: r)
    end
  else Ok [].

(* ------------------------------------------------------------------ *)
(* 2. exec.go:46-72  errFromNode, callAnnotation, errRecover *)

Definition e_nilderef := Eval vm_compute in b "nil pointer dereference".
Definition e_slice := Eval vm_compute in b "slice bounds out of range".

(* the state as the handler sees it: [tmpl_node] is s.tmpl.Node (None = nil, the
   bare state of EvalExpr), [cur_pos] is s.node.Position() *)
Record recover_view := {
  rv_reg : registry;
  rv_tmpl : option bstr;         (* Some name = s.tmpl.Node.Name *)
  rv_pos : N;
}.

(* Registry.LineNumber / ColNumber: 0 when the template has no recorded source
   (log.Println and return), the slice src[:pos] panics when pos > len(src) *)
Definition reg_line (reg : registry) (name : bstr) (pos : N) : outcome N :=
  match assoc_s name (r_sources reg) with
  | None => Ok 0
  | Some src => match line_number src pos with Some l => Ok l | None => Crash e_slice end
  end.
Definition reg_file (reg : registry) (name : bstr) : bstr :=
  match assoc_s name (r_files reg) with Some f => f | None => [] end.

(* callAnnotation(): Sprintf("template %s:%d", s.tmpl.Node.Name, LineNumber(..)) *)
Definition call_annotation (nilsafe : bool) (v : recover_view) : outcome unit :=
  match rv_tmpl v with
  | None => if nilsafe then Ok tt else Crash e_nilderef
  | Some name => _ <- reg_line (rv_reg v) name (rv_pos v) ;; Ok tt
  end.

(* errFromNode(): Filename, LineNumber, ColNumber (same slice as LineNumber); result = (file, line) *)
Definition err_from_node (nilsafe : bool) (v : recover_view) : outcome (bstr * N) :=
  match rv_tmpl v with
  | None => if nilsafe then Ok ([], 0) else Crash e_nilderef
  | Some name => l <- reg_line (rv_reg v) name (rv_pos v) ;; Ok (reg_file (rv_reg v) name, l)
  end.

(* errRecover: the arguments of errFromNode are evaluated first (callAnnotation), then
   errFromNode itself; a panic in either escapes, because this IS the recover handler *)
Definition err_recover (nilsafe : bool) (v : recover_view) : outcome (bstr * N) :=
  _ <- call_annotation nilsafe v ;; err_from_node nilsafe v.

(* Renderer.Execute around a finished walk: what [Interp.render] inlines *)
Definition finish_render (nilsafe : bool) (v : recover_view) (r : outcome value) : outcome unit * bstr * N :=
  match r with
  | Ok _ => (Ok tt, [], 0)
  | Err m =>
      match err_recover nilsafe v with
      | Ok (file, line) => (Err m, file, line)
      | Err m' => (Crash m', [], 0)       (* not produced; kept total *)
      | Crash m' => (Crash m', [], 0)
      | Diverge => (Diverge, [], 0)
      | OutOfFuel => (OutOfFuel, [], 0)
      | OutOfModel => (OutOfModel, [], 0)
      end
  | Crash m => (Crash m, [], 0)
  | Diverge => (Diverge, [], 0)
  | OutOfFuel => (OutOfFuel, [], 0)
  | OutOfModel => (OutOfModel, [], 0)
  end.

(* ------------------------------------------------------------------ *)
(* 3. eval.go EvalExpr: state{wr: Discard}; defer errRecover; walk; return s.val *)

Definition eval_expr_impl (nilsafe : bool) (fuel : nat) (n : node) : outcome value :=
  match eval_expr fuel n with
  | Err m =>
      match err_recover nilsafe {| rv_reg := empty_registry; rv_tmpl := None; rv_pos := pos_of n |} with
      | Ok _ => Err m
      | Crash m' => Crash m'
      | _ => Crash e_nilderef
      end
  | o => o
  end.

(* ------------------------------------------------------------------ *)
(* 4. An INSTRUMENT for speaking about the call depth a run reaches (not a model
   of any Go code): the walker that refuses to walk a node at a call depth above
   [d].  [depth_] is the register [call_enter] increments around the callee's
   body, so [cap d w] lets every node of the entry template and of callees up to
   nesting [d] through and answers [Err e_capped] at the entry of the (d+1)-th
   nested callee.  Fuel exhaustion stays [OutOfFuel]; the two causes of "no
   answer" are thereby told apart.  Proofs/SafetyDepth.v shows that the capped
   walker either reports the cap or IS the walker (same outcome, same state). *)

Definition e_capped := Eval vm_compute in b "call depth cap".

Definition cap (d : nat) (w : node -> M value) (n : node) : M value :=
  fun st => if Nat.leb (depth_ st) d then w n st else (Err e_capped, st).

Fixpoint walk_cap (cf : cfg) (d : nat) (fuel : nat) (n : node) {struct fuel} : M value :=
  match fuel with
  | O => lift OutOfFuel
  | S f => walk_body cf (cap d (walk_cap cf d f)) n
  end.

(* ------------------------------------------------------------------ *)
(* 5. Functions and print directives SUPPLIED BY THE USER (entries added to
   soyhtml.Funcs / soyhtml.PrintDirectives) and the recover wrappers around
   them: exec.go evalFunc (defer recover -> s.errorf) and evalPrint (the
   func(){ defer recover -> s.errorf; result = directive.Apply(..) }() block).
   The user's Go code is a parameter; what it can do is spelled out:
   return a value (possibly the nil interface), panic, or not return at all
   (spin, block, runtime.Goexit, os.Exit) -- the last is what no wrapper can
   help with and is carried as [Diverge].  s.errorf panics with a soy error,
   which Renderer.Execute's errRecover turns into the returned error: in the
   model an [Err].  Values are the model's [value]s: a user-defined
   implementation of data.Value is outside the model (its methods run wherever
   the walker calls Truthy/String/Equals, under Execute's errRecover only). *)
From Soy Require Import Model.Escape Model.Directives Model.Print.

Inductive user_result :=
| UReturn (v : option value)      (* None = a nil data.Value *)
| UPanic (m : bstr)               (* panic(x), also a run-time error inside the user's code *)
| UNoReturn.

Definition e_userpanic := Eval vm_compute in b "panic in ".
Definition e_nilresult := Eval vm_compute in b "nil value".

(* evalFunc: r := fn.Apply(args); if r == nil { return data.Null{} }; the deferred recover
   re-panics through s.errorf *)
Definition recover_func (r : user_result) : outcome value :=
  match r with
  | UReturn (Some v) => Ok v
  | UReturn None => Ok VNull
  | UPanic m => Err (e_userpanic ++ m)
  | UNoReturn => Diverge
  end.

(* evalPrint: result = directive.Apply(result, args) inside the wrapper.  A nil result is NOT checked:
   it is the value the next directive receives ([None]); whoever calls a method on it panics with a nil
   dereference -- a builtin's value.String() inside the next wrapper, or result.String() after the loop
   under Execute's errRecover -- but json.Marshal(nil) is "null" and noAutoescape hands it through *)
Definition recover_directive (r : user_result) : outcome (option value) :=
  match r with
  | UReturn x => Ok x
  | UPanic m => Err (e_userpanic ++ m)
  | UNoReturn => Diverge
  end.

Record user_func := { uf_arities : list N; uf_apply : list value -> user_result }.
Record user_directive := { ud_arities : list N; ud_cancel : bool; ud_apply : option value -> list value -> user_result }.

(* A HOOK is an entry of soyhtml.Funcs / soyhtml.PrintDirectives given by what the wrapped call
   answers: a user entry is the hook [recover_* o apply]; Model/InterpJson.v uses the same mechanism for
   the library functions Model/Interp.v leaves outside the model. *)
Record func_hook := { fh_arities : list N; fh_apply : list value -> outcome value }.
Definition hook_of_user (uf : user_func) : func_hook :=
  {| fh_arities := uf_arities uf; fh_apply := fun vs => recover_func (uf_apply uf vs) |}.

Inductive dir_impl :=
| DBuiltin (fn : bstr) (nilapply : bool)                     (* an entry of the regenerated table, on String() images *)
| DHook (apply : option value -> list value -> outcome (option value)).   (* on values (None = nil), wrapper included *)
Record dir_entry := { de_arities : list N; de_cancel : bool; de_impl : dir_impl }.
Definition dir_of_user (ud : user_directive) : dir_entry :=
  {| de_arities := ud_arities ud; de_cancel := ud_cancel ud;
     de_impl := DHook (fun v args => recover_directive (ud_apply ud v args)) |}.

(* the regenerated table of builtin directives as a [dir_entry] table *)
Definition builtin_dirs (name : bstr) : option dir_entry :=
  match lookup_directive name with
  | Some (arglens, (cancel, (nilapply, fn))) =>
      Some {| de_arities := arglens; de_cancel := cancel; de_impl := DBuiltin fn nilapply |}
  | None => None
  end.
(* the caller's additions shadow the builtin entries *)
Definition dirs_with_user (udirs : bstr -> option user_directive) (name : bstr) : option dir_entry :=
  match udirs name with Some ud => Some (dir_of_user ud) | None => builtin_dirs name end.
Definition funcs_with_user (ufuncs : bstr -> option user_func) (name : bstr) : option func_hook :=
  match ufuncs name with Some uf => Some (hook_of_user uf) | None => None end.

Section Hooks.
Variable cf : cfg.
Variable fhooks : bstr -> option func_hook.     (* entries of soyhtml.Funcs handled here (they shadow Interp.apply_func) *)
Variable dir_table : bstr -> option dir_entry.  (* soyhtml.PrintDirectives *)

(* evalFunc on a hooked entry: arity check, arguments, Apply under the wrapper *)
Definition hook_call (w : node -> M value) (h : func_hook) (args : list node) : M value :=
  if negb (mem (N.of_nat (length args)) (fh_arities h)) then fail e_arity
  else vs <-- eval_list w args ;;; lift (fh_apply h vs).

Definition is_loop_func (name : bstr) : bool :=
  Interp.fn_is name n_index || Interp.fn_is name n_isFirst || Interp.fn_is name n_isLast.

(* directiveTruncate returns the VALUE itself when its String() fits (`return value`) *)
Definition truncate_keeps (fn : bstr) (args : list darg) (s : bstr) : bool :=
  Directives.fn_is fn fn_Truncate &&
  match args with DInt n :: _ => (Z.of_nat (length s) <=? n)%Z | _ => false end.

(* evalPrint's directive loop on VALUES (a hooked directive receives and returns a data.Value; the
   builtin ones work on value.String() and return a data.String, except that noAutoescape and a
   truncate that has nothing to cut return the value they were given) *)
Fixpoint apply_dirs_hook (dirs : list (bstr * list value)) (v : option value) (esc : bool) : outcome (option value * bool) :=
  match dirs with
  | [] => Ok (v, esc)
  | (name, args) :: rest =>
      match dir_table name with
      | None => Err e_nodirective
      | Some de =>
          if negb (check_num_args (de_arities de) (length args)) then Err e_arity
          else
            v' <- match de_impl de with
                  | DBuiltin fn nilapply =>
                      if nilapply then Err e_nilapply
                      else if Directives.fn_is fn fn_NoAutoescape then Ok v      (* `return value`: String() is not called *)
                      else match v with
                           | None => Err e_nilresult                             (* value.String() on a nil interface *)
                           | Some x =>
                               s <- value_string x ;; s' <- apply_fn fn (map darg_of args) s ;;
                               Ok (Some (if truncate_keeps fn (map darg_of args) s then x else VStr s'))
                           end
                  | DHook ap => ap v args
                  end ;;
            apply_dirs_hook rest v' (esc && negb (de_cancel de))
      end
  end.

(* the Write calls of evalPrint after the loop: result.String(), escaped or not *)
Definition print_writes_hook (mode : N) (dirs : list (bstr * list value)) (v : value) : outcome (list bstr) :=
  '(v', esc) <- apply_dirs_hook dirs (Some v) (negb (mode =? 2)) ;;
  s <- match v' with Some x => value_string x | None => Err e_nilresult end ;;
  Ok (if esc then esc_writes [] s else [s]).

(* evalPrint's loop, one directive at a time (the shape of [Interp.print_dirs] / [InterpExt.print_dirs_x]): name and
   arity checked, ITS arguments evaluated, the directive APPLIED to the result so far [v] (None = a nil interface
   returned by a hooked directive) before the next directive is looked at -- so a failing application is reported
   where the evaluation of its own arguments left s.node, and the arguments of later directives are never evaluated.
   The application is checked through [apply_dirs_hook] on the one-element list; the list returned is applied again by
   [print_writes_hook] (the applications are functions of their arguments: same results), which adds the escaping. *)
Fixpoint print_dirs_hook (w : node -> M value) (l : list node) (v : option value) : M (list (bstr * list value)) :=
  match l with
  | [] => ret (map (fun nm => (nm, @nil value)) (c_oblig cf))
  | NDirective _ name args :: r =>
      match dir_table name with
      | None => fail e_nodirective
      | Some de =>
          if negb (check_num_args (de_arities de) (length args)) then fail e_arity
          else vs <-- eval_list w args ;;;
               v1 <-- lift (apply_dirs_hook [(name, vs)] v false) ;;;
               rest <-- print_dirs_hook w r (fst v1) ;;;
               ret ((name, vs) :: rest)
      end
  | _ :: _ => fail e_unknown
  end.

Definition print_hook (w : node -> M value) (arg : node) (dirs : list node) : M value :=
  v <-- w arg ;;;
  match v with
  | VUndef => fail e_undefined
  | _ =>
      ds <-- print_dirs_hook w dirs (Some v) ;;;
      st <-- get ;;;
      ws <-- lift (print_writes_hook (mode st) ds v) ;;;
      _ <-- write_all ws ;;; ret VUndef
  end.

(* one unfolding of state.walk with the hooks: loopFuncs are looked up first, then Funcs; every
   {print} goes through the directive table *)
Definition walk_body_hook (w : node -> M value) (n : node) : M value :=
  match n with
  | NFunc _ name args =>
      if is_loop_func name then walk_body cf w n
      else match fhooks name with
           | Some h => _ <-- modify (fun st => set_cur st (pos_of n)) ;;; hook_call w h args
           | None => walk_body cf w n
           end
  | NPrint _ arg dirs => _ <-- modify (fun st => set_cur st (pos_of n)) ;;; print_hook w arg dirs
  | _ => walk_body cf w n
  end.

Fixpoint walk_hook (fuel : nat) (n : node) {struct fuel} : M value :=
  match fuel with
  | O => lift OutOfFuel
  | S f => walk_body_hook (walk_hook f) n
  end.
End Hooks.

(* the walker with the user's functions and directives *)
Definition walk_user (cf : cfg) (ufuncs : bstr -> option user_func) (udirs : bstr -> option user_directive) :=
  walk_hook cf (funcs_with_user ufuncs) (dirs_with_user udirs).

(* Renderer.Execute around the hooked walker: Interp.render with [walk_hook] for [walk] *)
Definition render_hook (cf : cfg) (fhooks : bstr -> option func_hook) (dir_table : bstr -> option dir_entry)
           (fuel : nat) (name : bstr) (data_id : N) (data : list (bstr * value))
           (cl : option nat) (bl : option N) (first_id : N) : render_result :=
  match find_template (r_templates (c_reg cf)) name with
  | None => {| rr_outcome := Err e_notemplate; rr_writes := []; rr_file := []; rr_line := 0; rr_unbound := 0; rr_shared_writes := [] |}
  | Some t =>
      let st0 := init_state (sc_enter (new_scope data_id data)) (entry_mode (t_ns_autoescape t)) name cl bl first_id in
      let '(r, st) := walk_hook cf fhooks dir_table fuel (t_node t) st0 in
      let mk o file line := {| rr_outcome := o; rr_writes := rev (out st); rr_file := file; rr_line := line;
                               rr_unbound := unbound st; rr_shared_writes := shared_writes st |} in
      match r with
      | Ok _ => mk (Ok tt) [] 0
      | Err m =>
          match assoc_s name (r_sources (c_reg cf)), assoc_s name (r_files (c_reg cf)) with
          | Some src, Some file =>
              match line_number src (cur st) with
              | Some l => mk (Err m) file l
              | None => mk (Crash e_index) [] 0
              end
          | _, _ => mk (Err m) [] 0
          end
      | Crash m => mk (Crash m) [] 0
      | Diverge => mk Diverge [] 0
      | OutOfFuel => mk OutOfFuel [] 0
      | OutOfModel => mk OutOfModel [] 0
      end
  end.
