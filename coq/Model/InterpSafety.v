(* C06: the runtime-panic sites and loops of soyhtml that Model/Interp.v does not
   spell out, as separate definitions next to the walker (Interp.v is shared and
   frozen).  Each definition says which Go lines it mirrors and how it relates
   to the corresponding definition of Interp.v (the relation is a lemma of
   Proofs/SafetyProofs.v).  Definitions only.

   1. funcRange's loop with its own fuel and an explicit [Diverge], in two
      versions: as the code stands after the two range repairs
      (notes/pending/C06-range-step.diff, C06-range-overflow.diff) and as it is
      pinned (int64 wrap-around, no step check).
   2. errRecover / errFromNode / callAnnotation: what runs INSIDE the deferred
      recover handler, with the nil-template dereference (pinned) or the
      position-less fallback (notes/pending/C06-evalexpr-nil-template.diff).
   3. soyhtml.EvalExpr through that handler. *)
From Soy Require Import Model.Bytes Model.Num Model.Values Model.Outcome Model.Ast Model.Interp.
Open Scope N_scope.

(* ------------------------------------------------------------------ *)
(* 1. funcs.go funcRange:  for index := init; index < limit; index += increment *)

(* repaired code: step <= 0 is rejected before the loop; the loop leaves when
   index+increment would wrap.  [fuel] is the loop's own budget: running out of
   it while the condition still holds is [Diverge]. *)
Fixpoint range_loop (fuel : nat) (i limit step : Z) : outcome (list value) :=
  if (i <? limit)%Z then
    match fuel with
    | O => Diverge
    | S f =>
        if (two63 <=? i + step)%Z then Ok [VInt i]            (* the overflow guard: break *)
        else r <- range_loop f (i + step)%Z limit step ;; Ok (VInt i :: r)
    end
  else Ok [].

Definition func_range_repaired (i limit step : Z) : outcome (list value) :=
  if (step <=? 0)%Z then Err e_range else range_loop (Z.to_nat ((limit - i) / step + 1)) i limit step.

(* pinned code: no step check, index wraps like a Go int *)
Fixpoint range_loop_pinned (fuel : nat) (i limit step : Z) : outcome (list value) :=
  if (i <? limit)%Z then
    match fuel with
    | O => Diverge
    | S f => r <- range_loop_pinned f (wrap64 (i + step)) limit step ;; Ok (VInt i :: r)
    end
  else Ok [].

(* ------------------------------------------------------------------ *)
(* 2. exec.go:46-72  errFromNode, callAnnotation, errRecover *)

Definition e_nilderef := Eval vm_compute in b "nil pointer dereference".
Definition e_slice := Eval vm_compute in b "slice bounds out of range".

(* the state as the handler sees it: [tmpl_node] is s.tmpl.Node (None = nil, the
   bare state of EvalExpr), [cur_pos] is s.node.Position() *)
Record recover_view := {
  rv_reg : registry;
  rv_tmpl : option bstr;         (* Some name = s.tmpl.Node.Name *)
  rv_pos : N;
}.

(* Registry.LineNumber / ColNumber: 0 when the template has no recorded source
   (log.Println and return), the slice src[:pos] panics when pos > len(src) *)
Definition reg_line (reg : registry) (name : bstr) (pos : N) : outcome N :=
  match assoc_s name (r_sources reg) with
  | None => Ok 0
  | Some src => match line_number src pos with Some l => Ok l | None => Crash e_slice end
  end.
Definition reg_file (reg : registry) (name : bstr) : bstr :=
  match assoc_s name (r_files reg) with Some f => f | None => [] end.

(* callAnnotation(): Sprintf("template %s:%d", s.tmpl.Node.Name, LineNumber(..)) *)
Definition call_annotation (nilsafe : bool) (v : recover_view) : outcome unit :=
  match rv_tmpl v with
  | None => if nilsafe then Ok tt else Crash e_nilderef
  | Some name => _ <- reg_line (rv_reg v) name (rv_pos v) ;; Ok tt
  end.

(* errFromNode(): Filename, LineNumber, ColNumber (same slice as LineNumber); result = (file, line) *)
Definition err_from_node (nilsafe : bool) (v : recover_view) : outcome (bstr * N) :=
  match rv_tmpl v with
  | None => if nilsafe then Ok ([], 0) else Crash e_nilderef
  | Some name => l <- reg_line (rv_reg v) name (rv_pos v) ;; Ok (reg_file (rv_reg v) name, l)
  end.

(* errRecover: the arguments of errFromNode are evaluated first (callAnnotation), then
   errFromNode itself; a panic in either escapes, because this IS the recover handler *)
Definition err_recover (nilsafe : bool) (v : recover_view) : outcome (bstr * N) :=
  _ <- call_annotation nilsafe v ;; err_from_node nilsafe v.

(* Renderer.Execute around a finished walk: what [Interp.render] inlines *)
Definition finish_render (nilsafe : bool) (v : recover_view) (r : outcome value) : outcome unit * bstr * N :=
  match r with
  | Ok _ => (Ok tt, [], 0)
  | Err m =>
      match err_recover nilsafe v with
      | Ok (file, line) => (Err m, file, line)
      | Err m' => (Crash m', [], 0)       (* not produced; kept total *)
      | Crash m' => (Crash m', [], 0)
      | Diverge => (Diverge, [], 0)
      | OutOfFuel => (OutOfFuel, [], 0)
      | OutOfModel => (OutOfModel, [], 0)
      end
  | Crash m => (Crash m, [], 0)
  | Diverge => (Diverge, [], 0)
  | OutOfFuel => (OutOfFuel, [], 0)
  | OutOfModel => (OutOfModel, [], 0)
  end.

(* ------------------------------------------------------------------ *)
(* 3. eval.go EvalExpr: state{wr: Discard}; defer errRecover; walk; return s.val *)

Definition eval_expr_impl (nilsafe : bool) (fuel : nat) (n : node) : outcome value :=
  match eval_expr fuel n with
  | Err m =>
      match err_recover nilsafe {| rv_reg := empty_registry; rv_tmpl := None; rv_pos := pos_of n |} with
      | Ok _ => Err m
      | Crash m' => Crash m'
      | _ => Crash e_nilderef
      end
  | o => o
  end.
