(* data/convert.go: NewWith / StructOptions.Data on reflect-shaped Go values.
   Definitions only; proofs are in Proofs/ValueProofs.v.

   A [goval] is what reflection sees of a Go value:
     GNil               the nil interface (NewWith(nil), a nil interface-typed slot)
     GBool GInt GUint GFloat GStr   the scalar kinds; [w] is the width in bits (documentation
                        of the kind: Int8..Int64/Int, Uint8..Uint64/Uint, Float32/Float64)
     GTime s            a time.Time, already formatted with StructOptions.TimeFormat
                        (the formatting is Go's, not soy's)
     GSlice None / Some l        nil / non-nil slice
     GMap None / Some m          nil / non-nil map whose key kind is String
     GMapBadKey n       a map with [n] entries whose key kind is not String
     GStruct fs         fields (name, (exported, (embedded, value))) in declaration order
     GPtr None / Some g          nil pointer (to a type that is neither of the next line) / pointer to g
     GNilPtrTo m        a nil pointer whose element type implements data.Marshaler with a value
                        receiver (m = true) or is one of the eight data.Value types (m = false):
                        Go puts the element type's value-receiver methods into the pointer's method set
     GIface None / Some g        an interface-typed slot (element, field, pointee) holding nil / g
     GMarshal v u       a value whose dynamic type implements data.Marshaler (value receiver);
                        MarshalValue() returns v; u is what reflection sees of the same value when the
                        method is not consulted (its kind, fields, elements)
     GValue v           a value whose dynamic type is one of the data.Value types
     GUnsupported       any other kind (Chan, Func, Array, Complex, Uintptr, UnsafePointer)

   REPAIR notes/pending/C20-uint64-float.diff: an unsigned integer above MaxInt64 becomes the Float
   nearest to it (the pinned tree converts it with Int(v.Uint()), which wraps to a negative Int).
   REPAIR notes/pending/C20-nil-marshaler.diff: a nil pointer that implements Marshaler is Null (the
   pinned tree calls MarshalValue through it and panics).

   Identity of lists and maps: the model threads a counter of fresh ids; 0 is the identity of
   nil collections (data pointer 0) and 1 that of every empty non-nil list (make(List, 0)
   returns the address of runtime.zerobase for every zero-size allocation), so fresh ids
   start at 2.  Every make(Map, n) is a fresh identity. *)
From Soy Require Import Model.Bytes Model.Num Model.Outcome Model.Utf8 Model.Values.
Open Scope N_scope.

Inductive goval :=
| GNil
| GBool (x : bool)
| GInt (w : N) (z : Z)
| GUint (w : N) (z : Z)
| GFloat (w : N) (f : fl)
| GStr (s : bstr)
| GTime (formatted : bstr)
| GSlice (l : option (list goval))
| GMap (m : option (list (bstr * goval)))
| GMapBadKey (n : N)
| GStruct (fs : list (bstr * (bool * (bool * goval))))
| GPtr (p : option goval)
| GNilPtrTo (marshaler : bool)
| GIface (i : option goval)
| GMarshal (v : value) (under : goval)
| GValue (v : value)
| GUnsupported.

Definition e_map_keys := Eval vm_compute in b "map keys must be strings".
Definition e_unexpected_type := Eval vm_compute in b "unexpected data type".

(* float64(u) for an unsigned integer 2^63 <= u < 2^64 (Go: conversion of an integer to a floating-point
   type rounds to the nearest representable value, ties to even); float64 values are 2^11 apart there *)
Definition float_of_big_uint (z : Z) : fl :=
  let q := (z / 2048)%Z in
  let r := (z mod 2048)%Z in
  let q' := (if r <? 1024 then q else if 1024 <? r then q + 1 else if Z.even q then q else q + 1)%Z in
  match q' with
  | Zpos p => let '(m, e) := strip2 p 11 in FFin (Zpos m) e     (* q' * 2^11 with an odd mantissa *)
  | _ => FZero false                                            (* z < 2^10: never asked *)
  end.

Definition nil_id : N := 0.
Definition zerobase_id : N := 1.
Definition first_fresh_id : N := 2.

(* ---- StructOptions.LowerCamel: lower the first rune of the field name ---- *)

(* unicode.ToLower: ASCII handled by the code itself (r <= MaxASCII), everything above through
   the case tables, which enter as the parameter [hi] *)
Definition ascii_to_lower (r : N) : N := if (65 <=? r) && (r <=? 90) then r + 32 else r.
Definition to_lower (hi : N -> N) (r : N) : N := if r <? 128 then ascii_to_lower r else hi r.

(* firstRune, size := utf8.DecodeRuneInString(key); key = string(unicode.ToLower(firstRune)) + key[size:] *)
Definition lower_camel_key (hi : N -> N) (name : bstr) : bstr :=
  let '(r, w) := decode_rune name in encode_rune (to_lower hi r) ++ drop w name.

Definition field_key (lower_camel : bool) (hi : N -> N) (name : bstr) : bstr :=
  if lower_camel then lower_camel_key hi name else name.

(* ---- threading the id counter through a list of slots; [None] = slot skipped ---- *)
Section Thread.
  Context {A B : Type} (f : A -> N -> outcome (option B * N)).
  Fixpoint thread (l : list A) (n : N) : outcome (list B * N) :=
    match l with
    | [] => Ok ([], n)
    | x :: r =>
        '(o, n1) <- f x n ;;
        '(ys, n2) <- thread r n1 ;;
        Ok (match o with Some y => y :: ys | None => ys end, n2)
    end.
End Thread.

(* m[key] = value for each entry in turn, starting from an empty map *)
Definition build_map (kvs : list (bstr * value)) : list (bstr * value) :=
  fold_left (fun m kv => map_set m (fst kv) (snd kv)) kvs [].

(* Where the value was reached from, which decides whether NewWith's checks on the dynamic
   type (data.Value, Marshaler) apply:
     CSlot  it is the argument of a NewWith call (top level, slice element, map value, struct
            field; reflect's Interface() unwraps interface-typed slots, so GIface is transparent here)
     CPtr   one pointer below such an argument: the pointer type's method set still contains the
            value-receiver methods, so a Marshaler is found; a data.Value is found too, but what
            is returned is the pointer itself, which is none of the eight value types
     CDeep  reached by the drilling loop (v = v.Elem()) through two or more pointers or a
            pointer to an interface: the checks are not repeated, the value is converted by its kind
            (a Marshaler as the plain value it is; a data.Value by its underlying type: Int int64,
            Float float64, String string, Bool bool, Null and Undefined struct{}, List []Value,
            Map map[string]Value) *)
Inductive cctx := CSlot | CPtr | CDeep.

Section Convert.
  Variable lower_camel : bool.
  Variable to_lower_hi : N -> N.

  Fixpoint conv (ctx : cctx) (g : goval) (n : N) {struct g} : outcome (value * N) :=
    match g with
    | GNil => Ok (VNull, n)
    | GBool x => Ok (VBool x, n)
    | GInt _ z => Ok (VInt z, n)                   (* Int(v.Int()) *)
    | GUint _ z =>                                 (* REPAIR C20-uint64-float: u > MaxInt64 -> Float(u) *)
        if (z <? two63)%Z then Ok (VInt z, n)
        else Ok (VFloat (float_of_big_uint z), n)
    | GFloat _ f => Ok (VFloat f, n)               (* Float(v.Float()): float32 -> float64 is exact *)
    | GStr s => Ok (VStr s, n)
    | GTime s => Ok (VStr s, n)
    | GSlice None => Ok (VList nil_id [], n)       (* List(nil) *)
    | GSlice (Some l) =>
        (* slice := make(List, v.Len()) is allocated before the elements are converted *)
        let '(id, n1) := match l with [] => (zerobase_id, n) | _ :: _ => (n, n + 1) end in
        '(vs, n2) <- thread (fun (x : goval) (k : N) => '(v, k') <- conv CSlot x k ;; Ok (Some v, k')) l n1 ;;
        Ok (VList id vs, n2)
    | GMap None => Ok (VMap n [], n + 1)           (* no keys: make(Map, 0) *)
    | GMap (Some es) =>
        '(kvs, n2) <- thread (fun (kx : bstr * goval) (k : N) => '(v, k') <- conv CSlot (snd kx) k ;; Ok (Some (fst kx, v), k')) es (n + 1) ;;
        Ok (VMap n (build_map kvs), n2)
    | GMapBadKey cnt => if cnt =? 0 then Ok (VMap n [], n + 1) else Err e_map_keys
    | GStruct fs =>
        '(kvs, n2) <- thread (fun (fd : bstr * (bool * (bool * goval))) (k : N) =>
                                if fst (snd fd)     (* v.Field(i).CanInterface() *)
                                then '(v, k') <- conv CSlot (snd (snd (snd fd))) k ;;
                                     Ok (Some (field_key lower_camel to_lower_hi (fst fd), v), k')
                                else Ok (None, k)) fs (n + 1) ;;
        Ok (VMap n (build_map kvs), n2)
    | GPtr None => Ok (VNull, n)
    | GPtr (Some g') => conv (match ctx with CSlot => CPtr | _ => CDeep end) g' n
    | GIface None => Ok (VNull, n)
    | GIface (Some g') => conv (match ctx with CSlot => CSlot | _ => CDeep end) g' n
    | GNilPtrTo true => Ok (VNull, n)
        (* REPAIR C20-nil-marshaler: at the argument itself the nil *T IS a Marshaler; the pinned tree calls
           MarshalValue through the nil pointer (a panic), the repaired one returns Null as for every nil pointer *)
    | GNilPtrTo false =>
        (* at the argument itself the nil *Int IS a data.Value and is returned as it is: none of the
           eight value types (OutOfModel, see ptr_to_value) *)
        match ctx with CSlot => OutOfModel | _ => Ok (VNull, n) end
    | GMarshal v u => match ctx with CSlot | CPtr => Ok (v, n) | CDeep => conv CDeep u n end
    | GValue v =>
        match ctx with
        | CSlot => Ok (v, n)
        | CPtr => OutOfModel      (* the pointer itself is returned: a data.Value by its method set, none of the eight types *)
        | CDeep =>
            match v with
            | VNull | VUndef => Ok (VMap n [], n + 1)            (* struct{}: StructOptions.Data makes an empty map *)
            | VList id l =>
                match l with
                | [] => Ok (VList (if id =? nil_id then nil_id else zerobase_id) [], n)   (* v.IsNil(): List(nil); else make(List, 0) *)
                | _ :: _ => Ok (VList n l, n + 1)                 (* the elements are data.Values: returned as they are *)
                end
            | VMap _ m => Ok (VMap n m, n + 1)                    (* a new map with the same entries *)
            | _ => Ok (v, n)                                      (* Int, Float, String, Bool: by kind, the same value *)
            end
        end
    | GUnsupported => Err e_unexpected_type
    end.
End Convert.

(* ---- ids occurring in the input (existing data.Values keep theirs) ---- *)
Fixpoint value_max_id (v : value) : N :=
  match v with
  | VList i l => fold_right (fun x acc => N.max (value_max_id x) acc) i l
  | VMap i m => fold_right (fun kx acc => N.max (value_max_id (snd kx)) acc) i m
  | _ => 0
  end.

Fixpoint goval_max_id (g : goval) : N :=
  match g with
  | GSlice (Some l) => fold_right (fun x acc => N.max (goval_max_id x) acc) 0 l
  | GMap (Some m) => fold_right (fun kx acc => N.max (goval_max_id (snd kx)) acc) 0 m
  | GStruct fs => fold_right (fun fd acc => N.max (goval_max_id (snd (snd (snd fd)))) acc) 0 fs
  | GPtr (Some g') | GIface (Some g') => goval_max_id g'
  | GMarshal v u => N.max (value_max_id v) (goval_max_id u)
  | GValue v => value_max_id v
  | _ => 0
  end.

Definition start_id (g : goval) : N := N.max first_fresh_id (goval_max_id g + 1).

(* data.NewWith(StructOptions{LowerCamel: lower_camel, TimeFormat: ...}, g).
   [Err] = the call panics; [OutOfModel] = see [cctx]. *)
Definition convert_with (to_lower_hi : N -> N) (lower_camel : bool) (g : goval) : outcome value :=
  r <- conv lower_camel to_lower_hi CSlot g (start_id g) ;; Ok (fst r).

(* unicode.ToLower above ASCII from a finite table (identity elsewhere); the model runner uses
   the sample regenerated by tablegen, the theorems hold for every function *)
Definition to_lower_of_table (t : list (N * (N * bool))) (r : N) : N :=
  match assoc r t with Some (l, _) => l | None => r end.
