(* From the messages po.Parse reads (Model/PoEntry.v) to the bundle of pomsg (Model/MsgParts.v):
   the loop of pomsg.newBundle over file.Messages, with the references read as the Go code reads them
   (strings.HasPrefix "id=" / "var=", strconv.ParseUint(ref[3:], 10, 64); the last of each wins).
   Definitions only; Proofs/PoBundleProofs.v shows that on the file the extractor writes (msgstr filled
   in by anyone) this is [new_bundle] of Model/MsgParts.v on the (id, var, msgstr) triples -- the abstract
   catalogue over which the rendering theorems of C11 are stated. *)
From Soy Require Import Model.Bytes Model.Outcome Model.Utf8 Model.Num Model.Values Model.Ast Model.MsgId Model.MsgParts Model.PoFile Model.PoEntry.
Open Scope N_scope.

(* strconv.ParseUint(s, 10, 64): decimal digits only, not empty, below 2^64 *)
Fixpoint pb_uint_go (s : bstr) (acc : N) : option N :=
  match s with
  | [] => Some acc
  | c :: r =>
      if in_range 48 57 c then
        let a := acc * 10 + (c - 48) in
        if 18446744073709551616 <=? a then None else pb_uint_go r a
      else None
  end.
Definition pb_parse_uint (s : bstr) : option N := match s with [] => None | _ => pb_uint_go s 0 end.

Definition pb_e_parse := Eval vm_compute in b "strconv.ParseUint: invalid syntax or out of range".

(* the loop over msg.References *)
Fixpoint pb_refs_loop (refs : list bstr) (id : N) (var : bstr) : outcome (N * bstr) :=
  match refs with
  | [] => Ok (id, var)
  | r :: rest =>
      if is_prefix pe_id_eq r then
        match pb_parse_uint (drop 3 r) with
        | Some n => pb_refs_loop rest n var
        | None => Err pb_e_parse
        end
      else if is_prefix pe_var_eq r then pb_refs_loop rest id (drop 4 r)
      else pb_refs_loop rest id var
  end.

(* newBundle's loop over file.Messages *)
Fixpoint pb_bundle_loop (ms : list pe_message) (bd : bundle) : outcome bundle :=
  match ms with
  | [] => Ok bd
  | m :: r =>
      '(id, var) <- pb_refs_loop (pc_refs (pm_comment m)) 0 [] ;;
      let strs := pf_str (pm_fields m) in
      if id =? 0 then Err e_noid
      else if negb (is_translated strs) then pb_bundle_loop r bd
      else pb_bundle_loop r (bundle_put bd id (new_message var strs))
  end.

(* po.Parse, then newBundle (the header entry, if any, is outside the model: see Model/PoEntry.v) *)
Definition pb_load (input : bstr) : outcome bundle :=
  ms <- pe_parse input ;; pb_bundle_loop ms [].
