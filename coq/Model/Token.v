(* parse/lexer.go `item` and the token plumbing of parse/parse.go (`tree.next`, `backup`,
   `backup2`, `peek`), shared by the lexer model (which produces items) and the parser models
   (which consume them).  Definitions only.

   The scanner sends its items on an unbuffered channel and then closes it; a receive from the
   closed channel yields the zero item.  So the parser sees the finite list of items the scanner
   sends followed by zero items for ever: [p_rest] holds the items not yet received. *)
From Soy Require Import Model.Bytes.
Open Scope N_scope.

Record tok := { t_typ : N;      (* itemType code, as regenerated from the const block by tablegen *)
                t_pos : N;      (* byte offset of the END of the item's text (lexer.emit stores l.pos) *)
                t_val : bstr }.
Definition zero_tok : tok := {| t_typ := 0; t_pos := 0; t_val := [] |}.

Record pst := {
  p_rest : list tok;     (* items the scanner has not yet delivered *)
  p_tok0 : tok;          (* t.token[0] *)
  p_tok1 : tok;          (* t.token[1] *)
  p_peek : nat;          (* t.peekCount *)
  p_recv : nat;          (* number of channel receives made so far (including zero items) *)
}.

Definition pst_init (ts : list tok) : pst :=
  {| p_rest := ts; p_tok0 := zero_tok; p_tok1 := zero_tok; p_peek := 0; p_recv := 0 |}.

(* t.lex.nextItem() *)
Definition recv (s : pst) : tok * pst :=
  match p_rest s with
  | [] => (zero_tok, {| p_rest := []; p_tok0 := p_tok0 s; p_tok1 := p_tok1 s; p_peek := p_peek s; p_recv := S (p_recv s) |})
  | t :: r => (t, {| p_rest := r; p_tok0 := p_tok0 s; p_tok1 := p_tok1 s; p_peek := p_peek s; p_recv := S (p_recv s) |})
  end.

Definition tok_at (s : pst) (i : nat) : tok := match i with O => p_tok0 s | _ => p_tok1 s end.

(* func (t *tree) next() item *)
Definition p_next (s : pst) : tok * pst :=
  match p_peek s with
  | S k =>
      let s' := {| p_rest := p_rest s; p_tok0 := p_tok0 s; p_tok1 := p_tok1 s; p_peek := k; p_recv := p_recv s |} in
      (tok_at s' k, s')
  | O =>
      let '(t, s1) := recv s in
      (t, {| p_rest := p_rest s1; p_tok0 := t; p_tok1 := p_tok1 s1; p_peek := 0; p_recv := p_recv s1 |})
  end.

(* func (t *tree) backup() *)
Definition p_backup (s : pst) : pst :=
  {| p_rest := p_rest s; p_tok0 := p_tok0 s; p_tok1 := p_tok1 s; p_peek := S (p_peek s); p_recv := p_recv s |}.

(* func (t *tree) backup2(t1 item) *)
Definition p_backup2 (s : pst) (t1 : tok) : pst :=
  {| p_rest := p_rest s; p_tok0 := p_tok0 s; p_tok1 := t1; p_peek := 2; p_recv := p_recv s |}.

(* func (t *tree) peek() item *)
Definition p_peek_tok (s : pst) : tok * pst :=
  match p_peek s with
  | S k => (tok_at s k, s)
  | O =>
      let '(t, s1) := recv s in
      (t, {| p_rest := p_rest s1; p_tok0 := t; p_tok1 := p_tok1 s1; p_peek := 1; p_recv := p_recv s1 |})
  end.

(* the token errorf takes its position from: t.token[0], or t.token[peekCount-1] after backups *)
Definition err_tok (s : pst) : tok :=
  match p_peek s with O => p_tok0 s | S k => tok_at s k end.

(* Result of a parsing procedure.  [PErr at_ class]: errorf/unexpected panicked (recovered at the entry
   point into an error value) while the parser state was [st]; the reported position is that of
   [err_tok st] -- [at_] records that token.  [PCrash]: a runtime panic (re-panicked by recover).
   [PFuel]: the model's recursion budget ran out (theorems show a stated budget suffices). *)
Inductive presult (A : Type) : Type :=
| POk (a : A) (st : pst)
| PErr (at_ : tok) (class : bstr) (st : pst)
| PCrash (m : bstr)
| PFuel.
Arguments POk {A} a st.
Arguments PErr {A} at_ class st.
Arguments PCrash {A} m.
Arguments PFuel {A}.

Definition pbind {A B} (x : presult A) (f : A -> pst -> presult B) : presult B :=
  match x with
  | POk a st => f a st
  | PErr t c st => PErr t c st
  | PCrash m => PCrash m
  | PFuel => PFuel
  end.
