(* The scanner / parser handshake of parse/lexer.go and parse/parse.go as a channel protocol.
   Definitions only.

   lexer.run is ONE goroutine that sends its items on an UNBUFFERED channel and then closes it
   (single producer); the parse is the ONLY receiver (single consumer): t.next() receives one
   item (`<-l.items`: the zero item once the channel is closed), lexer.drain() is
   `for range l.items {}` (receive and discard until the channel is closed).

   A configuration holds the rest of the producer's program, whether the channel is closed, the
   rest of the consumer's program and three counters.  An execution is driven by a SCHEDULE, an
   arbitrary list of moves: [MP] the producer takes an internal step or closes the channel, [MC]
   the consumer takes an internal step or receives from the CLOSED channel, [MS] a rendezvous (a
   send meets a receive).  A move that is not enabled leaves the configuration unchanged, so every
   interleaving the Go scheduler can produce, complete or partial, is the execution of some
   schedule.  A send on the open channel is enabled only as a rendezvous: a producer at [PSend]
   whose consumer has returned stays there for ever -- the leaked goroutine of C18.

   Model/Token.v and Model/Parser.v use the FUNCTIONAL reading of this protocol: the parser sees
   the list of items the scanner sends, followed by zero items for ever ([Token.recv]), and a
   scanner is recorded as (items sent in all, receives made, drained) with [Parser.scan_done].
   Proofs/ChanProofs.v proves that reading from the small-step semantics here: whatever the
   schedule, a consumer that returns returns what [feeds] gives on the list of items (the parse
   result is a function of the bytes, not of the interleaving), and the producer can run to its
   exit exactly when [chan_scan_done] holds.

   Not modelled: the Go memory model and scheduler (fairness is not needed: the statements are
   about every schedule), panics (a run-time panic in the parser skips the drain: Parser.v's
   PCrash; C05 proves it does not happen). *)
From Coq Require Import List Arith Bool.
Import ListNotations.

Section Chan.
Variables A R : Type.
Variable zero : A.                 (* the zero item a receive from the closed channel yields *)

(* the scanner goroutine: `for l.state != nil { l.state = l.state(l) }; close(l.items)` *)
Inductive prod :=
| PSend (a : A) (k : prod)         (* l.items <- item *)
| PTau (k : prod)                  (* any internal step *)
| PClose.                          (* close(l.items); the goroutine returns *)

(* the parser *)
Inductive cons :=
| CRecv (k : A -> cons)            (* t.lex.nextItem() *)
| CTau (k : cons)
| CDrain (k : cons)                (* l.drain(): for range l.items {} *)
| CRet (r : R).

Record cfg := {
  g_prod : prod;
  g_closed : bool;
  g_cons : cons;
  g_sync : nat;          (* rendezvous so far = items delivered *)
  g_recv : nat;          (* receives made by CRecv (from the open or the closed channel) *)
  g_drained : bool;      (* a drain has run to the close *)
}.

Definition cfg_init (p : prod) (c : cons) : cfg :=
  {| g_prod := p; g_closed := false; g_cons := c; g_sync := 0; g_recv := 0; g_drained := false |}.

Inductive move := MP | MC | MS.

Definition step (m : move) (g : cfg) : cfg :=
  match m with
  | MP =>
      match g_prod g with
      | PTau k => {| g_prod := k; g_closed := g_closed g; g_cons := g_cons g; g_sync := g_sync g; g_recv := g_recv g; g_drained := g_drained g |}
      | PClose => {| g_prod := PClose; g_closed := true; g_cons := g_cons g; g_sync := g_sync g; g_recv := g_recv g; g_drained := g_drained g |}
      | PSend _ _ => g                                   (* blocked until a receiver arrives *)
      end
  | MC =>
      match g_cons g with
      | CTau k => {| g_prod := g_prod g; g_closed := g_closed g; g_cons := k; g_sync := g_sync g; g_recv := g_recv g; g_drained := g_drained g |}
      | CRecv k =>
          if g_closed g
          then {| g_prod := g_prod g; g_closed := true; g_cons := k zero; g_sync := g_sync g; g_recv := S (g_recv g); g_drained := g_drained g |}
          else g                                          (* blocked until a sender arrives *)
      | CDrain k =>
          if g_closed g
          then {| g_prod := g_prod g; g_closed := true; g_cons := k; g_sync := g_sync g; g_recv := g_recv g; g_drained := true |}
          else g
      | CRet _ => g
      end
  | MS =>
      if g_closed g then g
      else
        match g_prod g, g_cons g with
        | PSend a kp, CRecv kc =>
            {| g_prod := kp; g_closed := false; g_cons := kc a; g_sync := S (g_sync g); g_recv := S (g_recv g); g_drained := g_drained g |}
        | PSend a kp, CDrain kc =>
            {| g_prod := kp; g_closed := false; g_cons := CDrain kc; g_sync := S (g_sync g); g_recv := g_recv g; g_drained := g_drained g |}
        | _, _ => g
        end
  end.

Fixpoint run (sched : list move) (g : cfg) : cfg :=
  match sched with
  | [] => g
  | m :: r => run r (step m g)
  end.

(* ---------- the functional reading ---------- *)
(* the items the producer sends before it closes the channel *)
Fixpoint items (p : prod) : list A :=
  match p with
  | PSend a k => a :: items k
  | PTau k => items k
  | PClose => []
  end.

(* the consumer fed with a list of items followed by zero items for ever (Token.recv) *)
Inductive feeds : cons -> list A -> R -> Prop :=
| F_ret r l : feeds (CRet r) l r
| F_tau k l r : feeds k l r -> feeds (CTau k) l r
| F_recv k a l r : feeds (k a) l r -> feeds (CRecv k) (a :: l) r
| F_recv_closed k r : feeds (k zero) [] r -> feeds (CRecv k) [] r
| F_drain k l r : feeds k [] r -> feeds (CDrain k) l r.

(* Parser.scan_done on the counters of a configuration; [n] = items the producer sends in all *)
Definition chan_scan_done (n : nat) (g : cfg) : bool := g_drained g || (n <=? g_recv g).

(* the scanner goroutine has returned *)
Definition exited (g : cfg) : Prop := g_prod g = PClose /\ g_closed g = true.
(* the scanner goroutine is parked on a send *)
Definition parked (g : cfg) : Prop := exists a k, g_prod g = PSend a k.

End Chan.

Arguments PSend {A} a k.
Arguments PTau {A} k.
Arguments PClose {A}.
Arguments CRecv {A R} k.
Arguments CTau {A R} k.
Arguments CDrain {A R} k.
Arguments CRet {A R} r.
Arguments g_prod {A R} c.
Arguments g_closed {A R} c.
Arguments g_cons {A R} c.
Arguments g_sync {A R} c.
Arguments g_recv {A R} c.
Arguments g_drained {A R} c.
Arguments cfg_init {A R} p c.
Arguments step {A R} zero m g.
Arguments run {A R} zero sched g.
Arguments items {A} p.
Arguments feeds {A R} zero _ _ _.
Arguments chan_scan_done {A R} n g.
Arguments exited {A R} g.
Arguments parked {A R} g.
