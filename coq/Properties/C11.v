(* C11 — Extracted messages round-trip: translations land on the right
   placeholders.  Property theorems only; proofs are in Proofs/MsgPartsProofs.v.
   The model (Model/MsgParts.v) is the tree with the three C11 repairs
   (b7ce862, 1664d1a, b24e43c); the pinned code is refuted at the end.

   Outside the model, tied by the correspondence only: the PO file reader and
   writer (robfig/gettext/po), the locale fall-back computation
   (golang.org/x/text/language), and the JavaScript backend (node). *)
From Coq Require Import Permutation.
(* source tie by translation: the lemmas of these files are obligations of this property *)
From Soy Require Import Proofs.SourceTieMsg Proofs.SourceTiePo Proofs.SourceTieMsgLoops.
From Soy Require Import Proofs.MsgIdProofs.
From Soy Require Import Model.Bytes Model.Outcome Model.Num Model.Values Model.Ast Model.MsgId
  Model.Escape Model.Interp Model.MsgParts Spec.MsgCat Proofs.MsgPartsProofs Proofs.InterpRelProofs Proofs.InterpPosProofs Proofs.MsgCatProofs
  Proofs.MsgPluralProofs Model.PoFile Proofs.PoFileProofs Model.JsGen Proofs.MsgJsProofs
  Model.PoEntry Proofs.PoEntryProofs Model.PoBundle Proofs.PoBundleProofs Model.MiniJS Proofs.InterpGuard Proofs.MiniJSProofs Proofs.MiniJSPrint Proofs.MiniJSCtl Proofs.MiniJSGo Proofs.MiniJSStmt Proofs.MiniJSGen Proofs.MiniJSSim Proofs.MsgWalkEq Proofs.MsgThreeSided.
Open Scope N_scope.

(* ------------------------------------------------------------------ *)
(* soymsg.Parts inverts the printer of placeholder strings             *)
(* ------------------------------------------------------------------ *)

(* Parts (PlaceholderString m) = the message's own part list (adjacent raw
   texts joined), for every message without plural whose raw text contains no
   brace and whose placeholder names are in [A-Z0-9_]+ *)
Theorem C11_parts_phstring : forall l,
  Forall nflat l ->
  (forall t, In (NmText t) l -> no_brace t) -> (forall n, In (NmPh n) l -> name_ok n) ->
  parts (write_fp_list true l) = merge_texts (flat_map npart_part l).
Proof. exact parts_phstring. Qed.
Print Assumptions C11_parts_phstring.

(* sharper: raw text may contain braces as long as no text run of the normal
   form contains a {[A-Z0-9_]+} token *)
Theorem C11_parts_print : forall l, parts_clean (merge_texts l) -> parts (print_parts l) = merge_texts l.
Proof. exact parts_print. Qed.
Print Assumptions C11_parts_print.

(* Parts finds exactly the body's parts as soon as it finds exactly the body's
   placeholder NAMES (what the repaired Validate compares) *)
Theorem C11_names_decide : forall l,
  part_names (parts (print_parts l)) = part_names l -> parts (print_parts l) = merge_texts l.
Proof. exact names_decide. Qed.
Print Assumptions C11_names_decide.

(* ------------------------------------------------------------------ *)
(* pomsg.Validate: accepted = the msgid reads back as the message       *)
(* ------------------------------------------------------------------ *)

Theorem C11_validate_flat : forall body,
  forallb flat_node body = true ->
  (validate body = Ok tt <-> parts (write_body body) = merge_texts (body_parts body)).
Proof. exact validate_flat. Qed.
Print Assumptions C11_validate_flat.

Theorem C11_validate_plural : forall p vn pv pc cb dflt,
  validate [NMsgPlural p vn pv [NMsgPluralCase pc 1%Z cb] dflt] = Ok tt <->
  (write_body cb <> [] /\ write_body dflt <> []) /\
  (forallb flat_node cb = true /\ parts (write_body cb) = merge_texts (body_parts cb)) /\
  (forallb flat_node dflt = true /\ parts (write_body dflt) = merge_texts (body_parts dflt)).
Proof. exact validate_plural. Qed.
Print Assumptions C11_validate_plural.

(* nothing representable is refused *)
Theorem C11_validate_complete : forall body,
  forallb flat_node body = true -> parts_clean (merge_texts (body_parts body)) -> reads_back body = true.
Proof. exact reads_back_complete. Qed.
Print Assumptions C11_validate_complete.

(* ------------------------------------------------------------------ *)
(* rendering with a catalogue, for every walker w (open recursion)      *)
(* ------------------------------------------------------------------ *)

(* A translation is a list of text segments and of placeholder occurrences of
   the source; the translator writes [msgstr_of tr]; rendering writes every text
   segment and fills every placeholder slot by rendering the first placeholder of
   the message that carries the slot's name ([resolve]) -- no hypothesis on the
   names. *)
Theorem C11_translation_places_values : forall plural_index bd w mp id body tr,
  forallb flat_node body = true -> items_named body tr ->
  parts_clean (map item_part tr) ->
  bundle_message bd id = Some (new_message [] [msgstr_of tr]) ->
  eval_msg plural_index bd w mp id body = run_items w (map (resolve body) tr).
Proof. exact translation_places_values. Qed.
Print Assumptions C11_translation_places_values.

(* [coherent body]: placeholders carrying one name are the same code (the same
   node up to positions).  Then every slot holds the code the translation names. *)
Theorem C11_resolve_same : forall phs tr, coherent phs -> items_from phs tr -> same_items (map (resolve phs) tr) tr.
Proof. exact resolve_same. Qed.
Print Assumptions C11_resolve_same.

(* in particular a translation whose placeholders are a permutation of the source's *)
Theorem C11_reorder_catalogue : forall plural_index bd w mp id body tr,
  forallb flat_node body = true ->
  Permutation (ph_items tr) (ph_items (source_items body)) ->
  parts_clean (map item_part tr) ->
  bundle_message bd id = Some (new_message [] [msgstr_of tr]) ->
  eval_msg plural_index bd w mp id body = run_items w (map (resolve body) tr).
Proof. exact reorder_catalogue. Qed.
Print Assumptions C11_reorder_catalogue.

Theorem C11_reorder_same : forall body tr,
  coherent body -> Permutation (ph_items tr) (ph_items (source_items body)) ->
  same_items (map (resolve body) tr) tr.
Proof. exact reorder_same. Qed.
Print Assumptions C11_reorder_same.

(* the identity translation (msgstr = msgid) of a message that Validate accepts
   renders the message's own text segments and placeholders in source order *)
Theorem C11_identity_flat : forall plural_index bd w mp id body,
  reads_back body = true ->
  bundle_message bd id = Some (new_message [] [write_body body]) ->
  eval_msg plural_index bd w mp id body = run_items w (map (resolve body) (identity_items body)).
Proof. exact identity_flat. Qed.
Print Assumptions C11_identity_flat.

(* a message that is not in the catalogue is rendered from its source *)
Theorem C11_missing_falls_back : forall plural_index bd w mp id body,
  bundle_message bd id = None -> eval_msg plural_index bd w mp id body = msg_body w mp body.
Proof. exact missing_msg. Qed.
Print Assumptions C11_missing_falls_back.

Theorem C11_missing_node : forall cf plural_index bd w mp id mn ds body,
  bundle_message bd id = None ->
  walk_body_b cf plural_index bd w (NMsg mp id mn ds body) = walk_body cf w (NMsg mp id mn ds body).
Proof. exact missing_node. Qed.
Print Assumptions C11_missing_node.

(* plural: the form is msgstr[plural_index n] *)
Theorem C11_plural_selects : forall plural_index bd w mp id p vn pv cases dflt strs st,
  vn <> [] \/ length strs <> 1%nat ->
  bundle_message bd id = Some (new_message vn strs) ->
  eval_msg plural_index bd w mp id [NMsgPlural p vn pv cases dflt] st =
  (v <-- eval w pv ;;;
   match v with
   | VInt i => eval_form w [NMsgPlural p vn pv cases dflt] strs (plural_index i)
   | _ => fail e_plural
   end) st.
Proof. exact plural_selects. Qed.
Print Assumptions C11_plural_selects.

(* ... and a form renders its items where the translation puts them *)
Theorem C11_plural_form_places_values : forall w p vn pv pc cv cb dflt strs k tr,
  forallb flat_node cb = true -> forallb flat_node dflt = true ->
  items_named (dflt ++ cb) tr ->
  nth_error strs k = Some (msgstr_of tr) -> parts_clean (map item_part tr) ->
  eval_form w [NMsgPlural p vn pv [NMsgPluralCase pc cv cb] dflt] strs k = run_items w (map (resolve (dflt ++ cb)) tr).
Proof. exact plural_form_places_values. Qed.
Print Assumptions C11_plural_form_places_values.

Theorem C11_identity_form : forall w p vn pv pc cv cb dflt strs k src,
  reads_back cb = true -> reads_back dflt = true ->
  (src = cb \/ src = dflt) ->
  nth_error strs k = Some (write_body src) ->
  eval_form w [NMsgPlural p vn pv [NMsgPluralCase pc cv cb] dflt] strs k =
  run_items w (map (resolve (dflt ++ cb)) (identity_items src)).
Proof. exact identity_form. Qed.
Print Assumptions C11_identity_form.

(* both in one: a PO plural with ANY number of forms (ja 1, en 2, ru 3 ...) under EVERY plural selector
   renders form plural_index n, its text where that form's translation puts it and its slots filled with
   the message's placeholders of those names; a selector that points outside the forms is an error *)
Theorem C11_plural_places_values : forall plural_index bd w mp id p vn pv pc cv cb dflt (trs : list (list titem)) st,
  vn <> [] \/ length trs <> 1%nat ->
  bundle_message bd id = Some (new_message vn (map msgstr_of trs)) ->
  forallb flat_node cb = true -> forallb flat_node dflt = true ->
  Forall (fun tr => items_named (dflt ++ cb) tr /\ parts_clean (map item_part tr)) trs ->
  eval_msg plural_index bd w mp id [NMsgPlural p vn pv [NMsgPluralCase pc cv cb] dflt] st =
  (v <-- eval w pv ;;;
   match v with
   | VInt i => match nth_error trs (plural_index i) with
               | Some tr => run_items w (map (resolve (dflt ++ cb)) tr)
               | None => fail e_plural_index
               end
   | _ => fail e_plural
   end) st.
Proof. exact plural_places_values. Qed.
Print Assumptions C11_plural_places_values.

(* ------------------------------------------------------------------ *)
(* the JavaScript backend: what soyjs generates for a translated message *)
(* ------------------------------------------------------------------ *)

(* soyjs resolves the catalogue when it GENERATES code (Model/JsGen.v visit_msg / jeval_parts).  For every
   generator-walker w: the code for a flat message with a catalogue entry is, in the translation's order, an
   append statement for every text segment ([write_raw_text]) and the code of the first placeholder of the
   message carrying the slot's name -- [jrun_items w] over the SAME resolved item list
   [map (resolve body) tr] over which soyhtml runs [run_items] (C11_translation_places_values).  So the two
   backends agree on which text and which placeholder code stands where, as a theorem; that the JavaScript
   generated for a placeholder's code computes what soyhtml prints for it is C04's theorem where C04 covers
   the code (C04_gen_correct_partial_stmt: raw text, print with directives, ...) and correspondence elsewhere. *)
Theorem C11_js_translation_places_values : forall o w id body tr msgs,
  forallb flat_node body = true -> items_named body tr ->
  parts_clean (map item_part tr) ->
  o_msgs o = Some msgs -> assoc_n id msgs = Some (jparts_of_cmsg (new_message [] [msgstr_of tr])) ->
  visit_msg o w id body = jrun_items w (map (resolve body) tr).
Proof. exact js_translation_places_values. Qed.
Print Assumptions C11_js_translation_places_values.

(* a PO plural: `switch (soy.$$pluralIndex(<value>))` with one case per msgstr, case i holding the items of
   form i (any number of forms; the selector is the embedding page's soy.$$pluralIndex) *)
Theorem C11_js_plural_places_values : forall o w id p vn pv pc cv cb dflt (trs : list (list titem)) msgs,
  vn <> [] \/ length trs <> 1%nat ->
  forallb flat_node cb = true -> forallb flat_node dflt = true ->
  Forall (fun tr => items_named (dflt ++ cb) tr /\ parts_clean (map item_part tr)) trs ->
  o_msgs o = Some msgs ->
  assoc_n id msgs = Some (jparts_of_cmsg (new_message vn (map msgstr_of trs))) ->
  visit_msg o w id [NMsgPlural p vn pv [NMsgPluralCase pc cv cb] dflt] =
  (jindent ;;; jtxt t_plural_open ;;; w pv ;;; jemit [CText t_plural_close; CText t_nl] ;;;
   indent_inc ;;;
   jplural_cases 0 (map (fun tr => jrun_items w (map (resolve (dflt ++ cb)) tr)) trs) ;;;
   indent_dec ;;; jsln [CText t_rbrace]) ;;; jret tt.
Proof. exact js_plural_places_values. Qed.
Print Assumptions C11_js_plural_places_values.

(* no bundle, or no entry: the source is generated *)
Theorem C11_js_missing_falls_back : forall o w id body,
  o_msgs o = None \/ (exists msgs, o_msgs o = Some msgs /\ assoc_n id msgs = None) ->
  visit_msg o w id body = jmsg_children w (msg_size body) body.
Proof. exact js_missing_falls_back. Qed.
Print Assumptions C11_js_missing_falls_back.

(* ------------------------------------------------------------------ *)
(* whole program: the identity (and any partial identity) catalogue     *)
(* ------------------------------------------------------------------ *)

(* [ident_ok plural_index bd id body] (Proofs/MsgCatProofs.v): the bundle has no
   entry for id, or its entry is the identity translation of the message --
   msgstr = msgid for a message that Validate accepts (reads_back), or, for a PO
   plural ({case 1}{default}), msgstr[plural_index n] = the msgid of the case the
   source selects for n (for every n: under n != 1 that is msgstr[0] = msgid,
   msgstr[1] = msgid_plural) -- with coherent placeholder names.
   [okP (ident_ok ..) n]: every {msg} node of the tree n satisfies it.
   [st_equiv]: machine states that differ only in how the bytes written so far
   are cut into Write calls and in the error-position register, fault-free
   writers.  [res_rel x y]: x ran out of the model's fuel, or x and y have the
   same outcome (value / error class) and equivalent states.
   [mrel m1 m2]: from equivalent states, res_rel (m1 s1) (m2 s2). *)

(* rendering without a catalogue is matched by rendering with it, at the same fuel *)
Theorem C11_identity_catalogue_walker : forall cf plural_index bd,
  Forall (fun t => okP (ident_ok plural_index bd) (t_node t)) (r_templates (c_reg cf)) ->
  forall f n, okP (ident_ok plural_index bd) n -> mrel (walk cf f n) (walk_b cf plural_index bd f n).
Proof. exact nocat_refines_cat. Qed.
Print Assumptions C11_identity_catalogue_walker.

(* ... and conversely (a translated message spends less fuel than its source: 2f+1 suffices) *)
Theorem C11_identity_catalogue_walker_conv : forall cf plural_index bd,
  Forall (fun t => okP (ident_ok plural_index bd) (t_node t)) (r_templates (c_reg cf)) ->
  forall f n, okP (ident_ok plural_index bd) n -> mrel (walk_b cf plural_index bd f n) (walk cf (2 * f + 1) n).
Proof. exact cat_refines_nocat. Qed.
Print Assumptions C11_identity_catalogue_walker_conv.

(* Renderer.Execute: a render that succeeds without the catalogue succeeds with
   it and writes the same bytes, and conversely *)
Theorem C11_identity_catalogue : forall cf plural_index bd,
  Forall (fun t => okP (ident_ok plural_index bd) (t_node t)) (r_templates (c_reg cf)) ->
  forall f name did data fid,
  rr_outcome (render cf f name did data None None fid) = Ok tt ->
  rr_outcome (render_b cf plural_index bd f name did data None None fid) = Ok tt /\
  concat_b (rr_writes (render_b cf plural_index bd f name did data None None fid)) =
  concat_b (rr_writes (render cf f name did data None None fid)).
Proof. exact render_nocat_to_cat. Qed.
Print Assumptions C11_identity_catalogue.

Theorem C11_identity_catalogue_conv : forall cf plural_index bd,
  Forall (fun t => okP (ident_ok plural_index bd) (t_node t)) (r_templates (c_reg cf)) ->
  forall f name did data fid,
  rr_outcome (render_b cf plural_index bd f name did data None None fid) = Ok tt ->
  rr_outcome (render cf (2 * f + 1) name did data None None fid) = Ok tt /\
  concat_b (rr_writes (render cf (2 * f + 1) name did data None None fid)) =
  concat_b (rr_writes (render_b cf plural_index bd f name did data None None fid)).
Proof. exact render_cat_to_nocat. Qed.
Print Assumptions C11_identity_catalogue_conv.

(* a render that fails without the catalogue fails with it, after the same bytes *)
Theorem C11_identity_catalogue_errors : forall cf plural_index bd,
  Forall (fun t => okP (ident_ok plural_index bd) (t_node t)) (r_templates (c_reg cf)) ->
  forall f name did data fid,
  rr_outcome (render cf f name did data None None fid) <> OutOfFuel ->
  is_ok (rr_outcome (render_b cf plural_index bd f name did data None None fid)) =
  is_ok (rr_outcome (render cf f name did data None None fid)) /\
  concat_b (rr_writes (render_b cf plural_index bd f name did data None None fid)) =
  concat_b (rr_writes (render cf f name did data None None fid)).
Proof. exact render_error_agrees. Qed.
Print Assumptions C11_identity_catalogue_errors.

(* [coherent] follows from C10's naming theorem once String() is injective on the
   message's placeholder nodes (C17's print_injective: an explicit hypothesis) *)
Theorem C11_coherent_of_naming : forall order mbody es nm (phs : list (N * bstr * bstr * node)),
  is_perm order -> msg_entries mbody = Ok es -> msg_names order mbody = Ok nm ->
  (forall p base str n, In (p, base, str, n) phs -> In (base, str) es) ->
  (forall p base str n p' base' str' n',
      In (p, base, str, n) phs -> In (p', base', str', n') phs -> str = str' -> pstrip n = pstrip n') ->
  coherent (map (ph_of nm) phs).
Proof. exact coherent_of_naming. Qed.
Print Assumptions C11_coherent_of_naming.

(* the walker renders the same code the same way wherever it stands in the source
   (up to the error-position register): what makes "the first placeholder with
   that name" as good as the one the translator meant *)
Theorem C11_walker_position_insensitive : forall cf (okm : N -> list node -> Prop),
  (forall body, okm 0 body) ->
  Forall (fun t => okP okm (t_node t)) (r_templates (c_reg cf)) ->
  forall f b1 b2, okP okm b1 -> okP okm b2 -> pstrip b1 = pstrip b2 -> mrel (walk cf f b1) (walk cf f b2).
Proof. exact walk_pos. Qed.
Print Assumptions C11_walker_position_insensitive.

(* the tree walker itself respects the equivalence (one unfolding, any related walkers) *)
Theorem C11_walker_parametric : forall cf (okm : N -> list node -> Prop),
  (forall body, okm 0 body) ->
  Forall (fun t => okP okm (t_node t)) (r_templates (c_reg cf)) ->
  forall w1 w2, (forall n, okP okm n -> mrel (w1 n) (w2 n)) ->
  forall n, okP okm n -> mrel (walk_body cf w1 n) (walk_body cf w2 n).
Proof. exact walk_body_rel. Qed.
Print Assumptions C11_walker_parametric.

(* ------------------------------------------------------------------ *)
(* non-vacuity: Hello {$name}, you have {$n} <b>new</b> messages         *)
(* ------------------------------------------------------------------ *)

Definition ex_name : node := NPrint 7 (NDataRef 8 (b "name") []) [].
Definition ex_n : node := NPrint 25 (NDataRef 26 (b "n") []) [].
Definition ex_name2 : node := NPrint 51 (NDataRef 52 (b "name") []) [].     (* {$name} once more, elsewhere *)
Definition ex_body : list node :=
  [NRawText 1 (b "Hello "); NMsgPlaceholder 7 (b "NAME") ex_name; NRawText 14 (b ", you have ");
   NMsgPlaceholder 25 (b "N") ex_n; NRawText 29 (b " "); NMsgPlaceholder 30 (b "START_BOLD") (NMsgHtmlTag 30 (b "<b>"));
   NRawText 33 (b "new"); NMsgPlaceholder 36 (b "END_BOLD") (NMsgHtmlTag 36 (b "</b>")); NRawText 40 (b " messages, ");
   NMsgPlaceholder 51 (b "NAME") ex_name2].

Example ex_msgid : msgid ex_body = Ok (b "Hello {NAME}, you have {N} {START_BOLD}new{END_BOLD} messages, {NAME}").
Proof. vm_compute. reflexivity. Qed.
Example ex_validate : validate ex_body = Ok tt.
Proof. vm_compute. reflexivity. Qed.
Example ex_reads_back : reads_back ex_body = true.
Proof. vm_compute. reflexivity. Qed.

(* "{N} messages for {NAME}": a translation that reorders and drops *)
Definition ex_tr : list titem :=
  [TPh 25 (b "N") ex_n; TText (b " messages pour "); TPh 7 (b "NAME") ex_name].
Example ex_tr_msgstr : msgstr_of ex_tr = b "{N} messages pour {NAME}".
Proof. vm_compute. reflexivity. Qed.
Example ex_tr_clean : parts_clean (map item_part ex_tr).
Proof. vm_compute. repeat split; discriminate. Qed.
Example ex_tr_from : items_from ex_body ex_tr.
Proof.
  intros p n bd H. cbn in H. destruct H as [H|[H|[H|[]]]]; try discriminate; injection H as <- <- <-; cbn; tauto.
Qed.
Example ex_coherent : coherent ex_body.
Proof.
  intros p1 p2 n b1 b2 H1 H2. cbn in H1, H2.
  repeat (destruct H1 as [H1|H1]; [try discriminate; injection H1 as <- <- <-|]); try destruct H1;
    repeat (destruct H2 as [H2|H2]; [try discriminate; try (injection H2 as _ <-; reflexivity); injection H2 as _ Hn _; vm_compute in Hn; discriminate|]); destruct H2.
Qed.
(* the second {$name} is resolved to the first one: another node, the same code *)
Example ex_resolve : map (resolve ex_body) [TPh 51 (b "NAME") ex_name2] = [TPh 51 (b "NAME") ex_name] /\ ex_name <> ex_name2 /\ pstrip ex_name = pstrip ex_name2.
Proof. repeat split; [discriminate]. Qed.

(* the reversed plural-free catalogue of this message, end to end in the model *)
Example ex_parts_roundtrip : parts (b "{N} messages pour {NAME}") = [PPh (b "N"); PText (b " messages pour "); PPh (b "NAME")].
Proof. vm_compute. reflexivity. Qed.

(* the hypotheses of the whole-program theorems are satisfiable: a template with
   the message above and a PO plural, a catalogue holding their identity
   translations under the n != 1 rule *)
Definition ex_cb : list node := [NRawText 60 (b "one")].
Definition ex_dflt : list node := [NMsgPlaceholder 70 (b "N_2") ex_n; NRawText 74 (b " many")].
Definition ex_plural : list node :=
  [NMsgPlural 50 (b "N_1") (NDataRef 51 (b "n") []) [NMsgPluralCase 55 1%Z ex_cb] ex_dflt].
Definition ex_bd : bundle :=
  [(5, new_message [] [write_body ex_body]); (6, new_message (b "N_1") [write_body ex_cb; write_body ex_dflt])].
Definition ex_template : node :=
  NTemplate 0 (b "ns.t") (NList 0 [NMsg 0 5 [] (b "d") ex_body; NMsg 45 6 [] (b "p") ex_plural; NMsg 90 7 [] (b "absent") ex_cb]) 0 false.

Example ex_ident_flat : ident_ok plural_neq1 ex_bd 5 ex_body.
Proof.
  unfold ident_ok. replace (bundle_message ex_bd 5) with (Some (new_message [] [write_body ex_body])) by reflexivity.
  left. split; [vm_compute; reflexivity|]. split; [exact ex_coherent | reflexivity].
Qed.

Example ex_ident_plural : ident_ok plural_neq1 ex_bd 6 ex_plural.
Proof.
  unfold ident_ok.
  replace (bundle_message ex_bd 6) with (Some (new_message (b "N_1") [write_body ex_cb; write_body ex_dflt])) by reflexivity.
  right. exists 50, (b "N_1"), (NDataRef 51 (b "n") []), 55, ex_cb, ex_dflt, [write_body ex_cb; write_body ex_dflt].
  split; [reflexivity|]. split; [discriminate|]. split; [reflexivity|].
  split; [vm_compute; reflexivity|]. split; [vm_compute; reflexivity|]. split.
  - intros p1 p2 n b1 b2 H1 H2. cbn in H1, H2.
    destruct H1 as [H1|[H1|[H1|[]]]]; try discriminate. destruct H2 as [H2|[H2|[H2|[]]]]; try discriminate. congruence.
  - intros i. unfold plural_neq1. destruct (i =? 1)%Z; reflexivity.
Qed.

Example ex_okP : okP (ident_ok plural_neq1 ex_bd) ex_template.
Proof.
  cbn [okP fold_right ex_template ex_body ex_plural ex_cb ex_dflt ex_name ex_n snd].
  repeat split; try exact ex_ident_flat; try exact ex_ident_plural.
Qed.

(* three forms (ru): the hypotheses of C11_plural_places_values on the plural of ex_template *)
Definition ex_ru_trs : list (list titem) :=
  [[TPh 70 (b "N_2") ex_n; TText (b " soobshchenie")];
   [TPh 70 (b "N_2") ex_n; TText (b " soobshcheniya")];
   [TText (b "soobshcheniy: "); TPh 70 (b "N_2") ex_n]].
Definition ex_bd_ru : bundle := [(6, new_message (b "N_1") (map msgstr_of ex_ru_trs))].
Example ex_ru_msgstrs : map msgstr_of ex_ru_trs = [b "{N_2} soobshchenie"; b "{N_2} soobshcheniya"; b "soobshcheniy: {N_2}"].
Proof. vm_compute. reflexivity. Qed.
Example ex_ru_selector : map plural_russian [1; 2; 5; 11; 21; 22; 25; 111]%Z = [0; 1; 2; 2; 0; 1; 2; 2]%nat.
Proof. vm_compute. reflexivity. Qed.
Example ex_ru_three_forms : forall w st,
  eval_msg plural_russian ex_bd_ru w 45 6 ex_plural st =
  (v <-- eval w (NDataRef 51 (b "n") []) ;;;
   match v with
   | VInt i => match nth_error ex_ru_trs (plural_russian i) with
               | Some tr => run_items w (map (resolve (ex_dflt ++ ex_cb)) tr)
               | None => fail e_plural_index
               end
   | _ => fail e_plural
   end) st.
Proof.
  intros w st. apply plural_places_values; [left; discriminate|reflexivity|reflexivity|reflexivity|].
  repeat constructor;
    try (intros p n bd H; cbn in H; destruct H as [H|[H|[]]]; try discriminate; injection H as <- <- <-;
         exists 70, ex_n; cbn; tauto);
    try (vm_compute; repeat split; discriminate).
Qed.

(* ------------------------------------------------------------------ *)
(* the PO file: what the extractor / a PO tool writes is what pomsg reads *)
(* ------------------------------------------------------------------ *)

(* Model/PoFile.v models library code (strconv.Quote / Unquote, robfig/gettext/po writer.quo and
   scanner.quo, Message.WriteTo's and Parse's quoted fields); is_print stands for strconv.IsPrint on
   runes >= 0x80 and is arbitrary.  [bytes s]: every element of s is < 256. *)

(* strconv.Unquote inverts strconv.Quote on every byte string: any text, quotes, backslashes, control
   characters, newlines, invalid UTF-8, non-printable runes *)
Theorem C11_po_unquote_quote : forall is_print s, bytes s -> go_unquote (po_go_quote is_print s) = Ok s.
Proof. exact unquote_quote. Qed.
Print Assumptions C11_po_unquote_quote.

(* scanner.quo reads back what writer.quo wrote -- on one line or, for a value containing a newline, in the
   multi-line form -- and stops before the next line (reader keyword R, writer keyword R or R followed by a space) *)
Theorem C11_po_quo_roundtrip : forall is_print R sp val tail e,
  sp = [] \/ sp = [32] -> bytes val -> no_quote_next tail ->
  sc_quo R (scan_of (po_quo is_print (R ++ sp) val ++ tail) e) = Ok (val, scan_of tail e).
Proof. exact sc_quo_po_quo. Qed.
Print Assumptions C11_po_quo_roundtrip.

(* the quoted fields of an entry: msgctxt (meaning), msgid, msgid_plural and msgstr / msgstr[0..] come back
   as written, no error flag is raised, and the scanner stands on the blank line after the entry *)
Theorem C11_po_fields_roundtrip : forall is_print m tail e,
  fields_bytes m -> blank_next tail ->
  po_read_fields (scan_of (po_write_fields is_print m ++ tail) e) =
  Ok ({| pf_ctxt := pf_ctxt m; pf_id := pf_id m; pf_id_plural := pf_id_plural m; pf_str := norm_str m |}, scan_of tail e).
Proof. exact po_fields_roundtrip. Qed.
Print Assumptions C11_po_fields_roundtrip.

(* a msgid with quotes, a backslash, a newline (the {\n} command), a tab and a byte that is not UTF-8 *)
Definition ex_po_id : bstr := b "say " ++ [34] ++ b "hi" ++ [34; 32; 92; 10] ++ b "to {NAME}" ++ [9; 255].
Definition ex_po_fields : po_fields :=
  {| pf_ctxt := b "verb"; pf_id := ex_po_id; pf_id_plural := b "{N} times"; pf_str := [ex_po_id; []; b "x"] |}.
Example ex_po_lines :
  po_quo (fun _ => true) p_msgid ex_po_id =
  [b "msgid " ++ [34; 34];
   [34] ++ b "say " ++ [92; 34] ++ b "hi" ++ [92; 34; 32; 92; 92; 92; 110; 34];
   [34] ++ b "to {NAME}" ++ [92; 116; 92; 120; 102; 102; 34]].
Proof. vm_compute. reflexivity. Qed.
Example ex_po_fields_ok : fields_bytes ex_po_fields /\ blank_next [[]; b "#. next entry"].
Proof. vm_compute. repeat split; repeat constructor. Qed.
Example ex_po_roundtrip :
  po_read_fields (scan_of (po_write_fields (fun _ => false) ex_po_fields ++ [[]; b "#. next entry"]) false) =
  Ok (ex_po_fields, scan_of [[]; b "#. next entry"] false).
Proof. vm_compute. reflexivity. Qed.

(* ------------------------------------------------------------------ *)
(* the pinned code (before the repairs) violates the property           *)
(* ------------------------------------------------------------------ *)

(* M3: raw text {lb}X{rb}: accepted by the pinned Validate, yet the msgid is not
   read back as the message; the repaired Validate refuses it *)
Definition ex_lookalike : list node := [NRawText 2 (b "{"); NRawText 3 (b "X"); NRawText 4 (b "}")].
Lemma validate_pinned_refuted :
  exists body, validate_pinned body = Ok tt /\ parts (write_body body) <> merge_texts (body_parts body) /\ validate body <> Ok tt.
Proof. exists ex_lookalike. repeat split; vm_compute; discriminate. Qed.

(* ... and with the identity catalogue the message fails to render, for every walker *)
Lemma identity_lookalike_refuted : forall w st,
  fst (eval_msg plural0 [(5, new_message [] [write_body ex_lookalike])] w 0 5 ex_lookalike st) = Err e_placeholder.
Proof. intros w st. reflexivity. Qed.

(* M4: the pinned extractor crashes on an empty message; the repaired one skips it *)
Lemma extract_empty_refuted :
  extract_msg_pinned 5 [] [] [] = Crash e_index_range /\ extract_msg 5 [] [] [] = Ok None.
Proof. split; reflexivity. Qed.

(* an untranslated entry: the pinned newBundle keeps it as a translation to
   nothing; the repaired one leaves the message to its source text *)
Lemma untranslated_refuted :
  (exists bd, new_bundle_pinned [{| po_id := 5; po_var := []; po_strs := [[]] |}] = Ok bd /\ bundle_message bd 5 = Some (CSimple [])) /\
  (exists bd, new_bundle [{| po_id := 5; po_var := []; po_strs := [[]] |}] = Ok bd /\ bundle_message bd 5 = None).
Proof. split; eexists; split; reflexivity. Qed.

(* ------------------------------------------------------------------ *)
(* the PO file as bytes: lines, comment lines, the extractor's entry     *)
(* ------------------------------------------------------------------ *)

(* bufio.ScanLines inverts "every line followed by \n" on lines without a newline inside, up to the one
   carriage return it drops at the end of a line; whatever follows is scanned on its own *)
Theorem C11_po_scan_join_app : forall ls rest, Forall nl_free ls ->
  scan_lines [] (join_lines ls ++ rest) = map drop_cr ls ++ scan_lines [] rest.
Proof. exact scan_lines_join_app. Qed.
Print Assumptions C11_po_scan_join_app.

Theorem C11_po_scan_join_lines : forall ls, Forall (fun l => nl_free l /\ drop_cr l = l) ls ->
  scan_lines [] (join_lines ls) = ls.
Proof. exact scan_lines_join_lines. Qed.
Print Assumptions C11_po_scan_join_lines.

(* every line Message.WriteTo writes for msgctxt / msgid / msgid_plural / msgstr[i] is such a line, for every
   value (strconv.Quote leaves no newline, the line ends with the closing quote): the bytes of the quoted
   fields read as lines are the lines written *)
Theorem C11_po_fields_bytes_lines : forall is_print m,
  scan_lines [] (join_lines (po_write_fields is_print m)) = po_write_fields is_print m.
Proof. exact fields_bytes_lines. Qed.
Print Assumptions C11_po_fields_bytes_lines.

(* THE ENTRY xgettext-soy WRITES (after repair a5cfda0: one "#. " line per line of the description), for
   EVERY description -- newlines, carriage returns, '#', quotes, anything --, id, plural variable (an
   identifier: non-empty, no white space) and quoted fields: Comment.WriteTo + Message.WriteTo + the empty
   line of File.WriteTo, as BYTES, read by bufio.ScanLines and the message literal of po.Parse, gives the
   references "id=<id>" (and "var=<name>"), the description's lines (trimmed), and msgctxt / msgid /
   msgid_plural / msgstr as written; no error is flagged and the scanner stands on the empty line *)
Theorem C11_po_extract_entry_roundtrip : forall is_print desc id pv f rest e,
  var_ok pv -> fields_bytes f ->
  pe_read_message
    (scan_of (scan_lines [] (join_lines (pe_write_message is_print (pe_extract_entry desc id pv f)) ++ 10 :: rest)) e)
  = Ok ({| pm_comment := {| pc_translator := []; pc_extracted := map (fun d => trim_space (drop_cr d)) (pe_split_nl [] desc);
                            pc_refs := refs_of id pv; pc_flags := [];
                            pc_prev_ctxt := []; pc_prev_id := []; pc_prev_id_plural := [] |};
           pm_fields := {| pf_ctxt := pf_ctxt f; pf_id := pf_id f; pf_id_plural := pf_id_plural f; pf_str := norm_str f |} |},
        scan_of ([] :: scan_lines [] rest) e).
Proof. exact extract_entry_roundtrip. Qed.
Print Assumptions C11_po_extract_entry_roundtrip.

(* ... and pomsg.newBundle's loop over those references finds that id and that plural variable *)
Theorem C11_po_refs_id_var : forall id pv, pe_refs_id_var (refs_of id pv) None None = (Some (dec_of_N id), pv).
Proof. exact refs_id_var. Qed.
Print Assumptions C11_po_refs_id_var.

(* THE WHOLE FILE: File.WriteTo of the extractor's entries for any list of messages (description, id, plural
   variable, quoted fields), as bytes, through bufio.ScanLines and the loop of po.Parse (nextmsg skipping the empty
   lines, the message literal per entry): every entry comes back, in order, with its references and its quoted
   fields, and no error is flagged.  (What Parse then does with a first entry whose msgid is empty -- the header,
   textproto, Plural-Forms -- is outside the model; the extractor writes no header and no empty msgid.) *)
Theorem C11_po_parse_extracted_file : forall is_print (es : list xentry), Forall xentry_ok es ->
  pe_parse (pe_write_file is_print (map xentry_msg es)) = Ok (map xentry_read es).
Proof. exact parse_extracted_file. Qed.
Print Assumptions C11_po_parse_extracted_file.

(* FROM THE BYTES OF THE CATALOGUE TO THE BUNDLE: po.Parse followed by the loop of pomsg.newBundle (references read
   with strings.HasPrefix and strconv.ParseUint, id 0 refused, untranslated entries skipped, the later of two entries
   with one id wins) on the file File.WriteTo writes for the extractor's entries -- any descriptions, ids below 2^64,
   any msgstr filled in -- is [new_bundle] on the (id, plural variable, msgstr) triples: the abstract catalogue of
   Model/MsgParts.v, over which every rendering theorem above is stated (bundle_message bd id = Some (new_message ..)) *)
Theorem C11_po_load_extracted_file : forall is_print (es : list xentry), Forall xentry_ok es -> Forall xentry_id64 es ->
  pb_load (pe_write_file is_print (map xentry_msg es)) = new_bundle (map xentry_po es).
Proof. exact load_extracted_file. Qed.
Print Assumptions C11_po_load_extracted_file.

(* strconv.ParseUint reads back the %d of a uint64 *)
Theorem C11_po_parse_uint_dec : forall id, id < 18446744073709551616 -> pb_parse_uint (dec_of_N id) = Some id.
Proof. exact parse_uint_dec. Qed.
Print Assumptions C11_po_parse_uint_dec.

(* before the repair (the description written as ONE "#. " value): a description of two lines puts its second
   line inside the entry, and the message Parse reads has no reference and no msgid *)
Theorem C11_po_pinned_entry_refuted :
  exists m s, pe_read_message
      (scan_of (scan_lines [] (join_lines (pe_write_message (fun _ => true) (pe_extract_entry_pinned ex_desc 42 None ex_fields)) ++ [10])) false)
    = Ok (m, s) /\ pc_refs (pm_comment m) = [] /\ pf_id (pm_fields m) = [].
Proof. exact pinned_entry_loses_id. Qed.

(* a plural entry with a description of three lines, one ending in a carriage return *)
Example ex_po_entry :
  let f := {| pf_ctxt := b "verb"; pf_id := b "One {X}"; pf_id_plural := b "{N} things"; pf_str := [] |} in
  var_ok (Some (b "N_1")) /\ fields_bytes f /\
  join_lines (pe_write_message (fun _ => true) (pe_extract_entry (b "first" ++ [13; 10; 10] ++ b "# third") 77 (Some (b "N_1")) f))
  = b "#. first" ++ [13; 10] ++ b "#. " ++ [10] ++ b "#. # third" ++ [10] ++ b "#: id=77 var=N_1" ++ [10]
    ++ b "msgctxt " ++ [34] ++ b "verb" ++ [34; 10] ++ b "msgid " ++ [34] ++ b "One {X}" ++ [34; 10]
    ++ b "msgid_plural " ++ [34] ++ b "{N} things" ++ [34; 10] ++ b "msgstr[0] " ++ [34; 34; 10].
Proof. split; [|split]; [| |vm_compute; reflexivity]; vm_compute; repeat constructor; try discriminate; try lia. Qed.

(* ------------------------------------------------------------------ *)
(* a translated message on the three sides (composition with C04)       *)
(* ------------------------------------------------------------------ *)

(* on code without {msg} and without {call} the walker with a bundle IS the walker: same result, same state *)
Theorem C11_walk_b_is_walk : forall cf plural_index bd fuel n, msgfree n = true ->
  forall st, walk_b cf plural_index bd fuel n st = walk cf fuel n st.
Proof. exact walk_b_is_walk. Qed.
Print Assumptions C11_walk_b_is_walk.

(* A flat message with the catalogue entry tr whose slots all resolve to core prints ({print e|ds} over C04's
   expression subset) or html tags of the message ([ss] = the items as statements of C04's subset: SRaw t for a
   text segment and for a tag, SPrint e ds for a print: [item_stmt]), from ANY three states related by C04's [sim] (the renderer's state, the JavaScript
   environment, the generator's state; old = the buffer variable so far), when the subset semantics gives the
   items the text [text] (stmts_text: the translation's text segments and the printed, escaped values of the
   slots' placeholders, in the TRANSLATION's order):
   (Go)  soyhtml's evalMsg with the bundle writes exactly text;
   (JS)  executing the MiniJS statements of the items in order succeeds (and, by [sim] of the result, leaves
         old ++ text in the buffer variable);
   (Gen) soyjs's visitMsgNode with the same catalogue entry emits exactly the chunks of those statements;
   and the three resulting states are related by [sim] again, so C04's theorems apply to the code that follows.
   (Since C04's call stage [sim] is relative to a call context: raw text and prints call nothing, so the context without
   calls over the template's data [denv] -- cc_nocalls denv -- is used.)
   PARTIAL with respect to C04/C11's full statement: flat messages, slots that are core prints or html tags (not
   calls, not prints outside C04's expression subset), values whose text has no NUL and no double quote (C04's [cleanb]), no plural. *)
Theorem C11_three_sided_translation_partial : forall cf plural_index bd o lv denv, envok denv -> forall fuel mp id body tr msgs ss,
  forallb flat_node body = true -> items_named body tr -> parts_clean (map item_part tr) ->
  bundle_message bd id = Some (new_message [] [msgstr_of tr]) ->
  o_msgs o = Some msgs -> assoc_n id msgs = Some (jparts_of_cmsg (new_message [] [msgstr_of tr])) ->
  Forall2 item_stmt (map (resolve body) tr) ss ->
  forall st je jst old text,
  c_oblig cf = [] -> Forall (fun s => (sdepth s < fuel)%nat) ss -> Forall (fun s => swf lv s = true) ss ->
  sim cf (cc_nocalls denv) st je jst old -> lvok lv (j_scope jst) ->
  stmts_text cf denv (mode st) (sc_lookup (ctx st)) ss = Some text ->
  exists st' ws je' jst',
    let js := stmts_js (mode st) (j_buf jst) (j_scope jst) (j_n jst) ss in
    eval_msg plural_index bd (walk_b cf plural_index bd fuel) mp id body st = (Ok tt, st') /\ wrote st st' ws /\ concat_b ws = text
    /\ js_exec_seq je js = Ok je'
    /\ visit_msg o (jwalk o fuel) id body jst = Ok (tt, jst')
    /\ j_out jst' = rev (flat_map (sprint (j_indent jst)) js) ++ j_out jst
    /\ sim cf (cc_nocalls denv) st' je' jst' (old ++ text) /\ lvok lv (j_scope jst').
Proof. exact three_sided_translation. Qed.
Print Assumptions C11_three_sided_translation_partial.

(* non-vacuity: "Hello {X}, {A_B}!{BREAK}" translated to "{BREAK}{A_B} -- {X}: hola" with x = 4 in the generated variable x_3
   and a.b = "1<2" in opt_data, autoescape on: the items resolve to core prints, the subset semantics gives the
   text, and the MiniJS statements append it.  ([sim] for this scope, environment and counter is satisfiable:
   Properties/C04.v C04_ginv_nonvacuous, C04_env_rel_nonvacuous.) *)
Definition ex3_px : node := snode (SPrint (CVar (b "x") []) []).
Definition ex3_pa : node := snode (SPrint (CVar (b "a") [CAKey false (b "b")]) []).
Definition ex3_body : list node :=
  [NRawText 1 (b "Hello "); NMsgPlaceholder 2 (b "X") ex3_px; NRawText 3 (b ", "); NMsgPlaceholder 4 (b "A_B") ex3_pa; NRawText 5 (b "!");
   NMsgPlaceholder 6 (b "BREAK") (NMsgHtmlTag 6 (b "<br/>"))].
Definition ex3_tr : list titem :=
  [TPh 6 (b "BREAK") (NMsgHtmlTag 6 (b "<br/>")); TPh 4 (b "A_B") ex3_pa; TText (b " -- "); TPh 2 (b "X") ex3_px; TText (b ": hola")].
Definition ex3_ss : list cstmt :=
  [SRaw (b "<br/>"); SPrint (CVar (b "a") [CAKey false (b "b")]) []; SRaw (b " -- "); SPrint (CVar (b "x") []) []; SRaw (b ": hola")].
Definition ex3_env (k : bstr) : option value :=
  if bstr_eqb k (b "a") then Some (VMap 7 [(b "b", VStr (b "1<2"))]) else if bstr_eqb k (b "x") then Some (VInt 4) else None.
Definition ex3_cf : cfg := {| c_reg := empty_registry; c_ij := None; c_oblig := []; c_msgs := None |}.
Example ex3_three_sided :
  forallb flat_node ex3_body = true /\ msgstr_of ex3_tr = b "{BREAK}{A_B} -- {X}: hola"
  /\ bundle_message [(9, new_message [] [msgstr_of ex3_tr])] 9 = Some (new_message [] [msgstr_of ex3_tr])
  /\ Forall2 item_stmt (map (resolve ex3_body) ex3_tr) ex3_ss
  /\ stmts_text ex3_cf (fun _ => None) 1 ex3_env ex3_ss = Some (b "<br/>1&lt;2 -- 4: hola")
  /\ (match js_exec_seq {| je_vars := [(b "output", JStr (b "ab")); (b "x_3", JNum 4)]; je_data := JObj [(b "a", JObj [(b "b", JStr (b "1<2"))])] |}
                        (stmts_js 1 (b "output") [[(b "x", b "x_3")]] 3 ex3_ss) with
       | Ok je' => assoc_s (b "output") (je_vars je') | _ => None end) = Some (JStr (b "ab<br/>1&lt;2 -- 4: hola")).
Proof.
  split; [reflexivity|]. split; [vm_compute; reflexivity|]. split; [reflexivity|].
  split; [|split; vm_compute; reflexivity].
  vm_compute. repeat constructor.
  - exact (is_print 4 (b "A_B") (CVar (b "a") [CAKey false (b "b")]) []).
  - exact (is_print 2 (b "X") (CVar (b "x") []) []).
Qed.
