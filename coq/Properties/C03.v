(* C03 — Autoescaping.  Property theorems only. *)
(* source tie by translation: the lemmas of these files are obligations of this property *)
From Soy Require Import Proofs.SourceTieHtml.
From Soy Require Import Model.Bytes Generated.Tables Model.Escape Spec.Html Proofs.EscapeProofs.
Open Scope N_scope.

(* the written text contains no raw quote, apostrophe or angle bracket, and every ampersand begins a
   character reference (the text lies in the language (non-special | reference)* ) *)
Theorem C03_html_escape_safe : forall s, no_raw_special (html_escape s) /\ escaped (html_escape s).
Proof. intros s; split; [exact (html_escape_safe s) | exact (html_escape_wellformed s)]. Qed.
Print Assumptions C03_html_escape_safe.

(* ... and decodes back to exactly the value *)
Theorem C03_html_decode_escape : forall s, html_decode (html_escape s) = s.
Proof. exact html_decode_escape. Qed.
Print Assumptions C03_html_decode_escape.

Example C03_nonvacuous : html_escape (b "a<b & 'c'") = b "a&lt;b &amp; &#39;c&#39;".
Proof. vm_compute. reflexivity. Qed.

(* escaping happens exactly when the mode is not off and no applied directive cancels *)
Theorem C03_escape_decision : forall mode cancels,
  escape_decision mode cancels = true <-> (mode <> 2 /\ Forall (fun c => c = false) cancels).
Proof. exact escape_decision_spec. Qed.
Print Assumptions C03_escape_decision.

(* mode derivation: entry template and callee *)
Theorem C03_mode_entry : forall ns tmpl, template_mode (entry_mode ns) tmpl = eff_spec ns tmpl.
Proof. exact mode_entry. Qed.
Print Assumptions C03_mode_entry.
Theorem C03_mode_callee : forall ns tmpl,
  (template_mode (call_mode ns) tmpl =? 2) = (eff_spec ns tmpl =? 2).
Proof. exact mode_callee_escapes. Qed.
Print Assumptions C03_mode_callee.

(* ------------------------------------------------------------------ *)
(* the interpreter level: the autoescape mode of the tree walker (Model/Interp.v) *)
From Soy Require Import Model.Num Model.Values Model.Outcome Model.Ast Model.Directives Model.Print Model.Interp
  Proofs.InterpLogic Proofs.InterpGuard Proofs.ModeProofs.

(* (i) walking a node that nests no template -- any command, any {call} to any template, any expression --
   leaves the mode as it found it, on every outcome: a call restores the caller's mode however the
   callee's namespace and template set theirs and however the callee ends *)
Theorem C03_mode_preserved :
  forall cf fuel n st r st',
    no_template_inside n = true -> walk cf fuel n st = (r, st') -> mode st' = mode st.
Proof. exact walk_mode_preserved. Qed.
Print Assumptions C03_mode_preserved.

(* (ii) the walker instrumented with a monitor that aborts with [Crash e_mode] as soon as a print command
   is reached in a state whose mode is not the effective mode of the template whose body is being walked
   ([template_mode m0 attr], m0 the mode the template node was entered with: [entry_mode ns] from render,
   [call_mode ns] from a call) is, on a well-formed registry, the walker itself: same outcome, same state,
   for every template, fuel, start state and expected mode, at any call depth -- and the walker never
   produces [Crash e_mode] on its own, so the monitor never trips *)
Theorem C03_print_mode_is_template_mode :
  forall cf fuel mu t st,
    registry_wf (c_reg cf) = true -> In t (r_templates (c_reg cf)) ->
    walk_mon cf fuel mu (t_node t) st = walk cf fuel (t_node t) st /\
    fst (walk_mon cf fuel mu (t_node t) st) <> Crash e_mode.
Proof.
  intros cf fuel mu t st WF Hin. split; [apply walk_mon_is_walk; assumption | apply monitor_never_trips; assumption].
Qed.
Print Assumptions C03_print_mode_is_template_mode.

(* the same below a template, started in the expected mode *)
Theorem C03_print_mode_below :
  forall cf fuel mu n st,
    registry_wf (c_reg cf) = true -> no_template_inside n = true -> mode st = mu ->
    walk_mon cf fuel mu n st = walk cf fuel n st.
Proof. intros cf fuel mu n st WF. apply walk_mon_is_walk_below. exact WF. Qed.
Print Assumptions C03_print_mode_below.

(* and the entry template of a render is walked from [entry_mode ns], a callee from [call_mode ns] *)
Theorem C03_render_entry_mode :
  forall c m name cl bl fid, mode (init_state c m name cl bl fid) = m.
Proof. reflexivity. Qed.
Theorem C03_call_entry_mode :
  forall st callee cd, mode (entered st callee cd) = call_mode (t_ns_autoescape callee).
Proof. reflexivity. Qed.

(* a print command reached in a state of mode mu performs [print_writes mu] *)
Theorem C03_print_at_mode :
  forall cf (w : node -> M value) p arg dirs st,
    (forall c, no_template_inside c = true -> keeps_mode (w c)) ->
    no_template_inside (NPrint p arg dirs) = true ->
    walk_node cf w (NPrint p arg dirs) st = print_at cf w (mode st) arg dirs st.
Proof. exact print_at_mode. Qed.
Print Assumptions C03_print_at_mode.

(* (iii) what a print writes: the value after its directives (obligatory ones included), escaped exactly
   when the decision of C03_escape_decision says so *)
Theorem C03_print_writes_decision :
  forall mu ds s ws,
    print_writes mu ds s = Ok ws ->
    exists s', apply_directives ds s (negb (mu =? 2)) = Ok (s', escape_decision mu (map cancel_of ds)) /\
               ws = if escape_decision mu (map cancel_of ds) then esc_writes [] s' else [s'].
Proof. exact print_writes_decision. Qed.
Print Assumptions C03_print_writes_decision.

(* mode not off, no cancelling directive: exactly the escaper's Write calls, whose concatenation is
   html_escape of that value -- no raw special character, and it decodes back to the value *)
Theorem C03_autoescaped_print_is_escaped :
  forall mu ds s ws,
    mu <> 2 -> Forall (fun c => c = false) (map cancel_of ds) ->
    print_writes mu ds s = Ok ws ->
    exists s', apply_directives ds s true = Ok (s', true) /\
               ws = esc_writes [] s' /\ concat_b ws = html_escape s' /\
               no_raw_special (concat_b ws) /\ html_decode (concat_b ws) = s'.
Proof. exact autoescaped_print_escaped. Qed.
Print Assumptions C03_autoescaped_print_is_escaped.

(* ---- non-vacuity: caller (autoescape on) prints x, calls a template of a namespace with autoescape off
   that prints x, and prints x again ---- *)
Example C03_mode_example_wf : registry_wf ex_reg = true.
Proof. vm_compute. reflexivity. Qed.
Example C03_mode_example :
  let r := render ex_mode_cfg 10 ex_caller 7 [(ex_x, VStr (b "<i>"))] None None 100 in
  rr_outcome r = Ok tt /\ concat_b (rr_writes r) = b "&lt;i&gt;<i>&lt;i&gt;".
Proof. vm_compute. split; reflexivity. Qed.
