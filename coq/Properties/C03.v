(* C03 — Autoescaping.  Property theorems only. *)
From Soy Require Import Model.Bytes Generated.Tables Model.Escape Spec.Html Proofs.EscapeProofs.
Open Scope N_scope.

(* the written text contains no raw quote, apostrophe or angle bracket, and every ampersand begins a
   character reference (the text lies in the language (non-special | reference)* ) *)
Theorem C03_html_escape_safe : forall s, no_raw_special (html_escape s) /\ escaped (html_escape s).
Proof. intros s; split; [exact (html_escape_safe s) | exact (html_escape_wellformed s)]. Qed.
Print Assumptions C03_html_escape_safe.

(* ... and decodes back to exactly the value *)
Theorem C03_html_decode_escape : forall s, html_decode (html_escape s) = s.
Proof. exact html_decode_escape. Qed.
Print Assumptions C03_html_decode_escape.

Example C03_nonvacuous : html_escape (b "a<b & 'c'") = b "a&lt;b &amp; &#39;c&#39;".
Proof. vm_compute. reflexivity. Qed.

(* escaping happens exactly when the mode is not off and no applied directive cancels *)
Theorem C03_escape_decision : forall mode cancels,
  escape_decision mode cancels = true <-> (mode <> 2 /\ Forall (fun c => c = false) cancels).
Proof. exact escape_decision_spec. Qed.
Print Assumptions C03_escape_decision.

(* mode derivation: entry template and callee *)
Theorem C03_mode_entry : forall ns tmpl, template_mode (entry_mode ns) tmpl = eff_spec ns tmpl.
Proof. exact mode_entry. Qed.
Print Assumptions C03_mode_entry.
Theorem C03_mode_callee : forall ns tmpl,
  (template_mode (call_mode ns) tmpl =? 2) = (eff_spec ns tmpl =? 2).
Proof. exact mode_callee_escapes. Qed.
Print Assumptions C03_mode_callee.
