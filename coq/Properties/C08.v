(* C08 -- rendering is pure.

   "Rendering never modifies the data map, injected data or message bundle it is
   given, and never modifies the compiled bundle, so the same template rendered
   with the same data yields byte-identical output no matter which renders, of
   this or other templates, succeeded or failed before it.  This holds for every
   configuration of the user-extensible registries, including obligatory print
   directives."

   Model: [render] of Model/Interp.v (the walker AFTER the repair of defect I5,
   /repo 25f4246 = notes/applied/C08-directive-list-local.diff) and the history machine of
   Model/History.v, which threads what renders share: the registry with every
   PrintNode's directive list ([dirs_after_print], [map_prints]) and the
   caller's data / injected-data maps by identity (a map written through a
   shared frame is clobbered by an arbitrary function).  Quantified: every
   registry, heap, obligatory-directive list, message bundle, execution-count
   and clobber function, every history of requests (any templates, data, ij,
   fuel, writer faults).  The user-extensible registries: the second half of
   the file states the same theorems for the walker of Model/InterpExt.v, in
   which soyhtml.Funcs and soyhtml.PrintDirectives hold, besides the library's
   entries, ARBITRARY installed functions and directives (a Section variable:
   any Gallina function of the argument values -- the contract "returns a
   value, may read its arguments").  The message bundle is read-only to a
   render: read off the events extracted from exec.go ([bundle_read_only]).
   JavaScript generation is not modelled: its purity rests on the harness's
   digests alone. *)
From Soy Require Import Model.Bytes Model.Num Model.Values Model.Outcome Model.Ast
  Model.Interp Model.InterpExt Model.History Spec.Purity Proofs.InterpLogic Proofs.PurityProofs
  Proofs.InterpExtProofs Proofs.WalkTie.
From Soy Require Import Generated.Tables.
Open Scope N_scope.

(* every [set] of a render -- succeeding or failing, whatever the writer does -- lands on a frame
   the render allocated itself: nothing is ever written through the caller's data map *)
Theorem no_shared_writes :
  forall cf fuel name id data cl bl fid,
    rr_shared_writes (render cf fuel name id data cl bl fid) = [].
Proof. exact render_no_shared_writes. Qed.
Print Assumptions no_shared_writes.

(* the invariant behind it, for every node, fuel and state of the walker *)
Theorem walker_no_shared_writes :
  forall cf fuel n st r st',
    shared_writes st = [] /\ top_fresh (ctx st) ->
    walk cf fuel n st = (r, st') -> shared_writes st' = [].
Proof. exact walk_no_shared_writes. Qed.
Print Assumptions walker_no_shared_writes.

(* call parameters (set outside that record) land on the frame evalCall has just allocated:
   exec.go:479-494, the capacity-capped slice of alldata and the extra frame *)
Theorem call_params_on_fresh_frame :
  forall w alldata dat ps st cd st1 cd' st2,
    call_data w alldata dat st = (Ok cd, st1) ->
    call_params w ps cd st1 = (Ok cd', st2) ->
    top_fresh cd /\ top_fresh cd'.
Proof.
  intros w alldata dat ps st cd st1 cd' st2 H1 H2.
  pose proof (call_data_top_fresh _ _ _ _ _ _ H1) as Hc. split; [apply Hc|].
  apply (call_params_top_fresh _ _ _ _ _ _ H2 Hc).
Qed.
Print Assumptions call_params_on_fresh_frame.

(* the repaired evalPrint leaves the PrintNode's directive list as it was, whatever is obligatory *)
Theorem dirs_after_print_identity :
  forall oblig p dirs, dirs_after_print Repaired oblig p dirs = dirs.
Proof. exact dirs_after_print_repaired. Qed.

(* hence one render leaves registry, data and injected data exactly as it found them *)
Theorem exec_preserves_shared : forall wd, w_variant wd = Repaired -> preserves_shared wd.
Proof. intros wd Hv sh rq. apply shared_preserved. exact Hv. Qed.
Print Assumptions exec_preserves_shared.

(* and the result of a render (outcome, every Write call, error position) is the same after any
   history as alone *)
Theorem history_independent : forall wd, w_variant wd = Repaired -> history_independent_at wd.
Proof.
  intros wd Hv sh h rq d. rewrite (history_independent_l wd sh h rq Hv). apply last_last.
Qed.
Print Assumptions history_independent.

Theorem history_pointwise_independent :
  forall wd sh h, w_variant wd = Repaired -> fst (run_history wd sh h) = map (render_in wd sh) h.
Proof. intros wd sh h Hv. apply history_pointwise. exact Hv. Qed.
Print Assumptions history_pointwise_independent.

(* the pinned evalPrint (append to the shared node) is what the statement rules out: with an
   obligatory directive the same render gives x!, then x!! (here escapeUri: "a+b", "a%2Bb") *)
Theorem history_independent_pinned_refuted :
  exists wd sh rq, w_variant wd = Pinned /\
    map (fun r => concat_b (rr_writes r)) (fst (run_history wd sh [rq; rq])) = [b "a+b"; b "a%2Bb"] /\
    concat_b (rr_writes (render_in wd sh rq)) = b "a+b".
Proof. exact pinned_history_dependent. Qed.

(* ---- non-vacuity ---- *)
Example ex_repaired_history :
  map (fun r => concat_b (rr_writes r)) (fst (run_history (wit_world Repaired) wit_shared [wit_rq; wit_rq])) = [b "a+b"; b "a+b"].
Proof. exact repaired_witness. Qed.

(* a failing render (dead writer) and a render of a missing template in front change nothing *)
Definition ex_dead : request :=
  {| rq_name := wit_name; rq_data := 7; rq_ij := None; rq_fuel := 10; rq_calls_left := Some O; rq_bytes_left := None; rq_first_id := 100 |}.
Definition ex_missing : request :=
  {| rq_name := b "ns.nope"; rq_data := 7; rq_ij := None; rq_fuel := 10; rq_calls_left := None; rq_bytes_left := None; rq_first_id := 100 |}.
Example ex_failing_history :
  map (fun r => (is_ok (rr_outcome r), concat_b (rr_writes r)))
      (fst (run_history (wit_world Repaired) wit_shared [ex_dead; ex_missing; wit_rq])) =
  [(false, []); (false, []); (true, b "a+b")].
Proof. vm_compute. reflexivity. Qed.

(* ================================================================== *)
(* every configuration of the user-extensible registries              *)
(* ================================================================== *)

Section Installed.
(* what a program installed in soyhtml.Funcs and soyhtml.PrintDirectives: for each name the valid argument
   counts and Apply as an arbitrary function of the argument values (contract: it returns a value or panics; it may
   read its arguments; it writes to nothing a render can reach) *)
Variable ux : user_ext.

Theorem no_shared_writes_installed :
  forall cf fuel name id data cl bl fid,
    rr_shared_writes (render_x cf ux fuel name id data cl bl fid) = [].
Proof. intros. apply render_x_no_shared_writes. Qed.

Theorem walker_no_shared_writes_installed :
  forall cf fuel n st r st',
    shared_writes st = [] /\ top_fresh (ctx st) ->
    walk_x cf ux fuel n st = (r, st') -> shared_writes st' = [].
Proof. intros cf fuel n st r st'. apply walk_x_no_shared_writes. Qed.

Theorem exec_preserves_shared_installed :
  forall wd, w_variant wd = Repaired -> forall sh rq, snd (step_x ux wd sh rq) = sh.
Proof. intros wd Hv sh rq. apply shared_preserved_x. exact Hv. Qed.

Theorem history_independent_installed :
  forall wd, w_variant wd = Repaired ->
  forall sh h rq d, last (fst (run_history_x ux wd sh (h ++ [rq]))) d = render_in_x ux wd sh rq.
Proof. intros wd Hv sh h rq d. rewrite (history_independent_x_l ux wd sh h rq Hv). apply last_last. Qed.

Theorem history_pointwise_independent_installed :
  forall wd sh h, w_variant wd = Repaired -> fst (run_history_x ux wd sh h) = map (render_in_x ux wd sh) h.
Proof. intros wd sh h Hv. apply history_pointwise_x. exact Hv. Qed.
End Installed.
Print Assumptions no_shared_writes_installed.
Print Assumptions exec_preserves_shared_installed.
Print Assumptions history_independent_installed.
Print Assumptions history_pointwise_independent_installed.

(* with nothing installed and no message bundle the extended walker is the walker of the theorems above: on every
   node, fuel and state *)
Theorem nothing_installed_is_the_walker :
  forall cf, c_msgs cf = None -> forall fuel n st, walk_x cf no_ext fuel n st = walk cf fuel n st.
Proof. exact walk_x_no_ext. Qed.
Print Assumptions nothing_installed_is_the_walker.

(* WHICH RUNS the walker of Model/Interp.v (the theorems above, and those of C02 / C06 / C19) covers.  It never reads
   the message bundle: for every configuration its run is the run without one ... *)
Theorem base_walker_ignores_bundle :
  forall cf fuel n st, walk cf fuel n st = walk (cfg_no_msgs cf) fuel n st.
Proof. exact walk_ignores_bundle. Qed.
Print Assumptions base_walker_ignores_bundle.
Theorem base_render_ignores_bundle :
  forall cf fuel name id data cl bl fid,
    render cf fuel name id data cl bl fid = render (cfg_no_msgs cf) fuel name id data cl bl fid.
Proof. exact render_ignores_bundle. Qed.
Print Assumptions base_render_ignores_bundle.
(* ... which is also what the extended walker (evalMsg with the bundle path) does when the bundle translates none of
   the messages (evalMsg's fallback to the source text): Renderer.Execute without WithMessages, or with a bundle that
   has no entry for the ids met *)
Theorem untranslated_bundle_is_the_walker :
  forall cf, untranslated cf -> forall fuel n st, walk_x cf no_ext fuel n st = walk cf fuel n st.
Proof. exact walk_x_untranslated. Qed.
Print Assumptions untranslated_bundle_is_the_walker.
Theorem untranslated_bundle_is_the_render :
  forall cf fuel name id data cl bl fid, untranslated cf ->
    render_x cf no_ext fuel name id data cl bl fid = render cf fuel name id data cl bl fid.
Proof. intros. apply render_x_untranslated. assumption. Qed.
Print Assumptions untranslated_bundle_is_the_render.
(* a run THROUGH a translation is not covered by Model/Interp.v (only by the theorems over walk_x / render_x) *)
Example ex_translated_run_not_covered :
  let cf := {| c_reg := empty_registry; c_ij := None; c_oblig := [];
               c_msgs := Some {| mb_msgs := [(77%N, [NRawText 0%N [118%N]])]; mb_plural := []; mb_plural_default := 0%N |} |} in
  let n := NMsg 10%N 77%N [] [] [NRawText 11%N [120%N]] in
  let st := init_state [] 1%N [] None None 2%N in
  out (snd (walk_x cf no_ext 3 n st)) = [[118%N]] /\ out (snd (walk cf 3 n st)) = [[120%N]].
Proof. exact translated_run_not_covered. Qed.

(* the message bundle a render is given (s.msgs, an interface value of the caller) and the message it returns are
   read-only to the walker: of everything exec.go's walker does -- every call that is not a pure builtin, every
   assignment whose target is not a local variable, extracted from the source on every run -- the only uses of the
   bundle are the getters Message and PluralCase, and the only stores go to the fields of the walker's own state and
   to the argument / item slices it has just allocated *)
Theorem bundle_read_only :
  among bundle_getters (filter is_bundle_call (flat_map evs_calls all_events)) = true /\
  among store_targets (flat_map evs_assigns all_events) = true.
Proof. split; [exact walker_bundle_calls | exact walker_store_targets]. Qed.

(* non-vacuity: an installed function twice($x) under an installed obligatory directive |bang, rendered twice *)
Example ex_installed_history :
  map (fun r => (is_ok (rr_outcome r), concat_b (rr_writes r))) (fst (run_history_x ux_wit ux_world ux_shared [wit_rq; wit_rq]))
  = [(true, b "a&lt;a&lt;!"); (true, b "a&lt;a&lt;!")].
Proof. exact ux_witness. Qed.
