(* C08 -- rendering is pure.

   "Rendering never modifies the data map, injected data or message bundle it is
   given, and never modifies the compiled bundle, so the same template rendered
   with the same data yields byte-identical output no matter which renders, of
   this or other templates, succeeded or failed before it.  This holds for every
   configuration of the user-extensible registries, including obligatory print
   directives."

   Model: [render] of Model/Interp.v (the walker AFTER the repair of defect I5,
   /repo 25f4246 = notes/applied/C08-directive-list-local.diff) and the history machine of
   Model/History.v, which threads what renders share: the registry with every
   PrintNode's directive list ([dirs_after_print], [map_prints]) and the
   caller's data / injected-data maps by identity (a map written through a
   shared frame is clobbered by an arbitrary function).  Quantified: every
   registry, heap, obligatory-directive list, message bundle, execution-count
   and clobber function, every history of requests (any templates, data, ij,
   fuel, writer faults).  User functions are outside the model ([Crash]).
   JavaScript generation is not modelled: its purity rests on the harness's
   digests alone. *)
From Soy Require Import Model.Bytes Model.Num Model.Values Model.Outcome Model.Ast
  Model.Interp Model.History Spec.Purity Proofs.InterpLogic Proofs.PurityProofs.
Open Scope N_scope.

(* every [set] of a render -- succeeding or failing, whatever the writer does -- lands on a frame
   the render allocated itself: nothing is ever written through the caller's data map *)
Theorem no_shared_writes :
  forall cf fuel name id data cl bl fid,
    rr_shared_writes (render cf fuel name id data cl bl fid) = [].
Proof. exact render_no_shared_writes. Qed.
Print Assumptions no_shared_writes.

(* the invariant behind it, for every node, fuel and state of the walker *)
Theorem walker_no_shared_writes :
  forall cf fuel n st r st',
    shared_writes st = [] /\ top_fresh (ctx st) ->
    walk cf fuel n st = (r, st') -> shared_writes st' = [].
Proof. exact walk_no_shared_writes. Qed.
Print Assumptions walker_no_shared_writes.

(* call parameters (set outside that record) land on the frame evalCall has just allocated:
   exec.go:479-494, the capacity-capped slice of alldata and the extra frame *)
Theorem call_params_on_fresh_frame :
  forall w alldata dat ps st cd st1 cd' st2,
    call_data w alldata dat st = (Ok cd, st1) ->
    call_params w ps cd st1 = (Ok cd', st2) ->
    top_fresh cd /\ top_fresh cd'.
Proof.
  intros w alldata dat ps st cd st1 cd' st2 H1 H2.
  pose proof (call_data_top_fresh _ _ _ _ _ _ H1) as Hc. split; [apply Hc|].
  apply (call_params_top_fresh _ _ _ _ _ _ H2 Hc).
Qed.
Print Assumptions call_params_on_fresh_frame.

(* the repaired evalPrint leaves the PrintNode's directive list as it was, whatever is obligatory *)
Theorem dirs_after_print_identity :
  forall oblig p dirs, dirs_after_print Repaired oblig p dirs = dirs.
Proof. exact dirs_after_print_repaired. Qed.

(* hence one render leaves registry, data and injected data exactly as it found them *)
Theorem exec_preserves_shared : forall wd, w_variant wd = Repaired -> preserves_shared wd.
Proof. intros wd Hv sh rq. apply shared_preserved. exact Hv. Qed.
Print Assumptions exec_preserves_shared.

(* and the result of a render (outcome, every Write call, error position) is the same after any
   history as alone *)
Theorem history_independent : forall wd, w_variant wd = Repaired -> history_independent_at wd.
Proof.
  intros wd Hv sh h rq d. rewrite (history_independent_l wd sh h rq Hv). apply last_last.
Qed.
Print Assumptions history_independent.

Theorem history_pointwise_independent :
  forall wd sh h, w_variant wd = Repaired -> fst (run_history wd sh h) = map (render_in wd sh) h.
Proof. intros wd sh h Hv. apply history_pointwise. exact Hv. Qed.
Print Assumptions history_pointwise_independent.

(* the pinned evalPrint (append to the shared node) is what the statement rules out: with an
   obligatory directive the same render gives x!, then x!! (here escapeUri: "a+b", "a%2Bb") *)
Theorem history_independent_pinned_refuted :
  exists wd sh rq, w_variant wd = Pinned /\
    map (fun r => concat_b (rr_writes r)) (fst (run_history wd sh [rq; rq])) = [b "a+b"; b "a%2Bb"] /\
    concat_b (rr_writes (render_in wd sh rq)) = b "a+b".
Proof. exact pinned_history_dependent. Qed.

(* ---- non-vacuity ---- *)
Example ex_repaired_history :
  map (fun r => concat_b (rr_writes r)) (fst (run_history (wit_world Repaired) wit_shared [wit_rq; wit_rq])) = [b "a+b"; b "a+b"].
Proof. exact repaired_witness. Qed.

(* a failing render (dead writer) and a render of a missing template in front change nothing *)
Definition ex_dead : request :=
  {| rq_name := wit_name; rq_data := 7; rq_ij := None; rq_fuel := 10; rq_calls_left := Some O; rq_bytes_left := None; rq_first_id := 100 |}.
Definition ex_missing : request :=
  {| rq_name := b "ns.nope"; rq_data := 7; rq_ij := None; rq_fuel := 10; rq_calls_left := None; rq_bytes_left := None; rq_first_id := 100 |}.
Example ex_failing_history :
  map (fun r => (is_ok (rr_outcome r), concat_b (rr_writes r)))
      (fst (run_history (wit_world Repaired) wit_shared [ex_dead; ex_missing; wit_rq])) =
  [(false, []); (false, []); (true, b "a+b")].
Proof. vm_compute. reflexivity. Qed.
