(* C05 -- Parsing any input terminates with a tree or an error.

   Lexer half (this file's theorems; the model is Model/Lexer.v, the whole of parse/lexer.go).
   The parser half (parse/parse.go over token lists: parse_file_total, parse_expr_total, parse_linear,
   Proofs/ParserProofs.v) is stated for every item list satisfying items_wf / eof_last; the facts
   proved here about the scanner's items ([scan_ok]: positions inside the input, minimum lengths of
   the data-reference items, EOF or error item last and only last) are the scanner's share of those
   hypotheses.

   Full statement for the scanner, proved below as [lex_total_linear] (nothing left partial):
     for EVERY byte string s, in both entry modes (lex for files, lexExpr for expressions, and
     lexExprAt at any offset base >= 0), running the scanner model with the step budget 40 + 40*|s|
     finishes -- the outcome is never Crash (slice/index out of range in the scanner goroutine),
     Diverge (an inner loop spinning at end of input), OutOfFuel or OutOfModel -- with a well-formed
     item list whose last item is EOF or an error item; the number of state-function steps is at most
     40 + 40*|s| and the work (calls of next() + bytes scanned by strings.Index) at most 40*|s| + 24.
   The unicode classes (unicode.IsLetter, unicode.IsDigit) are arbitrary predicates false of eof. *)
(* source tie by translation: the lemmas of these files are obligations of this property *)
From Soy Require Import Proofs.SourceTieLexer Proofs.SourceTieExpr Proofs.SourceTieParser Proofs.SourceTieText Proofs.SourceTieQuote Proofs.SourceTieUnquote.
From Soy Require Import Model.Bytes Model.Outcome Model.Ast Model.Token Model.ExprParser Model.Parser Generated.Tables Model.Lexer Model.ParseBytes Spec.LexSpec
  Proofs.LexerPrim Proofs.LexerProofs Proofs.LexShift Proofs.NumLitProofs Proofs.ParserMeasure Proofs.ParserProofs Proofs.LexParseBridge.
Open Scope Z_scope.

Theorem lex_total_linear : forall (uni_letter uni_digit : Z -> bool),
  uni_letter (-1) = false -> uni_digit (-1) = false ->
  forall (base : Z), 0 <= base -> forall (expr_mode : bool) (s : bstr),
  exists l, lex_run_at uni_letter uni_digit base (lex_budget s) expr_mode s = Ok l /\
            scan_ok (Z.to_N (base + Z.of_nat (length s))) (rev (l_out l)) /\
            l_ticks l <= 40 * Z.of_nat (length s) + 24.
Proof. exact LexerProofs.lex_total_linear. Qed.
Print Assumptions lex_total_linear.

(* whatever budget a run was given: if it returned, its items are well-formed *)
Theorem lex_run_items_ok : forall (uni_letter uni_digit : Z -> bool),
  uni_letter (-1) = false -> uni_digit (-1) = false ->
  forall (base : Z), 0 <= base -> forall (fuel : nat) (expr_mode : bool) (s : bstr) l,
  lex_run_at uni_letter uni_digit base fuel expr_mode s = Ok l ->
  scan_ok (Z.to_N (base + Z.of_nat (length s))) (rev (l_out l)).
Proof. exact LexerProofs.lex_run_items_ok. Qed.
Print Assumptions lex_run_items_ok.

Theorem lex_items_total : forall (uni_letter uni_digit : Z -> bool),
  uni_letter (-1) = false -> uni_digit (-1) = false ->
  forall (expr_mode : bool) (s : bstr),
  exists ts, lex_items uni_letter uni_digit (lex_budget s) expr_mode s = Ok ts /\ scan_ok (N.of_nat (length s)) ts.
Proof. exact LexerProofs.lex_items_total. Qed.
Print Assumptions lex_items_total.

(* every item lies inside the input *)
Theorem lex_items_pos_le : forall (uni_letter uni_digit : Z -> bool),
  uni_letter (-1) = false -> uni_digit (-1) = false ->
  forall (fuel : nat) (expr_mode : bool) (s : bstr) ts,
  lex_items uni_letter uni_digit fuel expr_mode s = Ok ts ->
  Forall (fun t => (t_pos t <= N.of_nat (length s))%N) ts.
Proof. exact LexerProofs.lex_items_pos_le. Qed.
Print Assumptions lex_items_pos_le.

(* the instance the model runner executes (unicode tables of the toolchain), against Spec/LexSpec.v *)
Theorem lex_tbl_total_linear : forall expr_mode, scanner_total_linear (lex_items_tbl expr_mode) 40.
Proof. exact LexerProofs.lex_tbl_total_linear. Qed.
Print Assumptions lex_tbl_total_linear.

(* ---------- parser half (Proofs/ParserProofs.v): every stream of well-formed items ---------- *)

Theorem parse_file_total : forall (inlen : N) (lexq : bstr -> list tok) (unq : bstr -> option bstr),
  lexq_wf lexq -> forall ts fuel, items_wf inlen ts -> (length ts + 2 <= fuel)%nat ->
  is_tree_or_error (po_result (parse_file inlen lexq unq parse_expr expr_fuel fuel ts)).
Proof. exact ParserProofs.parse_file_total. Qed.
Print Assumptions parse_file_total.

Theorem parse_expr_total : forall (inlen : N) ts, items_wf inlen ts -> is_tree_or_error (po_result (soy_expr inlen ts)).
Proof. exact ParserProofs.parse_expr_total. Qed.
Print Assumptions parse_expr_total.

Theorem parse_linear : forall (inlen : N) (lexq : bstr -> list tok) (unq : bstr -> option bstr),
  lexq_wf lexq -> forall ts fuel, items_wf inlen ts -> (length ts + 2 <= fuel)%nat ->
  (recv_of (po_result (parse_file inlen lexq unq parse_expr expr_fuel fuel ts)) <= length ts + 4)%nat
  /\ Forall (fun r => (sc_recv r <= sc_sent r + 4)%nat) (po_scans (parse_file inlen lexq unq parse_expr expr_fuel fuel ts)).
Proof. exact ParserProofs.parse_linear. Qed.
Print Assumptions parse_linear.

(* ---------- both halves: byte string -> items -> tree or error ---------- *)
(* The scanner's items satisfy the parser theorems' hypotheses for EVERY input (the parser model is total
   on float literals since Model/NumLit.v parse_float_round: no float-domain hypothesis is left).  The
   nested scanner of parseQuotedExpr is the scanner model itself in expression mode ([lexq_model]);
   strconv.Unquote is universally quantified. *)

Theorem scan_items_wf : forall lim ts, scan_ok lim ts -> items_wf lim ts.
Proof. exact LexParseBridge.scan_items_wf_all. Qed.
Print Assumptions scan_items_wf.

Theorem scan_eof_last : forall lim ts, scan_ok lim ts -> eof_last ts.
Proof. exact LexParseBridge.scan_eof_last. Qed.
Print Assumptions scan_eof_last.

Theorem nested_scanner_wf : forall (uni_letter uni_digit : Z -> bool),
  uni_letter (-1) = false -> uni_digit (-1) = false -> lexq_wf (lexq_model uni_letter uni_digit).
Proof. exact LexParseBridge.lexq_model_wf. Qed.
Print Assumptions nested_scanner_wf.

(* lexExprAt at any base >= 0 sends the items of lexExpr, each position shifted by the base (a simulation of
   the whole scanner model between the two runs, Proofs/LexShift.v) *)
Theorem lex_expr_at_is_lex_expr_shifted : forall (uni_letter uni_digit : Z -> bool) (base : Z) (fuel : nat) (s : bstr) (ts : list tok),
  0 <= base -> lex_items uni_letter uni_digit fuel true s = Ok ts ->
  lex_items_at uni_letter uni_digit base fuel s = Ok (shift_items base ts).
Proof. exact LexShift.lex_items_at_shift. Qed.
Print Assumptions lex_expr_at_is_lex_expr_shifted.

(* the parser model's conversion of float literals: the exact path (decimals that are exactly float64 values of
   Num.v's window, used by C17's round-trip proofs) is a special case of the correctly rounded conversion
   NumLit.parse_float_round, so newValueNode's float case is that conversion and nothing else *)
Theorem float_exact_path_is_rounding : forall s f, NumLit.parse_float s = Some f -> NumLit.parse_float_round s = NumLit.FRVal f.
Proof. exact NumLitProofs.parse_float_exact_is_rounded. Qed.
Print Assumptions float_exact_path_is_rounding.

(* ... and that conversion is IEEE 754 binary64 rounding of the decimal value of the text (Flocq: round radix2
   (FLT_exp (-1074) 53) ZnearestE -- round to nearest, ties to even, subnormals included), with ErrRange exactly when
   the rounded value reaches 2^1024: for EVERY text on which the conversion does not answer FRSyntax, the text is
   -? D+ (. D+)? (e [+-]? D+)? and the result is the correctly rounded value of digits * 10^(exp - |frac|).
   (A statement about real numbers: Print Assumptions lists the axioms of Coq's Reals.) *)
From Soy Require Proofs.NumLitFlocq.
Theorem float_literal_correctly_rounded : forall s, NumLit.parse_float_round s <> NumLit.FRSyntax ->
  exists l esgn, s = NumLitFlocq.nf_text l esgn /\ NumLit.lit_int l <> [] /\
    NumLitFlocq.nf_digits (NumLit.lit_int l) /\ NumLitFlocq.nf_digits (NumLit.lit_frac l) /\ NumLitFlocq.nf_digits (NumLit.lit_exp l) /\
    (esgn = [] \/ esgn = [43%N] \/ esgn = [45%N]) /\ (NumLit.lit_eneg l = true -> esgn = [45%N]) /\
    NumLitFlocq.nf_res_spec (NumLit.lit_neg l) (NumLitFlocq.nf_lit_abs l) (NumLit.parse_float_round s).
Proof. exact NumLitFlocq.nf_parse_float_correctly_rounded. Qed.
Print Assumptions float_literal_correctly_rounded.

(* the scanner model sends no float item outside that syntax (a run invariant of the whole state machine:
   start = pos on entry to lexInsideTag / lexBeginTag / lexNumber, lexNumber entered at a digit or at '-' digit;
   Proofs/ScanStartInv.v, ScanFloatShape.v): the FRSyntax answer of the conversion is dead for scanner output,
   in file mode, expression mode and at any base (the nested scanner of a quoted attribute expression) *)
From Soy Require Proofs.ScanFloatShape Proofs.ScanFloatParse.
Theorem float_items_of_scanner_syntax : forall uni_letter uni_digit fuel mode s its,
  lex_items uni_letter uni_digit fuel mode s = Ok its ->
  forall t, In t its -> t_typ t = pk_itemFloat ->
  (exists fl, NumLit.split_float (t_val t) = Some fl) /\ NumLit.parse_float_round (t_val t) <> NumLit.FRSyntax.
Proof.
  intros ul ud fuel mode s its H t Hin Ht. split.
  - exact (ScanFloatShape.scan_float_shape_items ul ud fuel mode s its H t Hin Ht).
  - exact (ScanFloatShape.scan_float_not_syntax_items ul ud fuel mode s its H t Hin Ht).
Qed.
Print Assumptions float_items_of_scanner_syntax.

Theorem float_items_of_scanner_syntax_at : forall uni_letter uni_digit base fuel s its,
  lex_items_at uni_letter uni_digit base fuel s = Ok its ->
  forall t, In t its -> t_typ t = pk_itemFloat -> NumLit.parse_float_round (t_val t) <> NumLit.FRSyntax.
Proof. exact ScanFloatShape.scan_float_not_syntax_items_at. Qed.
Print Assumptions float_items_of_scanner_syntax_at.

(* so newValueNode on a float item of the scanner: NFloat of the binary64 nearest to the decimal value of the
   item's text, or the "number" error exactly when that rounding reaches 2^1024 -- nothing else *)
Theorem float_item_value_node : forall (w : N -> pst -> presult node) (lf : nat) (t : tok) (st : pst),
  t_typ t = pk_itemFloat -> ScanFloatParse.sfp_ok t ->
  exists l esgn, t_val t = NumLitFlocq.nf_text l esgn /\ NumLit.lit_int l <> [] /\
    NumLitFlocq.nf_digits (NumLit.lit_int l) /\ NumLitFlocq.nf_digits (NumLit.lit_frac l) /\ NumLitFlocq.nf_digits (NumLit.lit_exp l) /\
    match new_value_node w lf t st with
    | POk n st' => st' = st /\ exists f, n = NFloat (t_pos t) f /\
                   FloatFlocqBase.ff_R f = Raux.cond_Ropp (NumLit.lit_neg l) (NumLitFlocq.nf_round (NumLitFlocq.nf_lit_abs l)) /\
                   Rdefinitions.Rlt (NumLitFlocq.nf_round (NumLitFlocq.nf_lit_abs l)) (Raux.bpow Zaux.radix2 1024)
    | r => r = p_errorf c_number st /\ Rdefinitions.Rle (Raux.bpow Zaux.radix2 1024) (NumLitFlocq.nf_round (NumLitFlocq.nf_lit_abs l))
    end.
Proof. exact ScanFloatParse.sfp_value_node. Qed.
Print Assumptions float_item_value_node.

Theorem soy_file_total_composed : forall (uni_letter uni_digit : Z -> bool),
  uni_letter (-1) = false -> uni_digit (-1) = false ->
  forall (unq : bstr -> option bstr) (s : bstr),
  exists ts, lex_items uni_letter uni_digit (lex_budget s) false s = Ok ts /\
    is_tree_or_error (po_result (soy_file (N.of_nat (length s)) (lexq_model uni_letter uni_digit) unq ts)) /\
    (recv_of (po_result (soy_file (N.of_nat (length s)) (lexq_model uni_letter uni_digit) unq ts)) <= length ts + 4)%nat.
Proof. exact LexParseBridge.soy_file_total_all. Qed.
Print Assumptions soy_file_total_composed.

Theorem soy_expr_total_composed : forall (uni_letter uni_digit : Z -> bool),
  uni_letter (-1) = false -> uni_digit (-1) = false -> forall s : bstr,
  exists ts, lex_items uni_letter uni_digit (lex_budget s) true s = Ok ts /\
    is_tree_or_error (po_result (soy_expr (N.of_nat (length s)) ts)) /\
    (recv_of (po_result (soy_expr (N.of_nat (length s)) ts)) <= length ts + 4)%nat.
Proof. exact LexParseBridge.soy_expr_total_all. Qed.
Print Assumptions soy_expr_total_composed.

(* Non-vacuity.  The hypotheses on the unicode classes hold of the regenerated tables; the tables are
   ascending (the early exit of [in_ranges] is sound); and the model really scans: a template, an
   unclosed {css} tag, a header param cut inside its type and a soydoc cut after "@param " -- the three
   repaired defects -- all end in an item list. *)
Example tables_satisfy_hypotheses : is_letter_tbl (-1) = false /\ is_digit_tbl (-1) = false.
Proof. vm_compute. split; reflexivity. Qed.

Fixpoint ascending (prev : Z) (tbl : list (Z * Z)) : bool :=
  match tbl with
  | [] => true
  | (lo, hi) :: t => (prev <? lo) && (lo <=? hi) && ascending hi t
  end.
Example unicode_tables_ascending : ascending (-1) is_letter_ranges = true /\ ascending (-1) is_digit_ranges = true.
Proof. vm_compute. split; reflexivity. Qed.

Definition typs (o : outcome (list tok * Z)) : list N :=
  match o with Ok (ts, _) => map t_typ ts | _ => [] end.

Example scan_template :
  typs (lex_items_tbl false (b "{template .a}hi {$x|f:1}{/template}")) =
  [itemLeftDelim; itemTemplate; itemDotIdent; itemRightDelim; itemText; itemLeftDelim; itemDollarIdent; itemPipe;
   itemIdent; itemColon; itemInteger; itemRightDelim; itemLeftDelim; itemTemplateEnd; itemRightDelim; itemEOF].
Proof. vm_compute. reflexivity. Qed.

Example scan_expr : typs (lex_items_tbl true (b "1 - -2 * $a?.b")) =
  [itemInteger; itemSub; itemInteger; itemMul; itemDollarIdent; itemQuestionDotIdent; itemError].
Proof. vm_compute. reflexivity. Qed.

Example scan_unclosed_css : typs (lex_items_tbl false (b "{css foo")) = [itemLeftDelim; itemCss; itemError].
Proof. vm_compute. reflexivity. Qed.

Example scan_cut_header_param : typs (lex_items_tbl false (b "{@param x: ")) =
  [itemLeftDelim; itemHeaderParam; itemIdent; itemColon; itemError].
Proof. vm_compute. reflexivity. Qed.

Example scan_cut_soydoc_param : typs (lex_items_tbl false (b "/** @param ")) =
  [itemSoyDocStart; itemSoyDocParam; itemIdent; itemError].
Proof. vm_compute. reflexivity. Qed.

(* float literals outside the exact decimal domain no longer stop the parser model: 0.1 (not a dyadic
   rational) and 1e400 (ErrRange) from their bytes *)
Definition res_class (o : outcome (list tok * Z)) : N :=
  match o with
  | Ok (ts, _) => match po_result (soy_expr 5 ts) with POk _ _ => 1%N | PErr _ _ _ => 2%N | PCrash _ => 3%N | PFuel => 4%N end
  | _ => 0%N
  end.
Example parse_inexact_float : res_class (lex_items_tbl true (b "0.1")) = 1%N /\ res_class (lex_items_tbl true (b "1e400")) = 2%N.
Proof. vm_compute. split; reflexivity. Qed.
