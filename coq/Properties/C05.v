(* C05 -- parsing any input terminates with a tree or an error (lexer half; theorems follow). *)
From Soy Require Import Model.Lexer.
