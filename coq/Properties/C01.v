(* C01 -- Expressions evaluate exactly as the Soy language defines.  Property theorems only.

   Spec: Spec/Expr.v (eval_spec: the expression language over its own syntax, written from the
   language description).  Model: Model/Interp.v (the tree walker of soyhtml/exec.go, funcs.go),
   Model/ExprTrans.v (to_node: the tree the parser builds for a Spec expression; tied to the real
   parser by the harness).  Proofs: Proofs/EvalProofs.v, EvalFuncProofs.v, EvalMainProofs.v.

   EVALUATION half (this file): for every expression tree the walker computes what the Spec says.
   SYNTAX half, token level (merged from wt-astprint): parse_show of Proofs/ExprParserProofs.v --
   the model of parse.go's precedence-climbing parser reads the tokens of any well-formed tree,
   written with the parentheses the operator table requires plus any redundant ones, back as that
   tree -- cited below and composed with the evaluation half (C01_text_to_value).  Character level:
   C01_text_string_to_value composes the scanner model (Model/Lexer.v lexExpr: unary-minus
   classification by lastEmit, number and string scanning, identifiers, every operator) with the
   parser model on the STRING ast/node.go prints for the expression (minimal parentheses, the
   printer's spacing); strings written otherwise (redundant parentheses, other spacing, the
   statement-level contexts `{if ...}`, `{let $x: ...}` ...) have no string-level theorem and stay
   covered by the end-to-end oracle of go/cmd/soyverif/c01.go (expected output from the Spec on the
   generator's TREE; the parser's tree compared with to_node).

   Value laws the statement names (truthiness table, equality by kind, Int/Float numerically,
   collections by identity): Properties/C20.v (C20_truthy_table, C20_equals_sym,
   C20_equals_numeric, C20_equals_kinds, C20_equals_refl_scalars) -- eval_spec uses those very
   functions. *)
(* source tie by translation: the lemmas of these files are obligations of this property *)
From Soy Require Import Proofs.SourceTieExpr Proofs.SourceTieQuote Proofs.SourceTieData Proofs.SourceTieHtml Proofs.SourceTieScope Proofs.SourceTieUnquote.
From Soy Require Import Model.Bytes Model.Num Model.Values Model.Outcome Model.Ast Model.Interp
  Model.Escape Model.Token Model.ExprParser Model.ExprTrans Spec.Expr Spec.ExprSyntax Generated.Tables
  Proofs.EvalProofs Proofs.EvalFuncProofs Proofs.EvalMainProofs Proofs.ExprParserRules Proofs.ExprParserProofs Proofs.EvalSyntaxProofs Proofs.EvalTotalProofs.
From Soy Require Import Model.AstPrint Model.Lexer Model.Parser Proofs.LexPrintMain Proofs.LexParseText Proofs.EvalTextProofs Proofs.InterpPos.
From Soy Require Proofs.FloatRoundSpec Proofs.FloatFlocq Proofs.FloatFlocqDiv Proofs.FloatRtMain Proofs.FloatRtPrint Proofs.FloatRtLex.
Open Scope N_scope.

(* ---- the evaluator ---- *)

(* For EVERY expression tree [e] (unbounded; every literal, list/map literal, global, data
   reference with . / [ ] / null-safe accesses, $ij, call of a built-in function, unary minus, not,
   the thirteen binary operators, ?: and the ternary), every walker state [st] -- the environment
   is its scope stack flattened -- every injected data [ij] and every fuel >= the nesting depth:
   if the Spec gives the value v, the walker on to_node e returns exactly v (identities of the
   lists/maps created on the way counted from the same next_id, and the same next_id afterwards);
   if the Spec gives no value, the walker returns an error.  In both cases the walker has written
   nothing and left scope, mode and writer untouched (frame_eq).
   Guard: the Spec's third outcome OutOfModel (an integer result outside int64, randomInt's value,
   round with digits <> 0, an int beyond 2^53 used as a float, a float beyond the exponent range of
   the model, round/floor/ceiling/min/max where their exact computation is not a binary64) is outside
   the statement -- an inexact result of + - * / is NOT: both sides round it to the nearest binary64,
   ties to even (Num.fl_add_r ...); wf_expr: distinct keys in a map literal, referenced globals
   defined, "$ij" is EIj. *)
Theorem C01_eval_impl_spec : forall G ij cf fuel e st,
  c_ij cf = ij -> ExprTrans.wf_expr G e = true -> (height e <= fuel)%nat ->
  (forall v n', eval_spec G (flatten (ctx st)) ij e (next_id st) = Ok (v, n') ->
     exists st', walk cf fuel (to_node G e) st = (Ok v, st') /\ frame_eq st st' /\ next_id st' = n') /\
  (forall m, eval_spec G (flatten (ctx st)) ij e (next_id st) = Err m ->
     exists msg st', walk cf fuel (to_node G e) st = (Err msg, st') /\ frame_eq st st').
Proof. exact eval_impl_spec. Qed.
Print Assumptions C01_eval_impl_spec.

(* ... and these are all the Spec's outcomes but one: eval_spec yields a value, no value, or
   OutOfModel (never Crash / Diverge / OutOfFuel), so OutOfModel is exactly what the theorem leaves out *)
Theorem C01_spec_outcomes : forall G env ij e n,
  (exists v n', eval_spec G env ij e n = Ok (v, n')) \/ (exists m, eval_spec G env ij e n = Err m) \/
  eval_spec G env ij e n = OutOfModel.
Proof. exact eval_spec_trichotomy. Qed.
Print Assumptions C01_spec_outcomes.

(* the built-in functions alone: apply_func (funcs.go) against their documented meaning, for every
   function and EVERY argument list (any length, any kinds) *)
Theorem C01_functions : forall f args,
  orel (r <- apply_fn_spec f args ;; Ok (fres_of r)) (apply_func (fn_name f) args).
Proof. exact apply_rel. Qed.
Print Assumptions C01_functions.

(* the Spec's arity table is the one tablegen reads from soyhtml.Funcs on every run, and no
   built-in is a loop function *)
Theorem C01_function_table : forall f,
  func_arities (fn_name f) = Some (map N.of_nat (fn_arities f)) /\
  fn_is (fn_name f) n_index || fn_is (fn_name f) n_isFirst || fn_is (fn_name f) n_isLast = false.
Proof. intros f; split; [apply fn_arities_table | apply fn_not_loop]. Qed.
Print Assumptions C01_function_table.

(* ... and the converse: the table regenerated from soyhtml.Funcs on this run holds NO other name.  Every
   name the interpreter can call (func_arities name = Some ar) is a function of the Spec (fn_of_name finds
   it) with the Spec's arities, and on every argument list apply_func behaves as that function's Spec.
   A function added to soyhtml.Funcs without a Spec in Spec/Expr.v, or a changed arity, breaks the
   finite computation behind this theorem (EvalFuncProofs.html_funcs_specified). *)
Theorem C01_function_table_complete : forall name ar args,
  func_arities name = Some ar ->
  exists f, fn_of_name name = Some f /\ fn_name f = name /\ ar = map N.of_nat (fn_arities f) /\
            orel (r <- apply_fn_spec f args ;; Ok (fres_of r)) (apply_func name args).
Proof. exact function_table_spec. Qed.
Print Assumptions C01_function_table_complete.

Example C01_function_table_nonvacuous :
  func_arities (b "range") = Some [1; 2; 3] /\ fn_of_name (b "range") = Some FRange /\ fn_of_name (b "index") = None /\
  length html_funcs = length all_fns.
Proof. vm_compute. repeat split; reflexivity. Qed.

(* ---- syntax (cited) and the composition ---- *)

(* precedence and associativity with minimal and redundant parentheses: for every well-formed tree
   e (Spec/ExprSyntax.v), every parenthesis style sty and every following item t that cannot
   continue an expression, the parser model reads [show sty path e] back as e and stops before t *)
Theorem C01_parse_show : forall sty path e (t : tok) (rest : list tok),
  ExprSyntax.wf_expr e -> closer t = true ->
  exists st' f0, stream st' = t :: rest /\
    forall f, (f0 <= f)%nat -> parse_expr_top f (show sty path e ++ t :: rest) = POk e st'.
Proof. exact parse_show_top. Qed.
Print Assumptions C01_parse_show.

(* an implicit print can start with any expression: the first item of the token sequence of every Spec
   expression (any parenthesis style, any number kk of enclosing parentheses) is one of the eleven
   item types that start an expression (the command-level parser's beginTag case list; its tie to the
   Go source is the parser correspondence of C17/C05) -- cited from Proofs/ExprParserProofs.v *)
Theorem C01_implicit_print_start : forall sty e path kk, syntax_ok e ->
  exists x l, parens kk (show sty path (to_node [] e)) = x :: l /\ mem (t_typ x) expr_start_types = true.
Proof. intros sty e path kk H. exact (show_starts_expression sty (to_node [] e) (src_wf (height e) e (le_n _) H) path kk). Qed.
Print Assumptions C01_implicit_print_start.

(* tokens -> tree -> compiled tree -> value: for every Spec expression with a concrete syntax, its
   token sequence (any parenthesis style) parses to to_node [] e, SetNodeGlobals makes it
   to_node G e, and the walker evaluates that to what the Spec says *)
Theorem C01_text_to_value : forall G ij cf sty path e (t : tok) (rest : list tok) fuel st,
  syntax_ok e -> ExprTrans.wf_expr G e = true -> closer t = true ->
  c_ij cf = ij -> (height e <= fuel)%nat ->
  exists st' f0, stream st' = t :: rest /\
    (forall f, (f0 <= f)%nat -> parse_expr_top f (show sty path (to_node [] e) ++ t :: rest) = POk (to_node [] e) st') /\
    (forall v n', eval_spec G (flatten (ctx st)) ij e (next_id st) = Ok (v, n') ->
       exists st2, walk cf fuel (set_globals G (to_node [] e)) st = (Ok v, st2) /\ frame_eq st st2 /\ next_id st2 = n') /\
    (forall m, eval_spec G (flatten (ctx st)) ij e (next_id st) = Err m ->
       exists msg st2, walk cf fuel (set_globals G (to_node [] e)) st = (Err msg, st2) /\ frame_eq st st2).
Proof. exact text_to_value. Qed.
Print Assumptions C01_text_to_value.

(* string -> items -> tree -> compiled tree -> value, with the REAL scanner model instead of a token
   hypothesis: for every Spec expression with a concrete syntax whose identifiers and literals are lexically
   well-formed ([lex_ok]: ASCII names that are not keywords, string literals in the printer's quoted form,
   float texts of the printed shape), the string [txt] that ast/node.go's String() writes for it is scanned
   (lexExpr model, unicode tables of the toolchain) and parsed (parse.Expr model under its own budget) to a
   tree e' that IS to_node [] e once node positions are erased; and the walker, run on SetNodeGlobals of the
   parser's OWN tree e' (positions and all), returns the Spec's value with the Spec's next identity, or an
   error when the Spec has no value; in both cases scope, mode, writer are untouched. *)
Theorem C01_text_string_to_value : forall G ij cf e txt fuel st,
  syntax_ok e -> lex_ok (to_node [] e) -> print_node (to_node [] e) = Some txt ->
  ExprTrans.wf_expr G e = true -> c_ij cf = ij -> (height e <= fuel)%nat ->
  exists e' st', parse_expr_string is_letter_tbl is_digit_tbl txt = Ok (POk e' st') /\ strip_pos e' = to_node [] e /\
    (forall v n', eval_spec G (flatten (ctx st)) ij e (next_id st) = Ok (v, n') ->
       exists st2, walk cf fuel (set_globals G e') st = (Ok v, st2) /\ frame_eq st st2 /\ next_id st2 = n') /\
    (forall m, eval_spec G (flatten (ctx st)) ij e (next_id st) = Err m ->
       exists msg st2, walk cf fuel (set_globals G e') st = (Err msg, st2) /\ frame_eq st st2).
Proof. exact text_string_to_value_full. Qed.
Print Assumptions C01_text_string_to_value.

(* what makes the step from the position-free tree to the parser's tree possible: on an expression tree the
   walker uses node positions for s.node only -- erasing them changes neither the outcome nor any field of the
   final state other than [cur] (the position an error would be reported at); and on EVERY node the walker
   takes states that differ in [cur] alone to the same outcome and to states that differ in [cur] alone *)
Theorem C01_walker_ignores_positions : forall cf fuel n st, InterpPos.expr_tree n = true ->
  fst (walk cf fuel n st) = fst (walk cf fuel (strip_pos n) st) /\
  InterpPos.eqc (snd (walk cf fuel n st)) (snd (walk cf fuel (strip_pos n) st)).
Proof. exact InterpPos.walk_strip_run. Qed.
Print Assumptions C01_walker_ignores_positions.

(* ---- printing ---- *)

(* printing an expression whose value is undefined is an error and writes nothing *)
Theorem C01_print_undefined_errors : forall G ij cf, c_ij cf = ij -> forall fuel e p dirs st n',
  ExprTrans.wf_expr G e = true -> (height e <= fuel)%nat ->
  eval_spec G (flatten (ctx st)) ij e (next_id st) = Ok (VUndef, n') ->
  exists msg st', walk cf (S fuel) (NPrint p (to_node G e) dirs) st = (Err msg, st') /\
                  out st' = out st /\ bufs st' = bufs st.
Proof. exact print_undefined_errors. Qed.
Print Assumptions C01_print_undefined_errors.

(* an expression the language leaves without a value makes the print an error; no text is written for it *)
Theorem C01_no_text_on_error : forall G ij cf, c_ij cf = ij -> forall fuel e p dirs st m,
  ExprTrans.wf_expr G e = true -> (height e <= fuel)%nat ->
  eval_spec G (flatten (ctx st)) ij e (next_id st) = Err m ->
  exists msg st', walk cf (S fuel) (NPrint p (to_node G e) dirs) st = (Err msg, st') /\
                  out st' = out st /\ bufs st' = bufs st.
Proof. exact no_text_on_error. Qed.
Print Assumptions C01_no_text_on_error.

(* a print without directives of an expression that has a printable value appends exactly the
   value's string image, html-escaped unless the template's autoescape mode is off *)
Theorem C01_print_renders_spec : forall G ij cf, c_ij cf = ij -> forall fuel e p st v n' s,
  ExprTrans.wf_expr G e = true -> (height e <= fuel)%nat -> c_oblig cf = [] ->
  bufs st = [] -> calls_left st = None -> bytes_left st = None ->
  eval_spec G (flatten (ctx st)) ij e (next_id st) = Ok (v, n') -> v <> VUndef ->
  value_string v = Ok s ->
  exists st', walk cf (S fuel) (NPrint p (to_node G e) []) st = (Ok VUndef, st') /\
              concat_b (rev (out st')) = concat_b (rev (out st)) ++ (if mode st =? 2 then s else html_escape s).
Proof. exact print_renders_spec. Qed.
Print Assumptions C01_print_renders_spec.

(* ---- the Spec reads like the statement (direct consequences of Spec/Expr.v) ---- *)

(* and / or yield booleans and do not evaluate the right operand when the left decides *)
Theorem C01_and_short_circuit : forall G env ij a c n x n1,
  eval_spec G env ij a n = Ok (x, n1) -> truthy x = false ->
  eval_spec G env ij (EBin BAnd a c) n = Ok (VBool false, n1).
Proof. intros G env ij a c n x n1 E T. cbn [eval_spec]. unfold rbind. rewrite E, T. reflexivity. Qed.

Theorem C01_or_short_circuit : forall G env ij a c n x n1,
  eval_spec G env ij a n = Ok (x, n1) -> truthy x = true ->
  eval_spec G env ij (EBin BOr a c) n = Ok (VBool true, n1).
Proof. intros G env ij a c n x n1 E T. cbn [eval_spec]. unfold rbind. rewrite E, T. reflexivity. Qed.

(* ?: keeps the left operand unless it is null or undefined, and then does not evaluate the right one *)
Theorem C01_elvis_left : forall G env ij a c n x n1,
  eval_spec G env ij a n = Ok (x, n1) -> x <> VNull -> x <> VUndef ->
  eval_spec G env ij (EElvis a c) n = Ok (x, n1).
Proof.
  intros G env ij a c n x n1 E H1 H2. cbn [eval_spec]. unfold rbind. rewrite E.
  destruct x; try reflexivity; contradiction.
Qed.

(* + : two integers add; a string on either side concatenates the string images *)
Theorem C01_plus : forall x y a c s1 s2,
  sem_strict BAdd (VInt x) (VInt y) = int_result (x + y) /\
  (value_string a = Ok s1 -> value_string (VStr s2) = Ok s2 ->
   sem_strict BAdd a (VStr s2) = Ok (VStr (s1 ++ s2)) /\
   (value_string c = Ok s1 -> sem_strict BAdd (VStr s2) c = Ok (VStr (s2 ++ s1)))).
Proof.
  intros x y a c s1 s2. split; [reflexivity|]. intros Ha Hs. split.
  - unfold sem_strict, sem_add. destruct a; rewrite Ha, Hs; reflexivity.
  - intros Hc. unfold sem_strict, sem_add. rewrite Hc, Hs. reflexivity.
Qed.

(* / is always a float; % is defined on integers with a non-zero divisor only *)
Theorem C01_div_mod : forall a c v,
  (sem_strict BDiv a c = Ok v -> exists f, v = VFloat f) /\
  (sem_strict BMod a c = Ok v -> exists x y, a = VInt x /\ c = VInt y /\ y <> 0%Z /\ v = VInt (Z.rem x y)).
Proof.
  intros a c v. split.
  - cbn [sem_strict]. unfold sem_div. destruct (number_of a); cbn; try discriminate.
    destruct (number_of c); cbn; try discriminate. destruct (fl_div_r v0 v1); cbn; try discriminate.
    intros [= <-]. eauto.
  - cbn [sem_strict]. unfold sem_mod, no_value. destruct a; try discriminate. destruct c; try discriminate.
    destruct (Z.eqb_spec z0 0); [discriminate|]. unfold int_result.
    destruct (in_int64 (Z.rem z z0)); [|discriminate]. intros [= <-]. exists z, z0. auto.
Qed.

(* ordering is defined on numbers only *)
Theorem C01_order_numbers_only : forall op a c v,
  match op with BLt | BGt | BLe | BGe => True | _ => False end ->
  sem_strict op a c = Ok v ->
  (exists x, number_of a = Ok x) /\ (exists y, number_of c = Ok y) /\ exists r, v = VBool r.
Proof.
  intros op a c v Hop E.
  assert (H : sem_order op a c = Ok v) by (destruct op; try contradiction; exact E).
  unfold sem_order in H.
  destruct (number_of a) as [x| | | | |]; cbn [bind] in H; try discriminate.
  destruct (number_of c) as [y| | | | |]; cbn [bind] in H; try discriminate.
  injection H as <-. split; [eauto | split; eauto].
Qed.

(* ---- the float domain: rounding, printing, reading back (Proofs/FloatRoundSpec.v, FloatFlocq.v, FloatRt*.v) ---- *)
(* Num.round53 -- the rounding step of + - * / and of the conversion of an integer -- returns the multiple of the
   last place kept that is nearest to the exact result, the even mantissa at a tie, with 53 bits (integers only) *)
Theorem C01_round_nearest_even : forall M E : Z,
  let '(m, e) := round53 M E in
  exists sh, (0 <= sh /\ e = E + sh /\
    2 * Z.abs (M - m * 2 ^ sh) <= 2 ^ sh /\
    (2 * Z.abs (M - m * 2 ^ sh) = 2 ^ sh -> Z.even m = true) /\
    Z.abs m <= 2 ^ 53 /\ (0 < sh -> 2 ^ 52 <= Z.abs m) /\ (sh = 0 -> m = M))%Z.
Proof. exact FloatRoundSpec.round53_spec. Qed.
Print Assumptions C01_round_nearest_even.

(* the same against Flocq (a statement over the reals: Print Assumptions lists the axioms of Coq's Reals and
   Classical_Prop.classic, nothing of Flocq's own): round53 is round radix2 (FLX_exp 53) ZnearestE, and the results of
   fl_add_r, fl_sub_r, fl_mul_r, fl_of_int are that rounding of the exact sum, difference, product, integer
   (FloatFlocq.ff_correctly_rounded spells the five statements out) *)
Theorem C01_float_ops_correctly_rounded : FloatFlocq.ff_correctly_rounded.
Proof. exact FloatFlocq.ff_correctly_rounded_holds. Qed.
Print Assumptions C01_float_ops_correctly_rounded.

(* and fl_div_r -- the quotient to 56 or more bits with a sticky bit for the remainder, then round53 -- is that rounding of
   the exact quotient (FloatFlocqDiv.v, through Flocq's Fdiv_core: mantissas non-zero, as in every FFin of the model) *)
Theorem C01_float_div_correctly_rounded : FloatFlocqDiv.ff_div_correctly_rounded.
Proof. exact FloatFlocqDiv.ff_div_correctly_rounded_holds. Qed.
Print Assumptions C01_float_div_correctly_rounded.

(* strconv 'g' -1 (Num.fl_to_string) answers on every float of the model, and strconv.ParseFloat's correctly rounded
   conversion (NumLit.parse_float_round) reads the text back as the same float: no float hypothesis is left in
   syntax_ok (float_ok f is the shape condition fl_in_window f) *)
Theorem C01_float_text_roundtrip : forall x, FloatRtMain.fl_in_window x ->
  exists s, fl_to_string x = Some s /\ NumLit.parse_float_round s = NumLit.FRVal x.
Proof.
  intros x H. destruct (FloatRtMain.fl_to_string_total x H) as (s & Hs). exists s. split; [exact Hs|].
  exact (FloatRtMain.fl_to_string_roundtrip x s (FloatRtMain.rt_window_norm x H) Hs).
Qed.
Print Assumptions C01_float_text_roundtrip.

Theorem C01_float_literal_condition : forall f, float_ok f <-> FloatRtMain.fl_in_window f.
Proof. exact FloatRtPrint.float_ok_iff_window. Qed.
Print Assumptions C01_float_literal_condition.

(* and lex_ok's float clause (the printed text is one float item for the scanner) holds for every such float: neither
   syntax_ok nor lex_ok of C01_text_string_to_value restricts the floats of an expression beyond their shape *)
Theorem C01_float_lex_ok : forall p f, float_ok f -> LexPrintMain.lex_ok (NFloat p f).
Proof. intros p f [Hn _]. exact (FloatRtLex.lex_ok_float p f Hn). Qed.
Print Assumptions C01_float_lex_ok.

(* ---- non-vacuity: concrete instances evaluated by both sides ---- *)
Definition ex_env : list (bstr * value) :=
  [(b "a", VInt 2); (b "l", VList 5 [VStr (b "p"); VStr (b "q<")]); (b "m", VMap 6 [([], VInt 7); (b "k", VNull)])].

(* ($a + 2) * 3 < 10 ? null : 'x' + $l[1] + $m[''] + [1.5, $m?.k?.z]   -->   "xq<7[1.5, null]" *)
Definition ex_expr : expr :=
  ETern (EBin BLt (EBin BMul (EBin BAdd (ERef (b "a") []) (EInt 2)) (EInt 3)) (EInt 10))
        ENull
        (EBin BAdd (EBin BAdd (EBin BAdd (EStr (b "x")) (ERef (b "l") [AExpr false (EInt 1)]))
                              (ERef (b "m") [AExpr false (EStr [])]))
                   (EList [EFloat (FFin 3 (-1)); ERef (b "m") [AKey true (b "k"); AKey true (b "z")]])).

Example C01_nonvacuous_value :
  ExprTrans.wf_expr [] ex_expr = true /\ (height ex_expr <= 6)%nat /\
  eval_spec [] ex_env None ex_expr 100 = Ok (VStr (b "xq<7[1.5, null]"), 101) /\
  impl_eval [] ex_env None 6 ex_expr 100 = Ok (VStr (b "xq<7[1.5, null]"), 101).
Proof. repeat split; vm_compute; reflexivity. Qed.

Example C01_nonvacuous_syntax : syntax_ok ex_expr.
Proof.
  cbn [syntax_ok ex_expr allP acc_ok]. unfold float_ok, key_ok.
  repeat match goal with
         | |- _ /\ _ => split
         | |- True => exact I
         | |- exists _, _ => eexists
         | |- fl_finite_norm _ => vm_compute; reflexivity
         | |- _ = _ => vm_compute; reflexivity
         end.
Qed.

(* 1 < 'a' has no value; neither has $l[0].x (a non-collection), nor length(3); $l[5] is undefined *)
Example C01_nonvacuous_errors :
  (exists m, eval_spec [] ex_env None (EBin BLt (EInt 1) (EStr (b "a"))) 100 = Err m) /\
  (exists m, impl_eval [] ex_env None 3 (EBin BLt (EInt 1) (EStr (b "a"))) 100 = Err m) /\
  (exists m, eval_spec [] ex_env None (ERef (b "l") [AIdx false 0; AKey false (b "x")]) 100 = Err m) /\
  (exists m, eval_spec [] ex_env None (ECall FLength [EInt 3]) 100 = Err m) /\
  eval_spec [] ex_env None (ERef (b "l") [AExpr false (EInt 5)]) 100 = Ok (VUndef, 100) /\
  eval_spec [] ex_env None (ERef (b "l") [AExpr false (EInt (-1))]) 100 = Ok (VUndef, 100) /\
  print_spec [] ex_env None (ERef (b "l") [AExpr false (EInt 5)]) 100 = Err e_novalue.
Proof. repeat split; try (eexists; vm_compute; reflexivity); vm_compute; reflexivity. Qed.

(* identity: two evaluations of a list literal are different lists, a bound list is itself *)
Example C01_nonvacuous_identity :
  eval_spec [] ex_env None (EBin BEq (EList [EInt 1]) (EList [EInt 1])) 100 = Ok (VBool false, 102) /\
  eval_spec [] ex_env None (EBin BEq (ERef (b "l") []) (ERef (b "l") [])) 100 = Ok (VBool true, 100) /\
  eval_spec [] ex_env None (EBin BEq (EInt 2) (EFloat (FFin 1 1))) 100 = Ok (VBool true, 100) /\
  eval_spec [] ex_env None (EBin BEq (EStr (b "2")) (EInt 2)) 100 = Ok (VBool false, 100).
Proof. repeat split; vm_compute; reflexivity. Qed.

(* text level, by computation: the printed string of ex_expr, scanned and parsed by the models, is its tree *)
Example C01_nonvacuous_text :
  print_node (to_node [] ex_expr) = Some (b "($a + 2) * 3 < 10 ? null : 'x' + $l[1] + $m[''] + [1.5, $m?.k?.z]") /\
  match print_node (to_node [] ex_expr) with
  | Some txt => match parse_expr_string is_letter_tbl is_digit_tbl txt with
                | Ok (POk e' _) => strip_pos e' = to_node [] ex_expr
                | _ => False
                end
  | None => False
  end.
Proof. split; vm_compute; reflexivity. Qed.
