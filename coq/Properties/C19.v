(* C19 — errors point at the offending file and line.  Property theorems only.

   RENDER HALF (this file, proved for every registry, template, data and fuel):
   the model is Model/Interp.v ([render]: rr_file / rr_line computed as errRecover ->
   errFromNode -> Registry.Filename / LineNumber do from the entry state's s.node,
   [cur]); it describes /repo after the repairs bb87cc7, 58a9bd4, 228b3d2.
   Spec: Spec/ErrPos.v.

   PARSE HALF: see the second part of this file. *)
From Soy Require Import Model.Bytes Model.Num Model.Values Model.Outcome Model.Ast Model.Escape Model.Directives
  Model.Print Generated.Tables Model.Interp
  Spec.ErrPos Proofs.InterpLogic Proofs.WalkRel Proofs.ErrPosProofs Proofs.ErrPathProofs.
Open Scope N_scope.

(* ------------------------------------------------------------------ *)
(* 1. The file is the one recorded for the ENTRY template, whatever the call depth of the failure. *)
Theorem C19_render_error_file :
  forall cf fuel name did dat cl bl fid t src file,
    find_template (r_templates (c_reg cf)) name = Some t ->
    assoc_s name (r_sources (c_reg cf)) = Some src ->
    assoc_s name (r_files (c_reg cf)) = Some file ->
    forall m, rr_outcome (render cf fuel name did dat cl bl fid) = Err m ->
    rr_file (render cf fuel name did dat cl bl fid) = file.
Proof. exact render_error_file_lemma. Qed.
Print Assumptions C19_render_error_file.

(* 2. The reported position is that of a node that occurs syntactically in the entry template;
   with the node positions of that template inside its source text (decidable:
   [positions_in_sourceb]) the line is line_at src of it, 1 <= line <= lines src, and the line
   computation never crashes (a Crash of render is a Crash of the walk itself). *)
Theorem C19_render_error_in_entry_template :
  forall cf fuel name did dat cl bl fid t src file,
    find_template (r_templates (c_reg cf)) name = Some t ->
    assoc_s name (r_sources (c_reg cf)) = Some src ->
    assoc_s name (r_files (c_reg cf)) = Some file ->
    positions_in_source src (t_node t) ->
    let res := render cf fuel name did dat cl bl fid in
    let run := walk cf fuel (t_node t)
                 (init_state (sc_enter (new_scope did dat)) (entry_mode (t_ns_autoescape t)) name cl bl fid) in
    (forall m, fst run = Err m ->
       rr_outcome res = Err m /\ rr_file res = file /\
       exists n, subnode n (t_node t) /\ cur (snd run) = pos_of n /\
                 rr_line res = line_at src (pos_of n) /\ 1 <= rr_line res <= lines src)
    /\ (forall m, rr_outcome res = Err m -> fst run = Err m)
    /\ (forall c, rr_outcome res = Crash c -> fst run = Crash c).
Proof. exact render_error_in_entry_template_lemma. Qed.
Print Assumptions C19_render_error_in_entry_template.

(* 3. The node is the one of the entry template that was executing: there is a chain
   entry template node = n0, n1, ..., nk of nodes each lying within the one before, each of whose
   walks (in the entry template, call depth 0) ends in this very error and final state, the last of
   which fails in its own code (or inside a template it calls) and not in a sub-walk; the reported
   position is that of nk -- [reported_at]: exactly pos_of nk, except for a print whose argument has
   been evaluated (a position inside the argument: evalPrint walks it without restoring s.node), a
   message (a position inside the message) and three internal errors no compiled tree raises. *)
Theorem C19_render_error_is_active_command :
  forall cf fuel name did dat cl bl fid t src file m,
    find_template (r_templates (c_reg cf)) name = Some t ->
    assoc_s name (r_sources (c_reg cf)) = Some src ->
    assoc_s name (r_files (c_reg cf)) = Some file ->
    positions_in_source src (t_node t) ->
    let res := render cf fuel name did dat cl bl fid in
    rr_outcome res = Err m ->
    exists fin path,
      failing_path cf m fin fuel (t_node t) path /\
      within (last path (t_node t)) (t_node t) /\
      reported_at (last path (t_node t)) m (cur fin) /\
      rr_file res = file /\ rr_line res = line_at src (cur fin) /\ 1 <= rr_line res <= lines src.
Proof. exact render_error_is_active_command_lemma. Qed.
Print Assumptions C19_render_error_is_active_command.

(* the ingredients, for any node: every failing walk in the entry template has a failing path ... *)
Theorem C19_failing_path_exists :
  forall cf fuel n e fin, walk_fails cf fuel n e fin ->
    exists path, failing_path cf e fin fuel n path /\ reported_at (last path n) e (cur fin).
Proof. exact failing_path_exists. Qed.
Print Assumptions C19_failing_path_exists.

(* ... and a node failing in its own code is reported at itself *)
Theorem C19_own_failure_position :
  forall cf fuel n st e fin, depth_ st = 0%nat ->
    walk_body cf (mask (walk cf fuel)) n st = (Err e, fin) -> reported_at n e (cur fin).
Proof. exact own_failure_position. Qed.
Print Assumptions C19_own_failure_position.

(* 4. A failure inside a callee is reported at the {call} of the entry template: once data and
   params are resolved, whatever error the callee ends in -- at any depth below -- leaves the
   position at the call node's; and the position register never changes while depth_ > 0. *)
Theorem C19_callee_failure_at_call :
  forall cf fuel p name alldata dat params callee st cd s2 e fin,
    depth_ st = 0%nat ->
    find_template (r_templates (c_reg cf)) name = Some callee ->
    (cd0 <-- call_data (walk cf fuel) alldata dat ;;; call_params (walk cf fuel) params cd0) (set_cur st p) = (Ok cd, s2) ->
    call_enter (walk cf fuel) callee cd (set_cur s2 p) = (Err e, fin) ->
    walk cf (S fuel) (NCall p name alldata dat params) st = (Err e, fin) /\ cur fin = p /\ depth_ fin = 0%nat.
Proof. exact callee_failure_at_call. Qed.
Print Assumptions C19_callee_failure_at_call.

Theorem C19_position_frozen_in_callee :
  forall cf fuel n st r st', depth_ st <> 0%nat -> walk cf fuel n st = (r, st') ->
    cur st' = cur st /\ depth_ st' = depth_ st.
Proof. exact position_frozen_in_callee. Qed.
Print Assumptions C19_position_frozen_in_callee.

(* the general containment fact behind 2: after a walk at depth 0 the register holds a position of the walked tree *)
Theorem C19_walk_position_in_subtree :
  forall cf fuel n st r st', depth_ st = 0%nat -> walk cf (S fuel) n st = (r, st') -> In (cur st') (poss n).
Proof. exact walk_position_in_subtree. Qed.
Print Assumptions C19_walk_position_in_subtree.

(* ------------------------------------------------------------------ *)
(* Non-vacuity: an entry template (file e.soy, 9 lines) whose {call} on line 4 carries a param
   content block on lines 5-7; the callee (file c.soy) prints an undefined variable on its line 7.
   render returns the error with file e.soy and line 4 -- the line of the {call}; not line 7 of
   c.soy (the failing print), nor line 7 of e.soy (position 52, the last node of the content
   block: what the code reported before repair 58a9bd4). *)
Definition ex_src_e := Eval vm_compute in b "{namespace a}
{template .e}
x
{call .c}
{param p}
y
{/param}
{/call}
{/template}
".
Definition ex_src_c := Eval vm_compute in b "{namespace a}




{template .c}
{$m}
{/template}
".
Definition ex_entry : template :=
  {| t_name := b "a.e";
     t_node := NTemplate 23 (b "a.e")
                 (NList 30 [NRawText 30 (b "x");
                            NCall 35 (b "a.c") false None
                              [NParamContent 41 (b "p") (NList 52 [NRawText 52 (b "y")])]]) 0 false;
     t_ns_name := b "a"; t_ns_autoescape := 0; t_params := []; t_file := b "e.soy" |}.
Definition ex_callee : template :=
  {| t_name := b "a.c";
     t_node := NTemplate 27 (b "a.c") (NList 33 [NPrint 35 (NDataRef 35 (b "m") []) []]) 0 false;
     t_ns_name := b "a"; t_ns_autoescape := 0; t_params := [(b "m", true); (b "p", true)]; t_file := b "c.soy" |}.
Definition ex_cfg : cfg :=
  {| c_reg := {| r_templates := [ex_entry; ex_callee];
                 r_sources := [(b "a.e", ex_src_e); (b "a.c", ex_src_c)];
                 r_files := [(b "a.e", b "e.soy"); (b "a.c", b "c.soy")] |};
     c_ij := None; c_oblig := []; c_msgs := None |}.
Definition ex_res := render ex_cfg 50 (b "a.e") 2 [] None None 100.

Example C19_render_nonvacuous :
  find_template (r_templates (c_reg ex_cfg)) (b "a.e") = Some ex_entry
  /\ assoc_s (b "a.e") (r_sources (c_reg ex_cfg)) = Some ex_src_e
  /\ assoc_s (b "a.e") (r_files (c_reg ex_cfg)) = Some (b "e.soy")
  /\ positions_in_source ex_src_e (t_node ex_entry)
  /\ rr_outcome ex_res = Err e_undefined
  /\ rr_file ex_res = b "e.soy" /\ rr_line ex_res = 4 /\ lines ex_src_e = 10
  /\ line_at ex_src_e 35 = 4 /\ line_at ex_src_e 52 = 7 /\ line_at ex_src_c 35 = 7.
Proof.
  split; [reflexivity|]. split; [reflexivity|]. split; [reflexivity|].
  split; [apply positions_in_sourceb_ok; vm_compute; reflexivity|].
  vm_compute. repeat split; reflexivity.
Qed.

(* at depth 0: the same entry template with a failing print on line 3 instead of the text *)
Definition ex_entry0 : template :=
  {| t_name := b "a.e";
     t_node := NTemplate 23 (b "a.e")
                 (NList 30 [NPrint 30 (NBin OLt 30 (NInt 29 1) (NString 30 (b "'a'") (b "a"))) []]) 0 false;
     t_ns_name := b "a"; t_ns_autoescape := 0; t_params := []; t_file := b "e.soy" |}.
Definition ex_cfg0 : cfg :=
  {| c_reg := {| r_templates := [ex_entry0]; r_sources := [(b "a.e", ex_src_e)]; r_files := [(b "a.e", b "e.soy")] |};
     c_ij := None; c_oblig := []; c_msgs := None |}.
Example C19_render_depth0_nonvacuous :
  let r := render ex_cfg0 50 (b "a.e") 2 [] None None 100 in
  rr_outcome r = Err e_notnumber /\ rr_file r = b "e.soy" /\ rr_line r = 4.
Proof. vm_compute. repeat split; reflexivity. Qed.
