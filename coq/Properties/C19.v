(* C19 — errors point at the offending file and line.  Property theorems only.

   RENDER HALF (this file, proved for every registry, template, data and fuel):
   the model is Model/Interp.v ([render]: rr_file / rr_line computed as errRecover ->
   errFromNode -> Registry.Filename / LineNumber do from the entry state's s.node,
   [cur]); it describes /repo after the repairs bb87cc7, 58a9bd4, 228b3d2.
   Spec: Spec/ErrPos.v.

   PARSE HALF: see the second part of this file. *)
(* source tie by translation: the lemmas of these files are obligations of this property *)
From Soy Require Import Proofs.SourceTieErrPos Proofs.SourceTieLexer Proofs.SourceTieParser Proofs.SourceTieRegistry.
From Soy Require Import Model.Bytes Model.Num Model.Values Model.Outcome Model.Ast Model.Escape Model.Directives
  Model.Print Generated.Tables Model.Interp
  Spec.ErrPos Proofs.InterpLogic Proofs.WalkRel Proofs.ErrPosProofs Proofs.ErrPathProofs.
Open Scope N_scope.

(* ------------------------------------------------------------------ *)
(* 1. The file is the one recorded for the ENTRY template, whatever the call depth of the failure. *)
Theorem C19_render_error_file :
  forall cf fuel name did dat cl bl fid t src file,
    find_template (r_templates (c_reg cf)) name = Some t ->
    assoc_s name (r_sources (c_reg cf)) = Some src ->
    assoc_s name (r_files (c_reg cf)) = Some file ->
    forall m, rr_outcome (render cf fuel name did dat cl bl fid) = Err m ->
    rr_file (render cf fuel name did dat cl bl fid) = file.
Proof. exact render_error_file_lemma. Qed.
Print Assumptions C19_render_error_file.

(* 2. The reported position is that of a node that occurs syntactically in the entry template;
   with the node positions of that template inside its source text (decidable:
   [positions_in_sourceb]) the line is line_at src of it, 1 <= line <= lines src, and the line
   computation never crashes (a Crash of render is a Crash of the walk itself). *)
Theorem C19_render_error_in_entry_template :
  forall cf fuel name did dat cl bl fid t src file,
    find_template (r_templates (c_reg cf)) name = Some t ->
    assoc_s name (r_sources (c_reg cf)) = Some src ->
    assoc_s name (r_files (c_reg cf)) = Some file ->
    positions_in_source src (t_node t) ->
    let res := render cf fuel name did dat cl bl fid in
    let run := walk cf fuel (t_node t)
                 (init_state (sc_enter (new_scope did dat)) (entry_mode (t_ns_autoescape t)) name cl bl fid) in
    (forall m, fst run = Err m ->
       rr_outcome res = Err m /\ rr_file res = file /\
       exists n, subnode n (t_node t) /\ cur (snd run) = pos_of n /\
                 rr_line res = line_at src (pos_of n) /\ 1 <= rr_line res <= lines src)
    /\ (forall m, rr_outcome res = Err m -> fst run = Err m)
    /\ (forall c, rr_outcome res = Crash c -> fst run = Crash c).
Proof. exact render_error_in_entry_template_lemma. Qed.
Print Assumptions C19_render_error_in_entry_template.

(* 3. The node is the one of the entry template that was executing: there is a chain
   entry template node = n0, n1, ..., nk of nodes each lying within the one before, each of whose
   walks (in the entry template, call depth 0) ends in this very error and final state, the last of
   which fails in its own code (or inside a template it calls) and not in a sub-walk; the reported
   position is that of nk -- [reported_at]: exactly pos_of nk, except for a print whose argument has
   been evaluated (a position inside the argument: evalPrint walks it without restoring s.node), a
   message (a position inside the message) and three internal errors no compiled tree raises. *)
Theorem C19_render_error_is_active_command :
  forall cf fuel name did dat cl bl fid t src file m,
    find_template (r_templates (c_reg cf)) name = Some t ->
    assoc_s name (r_sources (c_reg cf)) = Some src ->
    assoc_s name (r_files (c_reg cf)) = Some file ->
    positions_in_source src (t_node t) ->
    let res := render cf fuel name did dat cl bl fid in
    rr_outcome res = Err m ->
    exists fin path,
      failing_path cf m fin fuel (t_node t) path /\
      within (last path (t_node t)) (t_node t) /\
      reported_at (last path (t_node t)) m (cur fin) /\
      rr_file res = file /\ rr_line res = line_at src (cur fin) /\ 1 <= rr_line res <= lines src.
Proof. exact render_error_is_active_command_lemma. Qed.
Print Assumptions C19_render_error_is_active_command.

(* the ingredients, for any node: every failing walk in the entry template has a failing path ... *)
Theorem C19_failing_path_exists :
  forall cf fuel n e fin, walk_fails cf fuel n e fin ->
    exists path, failing_path cf e fin fuel n path /\ reported_at (last path n) e (cur fin).
Proof. exact failing_path_exists. Qed.
Print Assumptions C19_failing_path_exists.

(* ... and a node failing in its own code is reported at itself *)
Theorem C19_own_failure_position :
  forall cf fuel n st e fin, depth_ st = 0%nat ->
    walk_body cf (mask (walk cf fuel)) n st = (Err e, fin) -> reported_at n e (cur fin).
Proof. exact own_failure_position. Qed.
Print Assumptions C19_own_failure_position.

(* 4. A failure inside a callee is reported at the {call} of the entry template: once data and
   params are resolved, whatever error the callee ends in -- at any depth below -- leaves the
   position at the call node's; and the position register never changes while depth_ > 0. *)
Theorem C19_callee_failure_at_call :
  forall cf fuel p name alldata dat params callee st cd s2 e fin,
    depth_ st = 0%nat ->
    find_template (r_templates (c_reg cf)) name = Some callee ->
    (cd0 <-- call_data (walk cf fuel) alldata dat ;;; call_params (walk cf fuel) params cd0) (set_cur st p) = (Ok cd, s2) ->
    call_enter (walk cf fuel) callee cd (set_cur s2 p) = (Err e, fin) ->
    walk cf (S fuel) (NCall p name alldata dat params) st = (Err e, fin) /\ cur fin = p /\ depth_ fin = 0%nat.
Proof. exact callee_failure_at_call. Qed.
Print Assumptions C19_callee_failure_at_call.

Theorem C19_position_frozen_in_callee :
  forall cf fuel n st r st', depth_ st <> 0%nat -> walk cf fuel n st = (r, st') ->
    cur st' = cur st /\ depth_ st' = depth_ st.
Proof. exact position_frozen_in_callee. Qed.
Print Assumptions C19_position_frozen_in_callee.

(* the general containment fact behind 2: after a walk at depth 0 the register holds a position of the walked tree *)
Theorem C19_walk_position_in_subtree :
  forall cf fuel n st r st', depth_ st = 0%nat -> walk cf (S fuel) n st = (r, st') -> In (cur st') (poss n).
Proof. exact walk_position_in_subtree. Qed.
Print Assumptions C19_walk_position_in_subtree.

(* ------------------------------------------------------------------ *)
(* Non-vacuity: an entry template (file e.soy, 9 lines) whose {call} on line 4 carries a param
   content block on lines 5-7; the callee (file c.soy) prints an undefined variable on its line 7.
   render returns the error with file e.soy and line 4 -- the line of the {call}; not line 7 of
   c.soy (the failing print), nor line 7 of e.soy (position 52, the last node of the content
   block: what the code reported before repair 58a9bd4). *)
Definition ex_src_e := Eval vm_compute in b "{namespace a}
{template .e}
x
{call .c}
{param p}
y
{/param}
{/call}
{/template}
".
Definition ex_src_c := Eval vm_compute in b "{namespace a}




{template .c}
{$m}
{/template}
".
Definition ex_entry : template :=
  {| t_name := b "a.e";
     t_node := NTemplate 23 (b "a.e")
                 (NList 30 [NRawText 30 (b "x");
                            NCall 35 (b "a.c") false None
                              [NParamContent 41 (b "p") (NList 52 [NRawText 52 (b "y")])]]) 0 false;
     t_ns_name := b "a"; t_ns_autoescape := 0; t_params := []; t_file := b "e.soy" |}.
Definition ex_callee : template :=
  {| t_name := b "a.c";
     t_node := NTemplate 27 (b "a.c") (NList 33 [NPrint 35 (NDataRef 35 (b "m") []) []]) 0 false;
     t_ns_name := b "a"; t_ns_autoescape := 0; t_params := [(b "m", true); (b "p", true)]; t_file := b "c.soy" |}.
Definition ex_cfg : cfg :=
  {| c_reg := {| r_templates := [ex_entry; ex_callee];
                 r_sources := [(b "a.e", ex_src_e); (b "a.c", ex_src_c)];
                 r_files := [(b "a.e", b "e.soy"); (b "a.c", b "c.soy")] |};
     c_ij := None; c_oblig := []; c_msgs := None |}.
Definition ex_res := render ex_cfg 50 (b "a.e") 2 [] None None 100.

Example C19_render_nonvacuous :
  find_template (r_templates (c_reg ex_cfg)) (b "a.e") = Some ex_entry
  /\ assoc_s (b "a.e") (r_sources (c_reg ex_cfg)) = Some ex_src_e
  /\ assoc_s (b "a.e") (r_files (c_reg ex_cfg)) = Some (b "e.soy")
  /\ positions_in_source ex_src_e (t_node ex_entry)
  /\ rr_outcome ex_res = Err e_undefined
  /\ rr_file ex_res = b "e.soy" /\ rr_line ex_res = 4 /\ lines ex_src_e = 10
  /\ line_at ex_src_e 35 = 4 /\ line_at ex_src_e 52 = 7 /\ line_at ex_src_c 35 = 7.
Proof.
  split; [reflexivity|]. split; [reflexivity|]. split; [reflexivity|].
  split; [apply positions_in_sourceb_ok; vm_compute; reflexivity|].
  vm_compute. repeat split; reflexivity.
Qed.

(* several files may declare the same namespace: what Registry.Add records (source, file) is keyed by the
   TEMPLATE name.  Here z.soy, added after e.soy, declares namespace "a" too (template a.z, a much shorter
   text): the error of a.e still carries e.soy and line 4 of e.soy's text -- a registry that looked the
   file up by namespace would answer z.soy and line 3 (position 35 counted in z.soy's text), and for a
   position further down (52, inside the content block) the slice of z.soy's 40 bytes would panic. *)
Definition ex_src_z := Eval vm_compute in b "{namespace a}
{template .z}
{/template}
".
Definition ex_sibling : template :=
  {| t_name := b "a.z"; t_node := NTemplate 23 (b "a.z") (NList 27 []) 0 false;
     t_ns_name := b "a"; t_ns_autoescape := 0; t_params := []; t_file := b "z.soy" |}.
Definition ex_cfg_ns : cfg :=
  {| c_reg := {| r_templates := [ex_entry; ex_callee; ex_sibling];
                 r_sources := [(b "a.e", ex_src_e); (b "a.c", ex_src_c); (b "a.z", ex_src_z)];
                 r_files := [(b "a.e", b "e.soy"); (b "a.c", b "c.soy"); (b "a.z", b "z.soy")] |};
     c_ij := None; c_oblig := []; c_msgs := None |}.
Example C19_render_shared_namespace_nonvacuous :
  let r := render ex_cfg_ns 50 (b "a.e") 2 [] None None 100 in
  t_ns_name ex_entry = t_ns_name ex_sibling /\ t_file ex_entry <> t_file ex_sibling
  /\ rr_outcome r = Err e_undefined /\ rr_file r = b "e.soy" /\ rr_line r = 4
  /\ line_number ex_src_z 35 = Some 3 /\ line_number ex_src_z 52 = None.
Proof.
  cbv zeta. split; [reflexivity|]. split; [vm_compute; discriminate|].
  vm_compute. repeat split; reflexivity.
Qed.

(* at depth 0: the same entry template with a failing print on line 3 instead of the text *)
Definition ex_entry0 : template :=
  {| t_name := b "a.e";
     t_node := NTemplate 23 (b "a.e")
                 (NList 30 [NPrint 30 (NBin OLt 30 (NInt 29 1) (NString 30 (b "'a'") (b "a"))) []]) 0 false;
     t_ns_name := b "a"; t_ns_autoescape := 0; t_params := []; t_file := b "e.soy" |}.
Definition ex_cfg0 : cfg :=
  {| c_reg := {| r_templates := [ex_entry0]; r_sources := [(b "a.e", ex_src_e)]; r_files := [(b "a.e", b "e.soy")] |};
     c_ij := None; c_oblig := []; c_msgs := None |}.
Example C19_render_depth0_nonvacuous :
  let r := render ex_cfg0 50 (b "a.e") 2 [] None None 100 in
  rr_outcome r = Err e_notnumber /\ rr_file r = b "e.soy" /\ rr_line r = 4.
Proof. vm_compute. repeat split; reflexivity. Qed.

(* ================================================================== *)
(* PARSE HALF.  Models: Model/Lexer.v (scanner), Model/Token.v (tree.next/backup/peek, the token
   errorf takes its position from), Model/ExprParser.v + Model/Parser.v (expression and command-level
   parser; [PErr at_ class st] records the token whose position is reported), Spec/ErrText.v (the text
   errorAt builds), after the repairs bb87cc7 and 228b3d2.

   The statement of DESIGN section 4 is

     parse_error_position : parse name s = Err e ->
         e.file = name /\ 1 <= e.line <= lines s /\ e.line = line_at s e.pos
         /\ e.pos = pos (offending item) /\ text_mentions e

   and is proved here in three theorems over the models:
   - C19_parse_error_position (scanner model composed with parser model, every input, every error
     site): the reported token is the item the parser received last or the one just before it -- an
     item the scanner sent for s: inside s, line between 1 and lines s; when it is an error item it is
     the scanner's LAST item and stands at the cursor where scanning stopped, which for an
     unterminated soydoc / block comment / string / tag is the end of the input; or (quoted attribute
     expression) the last / last-but-one item of that expression's own scanner, placed in the file at
     base + offset (C19_quoted_error_position).
   - C19_error_sites_enumerated: the errorf / unexpected / expect / error call sites of parse.go,
     re-read from the source on every run, are exactly the reviewed ones (a new site breaks this).
   - C19_error_text_shows_position: the error carries the given file name, and its text starts with
     "template <file>:<line>:<col>: " for the very line and column it carries (file names without %).
   - C19_scan_prefix_determinism(_per_state) / C19_valid_scan_transfers(_per_state): prefix determinism
     of the scanner -- two inputs with a common prefix pass through the same configurations as long as
     every step ends [margin st] bytes before the end of the common prefix, st the state function that
     ran (all fifteen): 4 for the tag delimiters and lexBeginTag, 8 for text, the inside of a tag,
     strings, comments, identifiers and numbers, 12 for css and literal blocks, 16 for soydoc, 24 for a
     header @param (the uniform margin of 24 bytes is kept as a corollary).
   - C19_parse_error_position_all: the composed statement for EVERY byte string, without hypotheses on
     the item list (floats_ok) or the nested scanner (lexq_wf): the scanner model is its own nested
     scanner (wt-parser's soy_file_total_all / nested_scanner_at_base).
   Still partial -- C19_fault_line_partial: the exact-line statements for an injected stray brace /
   illegal character are derived from the scan of the VALID file under the per-state margins; the
   end-of-input classes (unterminated soydoc / comment / string / tag) are on the last line; see the
   comment there for what is missing. *)
From Soy Require Import Model.Utf8 Model.Token Model.Lexer Model.RawText Model.ExprParser Model.Parser
  Proofs.ErrTokProofs Proofs.ParseErrBound Proofs.LexErrPos Proofs.LexEofPos Proofs.ParseEndToEnd
  Spec.ErrText Proofs.LexTokens Proofs.LexFinalPos Proofs.ErrPosWindow Proofs.ErrPosWindowCmd Proofs.ErrPosFinal
  Proofs.ErrPosReach Proofs.ErrPosSites Proofs.ErrPosText Proofs.LexPrefixStates Proofs.LexPrefixMain Proofs.ErrPosPrefix Proofs.ErrPosCompose.
Open Scope N_scope.

(* every error of the model of parse.SoyFile, on the items of the scanner model, for every input *)
Theorem C19_parse_error_position :
  forall ul ud, ul (-1)%Z = false -> ud (-1)%Z = false ->
  forall fuel s ts lexq unq t c st,
    lex_items ul ud fuel false s = Ok ts ->
    let out := soy_file (N.of_nat (length s)) lexq unq ts in
    po_result out = PErr t c st ->
    (werr ts t st /\ item_facts ul ud s ts t)
    \/ quoted_window (N.of_nat (length s)) lexq t c (po_scans out).
Proof. exact parse_error_position. Qed.
Print Assumptions C19_parse_error_position.

(* the window alone, for ANY item list (not only a scanner's): the item received last, or the one before *)
Theorem C19_parse_error_window :
  forall inlen lexq unq ts t c st,
    po_result (soy_file inlen lexq unq ts) = PErr t c st ->
    (t = itm ts (p_recv st) \/ t = itm ts (p_recv st - 1)%nat)
    \/ quoted_window inlen lexq t c (po_scans (soy_file inlen lexq unq ts)).
Proof. exact soy_file_error_window. Qed.
Print Assumptions C19_parse_error_window.

(* the expression parser alone (parse.Expr and every parseExpr the command parser starts) *)
Theorem C19_expr_error_window :
  forall ts fuel prec p, W ts p ->
    match parse_expr fuel prec p with
    | PErr t _ p' => t = itm ts (p_recv p') \/ t = itm ts (p_recv p' - 1)%nat
    | POk _ p' => W ts p'
    | _ => True
    end.
Proof. intros ts fuel prec p H. pose proof (xp_parse_expr ts fuel prec p H) as X. destruct (parse_expr fuel prec p); exact X. Qed.
Print Assumptions C19_expr_error_window.

(* a fault inside a quoted attribute expression (lexExprAt, base > 0): the reported item is an item of
   the expression's own scanner placed at base + its offset in the expression, inside the file (or,
   without enclosing text, inside the expression: base = 0), and the line computed is inside the text *)
Theorem C19_quoted_error_position :
  forall inlen lexq t c scans, quoted_window inlen lexq t c scans ->
    exists str base,
      (t = zero_tok \/ exists it, In it (lexq str) /\ t = shift_tok base it /\ t_pos t = base + t_pos it) /\
      (t_pos t <= inlen \/ (base = 0 /\ t_pos t <= N.of_nat (length str))) /\
      forall src, 1 <= line_at src (t_pos t) <= lines src.
Proof. exact quoted_error_position. Qed.
Print Assumptions C19_quoted_error_position.

(* the scanner, every input, every mode and base: the last item stands at the cursor where the scan
   stopped, inside the input; an unterminated soydoc / comment / string / tag is reported at the end *)
Theorem C19_scan_final_item :
  forall ul ud, ul (-1)%Z = false -> ud (-1)%Z = false ->
  forall base, (0 <= base)%Z -> forall fuel expr_mode s l,
    lex_run_at ul ud base fuel expr_mode s = Ok l ->
    exists it rest, l_out l = it :: rest /\ t_pos it = Z.to_N (base + l_pos l) /\
      (0 <= l_pos l <= Z.of_nat (length s))%Z /\
      (t_typ it = itemError -> eof_class (t_val it) = true -> l_pos l = Z.of_nat (length s)).
Proof. exact scan_final_item. Qed.
Print Assumptions C19_scan_final_item.

(* the error sites of package parse, enumerated from today's source by tablegen (helpers inlined into the reviewed
   functions, which are cover_map's keys), are the reviewed ones *)
Theorem C19_error_sites_enumerated :
  uncovered_sites = [] /\ stale_sites = [] /\
  forallb (fun s : site => let '(f, _, _, _, _) := s in existsb (fun p => bstr_eqb f (fst p)) cover_map) parser_error_sites = true /\
  parser_error_site_roots = map fst cover_map.
Proof. exact (conj no_uncovered_site (conj no_stale_site (conj sites_have_model_procedures roots_are_cover_map))). Qed.
Print Assumptions C19_error_sites_enumerated.

(* file name and message text *)
Theorem C19_error_text_shows_position :
  forall fmt2 : bstr -> bstr,
    (forall lit rest, ~ In 37 lit -> fmt2 (lit ++ rest) = lit ++ fmt2 rest) ->
  forall name line col body, ~ In 37 name ->
    let e := error_at fmt2 name line col body in
    pe_file e = name /\ pe_line e = line /\ pe_col e = col /\
    pe_text e = Some (prefix_text (pe_file e) (pe_line e) (pe_col e) ++ fmt2 body) /\
    (forall text, pe_text e = Some text -> mentions text (pe_file e) (pe_line e) (pe_col e)).
Proof. exact error_text_shows_position. Qed.
Print Assumptions C19_error_text_shows_position.

(* prefix determinism of the scanner: one lemma per scanning loop and state function (Proofs/LexPrefix*.v) *)
Theorem C19_scan_prefix_determinism :
  forall ul ud pre r1 r2 base k st l st' l',
    psteps ul ud base (pre ++ r1) k st l = Ok (st', l') ->
    (forall j, (j <= k)%nat -> forall stj lj, psteps ul ud base (pre ++ r1) j st l = Ok (stj, lj) ->
       good pre stj lj) ->
    psteps ul ud base (pre ++ r2) k st l = Ok (st', l').
Proof. exact steps_det. Qed.
Print Assumptions C19_scan_prefix_determinism.

(* ... for the scan of a file from its beginning; start <= pos and liveness are discharged by the scanner invariant *)
Theorem C19_valid_scan_transfers :
  forall ul ud, ul (-1)%Z = false -> ud (-1)%Z = false ->
  forall pre r1 r2 k st l,
    steps ul ud (pre ++ r1) 0 k LText lex_init = Ok (st, l) -> st <> LDone ->
    (forall j stj lj, (j <= k)%nat -> steps ul ud (pre ++ r1) 0 j LText lex_init = Ok (stj, lj) ->
       before_margin pre lj) ->
    steps ul ud (pre ++ r2) 0 k LText lex_init = Ok (st, l).
Proof. exact valid_scan_transfers. Qed.
Print Assumptions C19_valid_scan_transfers.

(* the same with the look-ahead of each state function instead of the uniform 24 bytes: every step ends
   [margin st] bytes before the end of the common prefix, st the state function that ran *)
Theorem C19_state_margins :
  margin LText = 8%Z /\ margin LLeftDelim = 4%Z /\ margin LRightDelim = 4%Z /\ margin LRightDelimEnd = 4%Z /\
  margin LBeginTag = 4%Z /\ margin LInsideTag = 8%Z /\ margin LSoyDoc = 16%Z /\ margin LLineComment = 8%Z /\
  margin LBlockComment = 8%Z /\ (forall q, margin (LString q) = 8%Z) /\ margin LIdent = 8%Z /\
  margin LHeaderParam = 24%Z /\ margin LCss = 12%Z /\ margin LLiteral = 12%Z /\ margin LNumber = 8%Z /\
  forall st, (0 <= margin st <= M)%Z.
Proof. repeat split; try reflexivity; try (intros; reflexivity); apply margin_le_M. Qed.
Print Assumptions C19_state_margins.

Theorem C19_scan_prefix_determinism_per_state :
  forall ul ud pre r1 r2 base k st l st' l',
    psteps ul ud base (pre ++ r1) k st l = Ok (st', l') ->
    (forall j, (j <= k)%nat -> forall stj lj, psteps ul ud base (pre ++ r1) j st l = Ok (stj, lj) ->
       stj <> LDone /\ (l_start lj <= l_pos lj)%Z) ->
    (forall j, (j < k)%nat -> forall stj lj stn ln,
       psteps ul ud base (pre ++ r1) j st l = Ok (stj, lj) -> psteps ul ud base (pre ++ r1) (S j) st l = Ok (stn, ln) ->
       (l_pos ln + margin stj <= Z.of_nat (length pre))%Z) ->
    psteps ul ud base (pre ++ r2) k st l = Ok (st', l').
Proof. exact steps_det_m. Qed.
Print Assumptions C19_scan_prefix_determinism_per_state.

Theorem C19_valid_scan_transfers_per_state :
  forall ul ud, ul (-1)%Z = false -> ud (-1)%Z = false ->
  forall pre r1 r2 k st l,
    steps ul ud (pre ++ r1) 0 k LText lex_init = Ok (st, l) -> st <> LDone ->
    within_margins ul ud pre (pre ++ r1) k ->
    steps ul ud (pre ++ r2) 0 k LText lex_init = Ok (st, l).
Proof. exact valid_scan_transfers_m. Qed.
Print Assumptions C19_valid_scan_transfers_per_state.

(* PARTIAL.  Full statement (DESIGN: stray_brace_line, illegal_char_line "for every valid prefix"):
     for every VALID file v, every line L of it and every injection of a fault on L, the error of the
     faulted file is reported on line L (lexical faults, unknown command) or between L and the last line
     (unterminated constructs).
   Proved (1, 2), from the scan of the valid file: v = pre ++ r1 any file whose scan reaches, after k steps
   each of which ends [margin st] bytes before |pre| (within_margins: st the state function that ran; 4 after a
   tag delimiter, 8 after text / an identifier / a number / a string / a step inside the tag, ... instead of the
   uniform 24), the text state (the inside of a tag); f = pre ++ r2 any file with the same first |pre| bytes in
   which plain text and a closing brace (white space and an illegal character) follow that cursor: the items of
   f are the items the valid scan had sent followed by the error item just after the offending character, whose
   line is 1 + the line feeds before that character.  Proved (3, 4), without any margin: the same from every
   configuration the scan of f itself reaches.  Proved (5), the classes reported at the end of the input
   (unterminated soydoc / block comment / string / tag): whenever the scan of f = pre ++ r2 ends in an error item
   of these classes, the scan of f passes through every configuration the valid scan reaches within the margins,
   the error item is the last item, stands at |f|, and its line is the LAST line of f, not before the line of any
   position of f (of the place where the construct was opened).
   Missing for the full statement: (a) lexical faults closer to the configuration the valid scan reaches than
   the margin of the state function before it (4 to 8 bytes after an ordinary tag; the model's [next] decodes up
   to four bytes, so one rune of look-ahead costs 4); (b) that an unterminated construct does END the scan in an
   error item of its class: proved from the text of the fault for a block comment (C19_unterminated_comment_line
   below: ASCII without star-slash after the opening), for strings, tags and soydoc only per scanning loop
   (C19_string_error_at_end, C19_unclosed_tag_at_end, C19_scan_final_item) under the hypothesis that the loop ends
   the scan;
   (c) the parser-level classes (unknown command, end of input inside a template, fault inside a quoted
   attribute expression): C19_parse_error_position_all says WHICH item is reported (last or last-but-one
   received), C19_print_trailing_token_reported covers {foo $x}; their exact line is not derived from the valid
   prefix; (d) that the parser, handed the scanner's error item, reports it rather than an earlier item
   (C19_text_or_tag_error_item covers textOrTag, the site every injected lexical fault of the harness reaches). *)
Theorem C19_fault_line_partial :
  forall ul ud, ul (-1)%Z = false -> ud (-1)%Z = false ->
  (forall pre r1 r2 k l txt rest fuel,
     steps ul ud (pre ++ r1) 0 k LText lex_init = Ok (LText, l) ->
     within_margins ul ud pre (pre ++ r1) k ->
     drop (Z.to_nat (l_pos l)) (pre ++ r2) = txt ++ 125 :: rest -> Forall plain txt ->
     let f := pre ++ r2 in
     let e := err_item (l_pos l + Z.of_nat (length txt) + 1) e_close_brace in
     lex_items ul ud (k + S fuel) false f = Ok (rev (l_out l) ++ [e]) /\
     line_at f (t_pos e) = 1 + count_nl (take (Z.to_nat (l_pos l)) f ++ txt))
  /\
  (forall pre r1 r2 k l ws c rest fuel,
     steps ul ud (pre ++ r1) 0 k LText lex_init = Ok (LInsideTag, l) ->
     within_margins ul ud pre (pre ++ r1) k ->
     drop (Z.to_nat (l_pos l)) (pre ++ r2) = ws ++ c :: rest -> Forall space_byte ws -> c < 128 ->
     reaches_default (Z.of_N c) = true -> c <> 10 ->
     let f := pre ++ r2 in
     let e := err_item (l_pos l + Z.of_nat (length ws) + 1) e_bad_char in
     lex_items ul ud (k + (length ws + S fuel)) false f = Ok (rev (l_out l) ++ [e]) /\
     line_at f (t_pos e) = 1 + count_nl (take (Z.to_nat (l_pos l)) f ++ ws))
  /\
  (forall s k l txt rest fuel,
     steps ul ud s 0 k LText lex_init = Ok (LText, l) -> (0 <= l_pos l)%Z ->
     drop (Z.to_nat (l_pos l)) s = txt ++ 125 :: rest -> Forall plain txt ->
     let e := err_item (l_pos l + Z.of_nat (length txt) + 1) e_close_brace in
     lex_items ul ud (k + S fuel) false s = Ok (rev (l_out l) ++ [e]) /\
     line_at s (t_pos e) = 1 + count_nl (take (Z.to_nat (l_pos l)) s ++ txt))
  /\
  (forall s k l ws c rest fuel,
     steps ul ud s 0 k LText lex_init = Ok (LInsideTag, l) -> (0 <= l_pos l)%Z ->
     drop (Z.to_nat (l_pos l)) s = ws ++ c :: rest -> Forall space_byte ws -> c < 128 ->
     reaches_default (Z.of_N c) = true -> c <> 10 ->
     let e := err_item (l_pos l + Z.of_nat (length ws) + 1) e_bad_char in
     lex_items ul ud (k + (length ws + S fuel)) false s = Ok (rev (l_out l) ++ [e]) /\
     line_at s (t_pos e) = 1 + count_nl (take (Z.to_nat (l_pos l)) s ++ ws))
  /\
  (forall pre r1 r2 k st l fuel ts e,
     steps ul ud (pre ++ r1) 0 k LText lex_init = Ok (st, l) -> st <> LDone ->
     within_margins ul ud pre (pre ++ r1) k ->
     let f := pre ++ r2 in
     lex_items ul ud fuel false f = Ok (ts ++ [e]) -> t_typ e = itemError -> eof_class (t_val e) = true ->
     steps ul ud f 0 k LText lex_init = Ok (st, l) /\
     t_pos e = N.of_nat (length f) /\ line_at f (t_pos e) = lines f /\
     (forall opened, opened <= N.of_nat (length f) -> line_at f opened <= line_at f (t_pos e))).
Proof.
  intros ul ud Hl Hd. split; [|split; [|split; [|split]]].
  - intros. eapply (stray_brace_after_valid_prefix_m ul ud Hl Hd pre r1 r2); eassumption.
  - intros. eapply (illegal_char_after_valid_prefix_m ul ud Hl Hd pre r1 r2); eassumption.
  - intros. eapply stray_brace_reached; eassumption.
  - intros. eapply illegal_char_reached; eassumption.
  - intros. eapply (eof_fault_after_valid_prefix ul ud Hl Hd pre r1 r2); eassumption.
Qed.
Print Assumptions C19_fault_line_partial.

(* an unterminated block comment, from the TEXT of the fault (item (b) of the list above, for this class): from
   whatever configuration in the block-comment state the scan of the faulted file s itself reaches -- the cursor
   stands after the opening slash-star, at any offset, no margin -- if only ASCII without a closing star-slash
   follows, the items of s are the items sent so far and the error item `unclosed comment` at the end of the input;
   its line is the last line of s, not before the line of any position of s *)
From Soy Require Import Proofs.ErrPosUnterminated.
Open Scope N_scope.
Theorem C19_unterminated_comment_line :
  forall ul ud s k l body fuel,
    steps ul ud s 0 k LText lex_init = Ok (LBlockComment, l) -> (0 <= l_pos l <= Z.of_nat (length s))%Z ->
    drop (Z.to_nat (l_pos l)) s = body -> Forall c19_ascii body -> c19_no_close false body ->
    let e := err_item (Z.of_nat (length s)) e_comment_eof in
    lex_items ul ud (k + S fuel) false s = Ok (rev (l_out l) ++ [e]) /\
    t_pos e = N.of_nat (length s) /\ line_at s (t_pos e) = lines s /\
    (forall opened, (opened <= N.of_nat (length s))%N -> (line_at s opened <= line_at s (t_pos e))%N).
Proof. exact c19_unterminated_comment_reached. Qed.
Print Assumptions C19_unterminated_comment_line.

Definition ex_open_comment : bstr := Eval vm_compute in b "a /* b
c
".
Example C19_unterminated_comment_nonvacuous :
  let nl := fun _ : Z => false in
  exists l, steps nl nl ex_open_comment 0 1 LText lex_init = Ok (LBlockComment, l) /\ l_pos l = 4%Z /\
    Forall c19_ascii (drop 4 ex_open_comment) /\ c19_no_close false (drop 4 ex_open_comment) /\
    lex_items nl nl 5 false ex_open_comment = Ok (rev (l_out l) ++ [err_item 9 e_comment_eof]) /\
    line_at ex_open_comment 9%N = 3%N /\ lines ex_open_comment = 3%N.
Proof.
  cbv zeta. eexists. split; [vm_compute; reflexivity|]. split; [reflexivity|].
  split; [vm_compute; repeat constructor|]. split; [vm_compute; intuition discriminate|].
  vm_compute. repeat split; reflexivity.
Qed.

(* the earlier, weaker form (kept: it holds of the parser model for ANY expression parser, scanner of
   quoted expressions and strconv.Unquote handed to it) *)
Theorem C19_parse_error_inside :
  forall inlen lexq unq pexpr efuel fuel ts t c st,
    po_result (parse_file inlen lexq unq pexpr efuel fuel ts) = PErr t c st ->
    tok_inside inlen t c /\ forall src, 1 <= line_at src (t_pos t) <= lines src.
Proof.
  intros. split; [eapply parse_file_error_inside; eauto | intros; apply line_at_inside].
Qed.
Print Assumptions C19_parse_error_inside.

(* totality on bytes (wt-parser's Proofs/LexParseBridge.v soy_file_total_all, Proofs/LexShift.v nested_scanner_at_base;
   composed in Proofs/ErrPosCompose.v): for EVERY byte string -- no hypothesis on the item list (floats_ok) or on the
   nested scanner (lexq_wf): the scanner model is its own nested scanner -- the scan returns items and the model of
   parse.SoyFile on them returns a tree or a positioned error, never the slice panic of lineNumber, never out of fuel;
   the error's token is the last or last-but-one item received from the file's scanner (with everything known of a
   scanned item), or from the scan that the scanner model started at base (lexExprAt) makes of a quoted expression *)
From Soy Require Import Proofs.ParserProofs Proofs.LexParseBridge Model.ParseBytes.
Open Scope N_scope.
Theorem C19_parse_error_position_all :
  forall ul ud, ul (-1)%Z = false -> ud (-1)%Z = false ->
  forall unq s,
    exists ts, lex_items ul ud (lex_budget s) false s = Ok ts /\
      let out := soy_file (N.of_nat (length s)) (lexq_model ul ud) unq ts in
      match po_result out with
      | POk _ _ => True
      | PErr t c st =>
          (is_prefix e_quoted c = false -> t_pos t <= N.of_nat (length s)) /\
          1 <= line_at s (t_pos t) <= lines s /\
          ((werr ts t st /\ item_facts ul ud s ts t) \/ c19_quoted_at ul ud (N.of_nat (length s)) t c (po_scans out))
      | PCrash _ | PFuel => False
      end.
Proof. exact c19_parse_error_position_all. Qed.
Print Assumptions C19_parse_error_position_all.

Theorem C19_parse_never_crashes :
  forall ul ud, ul (-1)%Z = false -> ud (-1)%Z = false ->
  forall unq s,
    exists ts, lex_items ul ud (lex_budget s) false s = Ok ts /\
      match po_result (soy_file (N.of_nat (length s)) (lexq_model ul ud) unq ts) with
      | POk _ _ => True
      | PErr t c _ => (is_prefix e_quoted c = false -> t_pos t <= N.of_nat (length s)) /\ 1 <= line_at s (t_pos t) <= lines s
      | PCrash _ | PFuel => False
      end.
Proof.
  intros ul ud Hl Hd unq s. destruct (c19_parse_error_position_all ul ud Hl Hd unq s) as (ts & Hlex & H).
  exists ts. split; [exact Hlex|]. cbv zeta in H.
  destruct (po_result (soy_file (N.of_nat (length s)) (lexq_model ul ud) unq ts)); try exact H.
  destruct H as (H1 & H2 & _). split; assumption.
Qed.
Print Assumptions C19_parse_never_crashes.

Theorem C19_line_at_monotone : forall src p q, p <= q -> line_at src p <= line_at src q.
Proof. exact line_at_monotone. Qed.
Print Assumptions C19_line_at_monotone.

(* `unexpected` reports at the token it is handed (repair bb87cc7) ... *)
Theorem C19_unexpected_reports_its_token :
  forall inlen A token ctx s r, @c_unexp inlen A token ctx s = r ->
    (t_pos token <= inlen -> exists cls, r = CErr token cls s) /\ (inlen < t_pos token -> r = CCrash e_pslice).
Proof. exact unexpected_reports_its_token. Qed.
Print Assumptions C19_unexpected_reports_its_token.

(* ... so that the P5 site -- textOrTag handed the scanner's error item -- reports that item ... *)
Theorem C19_text_or_tag_error_item :
  forall inlen lexq unq pexpr efuel pe w lf e until s,
    t_typ e = pit_Error -> one_of pit_Error until = false -> (p_peek (c_p s) <= 2)%nat -> t_pos e <= inlen ->
    exists s', text_or_tag inlen lexq unq pexpr efuel pe w (S lf) e until s = CErr e e_lexical s'.
Proof. exact text_or_tag_error_item. Qed.
Print Assumptions C19_text_or_tag_error_item.

(* ... whereas errorf's "current token" after textOrTag's look-ahead past the last item is the zero
   item of the closed channel: line 1, column 0 (ledger P5, the pinned behaviour) *)
Theorem C19_P5_lookahead_past_the_end :
  forall e,
    let s := pst_init [e] in
    let '(t1, s1) := p_next s in
    let '(t2, s2) := p_next s1 in
    t1 = e /\ err_tok (p_backup s2) = zero_tok /\
    forall src, line_at src (t_pos zero_tok) = 1 /\ col_at src (t_pos zero_tok) = 0.
Proof. exact P5_lookahead_past_the_end. Qed.
Print Assumptions C19_P5_lookahead_past_the_end.

(* the scanner, for every configuration in the text state / inside a tag; base is l.base: 0 for lex and
   lexExpr, the offset of the quoted expression in the enclosing file for lexExprAt (/repo 228b3d2) *)
Theorem C19_stray_brace :
  forall ul ud inp base, (0 <= base)%Z -> forall fuel l txt rest,
    Forall plain txt -> (0 <= l_pos l)%Z ->
    drop (Z.to_nat (l_pos l)) inp = txt ++ 125 :: rest ->
    exists l', run ul ud inp (Z.of_nat (length inp)) base (S fuel) LText l = Ok l' /\
               l_out l' = err_item (base + l_pos l + Z.of_nat (length txt) + 1) e_close_brace :: l_out l.
Proof. exact stray_brace. Qed.
Print Assumptions C19_stray_brace.

Theorem C19_illegal_char :
  forall ul ud inp base, (0 <= base)%Z -> forall ws fuel l c rest,
    Forall space_byte ws -> (0 <= l_pos l)%Z ->
    drop (Z.to_nat (l_pos l)) inp = ws ++ c :: rest -> c < 128 -> reaches_default (Z.of_N c) = true ->
    exists l', run ul ud inp (Z.of_nat (length inp)) base (length ws + S fuel) LInsideTag l = Ok l' /\
               l_out l' = err_item (base + l_pos l + Z.of_nat (length ws) + 1) e_bad_char :: l_out l.
Proof. exact illegal_char. Qed.
Print Assumptions C19_illegal_char.

Theorem C19_stray_brace_line :
  forall pre post, line_at (pre ++ 125 :: post) (N.of_nat (length pre) + 1) = 1 + count_nl pre.
Proof. exact stray_brace_line. Qed.
Print Assumptions C19_stray_brace_line.

Theorem C19_illegal_char_line :
  forall pre c post, c <> 10 -> line_at (pre ++ c :: post) (N.of_nat (length pre) + 1) = 1 + count_nl pre.
Proof. exact illegal_char_line. Qed.
Print Assumptions C19_illegal_char_line.

(* unterminated constructs: whenever the scan of a block comment / a string ends the whole scan, the
   last item sent is the error item at the END of the input, and a tag that meets the end of the
   input reports there too; that line is the last line and is not before the line of any earlier
   position (where the construct was opened) *)
Theorem C19_block_comment_error_at_end :
  forall inp base, (0 <= base)%Z -> forall fuel star l l',
    (0 <= l_pos l <= Z.of_nat (length inp))%Z ->
    block_comment_loop inp (Z.of_nat (length inp)) base fuel star l = Ok (LDone, l') ->
    l_out l' = err_item (base + Z.of_nat (length inp)) e_comment_eof :: l_out l.
Proof. exact block_comment_error_at_end. Qed.
Print Assumptions C19_block_comment_error_at_end.

Theorem C19_string_error_at_end :
  forall inp base, (0 <= base)%Z -> forall fuel q l l',
    (0 <= l_pos l <= Z.of_nat (length inp))%Z ->
    string_loop inp (Z.of_nat (length inp)) base fuel q l = Ok (LDone, l') ->
    l_out l' = err_item (base + Z.of_nat (length inp)) e_string_eof :: l_out l.
Proof. exact string_error_at_end. Qed.
Print Assumptions C19_string_error_at_end.

Theorem C19_unclosed_tag_at_end :
  forall inp base, (0 <= base)%Z -> forall l, (0 <= l_pos l)%Z -> (Z.of_nat (length inp) <= l_pos l)%Z ->
    exists l', lex_inside_tag inp (Z.of_nat (length inp)) base l = Ok (LDone, l') /\
               l_out l' = err_item (base + l_pos l) e_unclosed_tag :: l_out l.
Proof. exact unclosed_tag_at_end. Qed.
Print Assumptions C19_unclosed_tag_at_end.

Theorem C19_end_of_input_line :
  forall src opened, opened <= N.of_nat (length src) ->
    line_at src (N.of_nat (length src)) = lines src /\ line_at src opened <= line_at src (N.of_nat (length src)).
Proof. exact end_of_input_line. Qed.
Print Assumptions C19_end_of_input_line.

(* unknown command {foo $x}: the token after the expression that is neither `}` nor `|` is reported *)
Theorem C19_print_trailing_token_reported :
  forall inlen pe lf f pos e dirs s tok s1,
    c_next s = COk tok s1 -> tis tok pit_RightDelim = false -> tis tok pit_Pipe = false -> t_pos tok <= inlen ->
    exists cls, cmd_print_loop inlen pe lf (S f) pos e dirs s = CErr tok cls s1.
Proof. exact print_trailing_token_reported. Qed.
Print Assumptions C19_print_trailing_token_reported.

(* scanner model and parser model COMPOSED, for all inputs of one shape: plain ASCII text (any number
   of lines) followed by a stray } and anything whatsoever after it -- the model of parse.SoyFile
   returns the lexical error positioned at the scanner's error item, whose line is the brace's line *)
Theorem C19_stray_brace_end_to_end :
  forall ul ud lexq unq fuel txt rest,
    Forall plain txt ->
    let s := txt ++ 125 :: rest in
    let e := err_item (Z.of_nat (length txt) + 1) e_close_brace in
    lex_items ul ud (S fuel) false s = Ok [e] /\
    (exists st, po_result (soy_file (N.of_nat (length s)) lexq unq [e]) = PErr e e_lexical st) /\
    line_at s (t_pos e) = 1 + count_nl txt.
Proof. exact stray_brace_end_to_end. Qed.
Print Assumptions C19_stray_brace_end_to_end.

(* End to end, scanner model + parser model: a stray } on line 5, an illegal character in a tag on
   line 5, end of input inside a template -- the reported token's line is 5, 5 and 6 (not 1). *)
Definition ex_parse (s : bstr) : option (N * N * N) :=
  match lex_items_tbl false s with
  | Ok (ts, _) =>
      match po_result (soy_file (N.of_nat (length s)) (fun _ => []) (fun _ => None) ts) with
      | PErr t _ _ => Some (t_typ t, line_at s (t_pos t), col_at s (t_pos t))
      | _ => None
      end
  | _ => None
  end.
Definition ex_file (line5 : bstr) : bstr :=
  Eval vm_compute in b "{namespace a}

/** doc */
{template .t}
" ++ line5.
Example C19_parse_nonvacuous :
  ex_parse (ex_file (b "x } y
{/template}
")) = Some (pit_Error, 5, 4)
  /\ ex_parse (ex_file (b "{$a ^ 1}
{/template}
")) = Some (pit_Error, 5, 6)
  /\ ex_parse (ex_file (b "hello
")) = Some (pit_EOF, 6, 1)
  /\ ex_parse (ex_file (b "a /* abc
b
{/template}
")) = Some (pit_Error, 8, 1)
  /\ ex_parse (ex_file (b "{foo $x}
{/template}
")) = Some (pit_DollarIdent, 5, 8).
Proof. vm_compute. repeat split; reflexivity. Qed.

(* With the scanner invariant of Proofs/LexerProofs.v (wt-lex: lex_items_pos_le): every item the
   scanner sends lies inside the input, so `unexpected` about a scanner item never trips over
   lineNumber's slice: it returns the error positioned at that item, whose line is inside the file. *)
From Soy Require Import Proofs.LexerProofs.
Open Scope N_scope.
Theorem C19_unexpected_on_scanner_item :
  forall ul ud, ul (-1)%Z = false -> ud (-1)%Z = false ->
  forall fuel mode s ts, lex_items ul ud fuel mode s = Ok ts ->
  forall t, In t ts ->
    t_pos t <= N.of_nat (length s) /\ 1 <= line_at s (t_pos t) <= lines s /\
    forall A ctx st, exists cls, @c_unexp (N.of_nat (length s)) A t ctx st = CErr t cls st.
Proof.
  intros ul ud Hl Hd fuel mode s ts Hlex t Hin.
  pose proof (lex_items_pos_le ul ud Hl Hd fuel mode s ts Hlex) as Hall.
  rewrite Forall_forall in Hall. specialize (Hall t Hin).
  split; [exact Hall|]. split; [apply line_at_inside|].
  intros A ctx st. destruct (unexpected_reports_its_token (N.of_nat (length s)) A t ctx st _ eq_refl) as [H _].
  exact (H Hall).
Qed.
Print Assumptions C19_unexpected_on_scanner_item.
