(* C04 - placeholder until MiniJS.v exists *)
From Soy Require Import Model.Bytes.
